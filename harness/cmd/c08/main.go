// Command c08 ties the Gallina model of CalWire.v to the Go code.
//
// Stream (a) "client": the real caldav.Client.QueryCalendar / MultiGetCalendar
// run with a capturing HTTP client; the body they write is checked for strict
// well-formedness, tokenized with encoding/xml into a namespace-expanded tree
// and handed on, unchanged, to the real caldav.Handler with a recording
// backend.
//
// Stream (b) "server": documents written by the harness's own RFC 4791 writer
// (rfcdoc.go) with seeded lexical variation, attribute look-alike documents, and a
// malformed stream, each sent as a REPORT to the real caldav.Handler with a
// recording backend.
//
// Case lines (see oracle/c08/main.ml for the grammar):
//
//	(client <path> <request>) (obs <hf> <hp> <body-tree> <call>)
//	(server <path> (r <request>)|n <document bytes>) (obs <hf> <hp> <doc-tree> <call>)
package main

import (
	"flag"
	"fmt"
	"os"
	"runtime"
	"sync"

	"verifharness/hx"
)

type job struct {
	kind  byte // 'c' client, 's' server, 'C' client call sequence, 'S' server request sequence, 'X' shared-structure client sequence
	path  string
	req   request
	reqSx string // server: "(r ...)" or "n"
	doc   []byte
	pairs [][2]string
	paths []string    // 'C': the paths of the consecutive calls
	sreqs []serverReq // 'S'
	req2  request     // 'X'
}

func main() {
	out := flag.String("out", "", "output file")
	replay := flag.String("replay", "", "file of case lines to re-run (inputs are re-executed)")
	flag.Parse()
	sink := hx.NewSink(*out)
	defer sink.Close()

	if *replay != "" {
		for _, l := range hx.ReadLines(*replay) {
			in := hx.MustParse(l)[0]
			a := in.Args()
			pairsOf := func(rq hx.Sx) [][2]string {
				var pairs [][2]string
				if rq.IsList {
					r := parseRequest(rq.List[1])
					for _, p := range r.paths {
						pairs = append(pairs, [2]string{p, rfcEscape(p)})
					}
				}
				return pairs
			}
			switch in.Head() {
			case "client":
				// the earlier calls of the sequence (same value, same client) are made again
				var paths []string
				if len(a) > 2 {
					for _, p := range a[2].Args() {
						paths = append(paths, p.Str())
					}
				}
				paths = append(paths, a[0].Str())
				lines := execClientCalls(parseRequest(a[1]), paths)
				sink.Put(lines[len(lines)-1])
			case "server":
				var reqs []serverReq
				if len(a) > 3 {
					for _, p := range a[3].Args() {
						reqs = append(reqs, serverReq{path: p.List[0].Str(), reqSx: "n", doc: []byte(p.List[1].Str())})
					}
				}
				reqs = append(reqs, serverReq{a[0].Str(), a[1].String(), []byte(a[2].Str()), pairsOf(a[1])})
				lines := execServerSeq(reqs)
				sink.Put(lines[len(lines)-1])
			}
		}
		return
	}

	thorough := hx.Tier() == "thorough"
	jobs := make(chan job, 4096)
	var wg sync.WaitGroup
	workers := runtime.NumCPU()
	if workers > 8 {
		workers = 8 // the machine is shared with other checks
	}
	for w := 0; w < workers; w++ {
		wg.Add(1)
		go func() {
			defer wg.Done()
			for j := range jobs {
				switch j.kind {
				case 'c':
					sink.Put(execClient(j.path, j.req))
				case 'C':
					for _, l := range execClientCalls(j.req, j.paths) {
						sink.Put(l)
					}
				case 'X':
					for _, l := range execShared(j.req, j.req2, j.paths) {
						sink.Put(l)
					}
				case 'S':
					for _, l := range execServerSeq(j.sreqs) {
						sink.Put(l)
					}
				default:
					sink.Put(execServer(j.path, j.reqSx, j.doc, j.pairs))
				}
			}
		}()
	}

	rng := hx.NewRand(hx.Seed())
	serverDoc := func(path string, r request, plain bool) {
		root, pairs := rfcDocument(r)
		jobs <- job{kind: 's', path: path, reqSx: hx.L("r", requestSx(r)), doc: serialize(root, rng, plain), pairs: pairs}
	}

	seqPaths := []string{"/cal/work/1.ics", "/cal/work/2.ics", "/cal/home/b d.ics"}
	mkServerReq := func(path string, r request, plain bool) serverReq {
		root, pairs := rfcDocument(r)
		return serverReq{path, hx.L("r", requestSx(r)), serialize(root, rng, plain), pairs}
	}
	// the same, calendar-data written without comp (only documents are built on
	// this goroutine, so the switch is not shared with the workers)
	mkServerReqNC := func(path string, r request, plain bool) serverReq {
		omitComp = true
		defer func() { omitComp = false }()
		return mkServerReq(path, r, plain)
	}

	// ---- exhaustive: every filter tree with <= 3 nodes x all flag combinations,
	// through the client, and (its UTC form, when the grammar can carry it)
	// through the harness's RFC writer to the server
	i := 0
	childNames := []string{"A"}
	if thorough {
		childNames = exNames
	}
	filterTrees(3, childNames, func(c cfV) {
		i++
		cr := exCrs[i%len(exCrs)]
		path := reportPaths[i%len(reportPaths)]
		r := request{cr: cr, cf: c}
		jobs <- job{kind: 'c', path: path, req: r}
		u := utcRequest(r)
		if validRequest(u) && (thorough || i%3 == 0) {
			serverDoc(path, u, false)
		}
	})

	// ---- every component request shape of a small universe, both ways
	var crs []crV
	leaf := []crV{{name: "A"}, {name: "B", allprops: true}, {name: "A", allcomps: true}, {name: "B", allprops: true, allcomps: true},
		{name: "A", props: []string{"P"}}, {name: "B", props: []string{"P", "Q"}, allcomps: true}}
	for _, l := range leaf {
		crs = append(crs, l)
	}
	for _, top := range leaf {
		for _, k1 := range leaf {
			t := top
			t.comps = []crV{k1}
			crs = append(crs, t)
			for _, k2 := range leaf[:3] {
				t2 := top
				kk := k1
				kk.comps = []crV{k2}
				t2.comps = []crV{kk, k2}
				crs = append(crs, t2)
			}
		}
	}
	for n, c := range crs {
		for _, ex := range []*[2]inst{nil, {exStart, exEnd}, {zeroInst, exEnd}} {
			c.expand = ex
			for _, mg := range []bool{false, true} {
				r := request{multiget: mg, cr: c, cf: cfV{name: "VCALENDAR", start: zeroInst, end: zeroInst}, paths: nil}
				if mg {
					r.paths = []string{goodPaths[n%len(goodPaths)], goodPaths[(n+1)%len(goodPaths)]}
				}
				path := reportPaths[n%len(reportPaths)]
				jobs <- job{kind: 'c', path: path, req: r}
				if u := utcRequest(r); validRequest(u) {
					serverDoc(path, u, false)
				}
			}
		}
	}

	// ---- random: deep trees, awkward strings, zoned instants, href lists
	nRandom := 6000
	if thorough {
		nRandom = 80000
	}
	for n := 0; n < nRandom; n++ {
		valid := rng.Intn(8) != 0
		r := randRequest(rng, valid)
		path := rng.Pick(reportPaths)
		jobs <- job{kind: 'c', path: path, req: r}
		u := utcRequest(r)
		if !validRequest(u) {
			continue
		}
		// the same request several times, each with its own lexical form
		for k := 0; k < 2; k++ {
			serverDoc(path, u, false)
		}
		if n%6 == 0 {
			// the same value through three consecutive calls (multigets also without Paths)
			rs := r
			if r.multiget && rng.Bool() {
				rs.paths = nil
			}
			jobs <- job{kind: 'C', req: rs, paths: []string{rng.Pick(seqPaths), rng.Pick(reportPaths), rng.Pick(seqPaths)}}
			// one handler: this document, a damaged one, another request's document
			root, _ := rfcDocument(u)
			mutate(root, rng)
			u2 := utcRequest(randRequest(rng, true))
			reqs := []serverReq{mkServerReq(path, u, false), {path: path, reqSx: "n", doc: serialize(root, rng, true)}}
			if validRequest(u2) {
				reqs = append(reqs, mkServerReq(path, u2, false))
			}
			reqs = append(reqs, mkServerReq(path, u, true))
			jobs <- job{kind: 'S', sreqs: reqs}
		}
		if n%10 == 0 {
			// a declaration or foreign attribute spelled like an attribute of
			// the grammar (repaired defect eba20a7)
			for _, doc := range shadowDocs(u, rng) {
				var pairs [][2]string
				for _, p := range u.paths {
					pairs = append(pairs, [2]string{p, rfcEscape(p)})
				}
				jobs <- job{kind: 's', path: path, reqSx: hx.L("r", requestSx(u)), doc: doc, pairs: pairs}
			}
		}
		// the malformed stream: the document damaged once or twice
		for k := 0; k < 2; k++ {
			root, _ := rfcDocument(u)
			mutate(root, rng)
			if rng.Intn(4) == 0 {
				mutate(root, rng)
			}
			jobs <- job{kind: 's', path: path, reqSx: "n", doc: serialize(root, rng, true)}
		}
	}
	// ---- sequences: one request VALUE through consecutive client calls on
	// different paths; consecutive REPORTs through ONE handler value.  Every
	// call / request is compared with the model on its own inputs.
	rawReq := func(path, doc string) serverReq { return serverReq{path: path, reqSx: "n", doc: []byte(doc)} }
	seqCrs := []crV{exCrs[0], exCrs[1], exCrs[2], {name: "VCALENDAR"}, {name: "VCALENDAR", allprops: true, allcomps: true, expand: &[2]inst{exEnd, utcInst(exStart)}}}
	for n, cr := range seqCrs {
		// a multiget without Paths (the default href), with one and with several explicit paths, and a query
		jobs <- job{kind: 'C', req: request{multiget: true, cr: cr}, paths: seqPaths}
		jobs <- job{kind: 'C', req: request{multiget: true, cr: cr, paths: []string{goodPaths[n]}}, paths: seqPaths[:2]}
		jobs <- job{kind: 'C', req: request{multiget: true, cr: cr, paths: goodPaths[n : n+3]}, paths: seqPaths}
		jobs <- job{kind: 'C', req: request{cr: cr, cf: exhaustiveSample(n)}, paths: []string{"/cal/", "/u/cal/work/", "/cal/"}}
		// two values sharing their slices and pointers, used alternately
		jobs <- job{kind: 'X', req: request{cr: cr, cf: exhaustiveSample(n + 7)}, req2: request{cr: seqCrs[(n+1)%len(seqCrs)], cf: exhaustiveSample(n + 3)}, paths: []string{"/cal/", "/cal/a b/", "/cal/"}}
		jobs <- job{kind: 'X', req: request{multiget: true, cr: cr}, req2: request{multiget: true, cr: seqCrs[(n+2)%len(seqCrs)], paths: []string{"/cal/x.ics"}}, paths: seqPaths}
	}
	{
		// one handler, requests whose calendar-data differs in every way: stale
		// state of request k would show in request k+1
		const head = `<C:calendar-query xmlns:C="urn:ietf:params:xml:ns:caldav" xmlns:D="DAV:">`
		const filt = `<C:filter><C:comp-filter name="VCALENDAR"/></C:filter></C:calendar-query>`
		expandOnly := head + `<D:prop><C:calendar-data><C:expand start="20200101T000000Z" end="20200201T000000Z"/></C:calendar-data></D:prop>` + filt
		emptyData := head + `<D:prop><C:calendar-data/></D:prop>` + filt
		noData := head + `<D:prop><D:getetag/></D:prop>` + filt
		noProp := head + filt
		mgEmptyData := `<C:calendar-multiget xmlns:C="urn:ietf:params:xml:ns:caldav" xmlns:D="DAV:"><D:prop><C:calendar-data/></D:prop><D:href>/cal/a.ics</D:href></C:calendar-multiget>`
		mgExpandOnly := `<C:calendar-multiget xmlns:C="urn:ietf:params:xml:ns:caldav" xmlns:D="DAV:"><D:prop><C:calendar-data><C:expand start="20210101T000000Z" end="20210201T000000Z"/></C:calendar-data></D:prop><D:href>/cal/b.ics</D:href></C:calendar-multiget>`
		full := func(i int) request {
			return request{cr: utcCr(seqCrs[i%len(seqCrs)]), cf: cfV{name: "VCALENDAR", start: zeroInst, end: zeroInst}}
		}
		mg := func(i int) request {
			return request{multiget: true, cr: utcCr(seqCrs[i%len(seqCrs)]), paths: []string{"/cal/a.ics", "/cal/b.ics"}}
		}
		whole := func(ex *[2]inst, mgt bool) request {
			r := request{multiget: mgt, cr: crV{allprops: true, allcomps: true, expand: ex}, cf: cfV{name: "VCALENDAR", start: zeroInst, end: zeroInst}}
			if mgt {
				r.paths = []string{"/cal/a.ics"}
			}
			return r
		}
		ex1 := &[2]inst{exEnd, {exEnd.sec + 86400, 0}}
		// the whole object asked for without comp (with expand, then without): expand must not stick
		jobs <- job{kind: 'S', sreqs: []serverReq{mkServerReqNC("/cal/", whole(ex1, false), true), mkServerReqNC("/cal/", whole(nil, false), false),
			mkServerReq("/cal/", full(1), true), mkServerReqNC("/cal/work/", whole(nil, true), false), mkServerReq("/cal/", whole(nil, false), false)}}
		jobs <- job{kind: 'S', sreqs: []serverReq{mkServerReqNC("/cal/", whole(ex1, true), false), mkServerReqNC("/cal/", whole(nil, true), true),
			mkServerReqNC("/cal/", whole(ex1, false), false), mkServerReqNC("/cal/", whole(nil, false), true)}}
		for k := 0; k < 20; k++ {
			// always as a sequence (with expand first), so that a failing line names its history
			ex := &[2]inst{utcInst(randInst(rng)), utcInst(randInst(rng))}
			jobs <- job{kind: 'S', sreqs: []serverReq{mkServerReqNC(rng.Pick(reportPaths), whole(ex, k%3 == 0), false),
				mkServerReqNC(rng.Pick(reportPaths), whole(nil, k%2 == 0), false)}}
		}
		jobs <- job{kind: 'S', sreqs: []serverReq{rawReq("/cal/", expandOnly), rawReq("/cal/", emptyData), mkServerReq("/cal/", full(1), true), rawReq("/cal/", emptyData)}}
		jobs <- job{kind: 'S', sreqs: []serverReq{mkServerReq("/cal/", full(2), true), rawReq("/cal/", noData), rawReq("/cal/", emptyData), rawReq("/cal/", noProp)}}
		jobs <- job{kind: 'S', sreqs: []serverReq{rawReq("/cal/", mgExpandOnly), rawReq("/cal/", mgEmptyData), mkServerReq("/cal/", mg(2), true), rawReq("/cal/", emptyData)}}
		jobs <- job{kind: 'S', sreqs: []serverReq{mkServerReq("/cal/", mg(1), true), mkServerReq("/cal/work/", full(0), true), mkServerReq("/cal/", mg(3), true), mkServerReq("/cal/", full(4), true)}}
		jobs <- job{kind: 'S', sreqs: []serverReq{mkServerReq("/cal/", full(2), true), mkServerReq("/cal/", full(3), true), mkServerReq("/cal/", full(2), true)}}
	}

	// ---- around encoding/xml's nesting limit
	deepQ := func(cf cfV, cr crV, client bool) {
		r := request{cr: cr, cf: cf}
		if client {
			jobs <- job{kind: 'c', path: "/cal/", req: r}
		}
		root, pairs := rfcDocument(r)
		jobs <- job{kind: 's', path: "/cal/", reqSx: hx.L("r", requestSx(r)), doc: serialize(root, rng, true), pairs: pairs}
	}
	plainCr := crV{name: "VCALENDAR", allprops: true, allcomps: true}
	plainCf := cfV{name: "VCALENDAR", start: zeroInst, end: zeroInst}
	deepQ(deepCf(4999, false), plainCr, true)
	deepQ(deepCf(5000, false), plainCr, true)
	if thorough {
		for _, n := range []int{4990, 4998, 5001, 5002} {
			deepQ(deepCf(n, false), plainCr, n == 5001)
		}
		for _, n := range []int{4996, 4997, 4998, 4999} {
			deepQ(deepCf(n, true), plainCr, false)
		}
		for _, n := range []int{4999, 5000, 5001, 5002} {
			deepQ(plainCf, deepCr(n, false), n == 5000 || n == 5001)
			deepQ(plainCf, deepCr(n, true), false)
		}
		// a multiget with a deep component request
		for _, n := range []int{5000, 5001} {
			r := request{multiget: true, cr: deepCr(n, false), paths: []string{"/cal/a.ics"}}
			root, pairs := rfcDocument(r)
			jobs <- job{kind: 's', path: "/cal/", reqSx: hx.L("r", requestSx(r)), doc: serialize(root, rng, true), pairs: pairs}
		}
		for _, n := range []int{4990, 5005, 12000} {
			jobs <- job{kind: 's', path: "/cal/", reqSx: "n", doc: deepUnknown(n, false)}
			jobs <- job{kind: 's', path: "/cal/", reqSx: "n", doc: deepUnknown(n, true)}
		}
	}
	for _, d := range rawDocs {
		jobs <- job{kind: 's', path: "/cal/", reqSx: "n", doc: []byte(d)}
	}
	close(jobs)
	wg.Wait()
	fmt.Fprintf(os.Stderr, "c08: %d cases\n", sink.N)
}
