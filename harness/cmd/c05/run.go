package main

import (
	"bufio"
	"bytes"
	"context"
	"errors"
	"flag"
	"fmt"
	"io"
	"net/http"
	"net/http/httptest"
	"net/url"
	"os"
	"path/filepath"
	"strconv"
	"strings"
	"sync"
	"sync/atomic"
	"syscall"
	"testing/iotest"
	"time"
	_ "time/tzdata"

	webdav "github.com/emersion/go-webdav"

	"verifharness/davx"
	"verifharness/hx"
)

// ---------------------------------------------------------------- cases

// caseIn is one client call.  With seq != nil it is step idx of a sequence of calls
// made through ONE client, ONE handler and ONE backend value; every step is a case
// line of its own, judged by the model on its own inputs.
type caseIn struct {
	transport string // i.. (in-process, serialised; suffix = how the response body is delivered), d (request handed over as it is), t (socket), o (was run overlapping others)
	endpoint  string
	backend   hx.Sx
	op        hx.Sx
	seq       []hx.Sx
	idx       int
}

func (c caseIn) Sx() string {
	items := []string{"in", c.transport, hx.S(c.endpoint), c.backend.String(), c.op.String()}
	if c.seq != nil {
		s := []string{"seq", hx.I(int64(c.idx))}
		for _, o := range c.seq {
			s = append(s, o.String())
		}
		items = append(items, hx.L(s...))
	}
	return hx.L(items...)
}

func parseIn(x hx.Sx) caseIn {
	a := x.Args()
	c := caseIn{transport: a[0].Atom, endpoint: a[1].Str(), backend: a[2], op: a[3]}
	if len(a) > 4 {
		sa := a[4].Args()
		c.idx = int(sa[0].Int())
		c.seq = sa[1:]
	}
	return c
}

// ---------------------------------------------------------------- transports

var errCloseFails = errors.New("verif: closing the response body fails")

type failingCloser struct{ io.Reader }

func (failingCloser) Close() error { return errCloseFails }

// serve runs the handler under recover: a panic of the code under test is an
// observation, not the death of the harness.
func serve(h http.Handler, w http.ResponseWriter, r *http.Request, panicked *atomic.Bool) {
	defer func() {
		if p := recover(); p != nil {
			panicked.Store(true)
		}
	}()
	h.ServeHTTP(w, r)
}

// inproc: the client's request is written with net/http (Request.Write), read again
// as a server would (http.ReadRequest) and handed to the handler; the response is
// delivered in the form [mode] names.  direct (mode "d"): the request is handed over
// as the client built it (its body reader, its ContentLength).
type inproc struct {
	h        http.Handler
	mode     string
	panicked *atomic.Bool
}

func (t *inproc) Do(req *http.Request) (*http.Response, error) {
	var sreq *http.Request
	if strings.HasPrefix(t.mode, "d") {
		sreq = req.Clone(req.Context())
		sreq.RequestURI = req.URL.RequestURI()
		sreq.URL = &url.URL{Path: req.URL.Path, RawPath: req.URL.RawPath, RawQuery: req.URL.RawQuery}
		if sreq.Host == "" {
			sreq.Host = req.URL.Host
		}
		if sreq.Body == nil {
			sreq.Body = http.NoBody
		}
	} else {
		var buf bytes.Buffer
		if err := req.Write(&buf); err != nil {
			return nil, err
		}
		r, err := http.ReadRequest(bufio.NewReader(&buf))
		if err != nil {
			return nil, err
		}
		sreq = r.WithContext(req.Context())
	}
	rec := httptest.NewRecorder()
	serve(t.h, rec, sreq, t.panicked)
	if req.Body != nil {
		req.Body.Close()
	}
	if t.panicked.Load() {
		return nil, errors.New("verif: the handler panicked")
	}
	resp := rec.Result()
	resp.Request = req
	body, _ := io.ReadAll(resp.Body)
	var rd io.Reader = bytes.NewReader(body)
	resp.Body = io.NopCloser(rd)
	for _, m := range strings.TrimLeft(t.mode, "ido") {
		switch m {
		case '1': // one byte per Read
			resp.Body = io.NopCloser(iotest.OneByteReader(rd))
		case 'e': // the last data together with io.EOF
			resp.Body = io.NopCloser(iotest.DataErrReader(rd))
		case 'c': // reads succeed, Close fails
			resp.Body = failingCloser{rd}
		case 'u': // unknown length
			resp.ContentLength = -1
			resp.Header.Del("Content-Length")
		case 'L': // announced longer than it is
			resp.ContentLength = int64(len(body)) + 10
			resp.Header.Set("Content-Length", strconv.Itoa(len(body)+10))
		case 'S': // announced shorter than it is
			if len(body) > 0 {
				resp.ContentLength = int64(len(body)) - 1
				resp.Header.Set("Content-Length", strconv.Itoa(len(body)-1))
			}
		}
	}
	return resp, nil
}

// ---------------------------------------------------------------- running client calls

// runner makes client calls and checks that the arguments it passed are unchanged.
type runner struct {
	cl       *webdav.Client
	rec      *recFS
	local    bool
	rootDir  string
	copyOpts *webdav.CopyOptions // ONE value of each, passed to every Copy / Move of a session
	moveOpts *webdav.MoveOptions
	kept     []kept
}

// kept is a result of an earlier call, with how it read when it was returned.
type kept struct {
	was    string
	render func() string
}

func infoList(l []webdav.FileInfo) string {
	items := []string{"list"}
	for i := range l {
		items = append(items, fiSx(&l[i]))
	}
	return hx.L(items...)
}

// exec makes the call; tampered names an argument the callee modified ("" if none).
func (r *runner) exec(op hx.Sx) (out string, tampered string) {
	ctx := context.Background()
	a := op.Args()
	switch op.Head() {
	case "stat":
		fi, err := r.cl.Stat(ctx, a[0].Str())
		if err != nil {
			return outcomeErr(err), ""
		}
		out = hx.L("info", fiSx(fi))
		r.kept = append(r.kept, kept{out, func() string { return hx.L("info", fiSx(fi)) }})
	case "readdir":
		l, err := r.cl.ReadDir(ctx, a[0].Str(), a[1].Bool())
		if err != nil {
			return outcomeErr(err), ""
		}
		out = infoList(l)
		r.kept = append(r.kept, kept{out, func() string { return infoList(l) }})
	case "open":
		rc, err := r.cl.Open(ctx, a[0].Str())
		if err != nil {
			return outcomeErr(err), ""
		}
		b, rerr := io.ReadAll(rc)
		rc.Close()
		if rerr != nil {
			return "(err 0)", ""
		}
		out = hx.L("bytes", hx.S(string(b)))
		r.kept = append(r.kept, kept{out, func() string { return hx.L("bytes", hx.S(string(b))) }})
	case "create":
		wc, err := r.cl.Create(ctx, a[0].Str())
		if err != nil {
			return outcomeErr(err), ""
		}
		var werr error
		var given, copies [][]byte
		for _, ch := range a[1].List {
			b := chunkBytes(ch)
			given = append(given, b)
			copies = append(copies, append([]byte(nil), b...))
			if _, werr = wc.Write(b); werr != nil {
				break
			}
		}
		cerr := wc.Close()
		for i := range given {
			if !bytes.Equal(given[i], copies[i]) {
				tampered = "the bytes passed to Write"
			}
		}
		if cerr != nil {
			out = outcomeErr(cerr)
		} else if werr != nil {
			out = "(err 0)"
		} else {
			out = "(done)"
		}
	case "rm":
		out = doneOr(r.cl.RemoveAll(ctx, a[0].Str()))
	case "mkdir":
		out = doneOr(r.cl.Mkdir(ctx, a[0].Str()))
	case "copy":
		nr, no := a[2].Bool(), a[3].Bool()
		var o *webdav.CopyOptions
		if nr || no || len(r.kept)%2 == 0 { // otherwise nil: "options == nil" means the defaults
			r.copyOpts.NoRecursive, r.copyOpts.NoOverwrite = nr, no
			o = r.copyOpts
		}
		out = doneOr(r.cl.Copy(ctx, a[0].Str(), a[1].Str(), o))
		if o != nil && (o.NoRecursive != nr || o.NoOverwrite != no) {
			tampered = "the CopyOptions"
		}
		r.kept = append(r.kept, kept{"", func() string { return "" }})
	case "move":
		no := a[2].Bool()
		var o *webdav.MoveOptions
		if no || len(r.kept)%2 == 0 {
			r.moveOpts.NoOverwrite = no
			o = r.moveOpts
		}
		out = doneOr(r.cl.Move(ctx, a[0].Str(), a[1].Str(), o))
		if o != nil && o.NoOverwrite != no {
			tampered = "the MoveOptions"
		}
		r.kept = append(r.kept, kept{"", func() string { return "" }})
	default:
		panic("bad op")
	}
	return out, tampered
}

// staleResults: results of earlier calls that no longer read as they did.
func (r *runner) staleResults() bool {
	for _, k := range r.kept {
		if k.render() != k.was {
			return true
		}
	}
	return false
}

// line renders one case from what the recorder saw.
func (r *runner) line(c caseIn, epPath, treeSx, dmetaSx, out string, foreign bool) string {
	tb := newTables()
	if foreign {
		tb.addForeign(c.backend)
	}
	for i := range r.rec.infos {
		tb.addInfo(&r.rec.infos[i], r.local)
	}
	drv := hx.L("drv", hx.L("ep", hx.S(epPath)), hx.L(append([]string{"answers"}, r.rec.answers...)...), tb.Sx(),
		hx.L("tree", treeSx), dmetaSx)
	stored := "-"
	if r.local && c.op.Head() == "create" && out == "(done)" {
		if hp, err := webdav.VerifLocalPath(webdav.LocalFileSystem(r.rootDir), r.rec.lastCreate); err == nil {
			if b, err := os.ReadFile(hp); err == nil {
				stored = bytesSx(b, r.rec.pattern)
			} else {
				stored = hx.S("UNREADABLE: " + err.Error())
			}
		}
	}
	obs := hx.L("obs", hx.L(append([]string{"calls"}, r.rec.calls...)...), out, hx.L("stored", stored))
	return c.Sx() + " " + drv + " " + obs
}

func (r *recFS) reset(op hx.Sx) {
	r.mu.Lock()
	r.calls, r.answers, r.infos, r.lastCreate, r.pattern = nil, nil, nil, "", false
	if op.Head() == "create" {
		for _, ch := range op.Args()[1].List {
			if ch.IsList {
				r.pattern = true
			}
		}
	}
	r.mu.Unlock()
}

// ---------------------------------------------------------------- one session: one client, one handler, one backend

type session struct {
	runner
	c        caseIn
	dir      string
	localx   bool // a directory with entries the tree model does not describe: judged on the recorded answers only
	foreign  bool
	mem      *memFS
	epPath   string
	panicked atomic.Bool
	closers  []func()
}

func newSession(c caseIn, dir string) (*session, string) {
	s := &session{c: c, dir: dir}
	s.copyOpts, s.moveOpts = new(webdav.CopyOptions), new(webdav.MoveOptions)
	var inner webdav.FileSystem
	var handler http.Handler
	switch c.backend.Head() {
	case "mem":
		a := c.backend.Args()
		s.mem = &memFS{seek: a[0].Bool(), script: a[1:]}
		inner = s.mem
	case "local", "localx":
		os.RemoveAll(dir)
		tree := davx.ParseNode(c.backend.Args()[0])
		if err := davx.Materialize(dir, tree); err != nil {
			fmt.Fprintln(os.Stderr, "c05: materialize:", err)
			os.Exit(2)
		}
		s.rootDir = dir
		if c.backend.Head() == "local" {
			s.local = true
			if a := c.backend.Args(); len(a) > 1 {
				s.rootDir = dir + a[1].Str() // the same directory, spelled uncleanly
			}
		} else {
			s.localx = true
			for _, e := range c.backend.Args()[1:] {
				p := filepath.Join(dir, e.Args()[0].Str())
				var err error
				switch e.Head() {
				case "sym":
					err = os.Symlink(e.Args()[1].Str(), p)
				case "fifo":
					err = syscall.Mkfifo(p, 0644)
				}
				if err != nil {
					fmt.Fprintln(os.Stderr, "c05: special entry:", err)
					os.Exit(2)
				}
			}
		}
		inner = webdav.LocalFileSystem(s.rootDir)
	case "foreign":
		s.foreign = true
		handler = foreignHandler(c.backend)
	case "foreignraw":
		s.foreign = true
		handler = rawHandler(c.backend)
	default:
		panic("bad backend")
	}
	s.rec = &recFS{inner: inner}
	if handler == nil {
		handler = &webdav.Handler{FileSystem: s.rec}
	}
	var hc webdav.HTTPClient
	endpoint := c.endpoint
	if c.transport == "t" {
		srv := httptest.NewServer(handler)
		s.closers = append(s.closers, srv.Close)
		u, _ := url.Parse(endpoint)
		su, _ := url.Parse(srv.URL)
		u.Scheme, u.Host = su.Scheme, su.Host
		endpoint = u.String()
		hc = srv.Client()
	} else {
		hc = &inproc{h: handler, mode: c.transport, panicked: &s.panicked}
	}
	s.epPath = "?"
	if u, err := url.Parse(endpoint); err == nil {
		s.epPath = u.Path
	}
	cl, err := webdav.NewClient(hc, endpoint)
	if err != nil {
		return nil, c.Sx() + " (drv) (obs (calls) (err 0))"
	}
	s.cl = cl
	return s, ""
}

func (s *session) close() {
	for _, f := range s.closers {
		f()
	}
}

// step makes one call and renders its case line.
func (s *session) step(c caseIn) (line string) {
	defer func() {
		if p := recover(); p != nil {
			line = c.Sx() + " (drv) (obs (calls) (panic))"
		}
	}()
	s.rec.reset(c.op)
	treeSx, dmetaSx := "-", "(dmeta)"
	if s.local {
		treeSx = davx.Snapshot(s.dir).Sx()
		dmetaSx = dmetaOf(s.dir)
	}
	out, tampered := s.exec(c.op)
	if s.panicked.Load() {
		out = "(panic)"
	} else if tampered != "" {
		out = hx.L("tampered", hx.S(tampered))
	} else if s.mem != nil && !s.mem.verify() {
		out = hx.L("tampered", hx.S("the FileInfo values the backend returned"))
	}
	return s.line(c, s.epPath, treeSx, dmetaSx, out, s.foreign)
}

func runCase(c caseIn, dir string) (lines []string) {
	defer func() {
		if p := recover(); p != nil {
			lines = append(lines, c.Sx()+" (drv) (obs (calls) (panic))")
		}
	}()
	if c.transport == "o" { // replayed on its own
		c.transport = "i"
	}
	s, bad := newSession(c, dir)
	if s == nil {
		return []string{bad}
	}
	defer s.close()
	if c.seq == nil {
		return []string{s.step(c)}
	}
	for i, op := range c.seq {
		ci := c
		ci.op, ci.idx = op, i
		lines = append(lines, s.step(ci))
	}
	// results handed out earlier must still read as they did
	if s.staleResults() && len(lines) > 0 {
		ci := c
		ci.op, ci.idx = c.seq[len(c.seq)-1], len(c.seq)-1
		lines[len(lines)-1] = ci.Sx() + " (drv) (obs (calls) (tampered " + hx.S("a result returned by an earlier call") + "))"
	}
	return lines
}

// ---------------------------------------------------------------- overlapping calls

// routerFS hands every call to the backend of the case that owns the first path segment.
type routerFS struct{ subs map[string]*recFS }

func (r *routerFS) sub(name string) *recFS {
	seg := strings.TrimPrefix(name, "/")
	if i := strings.Index(seg, "/"); i >= 0 {
		seg = seg[:i]
	}
	return r.subs[seg]
}
func (r *routerFS) Open(ctx context.Context, name string) (io.ReadCloser, error) {
	if s := r.sub(name); s != nil {
		return s.Open(ctx, name)
	}
	return nil, errNotFound
}
func (r *routerFS) Stat(ctx context.Context, name string) (*webdav.FileInfo, error) {
	if s := r.sub(name); s != nil {
		return s.Stat(ctx, name)
	}
	return nil, errNotFound
}
func (r *routerFS) ReadDir(ctx context.Context, name string, rec bool) ([]webdav.FileInfo, error) {
	if s := r.sub(name); s != nil {
		return s.ReadDir(ctx, name, rec)
	}
	return nil, errNotFound
}
func (r *routerFS) Create(ctx context.Context, name string, body io.ReadCloser, o *webdav.CreateOptions) (*webdav.FileInfo, bool, error) {
	if s := r.sub(name); s != nil {
		return s.Create(ctx, name, body, o)
	}
	return nil, false, errNotFound
}
func (r *routerFS) RemoveAll(ctx context.Context, name string, o *webdav.RemoveAllOptions) error {
	if s := r.sub(name); s != nil {
		return s.RemoveAll(ctx, name, o)
	}
	return errNotFound
}
func (r *routerFS) Mkdir(ctx context.Context, name string) error {
	if s := r.sub(name); s != nil {
		return s.Mkdir(ctx, name)
	}
	return errNotFound
}
func (r *routerFS) Copy(ctx context.Context, name, dest string, o *webdav.CopyOptions) (bool, error) {
	if s := r.sub(name); s != nil {
		return s.Copy(ctx, name, dest, o)
	}
	return false, errNotFound
}
func (r *routerFS) Move(ctx context.Context, name, dest string, o *webdav.MoveOptions) (bool, error) {
	if s := r.sub(name); s != nil {
		return s.Move(ctx, name, dest, o)
	}
	return false, errNotFound
}

// runOverlap makes the calls of the batch at the same time through ONE client and ONE
// handler (every case has its own name space "k<i>/" below the common endpoint and its
// own synthetic backend behind a router).  Each call is judged by the model exactly as
// if it had run alone.
func runOverlap(batch []caseIn) []string {
	router := &routerFS{subs: map[string]*recFS{}}
	runners := make([]*runner, len(batch))
	mems := make([]*memFS, len(batch))
	var panicked atomic.Bool
	hc := &inproc{h: &webdav.Handler{FileSystem: router}, mode: "i", panicked: &panicked}
	cl, err := webdav.NewClient(hc, batch[0].endpoint)
	if err != nil {
		panic(err)
	}
	epPath := "/"
	if u, err := url.Parse(batch[0].endpoint); err == nil {
		epPath = u.Path
	}
	for i, c := range batch {
		a := c.backend.Args()
		mems[i] = &memFS{seek: a[0].Bool(), script: a[1:]}
		rec := &recFS{inner: mems[i]}
		rec.reset(c.op)
		router.subs[fmt.Sprintf("k%d", i)] = rec
		runners[i] = &runner{cl: cl, rec: rec, copyOpts: new(webdav.CopyOptions), moveOpts: new(webdav.MoveOptions)}
	}
	lines := make([]string, len(batch))
	var wg sync.WaitGroup
	start := make(chan struct{})
	for i := range batch {
		wg.Add(1)
		go func(i int) {
			defer wg.Done()
			defer func() {
				if p := recover(); p != nil {
					lines[i] = batch[i].Sx() + " (drv) (obs (calls) (panic))"
				}
			}()
			<-start
			out, tampered := runners[i].exec(batch[i].op)
			if tampered != "" {
				out = hx.L("tampered", hx.S(tampered))
			} else if !mems[i].verify() {
				out = hx.L("tampered", hx.S("the FileInfo values the backend returned"))
			}
			lines[i] = runners[i].line(batch[i], epPath, "-", "(dmeta)", out, false)
		}(i)
	}
	close(start)
	wg.Wait()
	if panicked.Load() {
		for i := range lines {
			lines[i] = batch[i].Sx() + " (drv) (obs (calls) (panic))"
		}
	}
	return lines
}

// ---------------------------------------------------------------- main

type job struct {
	c     caseIn
	batch []caseIn // an overlapping batch
}

func main() {
	out := flag.String("out", "", "output file")
	replay := flag.String("replay", "", "file of case lines to re-run (inputs are re-executed)")
	flag.Parse()
	sink := hx.NewSink(*out)
	defer sink.Close()

	// nothing here may depend on the zone of the process: run in one that is not UTC,
	// has a fractional offset and daylight saving time
	if loc, err := time.LoadLocation("America/St_Johns"); err == nil {
		time.Local = loc
	} else {
		time.Local = time.FixedZone("verif", -(3*3600 + 1800))
	}

	scratch := os.Getenv("VERIF_SCRATCH")
	if scratch == "" {
		scratch = filepath.Join("/dev/shm", fmt.Sprintf("verif.%d", os.Getpid()))
		defer os.RemoveAll(scratch)
	}
	base := filepath.Join(scratch, "c05")
	os.MkdirAll(base, 0755)
	defer os.RemoveAll(base)

	if *replay != "" {
		os.MkdirAll(filepath.Join(base, "replay"), 0755)
		seen := map[string]bool{}
		for _, l := range hx.ReadLines(*replay) {
			c := parseIn(hx.MustParse(l)[0])
			if c.seq != nil { // a step of a sequence: the whole sequence runs again, once
				key := caseIn{transport: c.transport, endpoint: c.endpoint, backend: c.backend, op: c.seq[0], seq: c.seq}.Sx()
				if seen[key] {
					continue
				}
				seen[key] = true
			}
			for _, line := range runCase(c, filepath.Join(base, "replay", "root")) {
				sink.Put(line)
			}
		}
		return
	}

	jobs := make(chan job, 256)
	var wg sync.WaitGroup
	workers := 6
	for w := 0; w < workers; w++ {
		wg.Add(1)
		go func(w int) {
			defer wg.Done()
			os.MkdirAll(filepath.Join(base, fmt.Sprintf("w%d", w)), 0755)
			dir := filepath.Join(base, fmt.Sprintf("w%d", w), "root")
			for j := range jobs {
				var lines []string
				if j.batch != nil {
					lines = runOverlap(j.batch)
				} else {
					lines = runCase(j.c, dir)
				}
				for _, l := range lines {
					sink.Put(l)
				}
				if _, err := os.Stat(filepath.Dir(dir)); err != nil {
					fmt.Fprintln(os.Stderr, "c05: the worker directory vanished after", pretty(j.c.Sx()))
					os.Exit(2)
				}
			}
		}(w)
	}
	func() {
		defer func() {
			if p := recover(); p != nil {
				fmt.Fprintln(os.Stderr, "c05: generator panicked:", p)
				os.Exit(2)
			}
		}()
		generate(jobs)
	}()
	close(jobs)
	wg.Wait()
	fmt.Fprintf(os.Stderr, "c05: %d cases\n", sink.N)
}
