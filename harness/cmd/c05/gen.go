package main

import (
	"net/url"
	"path"
	"strings"
	"time"

	webdav "github.com/emersion/go-webdav"

	"verifharness/davx"
	"verifharness/hx"
)

// Names a resource can have: every class of character the escaping layers treat
// specially (URL path escaping, XML text, Go-style quoting), Unicode in both
// normal forms, invalid UTF-8, control characters.
var hostile = []string{
	"a", "b c", "%41", "100%", "%", "%zz", "a%2Fb", "\u00e9", "e\u0301", "日本語", "x#y", "q?z", "x#y?z", "semi;colon", "plus+sign",
	"quo\"te", "apos'", "<&>", "&amp;", "]]>", "a:b", ".hidden", "..x", "dot.", "file.txt", "doc.html", "tab\there", "nl\nline",
	"cr\rx", "back\\slash", "star*", "~t", "[br]", "{c}", "sp  sp", " lead", "trail ", "\x7f", "\x01ctl", "\xff\xfe", "\xc3", "\u0085",
	" ", "�", "\U0001F600", "=@$,!", "`bq`", "^|", "-", "_",
}

// more values for metadata that only the synthetic backend can hold
var hostileTags = []string{"", "W/\"weak\"", "\"", "\\", "\\\"", "a\"b\\c", "'", "line\nbreak", "\x00nul", "é\xffü", "*", "1f3a-x", " "}
var hostileMimes = []string{"", "text/plain", "text/plain; charset=utf-8", "application/octet-stream", "a/b;x=\"<&>\"", "é/ü", " spaced ",
	"x\ty", "multi\nline", "bad\x01ctl", "bad\xffutf8", "&lt;", "\ufffe"}

var endpoints = []string{"http://h", "http://h/", "http://h/p", "http://h/p/", "http://h/p/q/", "http://h/p%20r/s"}

type instant struct{ sec, ns int64 }

var times = []instant{
	{-62135596800, 0}, // Go's zero time
	{0, 0}, {1, 0}, {-1, 0}, {-1, 999999999}, {1000000000, 999999999}, {1700000000, 123456789},
	{-62167219200, 0}, {253402300799, 0}, {253402300799, 999999999}, // the ends of the years 0..9999
	{253402300800, 0}, {-62167219201, 0}, // just outside
	{951782400, 0}, {4107542399, 1}, // leap day 2000, end of 2099 + 1ns
}

var zones = []int{0, 3600, -18000, 19800, 0, 49500, -34200}

// zones with daylight saving time, fractional offsets, a half-hour DST shift
var zonesNamed = []string{"America/New_York", "Europe/Dublin", "Australia/Lord_Howe", "Asia/Kathmandu", "Pacific/Chatham", "Local"}

func inNamedZone(t time.Time, name string) time.Time {
	if loc, err := time.LoadLocation(name); err == nil {
		return t.In(loc)
	}
	return t
}

var sizes = []int64{0, 1, 7, 4096, 1 << 31, 1<<53 + 1, 1<<62 - 1, -1, -(1 << 62), 1<<63 - 1, -(1 << 63)}

// endpoint path as the client will hold it (url.Parse(...).Path, "" -> "/")
func epPathOf(endpoint string) string {
	u, err := url.Parse(endpoint)
	if err != nil || u.Path == "" {
		return "/"
	}
	return u.Path
}

// target the client will address (used only to script the synthetic backend and to
// place trees; the model and the specification compute it on their own)
func targetOf(endpoint, name string) string {
	if strings.HasPrefix(name, "/") {
		return name
	}
	return path.Join(epPathOf(endpoint), name)
}

func fiL(fi webdav.FileInfo) string { return fiSx(&fi) }

func ans(kind string, args ...string) hx.Sx {
	return hx.MustParse(hx.L(append([]string{kind}, args...)...))[0]
}

func sx(s string) hx.Sx { return hx.MustParse(s)[0] }

var mutAnswers = []string{"(ok 1)", "(ok 0)", "(err http 403)", "(err http 404)", "(err http 409)", "(err http 412)", "(err http 507)", "(err exist)", "(err other)"}
var unitAnswers = []string{"(ok)", "(err http 403)", "(err http 404)", "(err http 405)", "(err http 409)", "(err exist)", "(err other)"}
var statErrs = []string{"(err http 404)", "(err http 403)", "(err http 400)", "(err http 500)", "(err http 503)", "(err exist)", "(err other)"}

func memBackend(seek bool, entries ...string) hx.Sx {
	return sx(hx.L(append([]string{"mem", hx.B(seek)}, entries...)...))
}

func opStat(n string) hx.Sx { return sx(hx.L("stat", hx.S(n))) }
func opReadDir(n string, rec bool) hx.Sx {
	return sx(hx.L("readdir", hx.S(n), hx.B(rec)))
}
func opOpen(n string) hx.Sx { return sx(hx.L("open", hx.S(n))) }
func opCreate(n string, chunks []string) hx.Sx {
	cs := []string{}
	for _, c := range chunks {
		cs = append(cs, hx.S(c))
	}
	return sx(hx.L("create", hx.S(n), hx.L(cs...)))
}

var schedTiny = []int{0, 1, 7}
var schedMedium = []int{511, 512, 513, 4095, 4096, 4097}
var schedLarge = []int{32767, 32768, 32769, 65536, 100000}
var schedSizes = append(append(append([]int{}, schedTiny...), schedMedium...), schedLarge...)

// opCreateSched: one Write per size; the k-th Write carries the pattern bytes at
// the offsets it should end up at, so the stored body must be patByte(0..total).
func opCreateSched(n string, sizes []int) hx.Sx {
	cs := []string{}
	off := 0
	for _, sz := range sizes {
		cs = append(cs, hx.L("p", hx.I(int64(off)), hx.I(int64(sz))))
		off += sz
	}
	return sx(hx.L("create", hx.S(n), hx.L(cs...)))
}

func opRm(n string) hx.Sx    { return sx(hx.L("rm", hx.S(n))) }
func opMkdir(n string) hx.Sx { return sx(hx.L("mkdir", hx.S(n))) }
func opCopy(n, d string, nr, no bool) hx.Sx {
	return sx(hx.L("copy", hx.S(n), hx.S(d), hx.B(nr), hx.B(no)))
}
func opMove(n, d string, no bool) hx.Sx { return sx(hx.L("move", hx.S(n), hx.S(d), hx.B(no))) }

// name forms for a resource at relative position rel below the endpoint
func nameForms(endpoint, rel string) []string {
	ep := epPathOf(endpoint)
	abs := path.Join(ep, rel)
	if rel == "" {
		return []string{"", ".", abs, abs + "/"}
	}
	return []string{rel, abs, "./" + rel, rel + "/", "x/../" + rel, abs + "/"}
}

// wrap puts the tree below the directories the endpoint path names.
func wrap(endpoint string, t *davx.Node) *davx.Node {
	segs := []string{}
	for _, s := range strings.Split(path.Clean(epPathOf(endpoint)), "/") {
		if s != "" {
			segs = append(segs, s)
		}
	}
	for i := len(segs) - 1; i >= 0; i-- {
		t = davx.Dir(segs[i], t, "beside", davx.File("canary"))
	}
	return t
}

func fileAt(content string, mtime int64) *davx.Node {
	return &davx.Node{Content: content, MTime: mtime}
}

func baseTree(n string) *davx.Node {
	return davx.Dir(
		n, fileAt("x", 1600000000123456789),
		"d", davx.Dir(n, fileAt("yy", 1500000000000000001), "sub", davx.Dir("f.txt", fileAt("z", 999999999)), "e", davx.Dir()),
		"z.html", fileAt("<p>", 1234567890000000000),
	)
}

func local(t *davx.Node) hx.Sx { return sx(hx.L("local", t.Sx())) }

var chunkSets = [][]string{nil, {"x"}, {"ab", "", "cd"}, {strings.Repeat("0123456789abcdef", 4500)}, {"\x00\xff", "é"}}

// how the response body reaches the client (see inproc.Do), and "d": the request is
// handed to the handler as the client built it
var trModes = []string{"i", "i1", "ie", "ic", "iu", "iL", "iS", "d", "i", "d1e"}

func generate(out chan<- job) {
	thorough := hx.Tier() == "thorough"
	nEmit := 0
	emit := func(tr, ep string, be, op hx.Sx) {
		nEmit++
		if tr == "i" { // in-process: rotate through the forms in which the response body is delivered
			tr = trModes[nEmit%len(trModes)]
		}
		out <- job{c: caseIn{transport: tr, endpoint: ep, backend: be, op: op}}
	}
	emitSeq := func(tr, ep string, be hx.Sx, ops []hx.Sx) {
		out <- job{c: caseIn{transport: tr, endpoint: ep, backend: be, op: ops[0], seq: ops}}
	}
	emitOverlap := func(batch []caseIn) { out <- job{c: batch[0], batch: batch} }

	// ---- part 1: every hostile name x every endpoint x every operation, on disk
	for ni, n := range hostile {
		for ei, ep := range endpoints {
			if !thorough && (ni+ei)%2 == 1 && ni > 8 {
				continue // quick: half of the (name, endpoint) grid beyond the first names
			}
			be := local(wrap(ep, baseTree(n)))
			tr := trModes[(ni*7+ei)%len(trModes)]
			for _, f := range nameForms(ep, n) {
				emit(tr, ep, be, opStat(f))
				emit(tr, ep, be, opOpen(f))
				emit(tr, ep, be, opReadDir(f, false))
			}
			for _, f := range nameForms(ep, "") {
				emit(tr, ep, be, opStat(f))
				emit(tr, ep, be, opReadDir(f, false))
				emit(tr, ep, be, opReadDir(f, true))
			}
			for _, f := range nameForms(ep, "d") {
				emit(tr, ep, be, opStat(f))
				emit(tr, ep, be, opReadDir(f, false))
				emit(tr, ep, be, opReadDir(f, true))
				emit(tr, ep, be, opOpen(f))
			}
			emit(tr, ep, be, opStat("d/"+n))
			emit(tr, ep, be, opOpen("d/"+n))
			emit(tr, ep, be, opStat("missing-"+n))
			emit(tr, ep, be, opOpen("missing/"+n))
			emit(tr, ep, be, opReadDir("missing-"+n, true))
			emit(tr, ep, be, opReadDir("/", true))
			emit(tr, ep, be, opReadDir("//", false))
			emit(tr, ep, be, opStat("/../"+n))
			emit(tr, ep, be, opStat("nul\x00"+n))
			for ci, ch := range chunkSets {
				if ci == 3 && ni != 0 && !(thorough && ni%8 == 0) {
					continue
				}
				emit(tr, ep, be, opCreate(n, ch))
				emit(tr, ep, be, opCreate("new-"+n, ch))
			}
			emit(tr, ep, be, opCreate("d", []string{"x"}))
			emit(tr, ep, be, opCreate("missing/"+n, []string{"x"}))
			emit(tr, ep, be, opMkdir("new-"+n))
			emit(tr, ep, be, opMkdir(n))
			emit(tr, ep, be, opMkdir("missing/"+n))
			emit(tr, ep, be, opMkdir(path.Join(epPathOf(ep), "d", "new-"+n)+"/"))
			emit(tr, ep, be, opRm(n))
			emit(tr, ep, be, opRm("d"))
			emit(tr, ep, be, opRm("missing-"+n))
			for _, nr := range []bool{false, true} {
				for _, no := range []bool{false, true} {
					emit(tr, ep, be, opCopy(n, "copy-"+n, nr, no))
					emit(tr, ep, be, opCopy(n, "z.html", nr, no))
					emit(tr, ep, be, opCopy("d", path.Join(epPathOf(ep), "d2-"+n), nr, no))
					emit(tr, ep, be, opCopy("d", "d/sub/x", nr, no))
					emit(tr, ep, be, opCopy("missing", "d/"+n, nr, no))
				}
			}
			for _, no := range []bool{false, true} {
				emit(tr, ep, be, opMove(n, "moved-"+n, no))
				emit(tr, ep, be, opMove(n, "d/"+n, no))
				emit(tr, ep, be, opMove("d", path.Join(epPathOf(ep), "d2-"+n), no))
				emit(tr, ep, be, opMove(path.Join(epPathOf(ep), "d", "sub"), n, no))
			}
		}
	}

	// ---- part 2: the synthetic backend: every hostile value in every metadata field
	rng := hx.NewRand(hx.Seed())
	tags := append(append([]string{}, hostile...), hostileTags...)
	mimes := append(append([]string{}, hostile...), hostileMimes...)
	for ei, ep := range endpoints {
		for ni, n := range hostile {
			if !thorough && (ni+ei)%3 != 0 && ni > 8 {
				continue
			}
			for _, form := range []string{n, path.Join(epPathOf(ep), n)} {
				tgt := targetOf(ep, form)
				// a file with this name, every tag / type / time / size once
				k := 0
				for k < len(tags) || k < len(mimes) || k < len(times) || k < len(sizes) {
					fi := webdav.FileInfo{Path: tgt, Size: sizes[k%len(sizes)], ModTime: inZone(mkTime(times[k%len(times)].sec, times[k%len(times)].ns), zones[(k+ni)%len(zones)]),
						MIMEType: mimes[k%len(mimes)], ETag: tags[k%len(tags)]}
					if thorough || k <= 12 || (k+ni)%5 == 0 {
						emit("i", ep, memBackend(false, hx.L("stat", hx.S(tgt), hx.L("ok", fiL(fi)))), opStat(form))
					}
					k++
				}
				// a collection with members of every kind, listed both ways
				dir := webdav.FileInfo{Path: tgt, IsDir: true, Size: 4096, ModTime: mkTime(1700000000, 5), MIMEType: "httpd/unix-directory", ETag: "dirtag"}
				var kids []string
				kids = append(kids, fiL(dir))
				for j := 0; j < 4; j++ {
					kn := hostile[(ni+j*7)%len(hostile)]
					kid := webdav.FileInfo{Path: tgt + "/" + kn, Size: sizes[(ni+j)%len(sizes)], ModTime: mkTime(times[(ni+j)%len(times)].sec, times[(ni+j)%len(times)].ns),
						MIMEType: mimes[(ni*3+j)%len(mimes)], ETag: tags[(ni*5+j)%len(tags)], IsDir: j == 3}
					kids = append(kids, fiL(kid))
				}
				for _, rec := range []bool{false, true} {
					be := memBackend(false, hx.L("stat", hx.S(tgt), hx.L("ok", fiL(dir))),
						hx.L("readdir", hx.S(tgt), hx.B(rec), hx.L(append([]string{"ok"}, kids...)...)))
					emit("i", ep, be, opReadDir(form, rec))
				}
				// content
				for si, body := range []string{"", "x", "\x00\xff<&>", strings.Repeat("q", 70000)} {
					if si == 3 && ni != 0 && !(thorough && ni%6 == 0) {
						continue
					}
					fi := webdav.FileInfo{Path: tgt, Size: int64(len(body)), ModTime: mkTime(1, 0), MIMEType: mimes[ni%len(mimes)], ETag: n}
					for _, seek := range []bool{false, true} {
						be := memBackend(seek, hx.L("stat", hx.S(tgt), hx.L("ok", fiL(fi))), hx.L("open", hx.S(tgt), hx.L("ok", hx.S(body))))
						emit("i", ep, be, opOpen(form))
					}
				}
				// failures of the backend
				for _, e := range statErrs {
					be := memBackend(false, hx.L("stat", hx.S(tgt), e), hx.L("open", hx.S(tgt), e), hx.L("readdir", hx.S(tgt), "1", e))
					switch (ni + len(e)) % 3 {
					case 0:
						emit("i", ep, be, opStat(form))
					case 1:
						emit("i", ep, be, opOpen(form))
					default:
						emit("i", ep, be, opReadDir(form, true))
					}
				}
				// mutating calls: addressing and options, every answer
				for ai, a := range mutAnswers {
					be := memBackend(false, hx.L("create", a), hx.L("copy", a), hx.L("move", a))
					emit("i", ep, be, opCreate(form, chunkSets[(ni+ai)%3]))
					d := hostile[(ni+ai+1)%len(hostile)]
					if ai%2 == 0 {
						d = path.Join(epPathOf(ep), "sub", d)
					}
					emit("i", ep, be, opCopy(form, d, ai&1 == 1, ai&2 == 2))
					emit("i", ep, be, opMove(form, d, ai&1 == 0))
				}
				for _, a := range unitAnswers {
					be := memBackend(false, hx.L("rm", a), hx.L("mkdir", a))
					emit("i", ep, be, opRm(form))
					emit("i", ep, be, opMkdir(form))
				}
			}
		}
	}
	// all option combinations, once more, with plain names
	for _, ep := range endpoints {
		for _, a := range mutAnswers {
			be := memBackend(false, hx.L("copy", a), hx.L("move", a))
			for _, nr := range []bool{false, true} {
				for _, no := range []bool{false, true} {
					for _, src := range []string{"s", "/s", "a/../s", ""} {
						for _, dst := range []string{"t", "/t", "/p/t", "../t", "//t", "t/"} {
							emit("i", ep, be, opCopy(src, dst, nr, no))
							if !nr {
								emit("i", ep, be, opMove(src, dst, no))
							}
						}
					}
				}
			}
		}
	}

	// ---- part 3: over a real socket (httptest.Server): a slice of the above
	for ni, n := range hostile {
		if !thorough && ni%4 != 0 {
			continue
		}
		ep := endpoints[ni%len(endpoints)]
		be := local(wrap(ep, baseTree(n)))
		emit("t", ep, be, opStat(n))
		emit("t", ep, be, opReadDir("", true))
		emit("t", ep, be, opOpen(n))
		emit("t", ep, be, opCreate("new-"+n, []string{"ab", "cd"}))
		emit("t", ep, be, opMkdir("new-"+n))
		emit("t", ep, be, opRm(n))
		emit("t", ep, be, opCopy(n, "copy-"+n, false, true))
		emit("t", ep, be, opMove(n, "d/"+n, false))
	}

	// ---- part 3b: write schedules of Create: sequences of Write calls of mixed sizes
	// carrying a position-dependent pattern, so that bytes reordered, duplicated or
	// lost between Client.Create's writer and the backend show in the stored content
	si := 0
	sched := func(sizes ...int) {
		si++
		ep := endpoints[si%len(endpoints)]
		name := "sched-" + hostile[si%len(hostile)]
		op := opCreateSched(name, sizes)
		emit("i", ep, memBackend(false, "(create (ok 1))"), op)
		if thorough || si%3 == 0 {
			emit("i", ep, local(wrap(ep, davx.Dir("keep", fileAt("k", 1)))), op)
		}
		if (thorough && si%3 == 0) || si%7 == 0 {
			emit("t", ep, local(wrap(ep, davx.Dir("keep", fileAt("k", 1)))), op)
		}
	}
	big := func(v int) bool { return v > 32769 }
	for _, a := range schedSizes {
		sched(a)
		for _, b := range schedSizes {
			sched(a, b) // small-then-large, large-then-small, and equals
			if thorough || !(big(a) || big(b)) {
				sched(a, b, a) // alternating
			}
			if thorough {
				sched(b, a, a, b)
				if !(big(a) && big(b)) {
					sched(1, a, b, 7, b, a)
				}
			}
		}
	}
	for _, a := range schedLarge {
		if !thorough && a != 32768 && a != 65536 {
			continue
		}
		for _, b := range schedTiny {
			sched(b, a, b, a, b)
			sched(a, b, b, a)
		}
		for _, b := range schedMedium {
			sched(b, b, a, b) // several buffered writes, then a large one
			sched(a, b, a, b, a)
		}
	}
	nSched := 200
	if thorough {
		nSched = 600
	}
	for i := 0; i < nSched; i++ {
		n := 2 + rng.Intn(7)
		sizes := make([]int, n)
		total := 0
		for j := range sizes {
			var v int
			switch rng.Intn(4) {
			case 0:
				v = schedTiny[rng.Intn(len(schedTiny))]
			case 1:
				v = schedMedium[rng.Intn(len(schedMedium))]
			case 2:
				v = schedLarge[rng.Intn(len(schedLarge))]
				if !thorough && big(v) && rng.Chance(3, 4) {
					v = 32768
				}
			default:
				v = rng.Intn(9000)
			}
			if rng.Chance(1, 3) {
				v += rng.Intn(5) - 2
			}
			if v < 0 {
				v = 0
			}
			if total+v > 400000 {
				v = 0
			}
			total += v
			sizes[j] = v
		}
		sched(sizes...)
	}

	// ---- part 3c: answers of other servers: the client half beyond the range of this
	// library's server (scripted multistatus, no webdav.Handler)
	generateForeign(rng, thorough, emit)

	// ---- part 3d: what the generator audit asked for (histories, overlapping calls,
	// sizes, unclean configuration, special directory entries, error answers)
	generateAudit(rng, thorough, emit, emitSeq, emitOverlap)

	// ---- part 4: seeded random cases
	nRandom := 6000
	if thorough {
		nRandom = 60000
	}
	for i := 0; i < nRandom; i++ {
		emitRandom(rng, emit)
	}
}

const special = " %#?;+\"'<>&:\\/"

func randBytes(rng *hx.Rand, max int, local bool) string {
	n := 1 + rng.Intn(max)
	b := make([]byte, n)
	for i := range b {
		switch rng.Intn(6) {
		case 0:
			b[i] = byte(rng.Intn(256))
		case 1:
			b[i] = special[rng.Intn(len(special))]
		default:
			b[i] = byte('a' + rng.Intn(26))
		}
		if local && (b[i] == '/' || b[i] == 0) {
			b[i] = '_'
		}
	}
	s := string(b)
	if local && (s == "." || s == "..") {
		s = "dots"
	}
	return s
}

func randName(rng *hx.Rand, local bool) string {
	if rng.Chance(2, 3) {
		return rng.Pick(hostile)
	}
	return randBytes(rng, 12, local)
}

func randTree(rng *hx.Rand, depth int) *davx.Node {
	d := davx.Dir()
	n := rng.Intn(5)
	for i := 0; i < n; i++ {
		name := randName(rng, true)
		if depth > 0 && rng.Chance(1, 3) {
			d.Put(name, randTree(rng, depth-1))
		} else {
			d.Put(name, fileAt(randBytes(rng, 20, false), 1+int64(rng.U64()%4000000000000000000)))
		}
	}
	return d
}

// all relative paths of a tree (directories and files)
func allRel(t *davx.Node, prefix string, out *[]string) {
	*out = append(*out, prefix)
	if !t.IsDir {
		return
	}
	for _, k := range t.Names {
		p := k
		if prefix != "" {
			p = prefix + "/" + k
		}
		allRel(t.Kids[k], p, out)
	}
}

func randInfo(rng *hx.Rand, p string) webdav.FileInfo {
	tm := times[rng.Intn(len(times))]
	if rng.Chance(1, 2) {
		tm = instant{int64(rng.U64()%300000000000) - 30000000000, int64(rng.Intn(1000000000))}
	}
	fi := webdav.FileInfo{Path: p, Size: sizes[rng.Intn(len(sizes))], ModTime: inZone(mkTime(tm.sec, tm.ns), zones[rng.Intn(len(zones))]), IsDir: rng.Chance(1, 4)}
	if rng.Chance(1, 3) {
		fi.ModTime = inNamedZone(mkTime(tm.sec, tm.ns), rng.Pick(zonesNamed))
	}
	switch rng.Intn(3) {
	case 0:
		fi.MIMEType = rng.Pick(hostileMimes)
	case 1:
		fi.MIMEType = "text/" + rng.Pick(hostile)
	default:
		fi.MIMEType = "application/x-" + randBytes(rng, 6, true)
	}
	switch rng.Intn(3) {
	case 0:
		fi.ETag = rng.Pick(hostileTags)
	case 1:
		fi.ETag = rng.Pick(hostile)
	default:
		fi.ETag = randBytes(rng, 10, false)
	}
	return fi
}

// set while random cases are drawn for a sequence on one synthetic backend
var (
	forceEp  string
	forceMem bool
)

// randLocalOp: a random call on a tree whose relative paths are rels.
func randLocalOp(rng *hx.Rand, ep string, rels []string) hx.Sx {
	pick := func() string {
		r := rng.Pick(rels)
		switch rng.Intn(5) {
		case 0:
			return path.Join(epPathOf(ep), r)
		case 1:
			return r + "/"
		case 2:
			return randName(rng, true)
		case 3:
			if r == "" {
				return randName(rng, true)
			}
			return r + "/" + randName(rng, true)
		}
		return r
	}
	switch rng.Intn(9) {
	case 0:
		return opStat(pick())
	case 1, 2:
		return opReadDir(pick(), rng.Bool())
	case 3:
		return opOpen(pick())
	case 4:
		var chunks []string
		for i := rng.Intn(4); i > 0; i-- {
			chunks = append(chunks, randBytes(rng, 40, false))
		}
		return opCreate(pick(), chunks)
	case 5:
		return opMkdir(pick())
	case 6:
		return opRm(pick())
	case 7:
		return opCopy(pick(), pick(), rng.Bool(), rng.Bool())
	}
	return opMove(pick(), pick(), rng.Bool())
}

func emitRandom(rng *hx.Rand, emit0 func(tr, ep string, be, op hx.Sx)) {
	ep := rng.Pick(endpoints)
	if forceEp != "" {
		ep = forceEp
	}
	mode := trModes[rng.Intn(len(trModes))]
	emit := func(tr, ep string, be, op hx.Sx) { emit0(mode, ep, be, op) }
	if !forceMem && rng.Chance(1, 2) {
		// on disk
		t := randTree(rng, 3)
		var rels []string
		allRel(t, "", &rels)
		emit("i", ep, local(wrap(ep, t)), randLocalOp(rng, ep, rels))
		return
	}
	// synthetic: arbitrary paths and metadata, also listings that are not trees
	name := randName(rng, false)
	if rng.Chance(1, 3) {
		name = "/" + name
	}
	if rng.Chance(1, 6) {
		name = name + "/" + randName(rng, false)
	}
	tgt := targetOf(ep, name)
	fi := randInfo(rng, tgt)
	if rng.Chance(1, 10) {
		fi.Path = randBytes(rng, 10, false) // a backend that reports some other path
	}
	switch rng.Intn(6) {
	case 0, 1:
		emit("i", ep, memBackend(false, hx.L("stat", hx.S(tgt), hx.L("ok", fiL(fi)))), opStat(name))
	case 2, 3:
		fi.IsDir = rng.Chance(5, 6)
		rec := rng.Bool()
		kids := []string{"ok"}
		for i := rng.Intn(6); i > 0; i-- {
			kp := tgt + "/" + randName(rng, false)
			if rng.Chance(1, 8) {
				kp = randBytes(rng, 10, false)
			}
			kids = append(kids, fiL(randInfo(rng, kp)))
		}
		lst := hx.L(kids...)
		if rng.Chance(1, 10) {
			lst = rng.Pick(statErrs)
		}
		emit("i", ep, memBackend(false, hx.L("stat", hx.S(tgt), hx.L("ok", fiL(fi))), hx.L("readdir", hx.S(tgt), hx.B(rec), lst)), opReadDir(name, rec))
	case 4:
		body := randBytes(rng, 200, false)
		fi.IsDir = false
		fi.Size = int64(len(body))
		emit("i", ep, memBackend(rng.Bool(), hx.L("stat", hx.S(tgt), hx.L("ok", fiL(fi))), hx.L("open", hx.S(tgt), hx.L("ok", hx.S(body)))), opOpen(name))
	default:
		a := rng.Pick(mutAnswers)
		u := rng.Pick(unitAnswers)
		be := memBackend(false, hx.L("create", a), hx.L("copy", a), hx.L("move", a), hx.L("rm", u), hx.L("mkdir", u))
		d := randName(rng, false)
		switch rng.Intn(5) {
		case 0:
			emit("i", ep, be, opCreate(name, []string{randBytes(rng, 30, false), randBytes(rng, 30, false)}))
		case 1:
			emit("i", ep, be, opRm(name))
		case 2:
			emit("i", ep, be, opMkdir(name))
		case 3:
			emit("i", ep, be, opCopy(name, d, rng.Bool(), rng.Bool()))
		default:
			emit("i", ep, be, opMove(name, d, rng.Bool()))
		}
	}
}

// ---------------------------------------------------------------- foreign answers

var fLengths = []string{"7", "", " 7", "7 ", "\t7\n", "+7", "-1", "-0", "007", "9223372036854775807", "9223372036854775808",
	"-9223372036854775808", "-9223372036854775809", "18446744073709551616", "1_000", "0x10", "7.0", "seven", "  ", "\u00a07", "\u20007\u3000",
	"\u00857\u2028", "7\u200b", "+", "-", "--1", "+-1", "1e3", "\u0663", "7\x00", "\xa07", "\xc2", " \xe2\x80 7"}

var fTimes = []string{"Sun, 06 Nov 1994 08:49:37 GMT", "Sunday, 06-Nov-94 08:49:37 GMT", "Sun Nov  6 08:49:37 1994", "", "garbage",
	"Sun, 06 Nov 1994 08:49:37 +0100", "sun, 06 nov 1994 08:49:37 gmt", " Sun, 06 Nov 1994 08:49:37 GMT", "Mon, 06 Nov 1994 08:49:37 GMT",
	"Sun, 6 Nov 1994 08:49:37 GMT", "Sun, 06 Nov 1994 24:00:00 GMT", "Tue, 29 Feb 2000 23:59:60 GMT", "Thu, 01 Jan 1970 00:00:00 GMT",
	"Sat, 01 Jan 0000 00:00:00 GMT", "Fri, 31 Dec 9999 23:59:59 GMT", "Sunday, 06-Nov-70 08:49:37 GMT", "Sun Nov 16 08:49:37 1994",
	"Sun, 06 Nov 1994 08:49:37 UTC", "1994-11-06T08:49:37Z", "Sun, 06 Nov 1994 08:49:37.5 GMT"}

var fTags = []string{"\"abc\"", "W/\"abc\"", "abc", "\"\"", "", "'abc'", "`abc`", "\"a\\\"b\"", "\"a\\x41\"", "\"\u00e9\"", "\"\\u00e9\"",
	"\"unterminated", "\"a\"b\"", " \"abc\"", "\"abc\" ", "\"a\nb\"", "\"\xff\"", "\"\\777\"", "\"\\101\"", "\"tab\there\"", "\"", "W/", "*"}

var fHrefs = []string{"/a", "/a%20b", "http://example.com/a%20b?q=1#f", "a/b", "//host/p", "/a b", "/%zz", "", "/a?x=1", "/a#frag", "/%41%2f%2F",
	"HTTP://EXAMPLE.COM", "mailto:x", "/\u00e9", "/a/../b", "./a:b", "a:b", "/a\x01", "///x", "/+", "http://[::1]:80/p", "http://h:x/p"}

var fTypes = []string{"text/plain", "", " padded ", "a/b; c=\"d\"", "\u00e9", "<&>"}

func fText(s string) string         { return hx.L("t", hx.S(s)) }
func fProp(name, val string) string { return hx.L(name, val) }
func fPS(code string, props ...string) string {
	return hx.L(append([]string{"ps", code}, props...)...)
}
func fResp(hrefs []string, st string, pss ...string) string {
	hs := []string{"h"}
	for _, h := range hrefs {
		hs = append(hs, hx.S(h))
	}
	return hx.L(append([]string{"r", hx.L(hs...), hx.L("st", st)}, pss...)...)
}
func foreign(status int, resps ...string) hx.Sx {
	return sx(hx.L(append([]string{"foreign", hx.I(int64(status))}, resps...)...))
}

func generateForeign(rng *hx.Rand, thorough bool, emit func(tr, ep string, be, op hx.Sx)) {
	ep := "http://h/p/"
	base := func(clen, lmod, ctype, etag string) string {
		return fPS("200", fProp("rt", "(nocoll)"), fProp("clen", fText(clen)), fProp("lmod", fText(lmod)),
			fProp("ctype", fText(ctype)), fProp("etag", fText(etag)))
	}
	one := func(r string) {
		emit("i", ep, foreign(207, r), opStat("f"))
		emit("i", ep, foreign(207, r, r), opReadDir("f", false))
	}
	t0, g0 := fTimes[0], fTags[0]
	// one dimension at a time
	for _, l := range fLengths {
		one(fResp([]string{"/p/f"}, "-", base(l, t0, "text/plain", g0)))
	}
	for _, t := range fTimes {
		one(fResp([]string{"/p/f"}, "-", base("7", t, "text/plain", g0)))
	}
	for _, g := range fTags {
		one(fResp([]string{"/p/f"}, "-", base("7", t0, "text/plain", g)))
	}
	for _, h := range fHrefs {
		one(fResp([]string{h}, "-", base("7", t0, "text/plain", g0)))
	}
	for _, c := range fTypes {
		one(fResp([]string{"/p/f"}, "-", base("7", t0, c, g0)))
	}
	// empty elements, missing properties, unknown properties, collections
	full := []string{fProp("rt", "(nocoll)"), fProp("clen", fText("7")), fProp("lmod", fText(t0)), fProp("ctype", fText("text/plain")), fProp("etag", fText(g0))}
	names := []string{"rt", "clen", "lmod", "ctype", "etag"}
	for i := range full {
		var without []string
		without = append(without, full[:i]...)
		without = append(without, full[i+1:]...)
		one(fResp([]string{"/p/f"}, "-", fPS("200", without...)))
		empty := append(append([]string{}, without...), fProp(names[i], "(e)"))
		one(fResp([]string{"/p/f"}, "-", fPS("200", empty...)))
		// the property in a 404 propstat, the rest in a 200 one; and the other way round
		one(fResp([]string{"/p/f"}, "-", fPS("200", without...), fPS("404", fProp(names[i], "(e)"))))
		one(fResp([]string{"/p/f"}, "-", fPS("404", fProp(names[i], "(e)")), fPS("200", full...)))
		one(fResp([]string{"/p/f"}, "-", fPS("500", full[i]), fPS("200", without...)))
		one(fResp([]string{"/p/f"}, "-", fPS("-", full[i]), fPS("200", without...)))
		one(fResp([]string{"/p/f"}, "-", fPS("204", full[i]), fPS("200", without...)))
		// twice, with different values: the first propstat holding it counts
		one(fResp([]string{"/p/f"}, "-", fPS("200", full...), fPS("200", fProp(names[i], fText("other")))))
	}
	withX := append([]string{fProp("x", fText("v")), fProp("x", "(e)")}, full...)
	one(fResp([]string{"/p/f"}, "-", fPS("200", withX...)))
	one(fResp([]string{"/p/d/"}, "-", fPS("200", fProp("rt", "(coll)"), fProp("lmod", fText(t0)))))
	one(fResp([]string{"/p/d/"}, "-", fPS("200", fProp("rt", "(coll)"), fProp("clen", fText("nonsense")), fProp("etag", fText("nonsense")))))
	one(fResp([]string{"/p/d/"}, "-", fPS("200", fProp("rt", fText("text")), fProp("clen", fText("1")))))
	one(fResp([]string{"/p/d/"}, "-", fPS("200", fProp("rt", "(coll)"), fProp("lmod", fText("garbage")))))
	// hrefs: none, two; response status
	one(fResp(nil, "-", fPS("200", full...)))
	one(fResp([]string{"/p/f", "/p/g"}, "-", fPS("200", full...)))
	for _, st := range []string{"200", "204", "404", "500", "301"} {
		one(fResp([]string{"/p/f"}, st, fPS("200", full...)))
		one(fResp([]string{"/p/f"}, st))
		one(fResp(nil, st))
	}
	// the HTTP status; no response at all; three responses
	ok := fResp([]string{"/p/f"}, "-", fPS("200", full...))
	for _, hs := range []int{200, 201, 204, 207, 301, 400, 404, 500} {
		emit("i", ep, foreign(hs, ok), opStat("f"))
		emit("i", ep, foreign(hs, ok), opReadDir("f", true))
	}
	emit("i", ep, foreign(207), opStat("f"))
	emit("i", ep, foreign(207), opReadDir("f", true))
	emit("i", ep, foreign(207, ok, ok, ok), opStat("f"))
	emit("t", ep, foreign(207, ok, ok, ok), opReadDir("f", true))
	emit("t", ep, foreign(207, fResp([]string{"/p/f"}, "-", base(" 7", fTimes[1], "", fTags[1]))), opStat("f"))

	// seeded random combinations
	n := 1500
	if thorough {
		n = 15000
	}
	pick := func(l []string) string { return l[rng.Intn(len(l))] }
	for i := 0; i < n; i++ {
		var resps []string
		for k := 1 + rng.Intn(3); k > 0; k-- {
			var props []string
			if rng.Chance(9, 10) {
				props = append(props, fProp("rt", pick([]string{"(nocoll)", "(nocoll)", "(coll)", "(e)"})))
			}
			add := func(name string, l []string) {
				switch rng.Intn(8) {
				case 0:
				case 1:
					props = append(props, fProp(name, "(e)"))
				default:
					v := l[0]
					if rng.Chance(1, 2) {
						v = pick(l)
					}
					props = append(props, fProp(name, fText(v)))
				}
			}
			add("clen", fLengths)
			add("lmod", fTimes)
			add("ctype", fTypes)
			add("etag", fTags)
			if rng.Chance(1, 5) {
				props = append(props, fProp("x", fText("v")))
			}
			rng2 := rng.Intn(len(props) + 1)
			var pss []string
			switch rng.Intn(4) {
			case 0:
				pss = []string{fPS("200", props...)}
			case 1:
				pss = []string{fPS("200", props[:rng2]...), fPS(pick([]string{"404", "404", "500", "200", "-"}), props[rng2:]...)}
			case 2:
				pss = []string{fPS(pick([]string{"404", "403", "-"}), props[:rng2]...), fPS("200", props[rng2:]...)}
			default:
				pss = []string{fPS("200", props...), fPS("404")}
			}
			h := []string{"/p/f"}
			if rng.Chance(1, 3) {
				h = []string{pick(fHrefs)}
			}
			if rng.Chance(1, 20) {
				h = append(h, pick(fHrefs))
			}
			st := "-"
			if rng.Chance(1, 10) {
				st = pick([]string{"200", "404", "207"})
			}
			resps = append(resps, fResp(h, st, pss...))
		}
		hs := 207
		if rng.Chance(1, 30) {
			hs = 200 + rng.Intn(4)*100
		}
		if rng.Bool() {
			emit("i", ep, foreign(hs, resps...), opStat("f"))
		} else {
			emit("i", ep, foreign(hs, resps...), opReadDir("f", rng.Bool()))
		}
	}
}
