// Command c05 runs the real webdav.Client against the real webdav.Handler and
// records what the client returned and what the backend was asked.
//
// Two backends, both behind a recording FileSystem:
//
//	(local <tree>)        webdav.LocalFileSystem on a directory materialised from <tree>
//	(mem <seek> <script>) a synthetic FileSystem that answers from a script and can
//	                      hold arbitrary metadata
//	(foreign <status> (r (h <href>..) (st <code>|-) (ps <code>|- (<prop> <val>)..)..)..)
//	                      no webdav.Handler at all: a scripted multistatus as another
//	                      server might send it (prop: rt clen lmod ctype etag x;
//	                      val: (coll) (nocoll) (t <text>) (e)); only Stat and ReadDir
//
// Case line:
//
//	(in <transport> <endpoint-url> <backend> <op>)
//	(drv (ep <url path>) (answers ..) (ext ..) (tree <node>|-) (dmeta ..))
//	(obs (calls ..) <outcome> (stored <bytes>|-))
//
// <op>: (stat n) (readdir n rec) (open n) (create n (chunk..)) (rm n) (mkdir n)
// [a chunk is one Write call: a hex atom, or (p <start> <len>) = the bytes
// patByte(start) .. patByte(start+len-1) of a fixed position-dependent pattern;
// bodies of such cases are rendered losslessly as (b <segment>..) with the same
// two segment forms, see bytesSx]
// (copy n d norec noow) (move n d noow).  The (drv ..) part holds what the model takes
// as input: the answers the backend actually gave, the tables of the library codecs
// (net/url, strconv.Quote, HTTP dates, XML character data, MIME by extension)
// evaluated with the real functions on every value of the case, and for the local
// backend the directory as it was on disk.
package main

import (
	"bytes"
	"context"
	"encoding/xml"
	"errors"
	"fmt"
	"io"
	"mime"
	"net/http"
	"net/url"
	"os"
	"path"
	"path/filepath"
	"sort"
	"strconv"
	"strings"
	"sync"
	"time"
	"unicode/utf8"

	webdav "github.com/emersion/go-webdav"
	"github.com/emersion/go-webdav/verifhook"

	"verifharness/hx"
)

// ---------------------------------------------------------------- S-expressions

func fiSx(fi *webdav.FileInfo) string {
	_, off := fi.ModTime.Zone()
	return hx.L("fi", hx.S(fi.Path), hx.I(fi.Size), hx.I(fi.ModTime.Unix()), hx.I(int64(fi.ModTime.Nanosecond())),
		hx.B(fi.IsDir), hx.S(fi.MIMEType), hx.S(fi.ETag), hx.I(int64(off)))
}

// inZone gives the same instant in a fixed zone (seconds east of UTC).
func inZone(t time.Time, off int) time.Time {
	if off == 0 {
		return t.UTC()
	}
	return t.In(time.FixedZone("", off))
}

func mkTime(sec, ns int64) time.Time { return time.Unix(sec, ns).UTC() }

func parseFi(x hx.Sx) webdav.FileInfo {
	a := x.Args()
	fi := webdav.FileInfo{Path: a[0].Str(), Size: a[1].Int(), ModTime: mkTime(a[2].Int(), a[3].Int()),
		IsDir: a[4].Bool(), MIMEType: a[5].Str(), ETag: a[6].Str()}
	if len(a) > 7 {
		fi.ModTime = inZone(fi.ModTime, int(a[7].Int()))
	}
	return fi
}

func errSx(err error) string {
	var he *verifhook.HTTPError
	switch {
	case os.IsExist(err):
		return "(err exist)"
	case errors.As(err, &he):
		return hx.L("err", "http", hx.I(int64(he.Code)))
	default:
		return "(err other)"
	}
}

// scripted error: (err http c) | (err exist) | (err other)
func parseErr(x hx.Sx) error {
	a := x.Args()
	switch a[0].Atom {
	case "http":
		return webdav.NewHTTPError(int(a[1].Int()), errors.New("scripted"))
	case "exist":
		return os.ErrExist
	}
	return errors.New("scripted failure")
}

// ---------------------------------------------------------------- the synthetic backend

type memFS struct {
	seek   bool
	script []hx.Sx
	// the FileInfo values of the script, parsed once and handed out again on every
	// call (as a backend holding its data in memory would): whoever modifies what the
	// backend returned is found by verify
	mu    sync.Mutex
	cache map[int][]webdav.FileInfo
}

func (m *memFS) infos(i int, items []hx.Sx) []webdav.FileInfo {
	m.mu.Lock()
	defer m.mu.Unlock()
	if m.cache == nil {
		m.cache = map[int][]webdav.FileInfo{}
	}
	if l, ok := m.cache[i]; ok {
		return l
	}
	l := make([]webdav.FileInfo, 0, len(items))
	for _, f := range items {
		l = append(l, parseFi(f))
	}
	m.cache[i] = l
	return l
}

// verify reports whether the data handed out is still what the script says.
func (m *memFS) verify() bool {
	m.mu.Lock()
	defer m.mu.Unlock()
	for i, l := range m.cache {
		e := m.script[i].Args()
		var items []hx.Sx
		if m.script[i].Head() == "stat" {
			items = e[1].Args()
		} else {
			items = e[2].Args()
		}
		if len(items) != len(l) {
			return false
		}
		for k := range l {
			want := parseFi(items[k])
			if fiSx(&want) != fiSx(&l[k]) {
				return false
			}
		}
	}
	return true
}

func (m *memFS) findIdx(head string, match func(a []hx.Sx) bool) int {
	for i, e := range m.script {
		if e.Head() == head && match(e.Args()) {
			return i
		}
	}
	return -1
}

func (m *memFS) find(head string, match func(a []hx.Sx) bool) []hx.Sx {
	for _, e := range m.script {
		if e.Head() == head && match(e.Args()) {
			return e.Args()
		}
	}
	return nil
}

var errNotFound = webdav.NewHTTPError(404, errors.New("not found"))

type seekCloser struct{ *bytes.Reader }

func (seekCloser) Close() error { return nil }

func (m *memFS) Open(ctx context.Context, name string) (io.ReadCloser, error) {
	a := m.find("open", func(a []hx.Sx) bool { return a[0].Str() == name })
	if a == nil {
		return nil, errNotFound
	}
	if a[1].Head() == "err" {
		return nil, parseErr(a[1])
	}
	b := []byte(a[1].Args()[0].Str())
	if m.seek {
		return seekCloser{bytes.NewReader(b)}, nil
	}
	return io.NopCloser(bytes.NewReader(b)), nil
}

func (m *memFS) Stat(ctx context.Context, name string) (*webdav.FileInfo, error) {
	i := m.findIdx("stat", func(a []hx.Sx) bool { return a[0].Str() == name })
	if i < 0 {
		return nil, errNotFound
	}
	a := m.script[i].Args()
	if a[1].Head() == "err" {
		return nil, parseErr(a[1])
	}
	return &m.infos(i, a[1].Args())[0], nil
}

func (m *memFS) ReadDir(ctx context.Context, name string, recursive bool) ([]webdav.FileInfo, error) {
	i := m.findIdx("readdir", func(a []hx.Sx) bool { return a[0].Str() == name && a[1].Bool() == recursive })
	if i < 0 {
		return nil, errNotFound
	}
	a := m.script[i].Args()
	if a[2].Head() == "err" {
		return nil, parseErr(a[2])
	}
	return m.infos(i, a[2].Args()), nil
}

func (m *memFS) simple(head string) (bool, error) {
	a := m.find(head, func([]hx.Sx) bool { return true })
	if a == nil {
		return false, errNotFound
	}
	if a[0].Head() == "err" {
		return false, parseErr(a[0])
	}
	if len(a[0].Args()) > 0 {
		return a[0].Args()[0].Bool(), nil
	}
	return false, nil
}

func (m *memFS) Create(ctx context.Context, name string, body io.ReadCloser, opts *webdav.CreateOptions) (*webdav.FileInfo, bool, error) {
	io.Copy(io.Discard, body)
	created, err := m.simple("create")
	if err != nil {
		return nil, false, err
	}
	return &webdav.FileInfo{Path: name}, created, nil
}
func (m *memFS) RemoveAll(ctx context.Context, name string, opts *webdav.RemoveAllOptions) error {
	_, err := m.simple("rm")
	return err
}
func (m *memFS) Mkdir(ctx context.Context, name string) error {
	_, err := m.simple("mkdir")
	return err
}
func (m *memFS) Copy(ctx context.Context, name, dest string, options *webdav.CopyOptions) (bool, error) {
	return m.simple("copy")
}
func (m *memFS) Move(ctx context.Context, name, dest string, options *webdav.MoveOptions) (bool, error) {
	return m.simple("move")
}

// ---------------------------------------------------------------- the recording wrapper

type recFS struct {
	inner   webdav.FileSystem
	mu      sync.Mutex
	calls   []string
	answers []string
	infos   []webdav.FileInfo // every FileInfo the backend returned (for the codec tables)

	lastCreate string // the name the last Create was given
	pattern    bool   // the case writes pattern chunks: bodies are rendered compactly (bytesSx)
}

func (r *recFS) note(call, answer string) {
	r.mu.Lock()
	r.calls = append(r.calls, call)
	r.answers = append(r.answers, answer)
	r.mu.Unlock()
}

func (r *recFS) Open(ctx context.Context, name string) (io.ReadCloser, error) {
	f, err := r.inner.Open(ctx, name)
	if err != nil {
		r.note(hx.L("open", hx.S(name)), hx.L("open", hx.S(name), errSx(err)))
		return nil, err
	}
	// read it all here so that the answer is on record; hand an equivalent reader on
	b, rerr := io.ReadAll(f)
	f.Close()
	if rerr != nil {
		// a directory opened by LocalFileSystem: reading fails (EISDIR); the server never does that
		b = nil
	}
	r.note(hx.L("open", hx.S(name)), hx.L("open", hx.S(name), hx.L("ok", hx.S(string(b)))))
	if _, ok := f.(io.Seeker); ok {
		return seekCloser{bytes.NewReader(b)}, nil
	}
	return io.NopCloser(bytes.NewReader(b)), nil
}

func (r *recFS) Stat(ctx context.Context, name string) (*webdav.FileInfo, error) {
	fi, err := r.inner.Stat(ctx, name)
	ans := ""
	if err != nil {
		ans = errSx(err)
	} else {
		ans = hx.L("ok", fiSx(fi))
		r.mu.Lock()
		r.infos = append(r.infos, *fi)
		r.mu.Unlock()
	}
	r.note(hx.L("stat", hx.S(name)), hx.L("stat", hx.S(name), ans))
	return fi, err
}

func (r *recFS) ReadDir(ctx context.Context, name string, recursive bool) ([]webdav.FileInfo, error) {
	l, err := r.inner.ReadDir(ctx, name, recursive)
	ans := ""
	if err != nil {
		ans = errSx(err)
	} else {
		items := []string{"ok"}
		for i := range l {
			items = append(items, fiSx(&l[i]))
		}
		ans = hx.L(items...)
		r.mu.Lock()
		r.infos = append(r.infos, l...)
		r.mu.Unlock()
	}
	r.note(hx.L("readdir", hx.S(name), hx.B(recursive)), hx.L("readdir", hx.S(name), hx.B(recursive), ans))
	return l, err
}

type teeCloser struct {
	io.Reader
	c io.Closer
}

func (t teeCloser) Close() error { return t.c.Close() }

func (r *recFS) Create(ctx context.Context, name string, body io.ReadCloser, opts *webdav.CreateOptions) (*webdav.FileInfo, bool, error) {
	var got bytes.Buffer
	tee := teeCloser{io.TeeReader(body, &got), body}
	fi, created, err := r.inner.Create(ctx, name, tee, opts)
	io.Copy(io.Discard, tee) // whatever the backend left unread still arrived at the backend boundary
	ans := ""
	if err != nil {
		ans = errSx(err)
	} else {
		ans = hx.L("ok", hx.B(created))
	}
	r.mu.Lock()
	r.lastCreate = name
	r.mu.Unlock()
	r.note(hx.L("create", hx.S(name), bytesSx(got.Bytes(), r.pattern), hx.S(string(opts.IfMatch)), hx.S(string(opts.IfNoneMatch))),
		hx.L("create", hx.S(name), ans))
	return fi, created, err
}

func unitAns(err error) string {
	if err != nil {
		return errSx(err)
	}
	return "(ok)"
}

func (r *recFS) RemoveAll(ctx context.Context, name string, opts *webdav.RemoveAllOptions) error {
	err := r.inner.RemoveAll(ctx, name, opts)
	r.note(hx.L("rm", hx.S(name), hx.S(string(opts.IfMatch)), hx.S(string(opts.IfNoneMatch))), hx.L("rm", hx.S(name), unitAns(err)))
	return err
}

func (r *recFS) Mkdir(ctx context.Context, name string) error {
	err := r.inner.Mkdir(ctx, name)
	r.note(hx.L("mkdir", hx.S(name)), hx.L("mkdir", hx.S(name), unitAns(err)))
	return err
}

func boolAns(b bool, err error) string {
	if err != nil {
		return errSx(err)
	}
	return hx.L("ok", hx.B(b))
}

func (r *recFS) Copy(ctx context.Context, name, dest string, o *webdav.CopyOptions) (bool, error) {
	c, err := r.inner.Copy(ctx, name, dest, o)
	r.note(hx.L("copy", hx.S(name), hx.S(dest), hx.B(o.NoRecursive), hx.B(o.NoOverwrite)),
		hx.L("copy", hx.S(name), hx.S(dest), hx.B(o.NoRecursive), hx.B(o.NoOverwrite), boolAns(c, err)))
	return c, err
}

func (r *recFS) Move(ctx context.Context, name, dest string, o *webdav.MoveOptions) (bool, error) {
	c, err := r.inner.Move(ctx, name, dest, o)
	r.note(hx.L("move", hx.S(name), hx.S(dest), hx.B(o.NoOverwrite)),
		hx.L("move", hx.S(name), hx.S(dest), hx.B(o.NoOverwrite), boolAns(c, err)))
	return c, err
}

// ---------------------------------------------------------------- transports

// ---------------------------------------------------------------- codec tables

type tables struct {
	hrefEnc, hrefDec, quote, unquote, timeFmt, timeParse, text, mime map[string]string
	hi                                                               map[rune]bool // runes above U+00FF in the entity tags that strconv.IsPrint accepts
}

func newTables() *tables {
	return &tables{map[string]string{}, map[string]string{}, map[string]string{}, map[string]string{},
		map[string]string{}, map[string]string{}, map[string]string{}, map[string]string{}, map[rune]bool{}}
}

type chardata struct {
	XMLName xml.Name `xml:"DAV: v"`
	V       string   `xml:",chardata"`
}

// xmlText: character data written by encoding/xml and read back.
func xmlText(s string) string {
	b, err := xml.Marshal(&chardata{V: s})
	if err != nil {
		return "MARSHAL-ERROR"
	}
	var out chardata
	if err := xml.Unmarshal(b, &out); err != nil {
		return "UNMARSHAL-ERROR"
	}
	return out.V
}

func optSx(s string, ok bool) string {
	if !ok {
		return "-"
	}
	return hx.S(s)
}

func (t *tables) addText(s string) string {
	x := xmlText(s)
	t.text[hx.S(s)] = hx.S(x)
	return x
}

func (t *tables) addInfo(fi *webdav.FileInfo, local bool) {
	// href
	h := (*verifhook.Href)(&url.URL{Path: fi.Path})
	enc := h.String()
	t.hrefEnc[hx.S(fi.Path)] = hx.S(enc)
	enc2 := t.addText(enc)
	var back verifhook.Href
	if err := back.UnmarshalText([]byte(enc2)); err != nil {
		t.hrefDec[hx.S(enc2)] = "-"
	} else {
		t.hrefDec[hx.S(enc2)] = hx.S(back.Path)
	}
	// entity tag
	q := verifhook.ETag(fi.ETag).String()
	for i := 0; i < len(fi.ETag); {
		r, w := utf8.DecodeRuneInString(fi.ETag[i:])
		i += w
		if r > 0xFF && !(r == utf8.RuneError && w == 1) && strconv.IsPrint(r) {
			t.hi[r] = true
		}
	}
	t.quote[hx.S(fi.ETag)] = hx.S(q)
	q2 := t.addText(q)
	if u, err := strconv.Unquote(q2); err != nil {
		t.unquote[hx.S(q2)] = "-"
	} else {
		t.unquote[hx.S(q2)] = hx.S(u)
	}
	// time
	tm := verifhook.Time(fi.ModTime)
	tb, _ := tm.MarshalText()
	key := hx.L(hx.I(fi.ModTime.Unix()), hx.I(int64(fi.ModTime.Nanosecond())))
	t.timeFmt[key] = hx.S(string(tb))
	tb2 := t.addText(string(tb))
	var pt verifhook.Time
	if err := pt.UnmarshalText([]byte(tb2)); err != nil {
		t.timeParse[hx.S(tb2)] = "-"
	} else {
		tt := time.Time(pt)
		t.timeParse[hx.S(tb2)] = hx.L(hx.I(tt.Unix()), hx.I(int64(tt.Nanosecond())))
	}
	// content type and length
	t.addText(fi.MIMEType)
	t.addText(fmt.Sprint(fi.Size))
	if local {
		t.mime[hx.S(fi.Path)] = hx.S(mime.TypeByExtension(path.Ext(fi.Path)))
	}
}

func tableSx(name string, m map[string]string) string {
	keys := make([]string, 0, len(m))
	for k := range m {
		keys = append(keys, k)
	}
	sort.Strings(keys)
	items := []string{name}
	for _, k := range keys {
		items = append(items, hx.L(k, m[k]))
	}
	return hx.L(items...)
}

// the part of the strconv.IsPrint table that C16's model of %q takes as a parameter
func (t *tables) hiSx() string {
	var rs []int
	for r := range t.hi {
		rs = append(rs, int(r))
	}
	sort.Ints(rs)
	items := []string{"hi"}
	for _, r := range rs {
		items = append(items, hx.I(int64(r)))
	}
	return hx.L(items...)
}

func (t *tables) Sx() string {
	return hx.L("ext", tableSx("henc", t.hrefEnc), tableSx("hdec", t.hrefDec), tableSx("quote", t.quote),
		tableSx("unquote", t.unquote), tableSx("tfmt", t.timeFmt), tableSx("tparse", t.timeParse),
		tableSx("text", t.text), tableSx("mime", t.mime), t.hiSx())
}

// ---------------------------------------------------------------- running one case

func outcomeErr(err error) string {
	var he *verifhook.HTTPError
	if errors.As(err, &he) {
		return hx.L("err", hx.I(int64(he.Code)))
	}
	return "(err 0)"
}

func dmetaOf(root string) string {
	items := []string{"dmeta"}
	filepath.Walk(root, func(p string, fi os.FileInfo, err error) error {
		if err != nil || !fi.IsDir() {
			return nil
		}
		rel, _ := filepath.Rel(root, p)
		segs := []string{}
		if rel != "." {
			for _, s := range strings.Split(rel, "/") {
				segs = append(segs, hx.S(s))
			}
		}
		items = append(items, hx.L(hx.L(segs...), hx.I(fi.Size()), hx.I(fi.ModTime().UnixNano())))
		return nil
	})
	return hx.L(items...)
}

func doneOr(err error) string {
	if err != nil {
		return outcomeErr(err)
	}
	return "(done)"
}

// pretty decodes hex atoms for a human reader.
func pretty(s string) string {
	var b strings.Builder
	for _, f := range strings.Fields(strings.NewReplacer("(", " ( ", ")", " ) ").Replace(s)) {
		if len(f) > 0 && f[0] == 'x' {
			if raw, err := hexDecode(f[1:]); err == nil {
				b.WriteString(strconv.Quote(raw))
				b.WriteByte(' ')
				continue
			}
		}
		b.WriteString(f)
		b.WriteByte(' ')
	}
	return b.String()
}

func hexDecode(h string) (string, error) {
	x := hx.Sx{Atom: "x" + h}
	defer func() { recover() }()
	return x.Str(), nil
}

// ---------------------------------------------------------------- pattern bytes

// patByte is a fixed, position-dependent byte pattern: a write schedule whose
// k-th Write carries patByte(off_k .. off_k+len_k) makes any reordering,
// duplication or loss of bytes visible in the stored content.
func patByte(i int) byte { return byte((uint32(i) * 2654435761) >> 24) }

const patMax = 1 << 20

var (
	patOnce  sync.Once
	patData  []byte
	patIndex map[uint32][]int32
)

func patInit() {
	patOnce.Do(func() {
		patData = make([]byte, patMax)
		for i := range patData {
			patData[i] = patByte(i)
		}
		patIndex = make(map[uint32][]int32, patMax)
		for i := 0; i+4 <= patMax; i++ {
			k := uint32(patData[i]) | uint32(patData[i+1])<<8 | uint32(patData[i+2])<<16 | uint32(patData[i+3])<<24
			patIndex[k] = append(patIndex[k], int32(i))
		}
	})
}

// chunkBytes: the bytes of one Write of a create op.
func chunkBytes(x hx.Sx) []byte {
	if !x.IsList {
		return []byte(x.Str())
	}
	a := x.Args()
	start, n := int(a[0].Int()), int(a[1].Int())
	b := make([]byte, n)
	for i := range b {
		b[i] = patByte(start + i)
	}
	return b
}

func patMatch(b []byte, off int) int {
	n := 0
	for n < len(b) && off+n < patMax && b[n] == patData[off+n] {
		n++
	}
	return n
}

// bytesSx renders observed bytes: a hex atom, or (when the case wrote pattern
// chunks) the lossless form (b seg..), seg = (p <start> <len>) for a run equal to
// the pattern at some offset, or a hex atom for anything else.
func bytesSx(b []byte, pattern bool) string {
	if !pattern {
		return hx.S(string(b))
	}
	patInit()
	items := []string{"b"}
	var lit []byte
	flush := func() {
		if len(lit) > 0 {
			items = append(items, hx.S(string(lit)))
			lit = nil
		}
	}
	for j := 0; j < len(b); {
		bestOff, bestLen := -1, 0
		if j < patMax {
			if l := patMatch(b[j:], j); l >= 16 {
				bestOff, bestLen = j, l
			}
		}
		if bestLen == 0 && j+4 <= len(b) {
			k := uint32(b[j]) | uint32(b[j+1])<<8 | uint32(b[j+2])<<16 | uint32(b[j+3])<<24
			for _, off := range patIndex[k] {
				if l := patMatch(b[j:], int(off)); l > bestLen {
					bestOff, bestLen = int(off), l
				}
			}
		}
		if bestLen >= 16 {
			flush()
			items = append(items, hx.L("p", hx.I(int64(bestOff)), hx.I(int64(bestLen))))
			j += bestLen
		} else {
			lit = append(lit, b[j])
			j++
		}
	}
	flush()
	return hx.L(items...)
}

// ---------------------------------------------------------------- foreign answers

func xmlEsc(s string) string {
	var b bytes.Buffer
	xml.EscapeText(&b, []byte(s))
	return b.String()
}

var foreignNames = map[string]string{"rt": "resourcetype", "clen": "getcontentlength", "lmod": "getlastmodified",
	"ctype": "getcontenttype", "etag": "getetag"}

func statusLine(code int64) string {
	return fmt.Sprintf("HTTP/1.1 %d %s", code, http.StatusText(int(code)))
}

// foreignBody renders the scripted multistatus as XML text.
func foreignBody(be hx.Sx) string {
	var b strings.Builder
	b.WriteString(`<?xml version="1.0" encoding="UTF-8"?><D:multistatus xmlns:D="DAV:">`)
	for _, r := range be.Args()[1:] {
		b.WriteString("<D:response>")
		for _, part := range r.Args() {
			switch part.Head() {
			case "h":
				for _, h := range part.Args() {
					b.WriteString("<D:href>" + xmlEsc(h.Str()) + "</D:href>")
				}
			case "st":
				if part.Args()[0].Atom != "-" {
					b.WriteString("<D:status>" + statusLine(part.Args()[0].Int()) + "</D:status>")
				}
			case "ps":
				b.WriteString("<D:propstat><D:prop>")
				for _, pv := range part.Args()[1:] {
					name := pv.List[0].Atom
					val := pv.List[1]
					open, close := "", ""
					if name == "x" {
						open, close = `<Z:other xmlns:Z="urn:verif:z">`, "</Z:other>"
					} else {
						open, close = "<D:"+foreignNames[name]+">", "</D:"+foreignNames[name]+">"
					}
					b.WriteString(open)
					switch val.Head() {
					case "coll":
						b.WriteString("<D:collection/>")
					case "t":
						b.WriteString(xmlEsc(val.Args()[0].Str()))
					}
					b.WriteString(close)
				}
				b.WriteString("</D:prop>")
				if part.Args()[0].Atom != "-" {
					b.WriteString("<D:status>" + statusLine(part.Args()[0].Int()) + "</D:status>")
				}
				b.WriteString("</D:propstat>")
			}
		}
		b.WriteString("</D:response>")
	}
	b.WriteString("</D:multistatus>")
	return b.String()
}

func foreignHandler(be hx.Sx) http.Handler {
	status := int(be.Args()[0].Int())
	body := foreignBody(be)
	return http.HandlerFunc(func(w http.ResponseWriter, r *http.Request) {
		io.Copy(io.Discard, r.Body)
		w.Header().Set("Content-Type", `application/xml; charset="utf-8"`)
		w.WriteHeader(status)
		io.WriteString(w, body)
	})
}

// addForeign: the library decoders on every text of the scripted answer.
func (t *tables) addForeign(be hx.Sx) {
	for _, r := range be.Args()[1:] {
		for _, part := range r.Args() {
			switch part.Head() {
			case "h":
				for _, h := range part.Args() {
					h2 := t.addText(h.Str())
					var back verifhook.Href
					if err := back.UnmarshalText([]byte(h2)); err != nil {
						t.hrefDec[hx.S(h2)] = "-"
					} else {
						t.hrefDec[hx.S(h2)] = hx.S(back.Path)
					}
				}
			case "ps":
				for _, pv := range part.Args()[1:] {
					if pv.List[1].Head() != "t" {
						continue
					}
					txt := t.addText(pv.List[1].Args()[0].Str())
					switch pv.List[0].Atom {
					case "etag":
						if u, err := strconv.Unquote(txt); err != nil {
							t.unquote[hx.S(txt)] = "-"
						} else {
							t.unquote[hx.S(txt)] = hx.S(u)
						}
					case "lmod":
						var pt verifhook.Time
						if err := pt.UnmarshalText([]byte(txt)); err != nil {
							t.timeParse[hx.S(txt)] = "-"
						} else {
							tt := time.Time(pt)
							t.timeParse[hx.S(txt)] = hx.L(hx.I(tt.Unix()), hx.I(int64(tt.Nanosecond())))
						}
					}
				}
			}
		}
	}
	// an empty property element
	t.addText("")
	t.unquote[hx.S("")] = "-"
	if _, err := strconv.Unquote(""); err == nil {
		t.unquote[hx.S("")] = hx.S("")
	}
	var pt verifhook.Time
	if err := pt.UnmarshalText(nil); err != nil {
		t.timeParse[hx.S("")] = "-"
	} else {
		t.timeParse[hx.S("")] = hx.L(hx.I(time.Time(pt).Unix()), hx.I(int64(time.Time(pt).Nanosecond())))
	}
}
