package main

import (
	"fmt"
	"io"
	"net/http"
	"path"
	"strings"

	webdav "github.com/emersion/go-webdav"

	"verifharness/davx"
	"verifharness/hx"
)

// rawHandler: (foreignraw <status> <content type> <body>) — any server's answer,
// byte for byte.
func rawHandler(be hx.Sx) http.Handler {
	a := be.Args()
	status, ctype, body := int(a[0].Int()), a[1].Str(), a[2].Str()
	return http.HandlerFunc(func(w http.ResponseWriter, r *http.Request) {
		io.Copy(io.Discard, r.Body)
		if ctype != "" {
			w.Header().Set("Content-Type", ctype)
		} else {
			w.Header()["Content-Type"] = nil // no sniffing: really absent
		}
		w.WriteHeader(status)
		io.WriteString(w, body)
	})
}

func foreignRaw(status int, ctype, body string) hx.Sx {
	return sx(hx.L("foreignraw", hx.I(int64(status)), hx.S(ctype), hx.S(body)))
}

func localRoot(t *davx.Node, suffix string) hx.Sx { return sx(hx.L("local", t.Sx(), hx.S(suffix))) }

func patString(n int) string {
	b := make([]byte, n)
	for i := range b {
		b[i] = 'a' + patByte(i)%26
	}
	return string(b)
}

var auditLens = []int{512, 1024, 4095, 4096, 4097, 32767, 32768, 32769, 65536}

// endpoints written in unclean but equivalent (or at least legal) ways
var uncleanEndpoints = []string{"http://h//p", "http://h/p/./q", "http://h/p/x/../q/", "HTTP://H/p", "http://h:80/p/", "http://h/p%2Fq",
	"http://h/p?x=1#f", "http://h/p/q//", "http://user:pw@h/p", "http://h/%70"}

func generateAudit(rng *hx.Rand, thorough bool, emit func(tr, ep string, be, op hx.Sx),
	emitSeq func(tr, ep string, be hx.Sx, ops []hx.Sx), emitOverlap func(batch []caseIn)) {

	file := func(p string, k int) webdav.FileInfo {
		return webdav.FileInfo{Path: p, Size: sizes[k%len(sizes)], ModTime: inZone(mkTime(times[(k+1)%len(times)].sec, times[(k+1)%len(times)].ns), zones[k%len(zones)]),
			MIMEType: hostileMimes[k%len(hostileMimes)], ETag: hostile[k%len(hostile)]}
	}
	okStat := func(p string, fi webdav.FileInfo) string { return hx.L("stat", hx.S(p), hx.L("ok", fiL(fi))) }
	listing := func(p string, rec bool, l ...webdav.FileInfo) string {
		items := []string{"ok"}
		for _, fi := range l {
			items = append(items, fiL(fi))
		}
		return hx.L("readdir", hx.S(p), hx.B(rec), hx.L(items...))
	}

	// ---- 1/2/3: histories through ONE client, ONE handler, ONE backend value
	seqNo := 0
	for ei, ep := range append(append([]string{}, endpoints...), uncleanEndpoints[:4]...) {
		at := func(rel string) string { return targetOf(ep, rel) }
		a, a2, b := file(at("a"), ei), file(at("a2"), ei+3), webdav.FileInfo{Path: at("b"), IsDir: true, ModTime: mkTime(1700000000, 1)}
		a.Size, a2.Size = 7000, 5 // what Open serves
		if ei%3 != 0 {
			a.MIMEType, a2.MIMEType = "text/plain", "application/x-thing; v=\"1\"" // header-safe: these histories also run over a socket
		}
		k1, k2, k3 := file(at("b/k1"), ei+1), file(at("b/k2 x"), ei+2), file(at("b/sub/k3"), ei+5)
		sub := webdav.FileInfo{Path: at("b/sub"), IsDir: true, ModTime: mkTime(5, 0)}
		be := memBackend(ei%2 == 0,
			okStat(at("a"), a), okStat(at("a2"), a2), okStat(at("b"), b), hx.L("stat", hx.S(at("gone")), "(err http 404)"),
			listing(at("b"), false, b, k1, k2, sub), listing(at("b"), true, b, k1, k2, sub, k3),
			hx.L("open", hx.S(at("a")), hx.L("ok", hx.S(strings.Repeat("0123456789", 700)))),
			hx.L("open", hx.S(at("a2")), hx.L("ok", hx.S("short"))),
			"(create (ok 1))", "(copy (ok 0))", "(move (err exist))", "(rm (ok))", "(mkdir (err http 405))")
		seqs := [][]hx.Sx{
			{opStat("a"), opStat("b"), opStat("a"), opStat("gone"), opStat("a2"), opStat("a")},
			{opReadDir("b", true), opReadDir("b", false), opStat("a"), opReadDir("b", true), opReadDir("a", false)},
			{opOpen("a"), opStat("a"), opOpen("a2"), opOpen("a"), opOpen("gone"), opOpen("a2")},
			{opCreateSched("x", []int{7, 40000}), opCreateSched("y", []int{1}), opCreateSched("x", []int{5000, 3, 5000}), opCreate("z", nil), opCreateSched("x", []int{100, 100})},
			{opCopy("a", "b", false, false), opCopy("a", "b", true, true), opCopy("a", "c", false, true), opCopy("a", "b", false, false),
				opMove("a", "b", true), opMove("a", "c", false), opMove("a", "b", false), opCopy("a", "d", true, false)},
			{opMkdir("m"), opRm("m"), opMkdir("m/n"), opStat("a"), opRm("gone")},
			{opStat("a"), opCreateSched("x", []int{10, 5000}), opReadDir("b", false), opCopy("a", "c", true, false), opOpen("a2"), opStat("a")},
		}
		for _, ops := range seqs {
			seqNo++
			emitSeq(trModes[seqNo%len(trModes)], ep, be, ops)
			if seqNo%5 == 0 && ei%3 != 0 {
				emitSeq("t", ep, be, ops)
			}
		}
	}
	// on disk: the state carries over from step to step
	for ni, n := range hostile {
		if !thorough && ni%6 != 0 {
			continue
		}
		ep := endpoints[ni%len(endpoints)]
		be := local(wrap(ep, baseTree(n)))
		seqs := [][]hx.Sx{
			{opStat(n), opCreate(n, []string{"new ", "content"}), opStat(n), opOpen(n), opReadDir("", false), opRm(n), opStat(n), opReadDir("", false)},
			{opMkdir("d2"), opCopy("d", "d2/x", false, false), opReadDir("d2", true), opMove("d2/x", "d3", false), opReadDir("", true), opRm("d3"), opReadDir("", true)},
			{opCreate("new-"+n, []string{"one"}), opCreate("new-"+n, []string{"t", "wo"}), opOpen("new-" + n), opCopy("new-"+n, "copy-"+n, true, true),
				opCopy("new-"+n, "copy-"+n, false, true), opCopy("new-"+n, "copy-"+n, false, false), opOpen("copy-" + n), opMove("copy-"+n, n, false), opOpen(n)},
		}
		for k, ops := range seqs {
			emitSeq(trModes[(ni+k)%len(trModes)], ep, be, ops)
		}
	}
	// random histories
	nSeq := 150
	if thorough {
		nSeq = 2000
	}
	for i := 0; i < nSeq; i++ {
		ep := rng.Pick(endpoints)
		k := 2 + rng.Intn(4)
		if rng.Bool() {
			t := randTree(rng, 3)
			var rels []string
			allRel(t, "", &rels)
			var ops []hx.Sx
			for j := 0; j < k; j++ {
				ops = append(ops, randLocalOp(rng, ep, rels))
			}
			emitSeq(trModes[rng.Intn(len(trModes))], ep, local(wrap(ep, t)), ops)
			continue
		}
		var entries []string
		var ops []hx.Sx
		forceEp, forceMem = ep, true
		for j := 0; j < k; j++ {
			emitRandom(rng, func(tr, ep string, be, op hx.Sx) {
				for _, e := range be.Args()[1:] {
					entries = append(entries, e.String())
				}
				ops = append(ops, op)
			})
		}
		forceEp, forceMem = "", false
		emitSeq(trModes[rng.Intn(len(trModes))], ep, memBackend(rng.Bool(), entries...), ops)
	}

	// ---- 7: overlapping calls through one client and one handler
	nBatch := 12
	if thorough {
		nBatch = 150
	}
	for bno := 0; bno < nBatch; bno++ {
		ep := "http://h/"
		var batch []caseIn
		for i := 0; i < 24; i++ {
			ns := fmt.Sprintf("k%d", i)
			name := ns + "/" + hostile[(bno*24+i)%len(hostile)]
			tgt := "/" + name
			var be, op hx.Sx
			switch (i + bno) % 8 {
			case 0, 1:
				be, op = memBackend(false, okStat(tgt, file(tgt, bno+i))), opStat(name)
			case 2:
				d := webdav.FileInfo{Path: tgt, IsDir: true, ModTime: mkTime(int64(i), 0)}
				be = memBackend(false, okStat(tgt, d), listing(tgt, i%2 == 0, d, file(tgt+"/x", i), file(tgt+"/y", i+1), file(tgt+"/"+ns, i+2)))
				op = opReadDir(name, i%2 == 0)
			case 3:
				body := strings.Repeat(fmt.Sprintf("<%d:%d>", bno, i), 200+37*i)
				fi := file(tgt, i)
				fi.Size = int64(len(body))
				be, op = memBackend(i%2 == 1, okStat(tgt, fi), hx.L("open", hx.S(tgt), hx.L("ok", hx.S(body)))), opOpen(name)
			case 4, 5:
				be, op = memBackend(false, "(create (ok 1))"), opCreateSched(name, []int{i, 4096 + i, 7, 9000})
			case 6:
				be, op = memBackend(false, "(copy (ok 1))", "(move (ok 0))"), opCopy(name, ns+"/dest", i%2 == 0, i%3 == 0)
			default:
				be, op = memBackend(false, "(copy (ok 1))", "(move (ok 0))"), opMove(name, ns+"/dest", i%2 == 0)
			}
			batch = append(batch, caseIn{transport: "o", endpoint: ep, backend: be, op: op})
		}
		emitOverlap(batch)
	}

	// ---- 5: sizes around the buffers of net/http, bufio, io.Copy and encoding/xml
	ep := "http://h/p/"
	for li, n := range auditLens {
		if !thorough && n > 32769 {
			continue
		}
		long := patString(n)
		tr := trModes[li%len(trModes)]
		fe := file("/p/f", li)
		fe.ETag = long
		emit(tr, ep, memBackend(false, okStat("/p/f", fe)), opStat("f"))
		fm := file("/p/f", li)
		fm.MIMEType = "text/" + long
		emit(tr, ep, memBackend(false, okStat("/p/f", fm)), opStat("f"))
		// long names (request line, href, Destination header): the model of path.Clean is
		// quadratic in the length of a segment, so names stop at 4 KiB (8 KiB thorough)
		if n > 4097 {
			if !thorough || n > 32767 {
				continue
			}
			long = long[:8192]
		}
		p := "/p/" + long
		emit(tr, ep, memBackend(false, okStat(p, file(p, li))), opStat(long))
		emit(tr, ep, memBackend(false, "(copy (ok 1))", "(move (ok 1))"), opCopy("s", long, false, false))
		emit(tr, ep, memBackend(false, "(copy (ok 1))", "(move (ok 1))"), opMove(long, "/p/"+long+"/x", true))
	}
	for bi, n := range append([]int{0, 1, 511, 513}, append(auditLens, 100000)...) {
		body := patString(n)
		fi := file("/p/f", bi)
		fi.Size = int64(n)
		for _, seek := range []bool{false, true} {
			emit(trModes[(bi+1)%len(trModes)], ep, memBackend(seek, okStat("/p/f", fi), hx.L("open", hx.S("/p/f"), hx.L("ok", hx.S(body)))), opOpen("f"))
		}
		if bi%4 == 0 {
			emit("t", ep, memBackend(false, okStat("/p/f", fi), hx.L("open", hx.S("/p/f"), hx.L("ok", hx.S(body)))), opOpen("f"))
		}
	}
	counts := []int{0, 1, 2, 100, 1000}
	if thorough {
		counts = append(counts, 3000)
	}
	for ci, n := range counts {
		d := webdav.FileInfo{Path: "/p/d", IsDir: true, ModTime: mkTime(9, 0)}
		l := []webdav.FileInfo{}
		for i := 0; i < n; i++ {
			l = append(l, file(fmt.Sprintf("/p/d/m%05d", i), i))
		}
		emit(trModes[ci%len(trModes)], ep, memBackend(false, okStat("/p/d", d), listing("/p/d", true, l...)), opReadDir("d", true))
	}
	wide := davx.Dir()
	for i := 0; i < 300; i++ {
		wide.Put(fmt.Sprintf("f%03d.txt", i), fileAt(fmt.Sprint(i), int64(1600000000000000000+i)))
	}
	emit("i", ep, local(wrap(ep, wide)), opReadDir("", false))
	emit("d", ep, local(wrap(ep, davx.Dir("w", wide))), opReadDir("", true))

	// ---- 8: unclean endpoints and root directory, special directory entries
	for ui, uep := range uncleanEndpoints {
		be := local(wrap(uep, baseTree("n m")))
		tr := trModes[ui%len(trModes)]
		for _, f := range []string{"n m", "", "d", "d/sub/f.txt", path.Join(epPathOf(uep), "z.html"), "../outside", "missing"} {
			emit(tr, uep, be, opStat(f))
			emit(tr, uep, be, opReadDir(f, ui%2 == 0))
		}
		emit(tr, uep, be, opOpen("n m"))
		emit(tr, uep, be, opCreate("new", []string{"x"}))
		emit(tr, uep, be, opCopy("n m", "copy", false, false))
		emit(tr, uep, be, opMove("n m", path.Join(epPathOf(uep), "moved"), true))
		emit(tr, uep, be, opMkdir("dir"))
		emit(tr, uep, be, opRm("d"))
		tgt := targetOf(uep, "f")
		emit(tr, uep, memBackend(false, okStat(tgt, file(tgt, ui)), "(copy (ok 1))", "(move (ok 1))"), opStat("f"))
		emit(tr, uep, memBackend(false, "(copy (ok 1))", "(move (ok 1))"), opCopy("f", "g", true, true))
	}
	for si, suffix := range []string{"/", "/.", "//", "/./", "/../root"} {
		e := endpoints[si%len(endpoints)]
		be := localRoot(wrap(e, baseTree("a")), suffix)
		emit("i", e, be, opStat("a"))
		emit("i", e, be, opReadDir("", true))
		emit("i", e, be, opOpen("d/a"))
		emit("i", e, be, opCreate("new", []string{"ab", "c"}))
		emit("i", e, be, opMove("a", "d/e/a", false))
	}
	// symbolic links (to a file, to a directory, dangling, upwards) and a FIFO in a listed
	// directory: outside the tree model; the client must still report what the backend reports
	special := sx(hx.L("localx", wrap("http://h/", baseTree("a")).Sx(),
		hx.L("sym", hx.S("ln-file"), hx.S("z.html")), hx.L("sym", hx.S("ln-dir"), hx.S("d")),
		hx.L("sym", hx.S("ln-dangling"), hx.S("nowhere")), hx.L("sym", hx.S("d/ln-up"), hx.S("..")),
		hx.L("fifo", hx.S("pipe"))))
	for _, f := range []string{"", "d", "ln-file", "ln-dir", "ln-dangling", "pipe", "ln-dir/a", "d/ln-up/a"} {
		emit("i", "http://h/", special, opStat(f))
		emit("i", "http://h/", special, opReadDir(f, false))
		emit("i", "http://h/", special, opReadDir(f, true))
	}

	// ---- 4/6: answers that are not multistatus documents: every status class, content
	// types in several spellings, bodies of every kind (Client.Do reads them for the error)
	ctypes := []string{"", "text/plain", "TEXT/PLAIN; charset=utf-8", "text/xml", "application/xml; charset=\"utf-8\"", "APPLICATION/XML",
		"text/html", "garbage;;;", "application/octet-stream", " text/plain", "text/xml;"}
	bodies := []string{"", "not found", strings.Repeat("long text ", 300), "<?xml version=\"1.0\"?><error xmlns=\"DAV:\"><lock-token-submitted/></error>",
		"<error", "   \n", "<a><b></a>", "\xff\xfe\x00", strings.Repeat("x", 1024), strings.Repeat("x", 1025)}
	statuses := []int{200, 201, 204, 206, 299, 300, 301, 304, 400, 401, 404, 412, 423, 500, 503, 507, 600, 999}
	ops := []hx.Sx{opStat("f"), opReadDir("f", true), opOpen("f"), opCreate("f", []string{"abc"}), opRm("f"), opMkdir("f"),
		opCopy("f", "g", false, false), opMove("f", "g", true)}
	k := 0
	for _, st := range statuses {
		for ci, ct := range ctypes {
			for bi, body := range bodies {
				k++
				if !thorough && (ci+bi+st)%4 != 0 {
					continue
				}
				if (st == 204 || st == 304) && body != "" {
					continue // net/http does not send a body with these
				}
				emit(trModes[k%len(trModes)], ep, foreignRaw(st, ct, body), ops[k%len(ops)])
			}
		}
	}
	emit("t", ep, foreignRaw(404, "text/plain", "gone"), opStat("f"))
	emit("t", ep, foreignRaw(500, "application/xml", "<error"), opMkdir("f"))
	emit("i", ep, foreignRaw(207, "application/xml", `<?xml version="1.0"?><multistatus xmlns="DAV:"/>`), opStat("f"))
	emit("i", ep, foreignRaw(207, "application/xml", `<?xml version="1.0"?><multistatus xmlns="DAV:"/>`), opReadDir("f", false))
}
