// Command c06 runs the real caldav.Match and caldav.Filter on calendar objects decoded by
// go-ical from generated iCalendar text, over exhaustive small universes, time grids and
// seeded random inputs, and records what they returned.
//
// Case line:   <input> <derived> <observation>
//
//	input       (match <cf> <obj> [<zone>]) | (filter <cf>|nil (<obj>...)) | (seq <cf> (<obj>...))
//	            zone: the bounds of the query are put into that zone (same instants); seq: ONE query
//	            value and ONE slice of objects through Filter, Match on every object, Filter on the
//	            first half, Filter again, then the same calls from four goroutines at once
//	obj         (ics <hex text>) | (nil) | (nilcomp)
//	cf          (cf <name> <nd> <start> <end> (<pf>...) (<cf>...))      start/end: - or Unix seconds
//	pf          (pf <name> <nd> <start> <end> <tm> (<af>...))           tm: - or (tm <text> <negate>)
//	af          (af <name> <nd> <tm>)
//	derived     (trees <tree>|nil ...)   what go-ical made of each object, with the time values
//	            its accessors yield (the model's inputs):
//	tree        (c <name> (<prop>...) <rec> (<tree>...))
//	prop        (p <name> ((<param> <value>...)...) <value> <time> <dur>)
//	            time: b | (i <unix>) | (d <unix>)     Prop.DateTime(UTC), d iff ValueType()==DATE
//	            dur:  b | (k <seconds>)               Prop.Duration()
//	rec         n | e | (r (<unix>...) <horizon> (<unix>...))
//	            Component.RecurrenceSet: nil / error / what the real rset.Iterator() yields, in
//	            the order it yields it; the horizon: - when that is everything, else (a rule
//	            without COUNT) the instant up to which the iterator was followed; then the
//	            instance starts computed independently from the RRULE and EXDATE texts
//	            (DTSTART + k*INTERVAL*period, k < COUNT, up to the horizon, minus the EXDATEs)
//	observation (ok 0|1) | (err) | (panic)                       for match
//	            (ok (<index>...) <unmodified 0|1>) | (err) | (panic)   for filter
//	            (modified query|object)   the call changed one of its arguments (match, filter)
//	            (crash)   the process died in the call (made in a child process for long lists with
//	                      an object without data, where Filter is expected to panic)
//	            (steps <filter obs> (<match obs>...) <filter obs, first half> <filter obs, again>
//	                   <result of step 1 still what it was> <the concurrent calls answered the same>
//	                   <query and objects unchanged>)               for seq
//
// Replay re-executes the <input> of each given line.
package main

import (
	"flag"
	"fmt"
	"io"
	"os"
	osexec "os/exec"
	"reflect"
	"runtime"
	"sort"
	"strconv"
	"strings"
	"sync"
	"time"

	"github.com/emersion/go-ical"
	"github.com/emersion/go-webdav/caldav"

	"verifharness/hx"
)

// ---------------------------------------------------------------- filters <-> sexp

func optTime(t time.Time) string {
	if t.IsZero() {
		return "-"
	}
	return hx.I(t.Unix())
}

func tmSx(tm *caldav.TextMatch) string {
	if tm == nil {
		return "-"
	}
	return hx.L("tm", hx.S(tm.Text), hx.B(tm.NegateCondition))
}

func afSx(f caldav.ParamFilter) string {
	return hx.L("af", hx.S(f.Name), hx.B(f.IsNotDefined), tmSx(f.TextMatch))
}

func pfSx(f caldav.PropFilter) string {
	var afs []string
	for _, a := range f.ParamFilter {
		afs = append(afs, afSx(a))
	}
	return hx.L("pf", hx.S(f.Name), hx.B(f.IsNotDefined), optTime(f.Start), optTime(f.End), tmSx(f.TextMatch), hx.L(afs...))
}

func cfSx(f caldav.CompFilter) string {
	var pfs, cfs []string
	for _, p := range f.Props {
		pfs = append(pfs, pfSx(p))
	}
	for _, c := range f.Comps {
		cfs = append(cfs, cfSx(c))
	}
	return hx.L("cf", hx.S(f.Name), hx.B(f.IsNotDefined), optTime(f.Start), optTime(f.End), hx.L(pfs...), hx.L(cfs...))
}

func parseTime(x hx.Sx) time.Time {
	if x.Atom == "-" {
		return time.Time{}
	}
	return time.Unix(x.Int(), 0).UTC()
}

func parseTM(x hx.Sx) *caldav.TextMatch {
	if !x.IsList {
		return nil
	}
	a := x.Args()
	return &caldav.TextMatch{Text: a[0].Str(), NegateCondition: a[1].Bool()}
}

func parseAF(x hx.Sx) caldav.ParamFilter {
	a := x.Args()
	return caldav.ParamFilter{Name: a[0].Str(), IsNotDefined: a[1].Bool(), TextMatch: parseTM(a[2])}
}

func parsePF(x hx.Sx) caldav.PropFilter {
	a := x.Args()
	f := caldav.PropFilter{Name: a[0].Str(), IsNotDefined: a[1].Bool(), Start: parseTime(a[2]), End: parseTime(a[3]), TextMatch: parseTM(a[4])}
	for _, y := range a[5].List {
		f.ParamFilter = append(f.ParamFilter, parseAF(y))
	}
	return f
}

func parseCF(x hx.Sx) caldav.CompFilter {
	a := x.Args()
	f := caldav.CompFilter{Name: a[0].Str(), IsNotDefined: a[1].Bool(), Start: parseTime(a[2]), End: parseTime(a[3])}
	for _, y := range a[4].List {
		f.Props = append(f.Props, parsePF(y))
	}
	for _, y := range a[5].List {
		f.Comps = append(f.Comps, parseCF(y))
	}
	return f
}

type trange struct{ s, e time.Time }

// every comp-filter time range of the query (the horizon up to which a rule without end is followed lies after all of them)
func collectRanges(f caldav.CompFilter, acc *[]trange) {
	if !f.Start.IsZero() || !f.End.IsZero() {
		tr := trange{f.Start, f.End}
		dup := false
		for _, o := range *acc {
			if o.s.Equal(tr.s) && o.e.Equal(tr.e) {
				dup = true
			}
		}
		if !dup {
			*acc = append(*acc, tr)
		}
	}
	for _, c := range f.Comps {
		collectRanges(c, acc)
	}
}

// ---------------------------------------------------------------- calendar text

type gparam struct {
	name   string
	values []string
}
type gprop struct {
	name   string
	params []gparam
	value  string
}
type gcomp struct {
	name     string
	props    []gprop
	children []gcomp
}

func quoteParam(v string) string {
	if strings.ContainsAny(v, ":;,") {
		return "\"" + v + "\""
	}
	return v
}

func (c gcomp) write(sb *strings.Builder) {
	sb.WriteString("BEGIN:" + c.name + "\r\n")
	for _, p := range c.props {
		sb.WriteString(p.name)
		for _, q := range p.params {
			sb.WriteString(";" + q.name + "=")
			for i, v := range q.values {
				if i > 0 {
					sb.WriteString(",")
				}
				sb.WriteString(quoteParam(v))
			}
		}
		sb.WriteString(":" + p.value + "\r\n")
	}
	for _, ch := range c.children {
		ch.write(sb)
	}
	sb.WriteString("END:" + c.name + "\r\n")
}

func (c gcomp) text() string {
	var sb strings.Builder
	c.write(&sb)
	return sb.String()
}

func P(name, value string, params ...gparam) gprop { return gprop{name: name, value: value, params: params} }
func Q(name string, values ...string) gparam     { return gparam{name: name, values: values} }

const utcLayout = "20060102T150405Z"

func utc(z int64) string { return time.Unix(z, 0).UTC().Format(utcLayout) }
func day(z int64) string { return time.Unix(z, 0).UTC().Format("20060102") }

func durText(d int64) string {
	s := ""
	if d < 0 {
		s = "-"
		d = -d
	}
	switch {
	case d == 0:
		return s + "PT0S"
	case d%86400 == 0:
		return s + "P" + strconv.FormatInt(d/86400, 10) + "D"
	case d%3600 == 0:
		return s + "PT" + strconv.FormatInt(d/3600, 10) + "H"
	default:
		return s + "PT" + strconv.FormatInt(d, 10) + "S"
	}
}

// ---------------------------------------------------------------- derived trees

func timeSx(p *ical.Prop, loc *time.Location) string {
	t, err := p.DateTime(loc)
	if err != nil {
		return "b"
	}
	if p.ValueType() == ical.ValueDate {
		return hx.L("d", hx.I(t.Unix()))
	}
	return hx.L("i", hx.I(t.Unix()))
}

func durSx(p *ical.Prop) string {
	d, err := p.Duration()
	if err != nil || d%time.Second != 0 {
		return "b"
	}
	return hx.L("k", hx.I(int64(d/time.Second)))
}

// independentInstances computes the instance starts of the bounded family
// (FREQ=DAILY|WEEKLY[;BYDAY=..]|MONTHLY[;COUNT<=10][;INTERVAL=n]) without rrule-go, as
// RFC 5545 defines recurrence: on the wall clock of DTSTART's zone.  The k-th candidate
// is DTSTART's local date moved by k*INTERVAL days, weeks (BYDAY: the listed weekdays of
// those weeks, weeks starting on Monday, from DTSTART on) or months (a day the month does
// not have is skipped), at DTSTART's local time of day, read in DTSTART's location with
// time.Date.  A rule without COUNT does not end and is followed up to the horizon.
// Not in the family (ok = false): anything else in the rule, a BYDAY that does not list
// DTSTART's weekday, and a local time of day that some candidate date does not have
// (the hour skipped when daylight saving time starts).
func independentInstances(rule string, dt time.Time, horizon int64) (out []int64, unending bool, ok bool) {
	var freq string
	var interval, count int64 = 1, 0
	var byday []int // 0 = Monday
	for _, part := range strings.Split(rule, ";") {
		kv := strings.SplitN(part, "=", 2)
		if len(kv) != 2 {
			return nil, false, false
		}
		switch strings.ToUpper(kv[0]) {
		case "FREQ":
			switch f := strings.ToUpper(kv[1]); f {
			case "DAILY", "WEEKLY", "MONTHLY":
				freq = f
			default:
				return nil, false, false
			}
		case "COUNT":
			n, err := strconv.ParseInt(kv[1], 10, 64)
			if err != nil || n < 1 || n > 10 {
				return nil, false, false
			}
			count = n
		case "INTERVAL":
			n, err := strconv.ParseInt(kv[1], 10, 64)
			if err != nil || n < 1 || n > 1000 {
				return nil, false, false
			}
			interval = n
		case "BYDAY":
			for _, d := range strings.Split(strings.ToUpper(kv[1]), ",") {
				i := strings.Index("MO,TU,WE,TH,FR,SA,SU", d)
				if len(d) != 2 || i < 0 || i%3 != 0 {
					return nil, false, false
				}
				byday = append(byday, i/3)
			}
		default:
			return nil, false, false
		}
	}
	if freq == "" || (byday != nil && freq != "WEEKLY") {
		return nil, false, false
	}
	loc := dt.Location()
	y, mo, d := dt.Date()
	hh, mi, ss := dt.Clock()
	at := func(year int, month time.Month, day int) (time.Time, bool) {
		t := time.Date(year, month, day, hh, mi, ss, 0, loc)
		h2, m2, s2 := t.Clock()
		return t, h2 == hh && m2 == mi && s2 == ss
	}
	wd := (int(dt.Weekday()) + 6) % 7 // Monday = 0
	if byday != nil {
		sort.Ints(byday)
		listed := false
		for _, b := range byday {
			if b == wd {
				listed = true
			}
		}
		if !listed {
			return nil, false, false
		}
	}
	n := int(interval)
	done := func() bool { return count > 0 && int64(len(out)) >= count }
	add := func(t time.Time, clockOK bool) bool { // false: stop
		if !clockOK {
			ok = false
			return false
		}
		if count == 0 && t.Unix() > horizon {
			return false
		}
		out = append(out, t.Unix())
		return !done()
	}
	ok = true
	for k := 0; k < 100000 && ok; k++ {
		more := true
		switch {
		case freq == "DAILY":
			more = add(at(y, mo, d+k*n))
		case freq == "WEEKLY" && byday == nil:
			more = add(at(y, mo, d+7*k*n))
		case freq == "WEEKLY":
			for _, b := range byday {
				day := d - wd + 7*k*n + b
				if day < d {
					continue
				}
				if more = add(at(y, mo, day)); !more {
					break
				}
			}
		case freq == "MONTHLY":
			t, clockOK := at(y, mo+time.Month(k*n), d)
			if t.Day() != d {
				// the month has no such day
				more = !(count == 0 && t.Unix() > horizon)
			} else {
				more = add(t, clockOK)
			}
		}
		if !more {
			break
		}
	}
	if !ok {
		return nil, false, false
	}
	return out, count == 0, true
}

var outsideFamily int64
var ofMu sync.Mutex

const horizonMargin = 60 * 86400

func recSx(c *ical.Component, trs []trange, loc *time.Location) string {
	rset, err := c.RecurrenceSet(loc)
	if err != nil {
		return "e"
	}
	if rset == nil {
		return "n"
	}
	dt, _ := c.Props.DateTime(ical.PropDateTimeStart, loc)
	// a rule that does not end is followed until well after every bound of the query and DTSTART
	horizon := dt.Unix()
	for _, tr := range trs {
		for _, b := range []time.Time{tr.s, tr.e} {
			if !b.IsZero() && b.Unix() > horizon {
				horizon = b.Unix()
			}
		}
	}
	ropt, _ := c.Props.RecurrenceRule()
	unending := ropt != nil && ropt.Count == 0 && ropt.Until.IsZero()
	// ... by at least two periods of the rule, so that an instance after every bound is listed
	margin := int64(horizonMargin)
	if ropt != nil {
		days := int64(1)
		switch ropt.Freq.String() {
		case "YEARLY":
			days = 366
		case "MONTHLY":
			days = 31
		case "WEEKLY":
			days = 7
		}
		interval := int64(ropt.Interval)
		if interval < 1 {
			interval = 1
		}
		if m := (2*interval*days + 10) * 86400; m > margin {
			margin = m
		}
	}
	horizon += margin

	// what the real iterator yields
	var seq []int64
	it := rset.Iterator()
	for i := 0; unending || i < 4096; i++ {
		t, more := it()
		if !more {
			unending = false // it ended after all: seq is everything
			break
		}
		if unending && t.Unix() > horizon {
			break
		}
		seq = append(seq, t.Unix())
	}

	// the instances, computed independently
	insts, insUnending, ok := independentInstances(c.Props.Get(ical.PropRecurrenceRule).Value, dt, horizon)
	if c.Props.Get(ical.PropDateTimeStart) == nil {
		// not in the family: rrule-go starts a rule without DTSTART at time.Now()
		ok = false
	}
	if ok && insUnending != unending {
		ok = false
	}
	if ok {
		// EXDATE: the listed instants are no instances
		var kept []int64
		for _, i := range insts {
			excluded := false
			for _, xp := range c.Props[ical.PropExceptionDates] {
				if x, err := xp.DateTime(loc); err == nil && x.Unix() == i {
					excluded = true
				}
			}
			if !excluded {
				kept = append(kept, i)
			}
		}
		insts = kept
	} else {
		// outside the bounded family: no independent instance list exists; fall back to
		// rrule-go's own enumeration and count the case
		ofMu.Lock()
		outsideFamily++
		ofMu.Unlock()
		insts = seq
	}
	var sl, il []string
	for _, i := range seq {
		sl = append(sl, hx.I(i))
	}
	for _, i := range insts {
		il = append(il, hx.I(i))
	}
	hz := "-"
	if unending {
		hz = hx.I(horizon)
	}
	return hx.L("r", hx.L(sl...), hz, hx.L(il...))
}

func treeSx(c *ical.Component, trs []trange, loc *time.Location) string {
	names := make([]string, 0, len(c.Props))
	for n := range c.Props {
		names = append(names, n)
	}
	sort.Strings(names)
	var props []string
	for _, n := range names {
		l := c.Props[n]
		for i := range l {
			p := &l[i]
			pn := make([]string, 0, len(p.Params))
			for k := range p.Params {
				pn = append(pn, k)
			}
			sort.Strings(pn)
			var params []string
			for _, k := range pn {
				items := []string{hx.S(k)}
				for _, v := range p.Params[k] {
					items = append(items, hx.S(v))
				}
				params = append(params, hx.L(items...))
			}
			// the map key is what Props.Get looks up; go-ical stores a property under its Name
			props = append(props, hx.L("p", hx.S(n), hx.L(params...), hx.S(p.Value), timeSx(p, loc), durSx(p)))
		}
	}
	var children []string
	for _, ch := range c.Children {
		children = append(children, treeSx(ch, trs, loc))
	}
	return hx.L("c", hx.S(c.Name), hx.L(props...), recSx(c, trs, loc), hx.L(children...))
}

// dump renders everything of a calendar object that a caller could see modified.
func dumpComp(sb *strings.Builder, c *ical.Component) {
	if c == nil {
		sb.WriteString("<nil>")
		return
	}
	sb.WriteString("(" + c.Name)
	names := make([]string, 0, len(c.Props))
	for n := range c.Props {
		names = append(names, n)
	}
	sort.Strings(names)
	for _, n := range names {
		for _, p := range c.Props[n] {
			sb.WriteString(" " + n + "/" + p.Name + "=" + strconv.Quote(p.Value))
			pn := make([]string, 0, len(p.Params))
			for k := range p.Params {
				pn = append(pn, k)
			}
			sort.Strings(pn)
			for _, k := range pn {
				sb.WriteString(fmt.Sprintf(";%s=%q", k, p.Params[k]))
			}
		}
	}
	for _, ch := range c.Children {
		dumpComp(sb, ch)
	}
	sb.WriteString(")")
}

func dumpObj(co *caldav.CalendarObject) string {
	var sb strings.Builder
	sb.WriteString(fmt.Sprintf("%q %d %d %q ", co.Path, co.ModTime.UnixNano(), co.ContentLength, co.ETag))
	if co.Data == nil {
		sb.WriteString("<nildata>")
	} else {
		dumpComp(&sb, co.Data.Component)
	}
	return sb.String()
}

// ---------------------------------------------------------------- executing one case

type object struct {
	co  caldav.CalendarObject
	sx  string
	bad bool // text that go-ical does not decode: the case is dropped
}

func buildObj(x hx.Sx, idx int) object {
	o := object{sx: x.String()}
	o.co = caldav.CalendarObject{Path: "/" + strconv.Itoa(idx), ModTime: time.Unix(1600000000+int64(idx), 0).UTC(), ContentLength: int64(10 + idx), ETag: "e" + strconv.Itoa(idx)}
	switch x.Head() {
	case "nil":
	case "nilcomp":
		o.co.Data = &ical.Calendar{}
	case "ics":
		cal, err := ical.NewDecoder(strings.NewReader(x.Args()[0].Str())).Decode()
		if err != nil {
			o.bad = true
			return o
		}
		o.co.Data = cal
	default:
		panic("harness: bad object " + x.String())
	}
	return o
}

func objTree(o *object, trs []trange, loc *time.Location) string {
	if o.co.Data == nil || o.co.Data.Component == nil {
		return "nil"
	}
	return treeSx(o.co.Data.Component, trs, loc)
}

// inLoc puts every bound of the query into the zone: the instants are the same, but match.go
// hands the zone of a bound to go-ical, which reads floating times and DATE values in it.
func inLoc(f *caldav.CompFilter, loc *time.Location) {
	mv := func(t *time.Time) {
		if !t.IsZero() {
			*t = t.In(loc)
		}
	}
	mv(&f.Start)
	mv(&f.End)
	for i := range f.Props {
		mv(&f.Props[i].Start)
		mv(&f.Props[i].End)
	}
	for i := range f.Comps {
		inLoc(&f.Comps[i], loc)
	}
}

var zoneCache sync.Map

func zoneOf(name string) *time.Location {
	if l, ok := zoneCache.Load(name); ok {
		return l.(*time.Location)
	}
	l := loadZone(name)
	zoneCache.Store(name, l)
	return l
}

func loadZone(name string) *time.Location {
	if strings.HasPrefix(name, "fixed") {
		secs, err := strconv.Atoi(strings.TrimPrefix(name, "fixed"))
		if err != nil {
			panic("harness: bad zone " + name)
		}
		return time.FixedZone(name, secs)
	}
	loc, err := time.LoadLocation(name)
	if err != nil {
		panic("harness: time zone database: " + err.Error())
	}
	return loc
}

func runMatch(f caldav.CompFilter, co *caldav.CalendarObject) (obs string) {
	defer func() {
		if r := recover(); r != nil {
			obs = "(panic)"
		}
	}()
	ok, err := caldav.Match(f, co)
	if err != nil {
		return "(err)"
	}
	return hx.L("ok", hx.B(ok))
}

func runFilter(q *caldav.CalendarQuery, cos []caldav.CalendarObject) string {
	obs, _ := runFilterRes(q, cos)
	return obs
}

// runFilterRes also hands out what Filter returned (kept by the sequences and looked at again later)
func runFilterRes(q *caldav.CalendarQuery, cos []caldav.CalendarObject) (obs string, res []caldav.CalendarObject) {
	defer func() {
		if r := recover(); r != nil {
			obs = "(panic)"
		}
	}()
	before := make([]string, len(cos))
	orig := make([]caldav.CalendarObject, len(cos))
	copy(orig, cos)
	for i := range cos {
		before[i] = dumpObj(&cos[i])
	}
	out, err := caldav.Filter(q, cos)
	if err != nil {
		return "(err)", nil
	}
	unmod := true
	for i := range cos {
		if dumpObj(&cos[i]) != before[i] || !reflect.DeepEqual(cos[i], orig[i]) || cos[i].Data != orig[i].Data {
			unmod = false
		}
	}
	var idx []string
	for i := range out {
		n, perr := strconv.Atoi(strings.TrimPrefix(out[i].Path, "/"))
		if perr != nil || n < 0 || n >= len(orig) {
			unmod = false
			idx = append(idx, "999999")
			continue
		}
		idx = append(idx, strconv.Itoa(n))
		if out[i].Data != orig[n].Data || !reflect.DeepEqual(out[i], orig[n]) || dumpObj(&out[i]) != before[n] {
			unmod = false
		}
	}
	return hx.L("ok", hx.L(idx...), hx.B(unmod)), out
}

var recovered int64

// isolate: this process hands the calls that may kill it to a child (false in the child)
var isolate = true

func hasNilObject(l hx.Sx) bool {
	for _, o := range l.List {
		if h := o.Head(); h == "nil" || h == "nilcomp" {
			return true
		}
	}
	return false
}

// obsFromChild re-executes the input in a child process (-one: input on stdin, case line on
// stdout) and returns its observation, or (crash) when the child died.
func obsFromChild(in string) string {
	cmd := osexec.Command(os.Args[0], "-one")
	cmd.Stdin = strings.NewReader(in + "\n")
	outb, err := cmd.Output()
	if err != nil {
		return "(crash)"
	}
	items, perr := hx.Parse(strings.TrimSpace(string(outb)))
	if perr != nil || len(items) != 3 {
		return "(crash)"
	}
	return items[2].String()
}

// exec runs one input; "" when an object's text does not decode (or go-ical panics on it).
func exec(in string) (out string) {
	defer func() {
		// only calls into go-ical made to prepare the inputs can end up here: every call into
		// /repo runs under its own recover and is an observation
		if r := recover(); r != nil {
			ofMu.Lock()
			recovered++
			ofMu.Unlock()
			fmt.Fprintf(os.Stderr, "c06: recovered while preparing an input: %v\n", r)
			out = ""
		}
	}()
	x := hx.MustParse(in)[0]
	switch x.Head() {
	case "match":
		// (match <cf> <obj> [<zone of the bounds>])
		a := x.Args()
		loc := time.UTC
		if len(a) > 2 {
			loc = zoneOf(a[2].Str())
		}
		f := parseCF(a[0])
		fcopy := parseCF(a[0])
		inLoc(&f, loc)
		inLoc(&fcopy, loc)
		o := buildObj(a[1], 0)
		if o.bad {
			return ""
		}
		var trs []trange
		collectRanges(f, &trs)
		tree := objTree(&o, trs, loc)
		before, orig := dumpObj(&o.co), o.co
		obs := runMatch(f, &o.co)
		// the arguments are the caller's: Match must leave them as they were
		if !reflect.DeepEqual(f, fcopy) {
			obs = "(modified query)"
		} else if dumpObj(&o.co) != before || o.co.Data != orig.Data || !reflect.DeepEqual(o.co, orig) {
			obs = "(modified object)"
		}
		return in + " " + hx.L("trees", tree) + " " + obs
	case "filter":
		a := x.Args()
		var q, qcopy *caldav.CalendarQuery
		var trs []trange
		if a[0].IsList {
			q = &caldav.CalendarQuery{CompFilter: parseCF(a[0])}
			qcopy = &caldav.CalendarQuery{CompFilter: parseCF(a[0])}
			collectRanges(q.CompFilter, &trs)
		}
		var cos []caldav.CalendarObject
		trees := []string{"trees"}
		for i, ox := range a[1].List {
			o := buildObj(ox, i)
			if o.bad {
				return ""
			}
			trees = append(trees, objTree(&o, trs, time.UTC))
			cos = append(cos, o.co)
		}
		obs := ""
		if isolate && len(cos) >= 64 && hasNilObject(a[1]) {
			// Filter is expected to panic here.  Should it do so in a goroutine of its own the
			// caller cannot recover and the process dies: let a child process make the call
			obs = obsFromChild(in)
		} else {
			obs = runFilter(q, cos)
			if !reflect.DeepEqual(q, qcopy) {
				obs = "(modified query)"
			}
		}
		return in + " " + hx.L(trees...) + " " + obs
	case "seq":
		// (seq <cf> (<obj>...)): ONE query value and ONE slice of objects through a sequence of calls
		a := x.Args()
		q := &caldav.CalendarQuery{CompFilter: parseCF(a[0])}
		qcopy := &caldav.CalendarQuery{CompFilter: parseCF(a[0])}
		var trs []trange
		collectRanges(q.CompFilter, &trs)
		var cos []caldav.CalendarObject
		trees := []string{"trees"}
		for i, ox := range a[1].List {
			o := buildObj(ox, i)
			if o.bad {
				return ""
			}
			trees = append(trees, objTree(&o, trs, time.UTC))
			cos = append(cos, o.co)
		}
		before := make([]string, len(cos))
		for i := range cos {
			before[i] = dumpObj(&cos[i])
		}
		matches := func() []string {
			var l []string
			for i := range cos {
				l = append(l, runMatch(q.CompFilter, &cos[i]))
			}
			return l
		}
		// 1. Filter; its result is kept
		o1, r1 := runFilterRes(q, cos)
		kept1 := append([]caldav.CalendarObject(nil), r1...)
		// 2. Match on every object, same query value
		ms := matches()
		// 3. Filter on the first half, 4. Filter on everything again
		o2 := runFilter(q, cos[:len(cos)/2])
		o3 := runFilter(q, cos)
		// the result of step 1 is still what it was
		kept := len(kept1) == len(r1)
		for i := range r1 {
			if i < len(kept1) && (r1[i].Data != kept1[i].Data || !reflect.DeepEqual(r1[i], kept1[i])) {
				kept = false
			}
		}
		// 5. the same calls from four goroutines at once, on the same values
		same := true
		var wg sync.WaitGroup
		var smu sync.Mutex
		for g := 0; g < 4; g++ {
			wg.Add(1)
			go func(g int) {
				defer wg.Done()
				ok := true
				if g%2 == 0 {
					ok = runFilter(q, cos) == o1 && strings.Join(matches(), " ") == strings.Join(ms, " ")
				} else {
					ok = strings.Join(matches(), " ") == strings.Join(ms, " ") && runFilter(q, cos) == o1
				}
				if !ok {
					smu.Lock()
					same = false
					smu.Unlock()
				}
			}(g)
		}
		wg.Wait()
		// the arguments are as they were
		args := reflect.DeepEqual(q, qcopy)
		for i := range cos {
			if dumpObj(&cos[i]) != before[i] {
				args = false
			}
		}
		obs := hx.L("steps", o1, hx.L(ms...), o2, o3, hx.B(kept), hx.B(same), hx.B(args))
		return in + " " + hx.L(trees...) + " " + obs
	}
	panic("harness: bad input " + in)
}

func matchIn(f caldav.CompFilter, text string) string {
	return hx.L("match", cfSx(f), hx.L("ics", hx.S(text)))
}

// ---------------------------------------------------------------- generators

func CFn(name string, nd bool, props []caldav.PropFilter, comps []caldav.CompFilter) caldav.CompFilter {
	return caldav.CompFilter{Name: name, IsNotDefined: nd, Props: props, Comps: comps}
}

func cal(children ...gcomp) gcomp { return gcomp{name: "VCALENDAR", children: children} }

// the exhaustive structural universe (no time ranges): small filter trees x small calendars
func structuralUniverse(thorough bool, emit func(string)) {
	texts := []string{"a", "ab", ""}
	var tms []*caldav.TextMatch
	tms = append(tms, nil)
	for _, t := range texts {
		for _, neg := range []bool{false, true} {
			tms = append(tms, &caldav.TextMatch{Text: t, NegateCondition: neg})
		}
	}
	var afs []caldav.ParamFilter
	for _, tm := range tms {
		afs = append(afs, caldav.ParamFilter{Name: "PARTSTAT", TextMatch: tm})
	}
	afs = append(afs, caldav.ParamFilter{Name: "PARTSTAT", IsNotDefined: true},
		caldav.ParamFilter{Name: "PARTSTAT", IsNotDefined: true, TextMatch: tms[1]})
	var pfs []caldav.PropFilter
	for _, n := range []string{"SUMMARY", "ATTENDEE"} {
		for _, tm := range tms {
			pfs = append(pfs, caldav.PropFilter{Name: n, TextMatch: tm})
		}
		pfs = append(pfs, caldav.PropFilter{Name: n, IsNotDefined: true},
			caldav.PropFilter{Name: n, IsNotDefined: true, TextMatch: tms[1]})
	}
	var ccs []caldav.CompFilter
	for _, n := range []string{"VEVENT", "VTODO"} {
		for _, nd := range []bool{false, true} {
			ccs = append(ccs, caldav.CompFilter{Name: n, IsNotDefined: nd})
		}
	}
	withAF := func(p caldav.PropFilter, a caldav.ParamFilter) caldav.PropFilter {
		p.ParamFilter = []caldav.ParamFilter{a}
		return p
	}
	root := func(props []caldav.PropFilter, comps []caldav.CompFilter) caldav.CompFilter {
		return CFn("VCALENDAR", false, props, comps)
	}
	var filters []caldav.CompFilter
	add := func(f caldav.CompFilter) { filters = append(filters, f) }
	// other roots
	add(CFn("VCALENDAR", true, nil, nil))
	add(CFn("VEVENT", false, nil, nil))
	add(CFn("VEVENT", true, nil, nil))
	add(CFn("VCALENDAR", true, nil, []caldav.CompFilter{ccs[0]}))
	add(CFn("VEVENT", true, []caldav.PropFilter{pfs[1]}, nil))
	add(CFn("VEVENT", false, nil, []caldav.CompFilter{ccs[0]}))
	// root alone, one node
	add(root(nil, nil))
	for _, c := range ccs {
		add(root(nil, []caldav.CompFilter{c}))
	}
	for _, p := range pfs {
		add(root([]caldav.PropFilter{p}, nil))
	}
	// two nodes
	for _, c1 := range ccs {
		for _, c2 := range ccs {
			add(root(nil, []caldav.CompFilter{c1, c2}))
			c := c1
			c.Comps = []caldav.CompFilter{c2}
			add(root(nil, []caldav.CompFilter{c}))
		}
		for _, p := range pfs {
			add(root([]caldav.PropFilter{p}, []caldav.CompFilter{c1}))
			c := c1
			c.Props = []caldav.PropFilter{p}
			add(root(nil, []caldav.CompFilter{c}))
		}
	}
	for _, p := range pfs {
		for _, a := range afs {
			add(root([]caldav.PropFilter{withAF(p, a)}, nil))
		}
	}
	// three nodes: comp -> prop -> param, comp -> [prop, prop]
	for _, c1 := range ccs {
		for _, p := range pfs {
			if p.Name != "ATTENDEE" && !thorough {
				continue
			}
			for _, a := range afs {
				c := c1
				c.Props = []caldav.PropFilter{withAF(p, a)}
				add(root(nil, []caldav.CompFilter{c}))
			}
		}
	}
	for _, p1 := range pfs {
		for _, p2 := range pfs {
			c := ccs[0]
			c.Props = []caldav.PropFilter{p1, p2}
			add(root(nil, []caldav.CompFilter{c}))
		}
	}

	propAlpha := []gprop{
		P("SUMMARY", "a"), P("SUMMARY", "ab"),
		P("ATTENDEE", "a"), P("ATTENDEE", "ab", Q("PARTSTAT", "a")), P("ATTENDEE", "b", Q("PARTSTAT", "")),
	}
	if thorough {
		propAlpha = append(propAlpha, P("SUMMARY", "b"), P("ATTENDEE", "a", Q("PARTSTAT", "ab")))
	}
	var propSeqs [3][][]gprop // by length
	propSeqs[0] = [][]gprop{nil}
	for _, p := range propAlpha {
		propSeqs[1] = append(propSeqs[1], []gprop{p})
		for _, q := range propAlpha {
			propSeqs[2] = append(propSeqs[2], []gprop{p, q})
		}
	}
	names := []string{"VEVENT", "VTODO"}
	var cals []gcomp
	cals = append(cals, cal())
	cals = append(cals, gcomp{name: "VCALENDAR", props: []gprop{P("SUMMARY", "a")}})
	for _, n := range names {
		for l := 0; l <= 2; l++ {
			for _, ps := range propSeqs[l] {
				cals = append(cals, cal(gcomp{name: n, props: ps}))
			}
		}
	}
	for _, n1 := range names {
		for _, n2 := range names {
			for l1 := 0; l1 <= 2; l1++ {
				for l2 := 0; l1+l2 <= 2; l2++ {
					for _, ps1 := range propSeqs[l1] {
						for _, ps2 := range propSeqs[l2] {
							cals = append(cals, cal(gcomp{name: n1, props: ps1}, gcomp{name: n2, props: ps2}))
						}
					}
				}
			}
		}
	}
	// three levels, for comp-filter chains
	for _, n1 := range names {
		for _, n2 := range names {
			for _, ps := range append(propSeqs[0], propSeqs[1]...) {
				cals = append(cals, cal(gcomp{name: n1, children: []gcomp{{name: n2, props: ps}}}))
				cals = append(cals, cal(gcomp{name: n1, props: ps, children: []gcomp{{name: n2}}}))
			}
		}
	}
	fmt.Fprintf(os.Stderr, "c06: structural universe %d filters x %d calendars\n", len(filters), len(cals))
	for _, c := range cals {
		text := c.text()
		obj := hx.L("ics", hx.S(text))
		for _, f := range filters {
			emit(hx.L("match", cfSx(f), obj))
		}
	}
}

const gridBase = int64(1583834400) // 2020-03-10T10:00:00Z
const dayBase = int64(1583798400)  // 2020-03-10T00:00:00Z

func tAt(z int64) time.Time { return time.Unix(z, 0).UTC() }

// every (start, end) over the grid, each also absent (not both)
func gridRanges(base, step int64) []trange {
	var out []trange
	for i := -1; i < 5; i++ {
		for j := -1; j < 5; j++ {
			if i < 0 && j < 0 {
				continue
			}
			var tr trange
			if i >= 0 {
				tr.s = tAt(base + int64(i)*step)
			}
			if j >= 0 {
				tr.e = tAt(base + int64(j)*step)
			}
			out = append(out, tr)
		}
	}
	return out
}

func eventFilter(tr trange) caldav.CompFilter {
	return CFn("VCALENDAR", false, nil, []caldav.CompFilter{{Name: "VEVENT", Start: tr.s, End: tr.e}})
}

// the time dimension: range start/end, DTSTART, DTEND on a grid of 5 instants (start and end
// also absent) x the ways an event states its end
func timeGrid(emit func(string)) {
	var events []gcomp
	ev := func(props ...gprop) { events = append(events, cal(gcomp{name: "VEVENT", props: props})) }
	for i := int64(0); i < 5; i++ {
		a := gridBase + i*3600
		ev(P("DTSTART", utc(a)))                           // date-time, no end
		ev(P("DTEND", utc(a)))                             // no DTSTART at all
		ev(P("DTSTART", utc(a)), P("DURATION", "PT0S"))    // zero duration
		ev(P("DTSTART", utc(a)), P("SUMMARY", "x"), P("DTSTART", utc(gridBase))) // two DTSTARTs: the first counts
		for j := int64(0); j < 5; j++ {
			b := gridBase + j*3600
			ev(P("DTSTART", utc(a)), P("DTEND", utc(b)))
			ev(P("DTSTART", utc(a)), P("DURATION", durText(b-a)))
			ev(P("DTSTART", utc(a)), P("DTEND", utc(b)), P("DURATION", "PT1H")) // both: DTEND wins
		}
	}
	for _, tr := range gridRanges(gridBase, 3600) {
		f := eventFilter(tr)
		for _, e := range events {
			emit(matchIn(f, e.text()))
		}
	}
	// all-day events on a grid of days
	events = nil
	date := Q("VALUE", "DATE")
	for i := int64(0); i < 5; i++ {
		a := dayBase + i*86400
		ev(P("DTSTART", day(a), date))
		ev(P("DTSTART", day(a), date), P("DURATION", "PT0S"))
		ev(P("DTSTART", day(a), date), P("DURATION", "P1D"))
		ev(P("DTSTART", day(a), date), P("DURATION", "P2D"))
		ev(P("DTSTART", day(a))) // 8 digits without VALUE=DATE: go-ical cannot read it
		for j := int64(0); j < 5; j++ {
			b := dayBase + j*86400
			ev(P("DTSTART", day(a), date), P("DTEND", day(b), date))
		}
	}
	for _, tr := range gridRanges(dayBase, 86400) {
		f := eventFilter(tr)
		for _, e := range events {
			emit(matchIn(f, e.text()))
		}
	}
	// half-day offsets against all-day events (DTSTART + P1D strictly inside the grid step)
	for _, tr := range gridRanges(dayBase+43200, 43200) {
		f := eventFilter(tr)
		for i := int64(0); i < 3; i++ {
			emit(matchIn(f, cal(gcomp{name: "VEVENT", props: []gprop{P("DTSTART", day(dayBase+i*86400), date)}}).text()))
		}
	}
	// property time ranges: value on the grid, date-time and date, and values go-ical cannot read
	for _, tr := range gridRanges(gridBase, 3600) {
		pf := caldav.PropFilter{Name: "DTSTAMP", Start: tr.s, End: tr.e}
		f := CFn("VCALENDAR", false, nil, []caldav.CompFilter{{Name: "VEVENT", Props: []caldav.PropFilter{pf}}})
		for i := int64(0); i < 5; i++ {
			v := gridBase + i*3600
			emit(matchIn(f, cal(gcomp{name: "VEVENT", props: []gprop{P("DTSTAMP", utc(v))}}).text()))
			emit(matchIn(f, cal(gcomp{name: "VEVENT", props: []gprop{P("DTSTAMP", "x"), P("DTSTAMP", utc(v))}}).text()))
			emit(matchIn(f, cal(gcomp{name: "VEVENT", props: []gprop{P("DTSTAMP", utc(gridBase-7200)), P("DTSTAMP", utc(v))}}).text()))
		}
		emit(matchIn(f, cal(gcomp{name: "VEVENT", props: []gprop{P("DTSTAMP", "garbage")}}).text()))
		emit(matchIn(f, cal(gcomp{name: "VEVENT"}).text()))
		pf2 := pf
		pf2.TextMatch = &caldav.TextMatch{Text: "T12"}
		f2 := CFn("VCALENDAR", false, nil, []caldav.CompFilter{{Name: "VEVENT", Props: []caldav.PropFilter{pf2}}})
		for i := int64(0); i < 5; i++ {
			emit(matchIn(f2, cal(gcomp{name: "VEVENT", props: []gprop{P("DTSTAMP", utc(gridBase+i*3600))}}).text()))
		}
	}
	// where an unreadable value sits decides between an error and a verdict
	good := gcomp{name: "VEVENT", props: []gprop{P("DTSTART", utc(gridBase+3600)), P("DTSTAMP", utc(gridBase+3600)), P("SUMMARY", "a")}}
	bad := gcomp{name: "VEVENT", props: []gprop{P("DTSTART", "garbage"), P("DTSTAMP", "garbage"), P("SUMMARY", "a")}}
	badRule := gcomp{name: "VEVENT", props: []gprop{P("DTSTART", utc(gridBase+3600)), P("RRULE", "FREQ=BOGUS")}}
	other := gcomp{name: "VTODO", props: []gprop{P("DTSTART", "garbage")}}
	// a recurring event needs its extent as well: an unreadable DTEND or DURATION is an error
	badRecEnd := gcomp{name: "VEVENT", props: []gprop{P("DTSTART", utc(gridBase+3600)), P("DTEND", "garbage"), P("RRULE", "FREQ=DAILY;COUNT=2")}}
	badRecDur := gcomp{name: "VEVENT", props: []gprop{P("DTSTART", utc(gridBase+3600)), P("DURATION", "P1X"), P("RRULE", "FREQ=DAILY")}}
	goodRec := gcomp{name: "VEVENT", props: []gprop{P("DTSTART", utc(gridBase-86400+1800)), P("DURATION", "PT2H"), P("RRULE", "FREQ=DAILY;COUNT=3"), P("SUMMARY", "a")}}
	var placements []gcomp
	for _, x := range []gcomp{good, bad, badRule, other, badRecEnd, badRecDur, goodRec} {
		for _, y := range []gcomp{good, bad, badRule, other, badRecEnd, badRecDur, goodRec} {
			placements = append(placements, cal(x, y))
		}
	}
	placements = append(placements,
		cal(gcomp{name: "VEVENT", props: []gprop{P("DTSTAMP", utc(gridBase+3600)), P("DTSTAMP", "garbage")}}),
		cal(gcomp{name: "VEVENT", props: []gprop{P("DTSTAMP", "garbage"), P("DTSTAMP", utc(gridBase+3600))}}),
		cal(gcomp{name: "VEVENT", props: []gprop{P("DTSTAMP", utc(gridBase-7200)), P("DTSTAMP", "garbage")}}))
	for _, tr := range []trange{{tAt(gridBase), tAt(gridBase + 7200)}, {tAt(gridBase + 7200), time.Time{}}, {time.Time{}, tAt(gridBase)}} {
		rng := caldav.CompFilter{Name: "VEVENT", Start: tr.s, End: tr.e}
		prng := caldav.CompFilter{Name: "VEVENT", Props: []caldav.PropFilter{{Name: "DTSTAMP", Start: tr.s, End: tr.e}}}
		no := caldav.CompFilter{Name: "VEVENT", Props: []caldav.PropFilter{{Name: "SUMMARY", TextMatch: &caldav.TextMatch{Text: "zzz"}}}}
		noProp := caldav.PropFilter{Name: "SUMMARY", TextMatch: &caldav.TextMatch{Text: "zzz"}}
		both := caldav.CompFilter{Name: "VEVENT", Props: []caldav.PropFilter{noProp, {Name: "DTSTAMP", Start: tr.s, End: tr.e}}}
		both2 := caldav.CompFilter{Name: "VEVENT", Props: []caldav.PropFilter{{Name: "DTSTAMP", Start: tr.s, End: tr.e}, noProp}}
		rngNo := rng
		rngNo.Props = []caldav.PropFilter{noProp}
		for _, comps := range [][]caldav.CompFilter{{rng}, {prng}, {no, rng}, {rng, no}, {no, prng}, {prng, no}, {both}, {both2}, {rngNo},
			{{Name: "VTODO", Start: tr.s, End: tr.e}}, {{Name: "VTODO", IsNotDefined: true}, rng}} {
			f := CFn("VCALENDAR", false, nil, comps)
			for _, c := range placements {
				emit(matchIn(f, c.text()))
			}
		}
	}
	for _, tr := range gridRanges(dayBase, 86400) {
		pf := caldav.PropFilter{Name: "DUE", Start: tr.s, End: tr.e}
		f := CFn("VCALENDAR", false, nil, []caldav.CompFilter{{Name: "VTODO", Props: []caldav.PropFilter{pf}}})
		for i := int64(0); i < 5; i++ {
			emit(matchIn(f, cal(gcomp{name: "VTODO", props: []gprop{P("DUE", day(dayBase+i*86400), Q("VALUE", "DATE"))}}).text()))
		}
	}
}

type recEvent struct {
	freq     string
	count    int // 0: the rule does not end
	interval int
	kind     int  // 0 no end, 1 PT0S, 2 PT1H, 3 PT36H, 4 DTEND +2h, 5 all-day, 6 -PT1H, 7 DTEND -1h, 8 all-day P2D
	exFirst  bool // EXDATE of the first instance
	name     string
}

func (r recEvent) allDay() bool { return r.kind == 5 || r.kind == 8 }

func (r recEvent) comp(a int64) gcomp {
	rule := "FREQ=" + r.freq
	if r.count > 0 {
		rule += fmt.Sprintf(";COUNT=%d", r.count)
	}
	if r.interval != 1 {
		rule += fmt.Sprintf(";INTERVAL=%d", r.interval)
	}
	var props []gprop
	if r.allDay() {
		props = append(props, P("DTSTART", day(a), Q("VALUE", "DATE")))
	} else {
		props = append(props, P("DTSTART", utc(a)))
	}
	switch r.kind {
	case 1:
		props = append(props, P("DURATION", "PT0S"))
	case 2:
		props = append(props, P("DURATION", "PT1H"))
	case 3:
		props = append(props, P("DURATION", "PT36H"))
	case 4:
		props = append(props, P("DTEND", utc(a+7200)))
	case 6:
		props = append(props, P("DURATION", "-PT1H"))
	case 7:
		props = append(props, P("DTEND", utc(a-3600)))
	case 8:
		props = append(props, P("DURATION", "P2D"))
	}
	props = append(props, P("RRULE", rule))
	if r.exFirst {
		if r.allDay() {
			props = append(props, P("EXDATE", day(a), Q("VALUE", "DATE")))
		} else {
			props = append(props, P("EXDATE", utc(a)))
		}
	}
	name := r.name
	if name == "" {
		name = "VEVENT"
	}
	return gcomp{name: name, props: props}
}

// recurring events of the bounded family against ranges around the instance boundaries: ranges
// inside a running instance, ending at an instance start, starting at an instance end, open at
// either side; the first instance excluded; rules that do not end
func recurringGrid(emit func(string)) {
	for _, freq := range []string{"DAILY", "WEEKLY"} {
		period := int64(86400)
		if freq == "WEEKLY" {
			period *= 7
		}
		for _, count := range []int{1, 2, 3, 0} {
			for _, interval := range []int{1, 2} {
				for kind := 0; kind <= 8; kind++ {
					for _, exFirst := range []bool{false, true} {
						e := recEvent{freq: freq, count: count, interval: interval, kind: kind, exFirst: exFirst}
						a := gridBase
						if e.allDay() {
							a = dayBase
						}
						p := period * int64(interval)
						text := cal(e.comp(a)).text()
						pts := []int64{a - 3600, a, a + 1800, a + 3600, a + 7200, a + 86400, a + 129600, a + p, a + p + 1800, a + p + 86400, a + 10*p}
						for i := -1; i < len(pts); i++ {
							for j := -1; j < len(pts); j++ {
								if i < 0 && j < 0 {
									continue
								}
								var tr trange
								if i >= 0 {
									tr.s = tAt(pts[i])
								}
								if j >= 0 {
									tr.e = tAt(pts[j])
								}
								emit(matchIn(eventFilter(tr), text))
							}
						}
					}
				}
			}
		}
	}
	// a rule without DTSTART has no instance to compare (rrule-go would start it at time.Now())
	for _, rule := range []string{"FREQ=DAILY;COUNT=2", "FREQ=DAILY"} {
		for _, extra := range [][]gprop{nil, {P("DURATION", "PT1H")}, {P("DTEND", utc(gridBase))}} {
			text := cal(gcomp{name: "VEVENT", props: append([]gprop{P("RRULE", rule)}, extra...)}).text()
			for _, tr := range gridRanges(gridBase, 3600) {
				emit(matchIn(eventFilter(tr), text))
			}
		}
	}
	// a recurring component that is not an event: match.go treats its DTSTART/DTEND/DURATION alike
	for _, kind := range []int{0, 2, 4} {
		for _, count := range []int{2, 0} {
			e := recEvent{freq: "DAILY", count: count, interval: 1, kind: kind, name: "VTODO"}
			a := gridBase
			text := cal(e.comp(a)).text()
			for _, tr := range gridRanges(a-3600, 1800) {
				f := CFn("VCALENDAR", false, nil, []caldav.CompFilter{{Name: "VTODO", Start: tr.s, End: tr.e}})
				emit(matchIn(f, text))
			}
		}
	}
}

// recurring events on the wall clock of a time zone: series that cross a daylight-saving change of
// the zone (both hemispheres, and zones without one), local times of day whose UTC date differs
// from the local date, DAILY / WEEKLY (also BYDAY) / MONTHLY, probed around every instance and one
// hour before and after it
func tzGrid(emit func(string)) {
	type zone struct {
		name    string
		changes [][3]int // local dates of a change of the UTC offset (or any date, for zones without)
	}
	zones := []zone{
		{"America/Los_Angeles", [][3]int{{2020, 3, 8}, {2020, 11, 1}}},
		{"Europe/Berlin", [][3]int{{2020, 3, 29}, {2020, 10, 25}}},
		{"Australia/Sydney", [][3]int{{2020, 4, 5}, {2020, 10, 4}}},
		{"Asia/Kolkata", [][3]int{{2020, 3, 29}}},
		{"UTC", [][3]int{{2020, 3, 29}}},
	}
	days := []string{"MO", "TU", "WE", "TH", "FR", "SA", "SU"}
	const local = "20060102T150405"
	for _, z := range zones {
		loc, err := time.LoadLocation(z.name)
		if err != nil {
			panic("harness: time zone database: " + err.Error())
		}
		tz := Q("TZID", z.name)
		for _, ch := range z.changes {
			for _, clock := range [][2]int{{9, 0}, {20, 0}, {0, 30}} {
				on := func(dayOffset int) time.Time {
					return time.Date(ch[0], time.Month(ch[1]), ch[2]+dayOffset, clock[0], clock[1], 0, 0, loc)
				}
				type series struct {
					start time.Time
					rule  string
				}
				w := on(-7)
				wd := (int(w.Weekday()) + 6) % 7
				list := []series{
					{on(-1), "FREQ=DAILY;COUNT=3"},
					{on(-2), "FREQ=DAILY;COUNT=3;INTERVAL=2"},
					{w, "FREQ=WEEKLY;COUNT=3"},
					{w, "FREQ=WEEKLY;COUNT=4;BYDAY=" + days[wd] + "," + days[(wd+2)%7]},
					{w, "FREQ=WEEKLY;COUNT=3;INTERVAL=2;BYDAY=" + days[(wd+6)%7] + "," + days[wd]},
					{time.Date(ch[0], time.Month(ch[1]-1), 15, clock[0], clock[1], 0, 0, loc), "FREQ=MONTHLY;COUNT=3"},
					{time.Date(ch[0], time.January, 31, clock[0], clock[1], 0, 0, loc), "FREQ=MONTHLY;COUNT=3"},
					{on(-1), "FREQ=DAILY"},
				}
				for si, sr := range list {
					for kind := 0; kind < 3; kind++ {
						for _, exFirst := range []bool{false, true} {
							if exFirst && (si != 0 || kind == 2) {
								continue
							}
							if si == len(list)-1 && kind != 1 {
								continue // the rule that does not end: one extent is enough
							}
							props := []gprop{P("DTSTART", sr.start.Format(local), tz)}
							switch kind {
							case 1:
								props = append(props, P("DURATION", "PT1H"))
							case 2:
								props = append(props, P("DTEND", sr.start.Add(2*time.Hour).In(loc).Format(local), tz))
							}
							props = append(props, P("RRULE", sr.rule))
							if exFirst {
								props = append(props, P("EXDATE", sr.start.Format(local), tz))
							}
							text := cal(gcomp{name: "VEVENT", props: props}).text()
							insts, _, ok := independentInstances(sr.rule, sr.start, sr.start.Unix()+5*86400)
							if !ok {
								panic("harness: tzGrid series outside the family: " + sr.rule)
							}
							seen := map[int64]bool{}
							var pts []int64
							for _, i := range insts {
								for _, p := range []int64{i - 3600, i, i + 3600, i + 7200} {
									if !seen[p] {
										seen[p] = true
										pts = append(pts, p)
									}
								}
							}
							for _, p := range pts {
								for _, tr := range []trange{
									{tAt(p), tAt(p + 1)}, {tAt(p), tAt(p + 3600)}, {tAt(p - 1800), tAt(p)},
									{tAt(p), time.Time{}}, {tAt(p + 1), time.Time{}}, {time.Time{}, tAt(p)}, {time.Time{}, tAt(p + 1)},
								} {
									emit(matchIn(eventFilter(tr), text))
								}
							}
						}
					}
				}
			}
		}
	}
}

// ---- random part

type gen struct{ r *hx.Rand }

var compNames = []string{"VEVENT", "VEVENT", "VEVENT", "VTODO", "VJOURNAL", "VTIMEZONE", "VALARM", "X-COMP"}
var filterCompNames = []string{"VEVENT", "VEVENT", "VEVENT", "VTODO", "VJOURNAL", "VALARM", "X-COMP", "vevent", "VCALENDAR"}
var propNames = []string{"SUMMARY", "DESCRIPTION", "ATTENDEE", "ORGANIZER", "LOCATION", "X-FOO", "UID", "DTSTAMP", "DUE"}
var paramNames = []string{"PARTSTAT", "CN", "ROLE", "MEMBER", "X-P"}
var textVals = []string{"", "a", "ab", "b", "abc", "A", "mailto:a@example.com", "Go Steelers!", "x\\,y", "caf\xc3\xa9"}
var paramVals = []string{"", "a", "ab", "ACCEPTED", "NEEDS-ACTION", "a:b", "x,y", "caf\xc3\xa9"}

func (g *gen) mixCase(s string) string {
	switch g.r.Intn(6) {
	case 0:
		return strings.ToLower(s)
	case 1:
		return strings.ToUpper(s[:1]) + strings.ToLower(s[1:])
	}
	return s
}

func (g *gen) instant() int64 {
	// a coarse grid so that boundaries coincide often
	return gridBase + int64(g.r.Intn(13)-4)*3600*int64(1+g.r.Intn(2)*11)
}

func (g *gen) timeProp(name string, malformed bool) gprop {
	z := g.instant()
	if malformed && g.r.Chance(1, 3) {
		return P(name, g.r.Pick([]string{"garbage", "20200310", "2020-03-10T10:00:00Z", "", "20200310T250000Z"}))
	}
	switch g.r.Intn(8) {
	case 0:
		return P(name, day(z-z%86400), Q("VALUE", "DATE"))
	case 1:
		return P(name, time.Unix(z, 0).UTC().Format("20060102T150405")) // floating: read in UTC
	case 2:
		tz := "Europe/Berlin"
		if malformed && g.r.Chance(1, 2) {
			tz = "Nowhere/City"
		}
		return P(name, time.Unix(z, 0).UTC().Format("20060102T150405"), Q("TZID", tz))
	case 3:
		return P(name, utc(z), Q("VALUE", "DATE-TIME"))
	}
	return P(name, utc(z))
}

func (g *gen) randProp(malformed bool) gprop {
	n := g.r.Pick(propNames)
	switch n {
	case "DTSTAMP", "DUE":
		return g.timeProp(n, malformed)
	}
	p := P(n, g.r.Pick(textVals))
	for k := g.r.Intn(3); k > 0; k-- {
		q := Q(g.r.Pick(paramNames), g.r.Pick(paramVals))
		if g.r.Chance(1, 4) {
			q.values = append(q.values, g.r.Pick(paramVals))
		}
		p.params = append(p.params, q)
	}
	return p
}

func (g *gen) randComp(depth int, malformed bool) gcomp {
	c := gcomp{name: g.r.Pick(compNames)}
	timed := g.r.Chance(3, 4)
	if timed {
		if !g.r.Chance(1, 12) {
			c.props = append(c.props, g.timeProp("DTSTART", malformed))
		}
		switch g.r.Intn(5) {
		case 0:
			c.props = append(c.props, g.timeProp("DTEND", malformed))
		case 1, 2:
			d := int64(g.r.Intn(6)-1) * 3600 * int64(1+g.r.Intn(2)*23)
			dt := durText(d)
			if malformed && g.r.Chance(1, 3) {
				dt = g.r.Pick([]string{"1H", "PT", "P1X", ""})
			}
			c.props = append(c.props, P("DURATION", dt))
		}
		if g.r.Chance(1, 3) {
			// recurring, bounded family: UTC date-time, all-day or TZID start
			st := P("DTSTART", utc(g.instant()))
			if g.r.Chance(1, 5) {
				z := g.instant()
				st = P("DTSTART", day(z-z%86400), Q("VALUE", "DATE"))
			} else if g.r.Chance(1, 4) {
				// on the wall clock of a zone (Los Angeles changes its offset on 8 March 2020)
				st = P("DTSTART", time.Unix(g.instant(), 0).UTC().Format("20060102T150405"),
					Q("TZID", g.r.Pick([]string{"America/Los_Angeles", "Europe/Berlin", "Australia/Sydney", "Asia/Kolkata"})))
			}
			var rest []gprop
			for _, p := range c.props {
				if p.name != "DTSTART" {
					rest = append(rest, p)
				}
			}
			c.props = append([]gprop{st}, rest...)
			if malformed && g.r.Chance(1, 8) {
				c.props = rest // a rule without DTSTART: go-ical starts it at the zero time
			}
			freq := g.r.Pick([]string{"DAILY", "DAILY", "WEEKLY", "WEEKLY", "MONTHLY"})
			rule := fmt.Sprintf("FREQ=%s;COUNT=%d", freq, 1+g.r.Intn(10))
			if g.r.Chance(1, 6) {
				rule = "FREQ=" + freq // a rule that does not end
			}
			interval := int64(1)
			if g.r.Chance(1, 3) {
				interval = int64(1 + g.r.Intn(3))
				rule += fmt.Sprintf(";INTERVAL=%d", interval)
			}
			if malformed && g.r.Chance(1, 3) {
				rule = g.r.Pick([]string{"FREQ=BOGUS", "COUNT=3", "garbage", ""})
			}
			rp := P("RRULE", rule)
			if malformed && g.r.Chance(1, 6) {
				rp.params = []gparam{Q("VALUE", "TEXT")}
			}
			c.props = append(c.props, rp)
			if g.r.Chance(1, 4) {
				// EXDATE: mostly of the first instance, sometimes a later one or no instance at all
				for _, p := range c.props {
					if p.name != "DTSTART" {
						continue
					}
					period := int64(86400)
					if freq == "WEEKLY" {
						period *= 7
					}
					k := int64(0)
					if g.r.Chance(1, 3) {
						k = int64(g.r.Intn(4))
					}
					if len(p.params) > 0 {
						if t, err := time.Parse("20060102", p.value); err == nil {
							c.props = append(c.props, P("EXDATE", day(t.Unix()+k*interval*period), Q("VALUE", "DATE")))
						}
					} else if t, err := time.Parse(utcLayout, p.value); err == nil {
						x := t.Unix() + k*interval*period
						if g.r.Chance(1, 8) {
							x += 1800
						}
						c.props = append(c.props, P("EXDATE", utc(x)))
					}
				}
			}
			if malformed && g.r.Chance(1, 6) {
				c.props = append(c.props, P("EXDATE", "garbage"))
			}
		}
	}
	for k := g.r.Intn(5); k > 0; k-- {
		c.props = append(c.props, g.randProp(malformed))
	}
	// shuffle a little: property order in the text is free
	for i := len(c.props) - 1; i > 0; i-- {
		if g.r.Chance(1, 3) {
			j := g.r.Intn(i + 1)
			c.props[i], c.props[j] = c.props[j], c.props[i]
		}
	}
	for i := range c.props {
		c.props[i].name = g.mixCase(c.props[i].name)
	}
	if depth < 3 {
		for k := g.r.Intn(3) - 1; k > 0; k-- {
			c.children = append(c.children, g.randComp(depth+1, malformed))
		}
	}
	return c
}

func (g *gen) randCal(malformed bool) gcomp {
	c := gcomp{name: "VCALENDAR", props: []gprop{P("VERSION", "2.0"), P("PRODID", "-//verif//EN")}}
	for k := g.r.Intn(5); k > 0; k-- {
		c.children = append(c.children, g.randComp(1, malformed))
	}
	return c
}

func (g *gen) randTM() *caldav.TextMatch {
	if g.r.Chance(1, 3) {
		return nil
	}
	return &caldav.TextMatch{Text: g.r.Pick([]string{"", "a", "ab", "b", "A", "mailto:", "Steelers", "ACCEPTED", "NEEDS", ",", "\xc3\xa9"}), NegateCondition: g.r.Chance(1, 3)}
}

func (g *gen) randRange() (time.Time, time.Time) {
	s := g.instant()
	var st, en time.Time
	if !g.r.Chance(1, 8) {
		st = tAt(s)
	}
	switch g.r.Intn(6) {
	case 0:
	case 1:
		en = tAt(g.instant()) // any order
	default:
		en = tAt(s + int64(1+g.r.Intn(4))*3600*int64(1+g.r.Intn(2)*23))
	}
	return st, en
}

func (g *gen) randPF(wild bool) caldav.PropFilter {
	f := caldav.PropFilter{Name: g.mixCase(g.r.Pick(append(propNames, "DTSTART", "DTEND", "DURATION", "RRULE")))}
	if g.r.Chance(1, 6) {
		f.IsNotDefined = true
		if !wild {
			return f
		}
	}
	switch g.r.Intn(6) {
	case 0:
		f.Start, f.End = g.randRange()
		if wild && g.r.Chance(1, 2) {
			f.TextMatch = g.randTM()
		}
	default:
		f.TextMatch = g.randTM()
	}
	for k := g.r.Intn(3); k > 0; k-- {
		a := caldav.ParamFilter{Name: g.mixCase(g.r.Pick(paramNames))}
		if g.r.Chance(1, 4) {
			a.IsNotDefined = true
			if wild && g.r.Chance(1, 2) {
				a.TextMatch = g.randTM()
			}
		} else {
			a.TextMatch = g.randTM()
		}
		f.ParamFilter = append(f.ParamFilter, a)
	}
	return f
}

func (g *gen) randCF(depth int, wild bool) caldav.CompFilter {
	f := caldav.CompFilter{Name: g.r.Pick(filterCompNames)}
	if depth == 0 && !g.r.Chance(1, 10) {
		f.Name = "VCALENDAR"
	}
	if g.r.Chance(1, 7) {
		f.IsNotDefined = true
		if !wild {
			return f
		}
	}
	if depth > 0 && g.r.Chance(1, 3) {
		f.Start, f.End = g.randRange()
	}
	for k := g.r.Intn(3); k > 0 && depth > 0; k-- {
		f.Props = append(f.Props, g.randPF(wild))
	}
	if depth < 3 {
		n := g.r.Intn(3)
		if depth == 0 && n == 0 {
			n = 1
		}
		for ; n > 0; n-- {
			f.Comps = append(f.Comps, g.randCF(depth+1, wild))
		}
	}
	return f
}

func randomPart(n int, emit func(string)) {
	g := &gen{hx.NewRand(hx.Seed())}
	for i := 0; i < n; i++ {
		malformed := i%5 == 4 // a separate malformed stream: unreadable time values, ill-formed filters
		text := g.randCal(malformed).text()
		for k := 0; k < 3; k++ {
			emit(matchIn(g.randCF(0, malformed), text))
		}
	}
	// Filter: lists of objects (some nil) x queries (some nil)
	for i := 0; i < n/4; i++ {
		malformed := i%5 == 4
		var objs []string
		for k := g.r.Intn(6); k > 0; k-- {
			switch {
			case malformed && g.r.Chance(1, 8):
				objs = append(objs, g.r.Pick([]string{"(nil)", "(nilcomp)"}))
			default:
				objs = append(objs, hx.L("ics", hx.S(g.randCal(malformed && g.r.Chance(1, 3)).text())))
			}
		}
		q := "nil"
		if !g.r.Chance(1, 6) {
			q = cfSx(g.randCF(0, false))
		}
		emit(hx.L("filter", q, hx.L(objs...)))
		if q != "nil" && i%2 == 0 {
			emit(hx.L("seq", q, hx.L(objs...)))
		}
	}
}

// Filter over small lists from the structural universe, exhaustively
func filterUniverse(emit func(string)) {
	ev := func(props ...gprop) string {
		return hx.L("ics", hx.S(cal(gcomp{name: "VEVENT", props: props}).text()))
	}
	objs := []string{
		ev(P("SUMMARY", "a")), ev(P("SUMMARY", "b")),
		hx.L("ics", hx.S(cal(gcomp{name: "VTODO", props: []gprop{P("SUMMARY", "a")}}).text())),
		ev(P("DTSTART", utc(gridBase)), P("DTEND", utc(gridBase+3600))),
		ev(P("DTSTART", "garbage")),
		"(nil)",
		// a daily two-hour event from 09:30: both time ranges below lie inside or after a running instance
		ev(P("DTSTART", utc(gridBase-1800)), P("DURATION", "PT2H"), P("RRULE", "FREQ=DAILY;COUNT=2")),
	}
	sum := func(t string) caldav.CompFilter {
		return CFn("VCALENDAR", false, nil, []caldav.CompFilter{{Name: "VEVENT", Props: []caldav.PropFilter{{Name: "SUMMARY", TextMatch: &caldav.TextMatch{Text: t}}}}})
	}
	queries := []string{"nil",
		cfSx(CFn("VCALENDAR", false, nil, nil)),
		cfSx(CFn("VCALENDAR", false, nil, []caldav.CompFilter{{Name: "VEVENT"}})),
		cfSx(CFn("VCALENDAR", false, nil, []caldav.CompFilter{{Name: "VEVENT", IsNotDefined: true}})),
		cfSx(sum("a")), cfSx(sum("z")),
		cfSx(eventFilter(trange{tAt(gridBase), tAt(gridBase + 3600)})),
		cfSx(eventFilter(trange{tAt(gridBase + 3600), time.Time{}})),
	}
	var rec func(prefix []string)
	rec = func(prefix []string) {
		for _, q := range queries {
			emit(hx.L("filter", q, hx.L(prefix...)))
		}
		if len(prefix) == 3 {
			return
		}
		for _, o := range objs {
			rec(append(append([]string{}, prefix...), o))
		}
	}
	rec(nil)
}

// ---- generator audit (notes/generator-audit.md): sizes, sequences, zones of the bounds

func icsObj(c gcomp) string { return hx.L("ics", hx.S(c.text())) }

// Filter over collections of every size around the powers of two a batching or parallel
// implementation would pick, the matching objects at the head, in the middle, only the last one,
// every one, none; a nil or unreadable object at the very end
func sizesUniverse(thorough bool, emit func(string)) {
	sizes := []int{0, 1, 2, 127, 128, 129, 255, 256, 257, 1000, 1009}
	if thorough {
		sizes = append(sizes, 63, 64, 65, 511, 512, 513, 1023, 1024, 1025, 4095, 4096, 4097)
	}
	yes := icsObj(cal(gcomp{name: "VEVENT", props: []gprop{P("SUMMARY", "a"), P("DTSTART", utc(gridBase)), P("DTEND", utc(gridBase+3600))}}))
	no := icsObj(cal(gcomp{name: "VEVENT", props: []gprop{P("SUMMARY", "b"), P("DTSTART", utc(gridBase+10*86400))}}))
	rec := icsObj(cal(gcomp{name: "VEVENT", props: []gprop{P("SUMMARY", "a"), P("DTSTART", utc(gridBase-86400-1800)), P("DURATION", "PT2H"), P("RRULE", "FREQ=DAILY;COUNT=2")}}))
	bad := icsObj(cal(gcomp{name: "VEVENT", props: []gprop{P("SUMMARY", "a"), P("DTSTART", "garbage")}}))
	byText := cfSx(CFn("VCALENDAR", false, nil, []caldav.CompFilter{{Name: "VEVENT", Props: []caldav.PropFilter{{Name: "SUMMARY", TextMatch: &caldav.TextMatch{Text: "a"}}}}}))
	byRange := cfSx(eventFilter(trange{tAt(gridBase), tAt(gridBase + 3600)}))
	for _, n := range sizes {
		for pat := 0; pat < 8; pat++ {
			if n == 0 && pat > 0 {
				continue
			}
			objs := make([]string, n)
			for i := range objs {
				objs[i] = no
				switch pat {
				case 0: // head
					if i == 0 {
						objs[i] = yes
					}
				case 1: // middle
					if i == n/2 {
						objs[i] = yes
					}
				case 2: // only the last one
					if i == n-1 {
						objs[i] = yes
					}
				case 3: // every one
					objs[i] = yes
				case 4: // none
				case 5: // every third, the last one a recurring event with a running instance
					if i%3 == 0 {
						objs[i] = yes
					}
					if i == n-1 {
						objs[i] = rec
					}
				case 6: // the last one has no data: Filter panics
					if i == n-1 {
						objs[i] = "(nil)"
					}
				case 7: // the last one is unreadable under a time range: an error
					if i == n-1 {
						objs[i] = bad
					}
				}
			}
			l := hx.L(objs...)
			emit(hx.L("filter", byText, l))
			emit(hx.L("filter", byRange, l))
			if pat == 3 {
				emit(hx.L("filter", "nil", l))
			}
		}
	}
}

// many components, properties, parameters and parameter values inside one object, the one that
// decides at the head, in the middle or at the very end
func bigObjects(thorough bool, emit func(string)) {
	counts := []int{129, 1000}
	if thorough {
		counts = []int{63, 64, 65, 127, 128, 129, 255, 256, 257, 1000, 1009, 4097}
	}
	text := func(t string) *caldav.TextMatch { return &caldav.TextMatch{Text: t} }
	for _, n := range counts {
		for _, pos := range []int{0, n / 2, n - 1, -1} {
			// n VEVENTs, one of them with SUMMARY:a; a VTODO at that position for is-not-defined
			children := make([]gcomp, n)
			for i := range children {
				children[i] = gcomp{name: "VEVENT", props: []gprop{P("SUMMARY", "b")}}
			}
			if pos >= 0 {
				children[pos] = gcomp{name: "VEVENT", props: []gprop{P("SUMMARY", "ab")}}
			}
			c := cal(children...)
			emit(matchIn(CFn("VCALENDAR", false, nil, []caldav.CompFilter{{Name: "VEVENT", Props: []caldav.PropFilter{{Name: "SUMMARY", TextMatch: text("a")}}}}), c.text()))
			if pos >= 0 {
				c.children[pos] = gcomp{name: "VTODO"}
			}
			emit(matchIn(CFn("VCALENDAR", false, nil, []caldav.CompFilter{{Name: "VTODO", IsNotDefined: true}}), c.text()))
			emit(matchIn(CFn("VCALENDAR", false, nil, []caldav.CompFilter{{Name: "VTODO"}, {Name: "VEVENT"}}), c.text()))
			// one VEVENT with n SUMMARY (and n DTSTAMP) properties
			props := make([]gprop, 0, 2*n)
			for i := 0; i < n; i++ {
				v, st := "b", utc(gridBase-7200)
				if i == pos {
					v, st = "ab", utc(gridBase)
				}
				props = append(props, P("SUMMARY", v), P("DTSTAMP", st))
			}
			ev := cal(gcomp{name: "VEVENT", props: props}).text()
			emit(matchIn(CFn("VCALENDAR", false, nil, []caldav.CompFilter{{Name: "VEVENT", Props: []caldav.PropFilter{{Name: "SUMMARY", TextMatch: text("a")}}}}), ev))
			emit(matchIn(CFn("VCALENDAR", false, nil, []caldav.CompFilter{{Name: "VEVENT", Props: []caldav.PropFilter{{Name: "DTSTAMP", Start: tAt(gridBase), End: tAt(gridBase + 1)}}}}), ev))
			emit(matchIn(CFn("VCALENDAR", false, nil, []caldav.CompFilter{{Name: "VEVENT", Props: []caldav.PropFilter{{Name: "SUMMARY", TextMatch: &caldav.TextMatch{Text: "b", NegateCondition: true}}}}}), ev))
			// one ATTENDEE with n parameters, and a PARTSTAT with n values
			params := make([]gparam, n)
			values := make([]string, n)
			for i := range params {
				params[i] = Q("X-P"+strconv.Itoa(i), "v")
				values[i] = "b"
			}
			want := "X-NONE"
			if pos >= 0 {
				want = "X-P" + strconv.Itoa(pos)
				values[pos] = "ab"
			}
			at := cal(gcomp{name: "VEVENT", props: []gprop{P("ATTENDEE", "x", append(params, Q("PARTSTAT", values...))...)}}).text()
			for _, af := range []caldav.ParamFilter{{Name: want}, {Name: want, IsNotDefined: true}, {Name: "PARTSTAT", TextMatch: text("a")}} {
				emit(matchIn(CFn("VCALENDAR", false, nil, []caldav.CompFilter{{Name: "VEVENT", Props: []caldav.PropFilter{{Name: "ATTENDEE", ParamFilter: []caldav.ParamFilter{af}}}}}), at))
			}
		}
		// n levels of VALARM below one VEVENT: only the children of the VEVENT are in the scope
		deep := gcomp{name: "VALARM", props: []gprop{P("SUMMARY", "a")}}
		for i := 0; i < n && i < 300; i++ {
			deep = gcomp{name: "VALARM", children: []gcomp{deep}}
		}
		dc := cal(gcomp{name: "VEVENT", children: []gcomp{deep}}).text()
		for _, nd := range []bool{false, true} {
			emit(matchIn(CFn("VCALENDAR", false, nil, []caldav.CompFilter{{Name: "VEVENT", Comps: []caldav.CompFilter{{Name: "VALARM", Comps: []caldav.CompFilter{{Name: "VALARM", Props: []caldav.PropFilter{{Name: "SUMMARY", IsNotDefined: nd}}}}}}}}), dc))
		}
	}
}

// long values and long texts in text-match, around the sizes of common buffers
func longTexts(thorough bool, emit func(string)) {
	lens := []int{0, 1, 63, 64, 65, 511, 512, 513, 1023, 1024, 1025, 4095, 4096, 4097, 32768}
	if thorough {
		lens = append(lens, 32767, 32769, 65535, 65536, 65537, 200000)
	}
	for _, n := range lens {
		pad := strings.Repeat("x", n)
		needle := "n" + strings.Repeat("y", n/2)
		for vi, value := range []string{pad + "needle", "needle" + pad, pad, pad + needle, needle + pad, pad + needle[:len(needle)-1]} {
			for _, tm := range []caldav.TextMatch{{Text: "needle"}, {Text: "needle", NegateCondition: true}, {Text: needle}, {Text: pad}} {
				if vi >= 3 && tm.Text == "needle" {
					continue
				}
				tm := tm
				c := cal(gcomp{name: "VEVENT", props: []gprop{P("SUMMARY", value)}}).text()
				emit(matchIn(CFn("VCALENDAR", false, nil, []caldav.CompFilter{{Name: "VEVENT", Props: []caldav.PropFilter{{Name: "SUMMARY", TextMatch: &tm}}}}), c))
				// go-ical builds a parameter value byte by byte (quadratic): long ones only up to 4 KiB
				// (thorough: 32 KiB)
				if n <= 4097 || (thorough && n <= 32769) {
					c = cal(gcomp{name: "VEVENT", props: []gprop{P("ATTENDEE", "m", Q("CN", value))}}).text()
					emit(matchIn(CFn("VCALENDAR", false, nil, []caldav.CompFilter{{Name: "VEVENT", Props: []caldav.PropFilter{{Name: "ATTENDEE", ParamFilter: []caldav.ParamFilter{{Name: "CN", TextMatch: &tm}}}}}}), c))
				}
			}
		}
	}
}

// the bounds of the query in a zone other than UTC: the instants are the same; go-ical reads
// floating times and DATE values in that zone (the harness derives the trees with it too)
func zoneBounds(emit func(string)) {
	date := Q("VALUE", "DATE")
	events := [][]gprop{
		{P("DTSTART", utc(gridBase+3600)), P("DTEND", utc(gridBase+7200))},
		{P("DTSTART", "20200310T110000"), P("DURATION", "PT1H")},
		{P("DTSTART", "20200310T110000", Q("TZID", "Europe/Berlin")), P("DTEND", "20200310T130000", Q("TZID", "Europe/Berlin"))},
		{P("DTSTART", "20200310", date)},
		{P("DTSTART", "20200309", date), P("DTEND", "20200311", date)},
		{P("DTSTART", "20200309T110000"), P("DURATION", "PT1H"), P("RRULE", "FREQ=DAILY;COUNT=3")},
		{P("DTSTART", "20200309", date), P("RRULE", "FREQ=DAILY;COUNT=2"), P("EXDATE", "20200309", date)},
		{P("DTSTART", "20200308T200000", Q("TZID", "America/Los_Angeles")), P("RRULE", "FREQ=DAILY;COUNT=3")},
		{P("DTSTAMP", "20200310T110000")},
	}
	for _, z := range []string{"America/Los_Angeles", "Asia/Kolkata", "Australia/Sydney", "fixed20700", "fixed-34200"} {
		off := int64(0)
		_, o := time.Unix(gridBase, 0).In(zoneOf(z)).Zone()
		off = int64(o)
		for ei, ev := range events {
			text := cal(gcomp{name: "VEVENT", props: ev}).text()
			// (events 0, 2 and 7 state their times with Z or a TZID: no zone of the query matters; for
			// the others also the ranges with one bound absent count: the zero time.Time that
			// stands for it is in UTC, the zone of the range is that of the bound it has)
			_ = ei
			// the grid moved so that it lies around the local readings as well
			for _, base := range []int64{gridBase, gridBase - off, dayBase - off - 3600} {
				for _, tr := range gridRanges(base, 3600) {
					f := eventFilter(tr)
					if ev[0].name == "DTSTAMP" {
						f = CFn("VCALENDAR", false, nil, []caldav.CompFilter{{Name: "VEVENT", Props: []caldav.PropFilter{{Name: "DTSTAMP", Start: tr.s, End: tr.e}}}})
					}
					emit(hx.L("match", cfSx(f), hx.L("ics", hx.S(text)), hx.S(z)))
				}
			}
		}
	}
}

// sequences: one query value and one slice of objects through Filter, Match on every object,
// Filter on a part, Filter again, and the same from four goroutines at once
func seqUniverse(emit func(string)) {
	ev := func(props ...gprop) string { return icsObj(cal(gcomp{name: "VEVENT", props: props})) }
	objs := []string{
		ev(P("SUMMARY", "a")), ev(P("SUMMARY", "b")),
		icsObj(cal(gcomp{name: "VTODO", props: []gprop{P("SUMMARY", "a")}})),
		ev(P("DTSTART", utc(gridBase)), P("DTEND", utc(gridBase+3600)), P("SUMMARY", "ab")),
		ev(P("DTSTART", utc(gridBase-1800)), P("DURATION", "PT2H"), P("RRULE", "FREQ=DAILY;COUNT=2")),
		ev(P("DTSTART", "garbage")),
		ev(P("ATTENDEE", "x", Q("PARTSTAT", "a", "ab"))),
	}
	sum := func(t string, neg bool) caldav.CompFilter {
		return CFn("VCALENDAR", false, nil, []caldav.CompFilter{{Name: "VEVENT", Props: []caldav.PropFilter{{Name: "SUMMARY", TextMatch: &caldav.TextMatch{Text: t, NegateCondition: neg}}}}})
	}
	queries := []string{
		cfSx(CFn("VCALENDAR", false, nil, []caldav.CompFilter{{Name: "VEVENT"}})),
		cfSx(CFn("VCALENDAR", false, nil, []caldav.CompFilter{{Name: "VEVENT", IsNotDefined: true}})),
		cfSx(sum("a", false)), cfSx(sum("a", true)),
		cfSx(eventFilter(trange{tAt(gridBase), tAt(gridBase + 3600)})),
		cfSx(eventFilter(trange{tAt(gridBase + 3600), time.Time{}})),
		cfSx(CFn("VCALENDAR", false, nil, []caldav.CompFilter{{Name: "VEVENT", Props: []caldav.PropFilter{{Name: "ATTENDEE", ParamFilter: []caldav.ParamFilter{{Name: "PARTSTAT", TextMatch: &caldav.TextMatch{Text: "ab"}}}}}}})),
	}
	for _, q := range queries {
		for i := range objs {
			for j := range objs {
				emit(hx.L("seq", q, hx.L(objs[i], objs[j], objs[(i+j+1)%len(objs)], objs[i])))
			}
		}
		emit(hx.L("seq", q, hx.L(append(append([]string{}, objs...), "(nil)")...)))
		emit(hx.L("seq", q, hx.L()))
	}
}

// a few hand-written objects: the RFC 4791 appendix B samples used by the repository's own test
func samples(emit func(string)) {
	event3 := "BEGIN:VCALENDAR\r\nVERSION:2.0\r\nPRODID:-//Example Corp.//CalDAV Client//EN\r\nBEGIN:VEVENT\r\n" +
		"ATTENDEE;PARTSTAT=ACCEPTED;ROLE=CHAIR:mailto:cyrus@example.com\r\nATTENDEE;PARTSTAT=NEEDS-ACTION:mailto:lisa@example.com\r\n" +
		"DTSTAMP:20060206T001220Z\r\nDTSTART;TZID=US/Eastern:20060104T100000\r\nDURATION:PT1H\r\nSUMMARY:Event #3\r\nUID:DC6C50A017428C5216A2F1CD@example.com\r\nEND:VEVENT\r\nEND:VCALENDAR\r\n"
	todo1 := "BEGIN:VCALENDAR\r\nVERSION:2.0\r\nBEGIN:VTODO\r\nDTSTAMP:20060205T235335Z\r\nDUE;VALUE=DATE:20060104\r\nSUMMARY:Task #1\r\n" +
		"BEGIN:VALARM\r\nACTION:AUDIO\r\nTRIGGER;RELATED=START:-PT10M\r\nEND:VALARM\r\nEND:VTODO\r\nEND:VCALENDAR\r\n"
	att := func(af caldav.ParamFilter, tm *caldav.TextMatch) caldav.CompFilter {
		return CFn("VCALENDAR", false, nil, []caldav.CompFilter{{Name: "VEVENT", Props: []caldav.PropFilter{{Name: "ATTENDEE", TextMatch: tm, ParamFilter: []caldav.ParamFilter{af}}}}})
	}
	for _, f := range []caldav.CompFilter{
		att(caldav.ParamFilter{Name: "PARTSTAT", TextMatch: &caldav.TextMatch{Text: "NEEDS-ACTION"}}, &caldav.TextMatch{Text: "lisa"}),
		att(caldav.ParamFilter{Name: "PARTSTAT", TextMatch: &caldav.TextMatch{Text: "NEEDS-ACTION"}}, &caldav.TextMatch{Text: "cyrus"}),
		att(caldav.ParamFilter{Name: "ROLE", IsNotDefined: true}, nil),
		CFn("VCALENDAR", false, nil, []caldav.CompFilter{{Name: "VTODO", Comps: []caldav.CompFilter{{Name: "VALARM", Props: []caldav.PropFilter{{Name: "TRIGGER", ParamFilter: []caldav.ParamFilter{{Name: "related", TextMatch: &caldav.TextMatch{Text: "START"}}}}}}}}}),
		eventFilter(trange{tAt(1136386800), tAt(1136390400)}),
	} {
		emit(matchIn(f, event3))
		emit(matchIn(f, todo1))
	}
}

func main() {
	out := flag.String("out", "", "output file")
	replay := flag.String("replay", "", "file of case lines to re-run (inputs are re-executed)")
	one := flag.Bool("one", false, "child mode: one input on stdin, its case line on stdout")
	flag.Parse()
	if *one {
		isolate = false
		data, _ := io.ReadAll(os.Stdin)
		fmt.Println(exec(strings.TrimSpace(string(data))))
		return
	}
	sink := hx.NewSink(*out)
	defer sink.Close()

	if *replay != "" {
		for _, l := range hx.ReadLines(*replay) {
			items := hx.MustParse(l)
			if r := exec(items[0].String()); r != "" {
				sink.Put(r)
			}
		}
		return
	}

	thorough := hx.Tier() == "thorough"
	nRandom := 8000
	if thorough {
		nRandom = 80000
	}

	inputs := make(chan string, 4096)
	var wg sync.WaitGroup
	var dropped int64
	var dmu sync.Mutex
	for w := 0; w < runtime.NumCPU(); w++ {
		wg.Add(1)
		go func() {
			defer wg.Done()
			for in := range inputs {
				if r := exec(in); r != "" {
					sink.Put(r)
				} else {
					dmu.Lock()
					dropped++
					dmu.Unlock()
				}
			}
		}()
	}
	emit := func(in string) { inputs <- in }
	samples(emit)
	timeGrid(emit)
	recurringGrid(emit)
	tzGrid(emit)
	zoneBounds(emit)
	seqUniverse(emit)
	sizesUniverse(thorough, emit)
	bigObjects(thorough, emit)
	longTexts(thorough, emit)
	filterUniverse(emit)
	structuralUniverse(thorough, emit)
	randomPart(nRandom, emit)
	close(inputs)
	wg.Wait()
	fmt.Fprintf(os.Stderr, "c06: %d cases, %d inputs dropped (text go-ical does not decode; %d of them by a panic of go-ical), %d recurring components outside the bounded family\n", sink.N, dropped, recovered, outsideFamily)
}
