package hx

import (
	"encoding/hex"
	"fmt"
	"strconv"
)

// Sx is a parsed S-expression: an atom or a list.
type Sx struct {
	Atom   string
	List   []Sx
	IsList bool
}

// Parse parses one line into its top-level items.
func Parse(s string) ([]Sx, error) {
	pos := 0
	var items func() ([]Sx, error)
	items = func() ([]Sx, error) {
		var out []Sx
		for {
			for pos < len(s) && (s[pos] == ' ' || s[pos] == '\t') {
				pos++
			}
			if pos >= len(s) || s[pos] == ')' {
				return out, nil
			}
			if s[pos] == '(' {
				pos++
				l, err := items()
				if err != nil {
					return nil, err
				}
				if pos >= len(s) || s[pos] != ')' {
					return nil, fmt.Errorf("missing )")
				}
				pos++
				out = append(out, Sx{List: l, IsList: true})
				continue
			}
			st := pos
			for pos < len(s) && s[pos] != ' ' && s[pos] != '(' && s[pos] != ')' && s[pos] != '\t' {
				pos++
			}
			out = append(out, Sx{Atom: s[st:pos]})
		}
	}
	r, err := items()
	if err != nil {
		return nil, err
	}
	if pos < len(s) {
		return nil, fmt.Errorf("unbalanced )")
	}
	return r, nil
}

// MustParse1 parses a line holding exactly one item, or panics.
func MustParse(s string) []Sx {
	r, err := Parse(s)
	if err != nil {
		panic("harness: bad sexp: " + err.Error() + ": " + s)
	}
	return r
}

// Str decodes a hex atom.
func (x Sx) Str() string {
	if x.IsList || len(x.Atom) < 1 || x.Atom[0] != 'x' {
		panic("harness: expected hex atom, got " + x.String())
	}
	b, err := hex.DecodeString(x.Atom[1:])
	if err != nil {
		panic("harness: bad hex atom " + x.Atom)
	}
	return string(b)
}

func (x Sx) Bool() bool { return x.Atom == "1" }

func (x Sx) Int() int64 {
	n, err := strconv.ParseInt(x.Atom, 10, 64)
	if err != nil {
		panic("harness: bad int atom " + x.Atom)
	}
	return n
}

// Head returns the leading atom of a list ("" if none).
func (x Sx) Head() string {
	if x.IsList && len(x.List) > 0 && !x.List[0].IsList {
		return x.List[0].Atom
	}
	return ""
}

// Args returns the items after the head.
func (x Sx) Args() []Sx {
	if x.IsList && len(x.List) > 0 {
		return x.List[1:]
	}
	return nil
}

func (x Sx) String() string {
	if !x.IsList {
		return x.Atom
	}
	s := "("
	for i, it := range x.List {
		if i > 0 {
			s += " "
		}
		s += it.String()
	}
	return s + ")"
}
