// Package hx holds what every harness command shares: the seeded PRNG, the
// S-expression writer (strings hex-encoded) and the case sink.
package hx

import (
	"bufio"
	"encoding/hex"
	"fmt"
	"os"
	"strconv"
	"strings"
	"sync"
)

// Rand is splitmix64: every random choice of a run derives from one seed.
type Rand struct{ s uint64 }

func NewRand(seed uint64) *Rand { return &Rand{s: seed*0x9E3779B97F4A7C15 + 0x1234567} }

func (r *Rand) U64() uint64 {
	r.s += 0x9E3779B97F4A7C15
	z := r.s
	z = (z ^ (z >> 30)) * 0xBF58476D1CE4E5B9
	z = (z ^ (z >> 27)) * 0x94D049BB133111EB
	return z ^ (z >> 31)
}

// Intn returns a value in [0, n).
func (r *Rand) Intn(n int) int {
	if n <= 0 {
		return 0
	}
	return int(r.U64() % uint64(n))
}

func (r *Rand) Bool() bool { return r.U64()&1 == 1 }

// Chance is true with probability num/den.
func (r *Rand) Chance(num, den int) bool { return r.Intn(den) < num }

func (r *Rand) Pick(l []string) string { return l[r.Intn(len(l))] }

// Fork derives an independent generator (for sharding) from this one.
func (r *Rand) Fork(i int) *Rand { return NewRand(r.s ^ (uint64(i)+1)*0xD6E8FEB86659FD93) }

// S renders a byte string as a hex atom.
func S(s string) string { return "x" + hex.EncodeToString([]byte(s)) }

// B renders a bool.
func B(b bool) string {
	if b {
		return "1"
	}
	return "0"
}

func I(i int64) string { return strconv.FormatInt(i, 10) }

// L renders a list.
func L(items ...string) string { return "(" + strings.Join(items, " ") + ")" }

// Sink collects case lines; safe for concurrent use.
type Sink struct {
	mu sync.Mutex
	w  *bufio.Writer
	f  *os.File
	N  int
}

func NewSink(path string) *Sink {
	f, err := os.Create(path)
	if err != nil {
		fmt.Fprintln(os.Stderr, "harness:", err)
		os.Exit(2)
	}
	return &Sink{w: bufio.NewWriterSize(f, 1<<20), f: f}
}

func (s *Sink) Put(line string) {
	s.mu.Lock()
	s.w.WriteString(line)
	s.w.WriteByte('\n')
	s.N++
	s.mu.Unlock()
}

func (s *Sink) Close() {
	s.w.Flush()
	s.f.Close()
}

// Env helpers.
func Seed() uint64 {
	if v := os.Getenv("VERIF_SEED"); v != "" {
		if n, err := strconv.ParseUint(v, 10, 64); err == nil {
			return n
		}
	}
	return 1
}

func Tier() string {
	if v := os.Getenv("VERIF_TIER"); v == "thorough" {
		return v
	}
	return "quick"
}

// ReadLines returns the non-empty, non-comment lines of a file (replay input).
func ReadLines(path string) []string {
	data, err := os.ReadFile(path)
	if err != nil {
		fmt.Fprintln(os.Stderr, "harness:", err)
		os.Exit(2)
	}
	var out []string
	for _, l := range strings.Split(string(data), "\n") {
		l = strings.TrimSpace(l)
		if l != "" && !strings.HasPrefix(l, "#") {
			out = append(out, l)
		}
	}
	return out
}
