package hx

import (
	"bufio"
	"fmt"
	"io"
	"net"
	"net/http"
	"net/http/httptest"
	"strings"
	"sync"
	"sync/atomic"
	"time"
)

// ChunkedDo sends one request with Transfer-Encoding: chunked over TCP to a real
// net/http server that hands it to h, and returns the answer.  An empty body is
// the terminating chunk alone, so that the handler sees what net/http makes of
// a chunked request: ContentLength -1 and a chunked body reader.
//
// One server and a pool of keep-alive connections serve all calls of the
// process (a server and a connection per request exhaust the ephemeral ports
// in large runs); the handler of a call is found through a private header that
// is removed before h sees the request.
func ChunkedDo(h http.Handler, method, target string, header http.Header, body string) (code int, respHeader http.Header, data []byte, ok bool) {
	chunkedOnce.Do(startChunkedServer)
	id := fmt.Sprint(atomic.AddInt64(&chunkedSeq, 1))
	chunkedHandlers.Store(id, h)
	defer chunkedHandlers.Delete(id)

	var sb strings.Builder
	fmt.Fprintf(&sb, "%s %s HTTP/1.1\r\nHost: example.org\r\nTransfer-Encoding: chunked\r\n%s: %s\r\n", method, target, chunkedKey, id)
	for k, vs := range header {
		for _, v := range vs {
			fmt.Fprintf(&sb, "%s: %s\r\n", k, v)
		}
	}
	sb.WriteString("\r\n")
	// two chunks when there is something to split, then the terminating chunk
	if len(body) > 1 {
		k := len(body) / 2
		fmt.Fprintf(&sb, "%x\r\n%s\r\n%x\r\n%s\r\n", k, body[:k], len(body)-k, body[k:])
	} else if len(body) == 1 {
		fmt.Fprintf(&sb, "1\r\n%s\r\n", body)
	}
	sb.WriteString("0\r\n\r\n")

	for attempt := 0; attempt < 2; attempt++ {
		c := getChunkedConn(attempt > 0)
		if c == nil {
			return 0, nil, nil, false
		}
		c.conn.SetDeadline(time.Now().Add(30 * time.Second))
		if _, err := io.WriteString(c.conn, sb.String()); err != nil {
			c.conn.Close()
			continue // a pooled connection the server had closed: once more on a fresh one
		}
		resp, err := http.ReadResponse(c.br, &http.Request{Method: method})
		if err != nil {
			c.conn.Close()
			continue
		}
		data, err = io.ReadAll(resp.Body)
		resp.Body.Close()
		if err != nil || resp.Close {
			c.conn.Close()
		} else {
			putChunkedConn(c)
		}
		if err != nil {
			return 0, nil, nil, false
		}
		return resp.StatusCode, resp.Header, data, true
	}
	return 0, nil, nil, false
}

const chunkedKey = "X-Verif-Chunked-Case"

type chunkedConn struct {
	conn net.Conn
	br   *bufio.Reader
}

var (
	chunkedOnce     sync.Once
	chunkedSeq      int64
	chunkedHandlers sync.Map
	chunkedAddr     string
	chunkedPool     = make(chan *chunkedConn, 64)
)

func startChunkedServer() {
	ts := httptest.NewServer(http.HandlerFunc(func(w http.ResponseWriter, r *http.Request) {
		id := r.Header.Get(chunkedKey)
		r.Header.Del(chunkedKey)
		h, ok := chunkedHandlers.Load(id)
		if !ok {
			http.Error(w, "hx: no handler for this case", 599)
			return
		}
		h.(http.Handler).ServeHTTP(w, r)
	}))
	chunkedAddr = ts.Listener.Addr().String()
}

func getChunkedConn(fresh bool) *chunkedConn {
	if !fresh {
		select {
		case c := <-chunkedPool:
			return c
		default:
		}
	}
	conn, err := net.Dial("tcp", chunkedAddr)
	if err != nil {
		return nil
	}
	return &chunkedConn{conn, bufio.NewReader(conn)}
}

func putChunkedConn(c *chunkedConn) {
	select {
	case chunkedPool <- c:
	default:
		c.conn.Close()
	}
}
