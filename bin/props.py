"""props.py — per-property configuration of bin/check, loaded from bin/props.d/Cxx.py
(one file per property, each defining PROP = dict(...))."""
import glob
import importlib.util
import os
import subprocess
import sys

_D = os.path.join(os.path.dirname(os.path.abspath(__file__)), "props.d")
sys.path.insert(0, _D)
from common import COMMON_TRUST  # noqa

PROPS = {}
for _p in sorted(glob.glob(os.path.join(_D, "C*.py"))):
    _spec = importlib.util.spec_from_file_location("prop_" + os.path.basename(_p)[:-3], _p)
    _m = importlib.util.module_from_spec(_spec)
    _spec.loader.exec_module(_m)
    PROPS[os.path.basename(_p)[:-3]] = _m.PROP


def _hook_commits():
    try:
        out = subprocess.run(["git", "-C", "/repo", "log", "--format=%H %s"], stdout=subprocess.PIPE, text=True).stdout
        return [l.split()[0] for l in out.splitlines() if " verif hook:" in l]
    except Exception:
        return []


HOOK_COMMITS = _hook_commits()

# properties without a check yet (kept current; every one is planned, see DESIGN.md section 12)
_PENDING = "check not built yet (planned: Coq model + theorem + correspondence check, DESIGN.md section 10); not claimed until it exists"
NOT_APPLICABLE = [dict(property_id="C%02d" % i, reason=_PENDING) for i in range(1, 20) if "C%02d" % i not in PROPS]
