from davcommon import DAV_TRUST, DAV_ASSUMPTIONS

PROP = dict(
    properties_files=["C04"],
    design_ref="DESIGN.md section 10, C04",
    technique="Coq proofs that the model of checkConditionalMatches/MatchETag is the precondition truth table for all header strings and tags, that conditional PUT/DELETE are carried out iff it allows (else 412/400 and an equal state), and that PUT, GET, HEAD and PROPFIND announce one tag; correspondence check runs every row of the table against the real handler",
    level_text="Machine-checked theorems C04_truth_table, C04_table_existing / C04_table_absent (the table spelled out), C04_conditional_delete / C04_conditional_put (carried out iff allowed; otherwise 412 or 400 and the state is equal), C04_match_etag_true / _error, C04_one_tag, C04_tag_accepted_back — for all header strings, tags, trees. Every run executes PUT and DELETE on an absent resource, a file and a collection with If-Match x If-None-Match each in {unset, *, current tag, current tag with trailing blank, current tag unquoted, stale, other, unquoted, weak, list, single-quoted, back-quoted, lone quote, bad escape}, observing status, tree and the tags announced.",
    level_note="Trusted as for C01. The decoding of a header value into a tag (ConditionalMatch.ETag = the ETag codec, property C16) is an input of the model, computed by the harness with the real function; which strings count as 'a quoted string' is therefore C16's subject. The CalDAV/CardDAV pass-through of the two headers is checked by the C13/C10 harnesses, not here.",
    stages=[
        dict(name="cond", harness="dav", oracle="DAV", args=["-stage", "cond"], oracle_args=["c01"]),
        dict(name="history", harness="dav", oracle="DAV", args=["-stage", "history"], oracle_args=["c01"], thorough_only=True),
    ],
    rule="3 resource states x {PUT, DELETE} x 11-14 If-Match values x 11-14 If-None-Match values (every pair), the current tag read from the real server before each row; thorough adds the random histories of C01 (which carry If-None-Match: * on some PUTs); non-trivial = at least one conditional header set; distinct = by digest of (tree, request)",
    exhaustive=True,
    exhaustive_universe="every row of the precondition table over the stated header-value classes",
    trusted_base=DAV_TRUST,
    assumptions=DAV_ASSUMPTIONS,
)
