from davcommon import DAV_TRUST, DAV_ASSUMPTIONS

PROP = dict(
    properties_files=["C04"],
    design_ref="DESIGN.md section 10, C04",
    technique="Coq proofs that the model of checkConditionalMatches/MatchETag is the precondition truth table for all header strings and tags, that conditional PUT/DELETE are carried out iff it allows (else 412/400 and an equal state), and that PUT, GET, HEAD and PROPFIND announce one tag; correspondence check runs every row of the table against the real handler",
    level_text="Machine-checked theorems C04_truth_table, C04_table_existing / C04_table_absent (the table spelled out), C04_conditional_delete / C04_conditional_put (carried out iff allowed; otherwise 412 or 400 and the state is equal), C04_match_etag_true / _error, C04_one_tag, C04_tag_accepted_back — for all header strings, tags, trees; and from the bytes of the headers, composed with the entity-tag codec proved for C16: C04_if_match_announced / C04_if_none_match_announced (the text the server announces for a tag, sent back, matches iff the tag is the current one, for every byte string as tag), C04_announced_on_absent, C04_undecodable_is_400; C04_announce_meets_spec (the text written in the four places for any backend tag is one text, decodes to the tag and is accepted back). Every run executes PUT and DELETE on an absent resource, a file and a collection with If-Match x If-None-Match each in {unset, *, current tag, current tag with trailing blank, current tag unquoted, stale, other, unquoted, weak, list, single-quoted, back-quoted, lone quote, bad escape, inner quote, empty literal, non-ASCII and invalid-UTF-8 literals, the current tag spelled with a hex / octal / unicode escape (decodes to the same tag), weak form of the current tag, lists containing it, doubled, upper-cased}, observing status, tree and the tags announced.",
    level_note="Trusted as for C01. The decoded tag is an input of serve (computed by the harness with the real ConditionalMatch.ETag); the wire-level theorems assume wire_decoded (that input equals what the Coq model of ETag.UnmarshalText, Quote.v, yields from the header bytes), and the oracle evaluates wire_decoded on every explored request of every file-server stage. The CalDAV/CardDAV pass-through is the identity in the model (C04_cdav_options_unaltered) and is tied to the code by the cdav stage; the announcement clause for arbitrary backend tags is C04_announce_meets_spec, tied by the tags stage.",
    stages=[
        dict(name="cond", harness="dav", oracle="DAV", args=["-stage", "cond"], oracle_args=["c01"]),
        dict(name="history", harness="dav", oracle="DAV", args=["-stage", "history"], oracle_args=["c01"], thorough_only=True),
        dict(name="tags", harness="c04x", oracle="DAV", args=["-stage", "tags"], oracle_args=["c01"]),
        dict(name="cdav", harness="c04x", oracle="DAV", args=["-stage", "cdav"], oracle_args=["c01"]),
    ],
    rule="3 resource states x {PUT, DELETE} x 17-28 If-Match values x 17-28 If-None-Match values (every pair), the current tag read from the real server before each row; tags stage: webdav.Handler over a FileSystem double reporting 447 (quick) / 6,047 (thorough) entity tags — quotes, backslashes, control bytes, non-ASCII, non-printable and invalid UTF-8, long — observing the ETag header of PUT, GET, HEAD, getetag of PROPFIND and MatchETag of the announced text; cdav stage: PUT through caldav.Handler and carddav.Handler with every pair of ~60 If-Match / If-None-Match values (absent, *, weak, lists, unquoted, blanks, non-ASCII, random) and a recording backend; thorough adds the random histories of C01 (which carry If-None-Match: * on some PUTs); non-trivial = at least one conditional header set; distinct = by digest of (tree, request)",
    exhaustive=True,
    exhaustive_universe="every row of the precondition table over the stated header-value classes",
    trusted_base=DAV_TRUST,
    assumptions=DAV_ASSUMPTIONS,
)
