from common import COMMON_TRUST

PROP = dict(
properties_files=["C09"],
design_ref="DESIGN.md section 10, C09",
technique="wip",
level_text="wip",
level_note="wip",
stages=[dict(name="wire", harness="c09", oracle="C09")],
rule="wip",
exhaustive=True,
exhaustive_universe="wip",
trusted_base=COMMON_TRUST + [],
assumptions=[],
)
