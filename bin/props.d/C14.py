from common import COMMON_TRUST

PROP = dict(
properties_files=["C14"],
design_ref="DESIGN.md section 10, C14",
technique="TODO",
level_text="TODO",
level_note="TODO",
stages=[dict(name="clients", harness="c14", oracle="C14")],
rule="TODO",
exhaustive=True,
exhaustive_universe="TODO",
trusted_base=COMMON_TRUST + [],
assumptions=[],
)
