from davcommon import DAV_TRUST, DAV_ASSUMPTIONS, UNIVERSE

PROP = dict(
    properties_files=["C01"],
    design_ref="DESIGN.md section 10, C01",
    technique="Coq refinement proof: the Gallina model of the file server (serve, after fs_local.go/server.go/internal/server.go) refines an abstract RFC 4918 resource tree (partial map path -> resource) for every tree, root and request, lifted to all histories; model and specification tied to the Go code by an exhaustive differential correspondence check over the bounded universe plus random histories",
    level_text="Machine-checked theorem C01_step (Coq 8.16.1, closed under the global context): for every sandbox tree of any size, every served root and every request, the model answers with an applicable refusal code and an EQUAL state, or with the success code and a state that is the abstract tree's at every path; C01_history lifts it to every request sequence. The model is hand-written after the Go source and every run executes the real webdav.Handler on a real directory for every (tree, request) pair of the bounded universe and for seeded random 40-step histories over odd names, comparing status, entity headers, body, multistatus and the directory tree afterwards with the extracted model and with the extracted specification.",
    level_note="Trusted: Coq kernel, extraction, the Go harness/OCaml comparator, the OS-call semantics of Fs.v on a link-free tree, and the library results passed in as inputs (url.Parse, ETag decoding, XML body form, mtimes). The theorem is about the model; the tie to the Go source is the per-run correspondence check (exhaustive on the stated universe only). http.ServeContent's Range handling and Content-Type sniffing are outside the model.",
    stages=[
        dict(name="universe", harness="dav", oracle="DAV", args=["-stage", "universe"], oracle_args=["c01"]),
        dict(name="history", harness="dav", oracle="DAV", args=["-stage", "history"], oracle_args=["c01"]),
        dict(name="paths", harness="dav", oracle="DAV", args=["-stage", "paths"], oracle_args=["c01"]),
        dict(name="headers", harness="dav", oracle="DAV", args=["-stage", "headers"], oracle_args=["c01"]),
        dict(name="types", harness="dav", oracle="DAV", args=["-stage", "types"], oracle_args=["c01"]),
        dict(name="rootspell", harness="dav", oracle="DAV", args=["-stage", "rootspell"], oracle_args=["c01"]),
    ],
    rule=UNIVERSE + "; plus 1,500 (quick) / 20,000 (thorough) seeded random histories of 40 requests over trees of depth <= 3 with names such as 'a b', '%41', 'é', 'x#y?z', '..x'; headers stage: every PUT / PROPFIND / PROPPATCH / MKCOL body also delivered with unknown length, a Content-Length larger or smaller than the bytes, data returned together with io.EOF, and one byte per Read; 28 Depth spellings (signs, leading zeros, blanks, case, lists, 'noroot'), 19 Overwrite spellings and 7 Content-Type values on COPY/MOVE/PROPFIND/MKCOL/PUT (and on the methods that ignore them) over two trees; rootspell stage: the served directory written in 8 ways in the configuration (trailing slash, '/.', '//', 'zz/..', inner './' and '//') x every method on 8 paths — the model knows the root as segments, so all must answer as the clean spelling; types stage: a history of GET, HEAD, PROPFIND and PUT over files named with registered, unregistered, upper-case, double, empty and no extensions (and a collection named like a file) holding text, HTML, PDF, PNG, XML, binary and empty content, with raw path spellings: Content-Type and getcontenttype compared; every case line is one (tree before, request) -> (response, tree after) step; non-trivial = every case (each reaches the handler); distinct = by digest of (tree, request)",
    exhaustive=True,
    exhaustive_universe="every (tree, request) pair of the bounded universe described in rule",
    trusted_base=DAV_TRUST,
    assumptions=DAV_ASSUMPTIONS,
)
