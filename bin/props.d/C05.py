from common import COMMON_TRUST

PROP = dict(
properties_files=["C05"],
design_ref="DESIGN.md section 10, C05",
technique="Coq proofs about a Gallina model of webdav.Client composed with the model of webdav.Handler over an arbitrary FileSystem backend (and over the tree model of LocalFileSystem): what the client reports is the backend's FileInfo / bytes, the backend is asked exactly the resolved names with exactly the requested options, a listing has exactly the scope asked for; model tied to the Go code by a differential correspondence check that runs the real client against the real handler",
level_text="PLACEHOLDER",
level_note="PLACEHOLDER",
stages=[dict(name="client", harness="c05", oracle="C05")],
rule="PLACEHOLDER",
exhaustive=True,
exhaustive_universe="PLACEHOLDER",
trusted_base=COMMON_TRUST + [],
assumptions=[],
)
