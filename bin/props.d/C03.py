from davcommon import DAV_TRUST, DAV_ASSUMPTIONS

PROP = dict(
    properties_files=["C03"],
    design_ref="DESIGN.md section 10, C03",
    technique="Coq proofs: for every byte string localPath yields only proper segments below the root (invariant of the path.Clean segment stack), every request names only paths below the root, and (corollary of the refinement theorem) everything outside the root is unchanged by every request and history; correspondence check on exhaustive short strings for path.Clean/localPath and on traversal-shaped targets against a sandbox with canaries",
    level_text="Machine-checked theorems C03_local_segs_proper / C03_local_path_confined (every byte string), C03_request_paths_confined, C03_outside_untouched (every tree, root, request path and Destination) and C03_history; C03_serve_relocates / C03_noninterference: serving at a root inside any sandbox is serving the subtree mapped there at its own top, so two sandboxes that agree on the (existing) served directory give the same response and agree afterwards — nothing beside or above the root is read. Every run compares path.Clean and localPath with the model on all strings over {'/','.','a'} up to length 8/10 and random fragments (NUL, backslash, %2e, dot-dot), and drives the real handler through http.ReadRequest with traversal-shaped request targets and Destinations (dot-dot at every position, doubled slashes, percent-encoded dots/slashes/backslashes/NUL, absolute-URL and scheme-relative forms) x every method in a sandbox with canary files beside, above and in a sibling 'rootx' of the root; rootspell stage: the served directory written in 8 unclean ways in the configuration (the hrefs reported must still lie inside the served namespace and address the resource); observed: the whole sandbox snapshot before/after, hrefs, status.",
    level_note="Trusted as for C01. 'Reads nothing outside' is the non-interference theorem C03_noninterference (hypothesis: the served directory exists; with a missing root MKCOL of '/' consults the root's parent, RelocProofs.mkcol_root_reads_parent) plus the canary-content scan of responses in the harness. Symbolic links inside the root pointing outside are a deployment matter outside the model. net/http and net/url decoding are exercised, not proved.",
    stages=[
        dict(name="paths", harness="dav", oracle="DAV", args=["-stage", "paths"], oracle_args=["c03"]),
        dict(name="traversal", harness="dav", oracle="DAV", args=["-stage", "traversal"], oracle_args=["c03"]),
        dict(name="history", harness="dav", oracle="DAV", args=["-stage", "history"], oracle_args=["c03"]),
        dict(name="rootspell", harness="dav", oracle="DAV", args=["-stage", "rootspell"], oracle_args=["c03"]),
    ],
    rule="paths: all strings over {'/','.','a'} up to length 8 (quick) / 10 (thorough) + 20,000/300,000 random concatenations of fragments ('..', '//', NUL, backslash, '%2e%2e', ...), each through path.Clean and LocalFileSystem.localPath; traversal: ~450 systematic + 300/3,000 random hostile targets x 9 methods (as request target, and as Destination of COPY/MOVE from a file and from a collection) through http.ReadRequest against a sandbox {canary, rootx/secret, up/canary, root/...}; random histories as for C01 with the outside of the root compared; non-trivial = every case; distinct = by digest",
    exhaustive=True,
    exhaustive_universe="all strings over a 3-letter alphabet up to the stated length for the path functions",
    trusted_base=DAV_TRUST,
    assumptions=DAV_ASSUMPTIONS,
)
