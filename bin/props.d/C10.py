from common import COMMON_TRUST

PROP = dict(
properties_files=["C10"],
design_ref="DESIGN.md section 10, C10",
technique="Coq proofs about a Gallina model of the CalDAV/CardDAV object and collection code paths (server property functions, NewPropFindResponse, multi-status struct<->tree mapping, client list decoders, GET/PUT headers); model tied to the Go code by a differential correspondence check of the real clients against the real handlers and against an independent multi-status writer/reader",
level_text="WIP",
level_note="WIP",
stages=[dict(name="objects", harness="c10", oracle="C10")],
rule="WIP",
exhaustive=True,
exhaustive_universe="WIP",
trusted_base=COMMON_TRUST + [],
assumptions=[],
)
