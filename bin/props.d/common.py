"""shared fragments of the per-property configuration"""

COMMON_TRUST = [
    "Coq 8.16.1 kernel (coqc, full .vo build via coq_makefile; vm_compute used for finite sweeps and witnesses; no native_compute)",
    "Extraction with ExtrOcamlBasic + ExtrOcamlString only (bool, option, unit, list, prod, sumbool -> OCaml; ascii -> char, string -> char list); N/Z/positive/nat stay Coq datatypes; OCaml 4.13.1 ocamlfind ocamlopt",
    "correspondence machinery: Go harness (/verif/harness, built with -tags verif against /repo's working tree), S-expression reader oracle/common/sx.ml, per-property oracle main.ml (parsing only; verdicts are extracted Gallina), Python driver bin/check",
]
