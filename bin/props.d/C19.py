from common import COMMON_TRUST

PROP = dict(
properties_files=["C19"],
design_ref="DESIGN.md section 10, C19",
technique="Coq proof (induction over the component list) that the model of ValidateCalendarObject computes the RFC 4791 4.1 acceptance predicate; model tied to the Go code by an exhaustive+random differential correspondence check against the extracted model",
level_text="Machine-checked theorems (Coq 8.16.1, closed under the global context) state acceptance iff the RFC 4791 section 4.1 rules hold, for calendars of every length, and that rejection yields empty results; the Gallina model is hand-written after caldav/caldav.go:25-64 and every run executes the real function on all component sequences up to length 4/5 plus random calendars and compares with the extracted model and specification.",
level_note="Trusted: Coq kernel, extraction (ExtrOcamlBasic/ExtrOcamlString), the Go harness and OCaml comparator, go-ical's Props.Text as an input. The theorem is about the model; the tie to the Go source is the per-run correspondence check, exhaustive only up to the stated bound.",
stages=[dict(name="validate", harness="c19", oracle="C19")],
rule="every sequence of <=4 (quick) / <=5 (thorough) components over {VEVENT,VTODO,VJOURNAL,VFREEBUSY,VTIMEZONE} x UID in {absent,u1,u2,malformed escape} x METHOD present/absent, built through the go-ical API (and, for sequences of <=3 and all random calendars, also re-decoded from go-ical's text encoding), plus seeded random calendars of up to 30 components over more names and UID strings; non-trivial = at least two components; distinct = by digest of the input S-expression",
exhaustive=True,
exhaustive_universe="all component sequences up to the stated length over 5 names x 4 UID states x METHOD flag",
trusted_base=COMMON_TRUST + [
    "modelled rather than verified: the calendar is abstracted to (METHOD present?, list of (component name, outcome of go-ical Props.Text(UID))); go-ical's accessors and codec are inputs, not modelled",
],
assumptions=[
    "component names are non-empty (names_nonempty; no iCalendar parser yields an empty name; Example ex_empty_name_breaks shows the hypothesis is needed)",
    "go-ical's Props.Text result for a UID is one of: absent/empty text, a text, an error",
],
)
