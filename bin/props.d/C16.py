from common import COMMON_TRUST

PROP = dict(
properties_files=["C16"],
design_ref="DESIGN.md section 10, C16",
technique="Coq proofs about Gallina models of each wire codec (round trip and rejection, universally quantified); models tied to the Go code by an exhaustive+generated differential correspondence check against the extracted models and specifications",
level_text="TBD",
level_note="TBD",
stages=[
    dict(name="small", harness="c16", oracle="C16", args=["-stage", "small"]),
    dict(name="date", harness="c16", oracle="C16", args=["-stage", "date"]),
    dict(name="etag", harness="c16", oracle="C16", args=["-stage", "etag"]),
    dict(name="href", harness="c16", oracle="C16", args=["-stage", "href"]),
],
rule="TBD",
exhaustive=True,
exhaustive_universe="Depth in -5..5, Overwrite in {T,F}, status codes 100..999 x 14 reason phrases",
trusted_base=COMMON_TRUST + [],
assumptions=[],
)
