from common import COMMON_TRUST

PROP = dict(
properties_files=["C12"],
design_ref="DESIGN.md section 10, C12",
technique="Coq proofs over a Gallina model of path.Clean/strings.*, resourceTypeAtPath, the caldav/carddav handler dispatch and the client discovery chain (induction over segment lists; case analysis over verb x level); model tied to the Go code by a differential correspondence check against real handlers with recording backend doubles and real clients over httptest servers",
level_text="Machine-checked theorems (Coq 8.16.1, closed under the global context): for every number of prefix and rest segments and all segment bytes the resource type is the depth below the prefix in both spellings; the first backend operation is the routing table's with the request path unchanged; MKCOL is accepted exactly at collection depth (403 and no backend call elsewhere); a PROPFIND on a foreign principal/home-set path has no response; the client chain returns exactly the backend's paths. The Gallina model is hand-written after caldav/server.go, carddav/server.go and the clients; every run executes the real handlers/clients on the bounded universe of the property plus random layouts and compares with the extracted model and specification.",
level_note="Trusted: Coq kernel, extraction, the Go harness (recording doubles, request builder) and OCaml comparator; path.Clean and strings.* are modelled and cross-checked exhaustively on {'/','.','a'}* up to length 8 (quick) / 10 (thorough); net/http, net/url escaping and the http.Client redirect handling are exercised but not modelled. The theorem is about the model; the tie to the Go source is the per-run correspondence check.",
stages=[
    dict(name="strings", harness="c12", oracle="C12", args=["-stage", "strings"]),
    dict(name="serve", harness="c12", oracle="C12", args=["-stage", "serve"]),
    dict(name="discovery", harness="c12", oracle="C12", args=["-stage", "discovery"]),
],
rule="strings: path.Clean on every string over {'/','.','a'} up to length 8 (quick) / 10 (thorough), strings.Split/TrimSuffix/HasPrefix/TrimPrefix and the real resourceTypeAtPath (both packages, 7 prefixes) on the shorter ones, plus seeded random strings with %, space, non-ASCII, '..x'; serve: prefixes of 0-2 segments (quick; plus a seeded sample of 3-segment ones; thorough: all 0-3) from {dav,'a b',%41,e-acute,x.y,..x} in both spellings x 2 servers x 2 name sets x 11 rest paths (own / foreign / missing resources at depths 0-5) x trailing slash x 19 request kinds (every verb; PUT/MKCOL/REPORT variants; PROPFIND Depth 0/1/infinity), plus /.well-known and out-of-quantifier paths (model faithfulness only) and seeded random layouts with 0-3 collections x 0-3 objects; non-trivial = inside the quantifier (strings: level >= 1); distinct = by digest of the input S-expression",
exhaustive=True,
exhaustive_universe="all prefixes of 0-2 (quick) / 0-3 (thorough) segments over 6 names x 2 spellings x 19 request kinds x depths 0-5 x trailing slash x 2 servers; path.Clean on all strings over 3 bytes up to length 8/10",
trusted_base=COMMON_TRUST + [
    "modelled rather than verified: path.Clean, strings.Split/TrimPrefix/HasPrefix/TrimSuffix (cross-checked exhaustively on a small alphabet every run); the backend double's lookup rules (collection by path modulo one trailing slash, object by exact path) are the record `backend` of Route.v",
    "not modelled: net/http request parsing and redirect following, net/url escaping of hrefs and of the Location header, encoding/xml, go-ical/go-vcard (PUT/GET bodies)",
],
assumptions=[
    "prefix and rest segments are non-empty, contain no '/', and are not '.' or '..' (segs_ok); the request path is not the reserved /.well-known/caldav|carddav",
    "the routing table speaks about well-formed requests (plain): PUT with the right Content-Type, MKCOL without body or with a body of the right resource type, REPORT queries; a multiget reaches Get…Object with the hrefs of its body",
    "backend double: operations succeed, Get… fails with 404 for unknown paths",
],
)
