from common import COMMON_TRUST

PROP = dict(
properties_files=["C11"],
design_ref="DESIGN.md section 10, C11",
technique="draft",
level_text="draft",
level_note="draft",
stages=[dict(name="propfind", harness="c11", oracle="C11")],
rule="draft",
exhaustive=True,
exhaustive_universe="draft",
trusted_base=COMMON_TRUST + [],
assumptions=[],
)
