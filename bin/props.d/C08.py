from common import COMMON_TRUST

PROP = dict(
properties_files=["C08"],
coq_targets=["CalWire"],
design_ref="DESIGN.md section 10, C08",
technique="placeholder",
level_text="placeholder",
level_note="placeholder",
stages=[dict(name="wire", harness="c08", oracle="C08")],
rule="placeholder",
exhaustive=True,
exhaustive_universe="placeholder",
trusted_base=COMMON_TRUST,
assumptions=[],
)
