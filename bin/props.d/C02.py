from davcommon import DAV_TRUST, DAV_ASSUMPTIONS, UNIVERSE

PROP = dict(
    properties_files=["C02"],
    design_ref="DESIGN.md section 10, C02",
    technique="Coq proof (corollary of the refinement theorem) that every request answered >= 400 leaves the modelled file system equal to what it was, incl. PUT bodies that break off; correspondence check compares the fails/succeeds bit and the tree afterwards on the exhaustive universe, random histories and a PUT fault matrix",
    level_text="Machine-checked theorems C02_no_change (for every tree, root and request: status >= 400 implies the state — names, kinds, bytes, times, inside and outside the root — is EQUAL to the one before), C02_put_body_failure (a PUT whose body reader fails fails and changes nothing) and C02_history. Every run executes the real handler on the bounded universe, on random histories and on PUTs whose body fails after k bytes (k around 0, the end, and io.Copy's 32 KiB buffer) onto absent / file / collection / parentless targets, comparing the directory snapshot before and after.",
    level_note="Trusted as for C01. The upload's write-to-temp-then-rename is one atomic step in the model (the harness checks that no temporary file survives); a crash of the server process between two OS calls and OS failures in the middle of a recursive copy (disk full) are not in the model and cannot be produced by the harness.",
    stages=[
        dict(name="universe", harness="dav", oracle="DAV", args=["-stage", "universe"], oracle_args=["c02"]),
        dict(name="history", harness="dav", oracle="DAV", args=["-stage", "history"], oracle_args=["c02"]),
        dict(name="putfault", harness="dav", oracle="DAV", args=["-stage", "putfault"], oracle_args=["c02"]),
    ],
    rule=UNIVERSE + "; random histories as for C01; PUT fault matrix: body sizes {0,1,5,32767,32768,32769,100000} x failure offsets {0,1,2,size-1,size,32767,32768,32769,none} x targets {absent, existing file, collection, missing parent, parent is a file}; non-trivial = every case; distinct = by digest of (tree, request)",
    exhaustive=True,
    exhaustive_universe="every (tree, request) pair of the bounded universe; the full fault matrix",
    trusted_base=DAV_TRUST,
    assumptions=DAV_ASSUMPTIONS,
)
