from davcommon import DAV_TRUST, DAV_ASSUMPTIONS, UNIVERSE

PROP = dict(
    properties_files=["C02"],
    design_ref="DESIGN.md section 10, C02",
    technique="Coq proof (corollary of the refinement theorem) that every request answered >= 400 leaves the modelled file system equal to what it was, incl. PUT bodies that break off; correspondence check compares the fails/succeeds bit and the tree afterwards on the exhaustive universe, random histories and a PUT fault matrix",
    level_text="Machine-checked theorems C02_no_change (for every tree, root and request: status >= 400 implies the state — names, kinds, bytes, times, inside and outside the root — is EQUAL to the one before), C02_put_body_failure (a PUT whose body reader fails fails and changes nothing) and C02_history; C02_upload_abort_restores / C02_upload_in_progress / C02_upload_commit / C02_put_is_upload: the OS-call sequence of the upload (createTemp, one write per piece of the body, Remove or Rename), for every division of the body into pieces, every failure point and every new temporary name, restores the EQUAL tree on failure, never differs from the tree before except at the temporary name while in progress, and is the single step of the model. Every run executes the real handler on the bounded universe, on random histories and on PUTs whose body fails after k bytes (k around 0, the end, and io.Copy's 32 KiB buffer) onto absent / file / collection / parentless / nested targets, with the request context cancelled at the same offsets, and beside unrelated files that bear the name of the upload's temporary file, comparing the directory snapshot before and after.",
    level_note="Trusted as for C01. The upload is one step in serve; C02_put_is_upload proves that step equal to the OS-call sequence of Create (temporary file, writes, remove or rename) under the hypothesis that the temporary name is new (O_EXCL), and the putsteps stage compares the sandbox at every read of the body with that sequence. A crash of the server process between two OS calls and OS failures in the middle of a recursive copy (disk full) are not in the model and cannot be produced by the harness.",
    stages=[
        dict(name="universe", harness="dav", oracle="DAV", args=["-stage", "universe"], oracle_args=["c02"]),
        dict(name="history", harness="dav", oracle="DAV", args=["-stage", "history"], oracle_args=["c02"]),
        dict(name="putfault", harness="dav", oracle="DAV", args=["-stage", "putfault"], oracle_args=["c02"]),
        dict(name="putsteps", harness="dav", oracle="DAV", args=["-stage", "putsteps"], oracle_args=["c02"]),
    ],
    rule=UNIVERSE + "; random histories as for C01; upload steps: PUTs whose body arrives in fixed and random piece divisions (incl. pieces around 32 KiB), ending or failing, onto absent / existing / nested targets and beside files that bear the temporary name, the sandbox observed at every read of the body; PUT fault matrix: body sizes {0,1,5,32767,32768,32769,100000} x failure offsets {0,1,2,size-1,size,32767,32768,32769,none} x targets {absent, existing file, collection, missing parent, parent is a file, nested file}; the same offsets as points at which the request context is cancelled (body readable to the end, or failing one byte later; with and without If-Match / If-None-Match), every other method with an already cancelled context; planted-name trees: the names that exist in the sandbox while the real handler reads a PUT body (discovered by probing twice) and the usual derived names (<t>.part, <t>.tmp, <t>~, .<t>.tmp, <t>.new, <t>.bak, .<t>.swp, <t>.upload, .webdav-upload-0, tmp) each hold an unrelated file while PUTs succeed or fail beside them; non-trivial = every case; distinct = by digest of (tree, request)",
    exhaustive=True,
    exhaustive_universe="every (tree, request) pair of the bounded universe; the full fault matrix",
    trusted_base=DAV_TRUST,
    assumptions=DAV_ASSUMPTIONS,
)
