"""shared configuration of the file-server checks (C01, C02, C03, C04, C17)"""
from common import COMMON_TRUST

DAV_TRUST = COMMON_TRUST + [
    "modelled rather than verified: the OS calls of fs_local.go as operations on a tree of files and directories (Fs.v) on a link-free, owner-writable tree on Linux; ENOENT and ENOTDIR are not distinguished (both map to 404/409 in the code); I/O errors other than those the tree itself causes (disk full, permissions) are outside the model",
    "path.Clean / filepath.Join / filepath.Rel are modelled (GoPath.v) and cross-checked against Go on every string over {'/','.','a'} up to length 8 (quick) / 10 (thorough) plus seeded random strings",
    "inputs computed by the harness with the real library code, not modelled: url.Parse of the Destination header (its Path), ConditionalMatch.ETag() of the two conditional headers (the ETag codec is property C16), the form of a PROPFIND body as encoding/xml decodes it, the modification time the OS stamps on a written file, the entity tag Stat reports for a collection",
    "not modelled: net/http request parsing and http.ServeContent (no Range / conditional GET headers are sent), Content-Type by file extension (not compared), encoding/xml bytes<->tokens (multistatus bodies are read back with encoding/xml)",
    "temporary upload file of Create (.webdav-upload-N next to the target): the model treats write-to-temp + rename as one atomic replacement; the harness checks that no such file is left behind in any explored case",
]

DAV_ASSUMPTIONS = [
    "the served tree contains no symbolic links and the server process may read and write all of it",
    "filepath.Separator is '/' (the platform checked)",
    "the root directory's host path is clean and absolute",
    "the verdict on an observation (Rfc4918.spec_ok_reported) demands what the statements say and no more: announced entity tags are compared with what LocalFileSystem.Stat reports (their format is not prescribed), any 4xx is accepted where source and destination are properly nested and for an unreadable PROPFIND/PROPPATCH body, any status from 400 on for a PUT whose body breaks off, and a collection's href may end in a slash; the agreement with the model (which fixes all of these) is judged separately and exactly",
    "request and Destination paths reach the model as r.URL.Path / url.Parse(...).Path computed by net/http and net/url (exercised through http.ReadRequest in the traversal stage)",
]

UNIVERSE = "the bounded universe of C01: 361 trees over names {a,b} (each member absent / file x / file y / collection whose members are absent / file x / file y / empty collection) plus 'nothing mapped at the root', each crossed with every request: methods OPTIONS GET HEAD PUT DELETE MKCOL COPY MOVE PROPFIND FOO x 13 paths (8 paths incl. one deeper probe, trailing-slash, '//', '.', '..' spellings) x Depth x Overwrite x 14 Destination forms (absent, unparsable, relative, absolute-URL, scheme-relative) x bodies x Content-Type x 6 PROPFIND bodies; quick restricts invalid header values to two destinations per source, thorough takes the full cross product"
