from davcommon import DAV_TRUST, DAV_ASSUMPTIONS, UNIVERSE

PROP = dict(
    properties_files=["C17"],
    design_ref="DESIGN.md section 10, C17",
    technique="Coq proof that in the model (where every OS error carries a 'names a host path' bit that only stripPath/errFromOS clear, as in fs_local.go) no response of any request on any tree discloses a host path; correspondence check scans every header and body of every explored response for the sandbox path",
    level_text="Machine-checked theorem C17_no_leak: for every tree, root and request the response's disclosure bit is false — every error path of the model passes through the stripping functions where the Go code applies them. Every run scans all header values and the body of every response of the bounded universe, the traversal stage and the random histories for the absolute path of the sandbox (created under an unmistakable directory name) and compares the bit with the model.",
    level_note="Trusted as for C01. Which OS errors can occur is the Fs.v semantics: errors the tree itself cannot cause (write failures, permissions, cross-device renames) are not reachable in the model or the harness; io.Copy write errors in Create would still carry the temporary file's path (recorded in DESIGN.md as residual).",
    stages=[
        dict(name="universe", harness="dav", oracle="DAV", args=["-stage", "universe"], oracle_args=["c17"]),
        dict(name="traversal", harness="dav", oracle="DAV", args=["-stage", "traversal"], oracle_args=["c17"]),
        dict(name="history", harness="dav", oracle="DAV", args=["-stage", "history"], oracle_args=["c17"]),
    ],
    rule=UNIVERSE + "; traversal stage and random histories as for C03/C01; observed: does any header value or the body contain the sandbox's absolute path; non-trivial = every case; distinct = by digest of (tree, request)",
    exhaustive=True,
    exhaustive_universe="every (tree, request) pair of the bounded universe",
    trusted_base=DAV_TRUST,
    assumptions=DAV_ASSUMPTIONS,
)
