from davcommon import DAV_TRUST, DAV_ASSUMPTIONS, UNIVERSE

PROP = dict(
    properties_files=["C17"],
    design_ref="DESIGN.md section 10, C17",
    technique="Coq proof that in the model (where every OS error carries a 'names a host path' bit that only stripPath/errFromOS clear, as in fs_local.go) no response of any request on any tree discloses a host path; correspondence check scans every header and body of every explored response for the sandbox path",
    level_text="Machine-checked theorem C17_no_leak: for every tree, root and request the response's disclosure bit is false — every error path of the model passes through the stripping functions where the Go code applies them. Every run scans all header values and the body of every response of the bounded universe, the traversal stage and the random histories for the absolute path of the sandbox (created under an unmistakable directory name) and compares the bit with the model.",
    level_note="Trusted as for C01. Which OS errors can occur is the Fs.v semantics: the model does not distinguish ENAMETOOLONG, ELOOP, ENOTEMPTY and the errors of a sandbox that changes under an upload — C17_no_leak says that no error of any kind leaves the model unstripped, and the exotic stage provokes those errors in the real handler and compares the disclosure bit only; write failures are provoked by the wfault stage (they disclosed the temporary file's path until repair 6981fa5); permissions and cross-device renames are not reachable in the harness; io.Copy write errors in Create would still carry the temporary file's path (recorded in DESIGN.md as residual).",
    stages=[
        dict(name="universe", harness="dav", oracle="DAV", args=["-stage", "universe"], oracle_args=["c17"]),
        dict(name="traversal", harness="dav", oracle="DAV", args=["-stage", "traversal"], oracle_args=["c17"]),
        dict(name="history", harness="dav", oracle="DAV", args=["-stage", "history"], oracle_args=["c17"]),
        dict(name="exotic", harness="dav", oracle="DAV", args=["-stage", "exotic"], oracle_args=["c17"]),
        dict(name="rootspell", harness="dav", oracle="DAV", args=["-stage", "rootspell"], oracle_args=["c17"]),
        dict(name="raceput", harness="dav", oracle="DAV", args=["-stage", "raceput"], oracle_args=["c17"]),
        dict(name="wfault", harness="dav", oracle="DAV", args=["-stage", "wfault"], oracle_args=["c17"]),
    ],
    rule=UNIVERSE + "; traversal stage and random histories as for C03/C01; exotic stage (only the disclosure bit is compared there, the model does not distinguish these OS errors): every method on names longer than 255 bytes, on paths longer than 4096 bytes (15 nested 250-byte names), on and through symbolic links (self loop, link to a directory, dangling, link inside a copied collection), COPY/MOVE with such sources and destinations, and PUTs during whose body the parent is removed, replaced by a file, the target becomes an (empty / non-empty) directory or a file, or the root is removed; a link to /dev/null; rootspell stage: unclean spellings of the root in the configuration; raceput stage: 1,500 (quick) / 12,000 (thorough) PUT + GET of one target while four goroutines DELETE it (the windows between Create's rename and its final Stat, and between Stat and Open); wfault stage: in a child process whose RLIMIT_FSIZE is 64 KiB (SIGXFSZ ignored) PUTs and COPY/MOVEs that must write more than that, i.e. write errors in the middle of an upload or a copy; observed: does any header value or the body contain the sandbox's absolute path; non-trivial = every case; distinct = by digest of (tree, request)",
    exhaustive=True,
    exhaustive_universe="every (tree, request) pair of the bounded universe",
    trusted_base=DAV_TRUST,
    assumptions=DAV_ASSUMPTIONS,
)
