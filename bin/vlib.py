"""vlib.py — shared machinery of /verif/bin/check and /verif/bin/setup.

Pipeline of one check (DESIGN.md section 3):
  1. Coq: incremental `make` of the whole development, then `coqc Properties_<id>.v`
     to re-check the property statements and capture `Print Assumptions`.
  2. oracle: Extraction of the Gallina model/spec for the property + ocamlopt.
  3. harness: `go build -tags verif` against /repo's working tree, run it.
  4. oracle recomputes every case; the driver classifies, writes evidence + replays.
"""
import fcntl
import glob
import hashlib
import json
import os
import random
import re
import shutil
import subprocess
import sys
import time

VERIF = os.path.dirname(os.path.dirname(os.path.abspath(__file__)))
COQ = os.path.join(VERIF, "coq")
THEORIES = os.path.join(COQ, "theories")
ORACLE = os.path.join(VERIF, "oracle")
HARNESS = os.path.join(VERIF, "harness")
REPO = os.path.abspath(os.environ.get("VERIF_REPO", "/repo"))  # mutation experiments point this at a scratch worktree

GOENV = dict(os.environ, GOFLAGS="-mod=mod", GOPROXY="off", GOSUMDB="off",
             GOTOOLCHAIN="local")

FORBIDDEN = re.compile(
    r"\b(Admitted|admit|Axiom|Axioms|Parameter|Parameters|Conjecture|Admit Obligations|"
    r"Unset Guard Checking|Unset Positivity Checking|Unset Universe Checking|bypass_check|"
    r"type-in-type|impredicative-set|native_compute)\b")

# axioms of Coq's standard library that a theorem may depend on (named in DESIGN.md section 7)
ALLOWED_AXIOMS = {
    "functional_extensionality_dep", "proof_irrelevance", "JMeq_eq", "eq_rect_eq",
    "Eqdep.Eq_rect_eq.eq_rect_eq", "FunctionalExtensionality.functional_extensionality_dep",
    "classic", "Classical_Prop.classic",
}


class Lock:
    def __init__(self, name="build"):
        self.path = os.path.join(VERIF, ".%s.lock" % name)

    def __enter__(self):
        self.f = open(self.path, "w")
        fcntl.flock(self.f, fcntl.LOCK_EX)
        return self

    def __exit__(self, *a):
        fcntl.flock(self.f, fcntl.LOCK_UN)
        self.f.close()


def run(cmd, cwd=None, env=None, timeout=3600, check=False):
    p = subprocess.run(cmd, cwd=cwd, env=env, timeout=timeout, stdout=subprocess.PIPE,
                       stderr=subprocess.STDOUT, text=True, errors="replace")
    if check and p.returncode != 0:
        raise RuntimeError("command failed (%d): %s\n%s" % (p.returncode, " ".join(cmd), p.stdout[-4000:]))
    return p.returncode, p.stdout


# ---------------------------------------------------------------- Coq

def coq_sources():
    return sorted(glob.glob(os.path.join(THEORIES, "*.v")))


def write_coqproject():
    lines = ["-Q theories GW",
             "-arg -w -arg -notation-overridden,-deprecated-hint-without-locality,-deprecated-instance-without-locality,-unknown-option"]
    lines += ["theories/" + os.path.basename(p) for p in coq_sources()]
    text = "\n".join(lines) + "\n"
    path = os.path.join(COQ, "_CoqProject")
    if not os.path.exists(path) or open(path).read() != text:
        open(path, "w").write(text)
        return True
    return False


def coq_build(jobs=16, timeout=5400, targets=None):
    """Full .vo build (no -vos/-vok) of the whole development, or of the given
    theories (with everything they import).  Returns (ok, log)."""
    changed = write_coqproject()
    mk = os.path.join(COQ, "Makefile.coq")
    if changed or not os.path.exists(mk):
        rc, out = run(["coq_makefile", "-f", "_CoqProject", "-o", "Makefile.coq"], cwd=COQ)
        if rc != 0:
            return False, out
    cmd = ["make", "-f", "Makefile.coq", "-j%d" % jobs, "-k"]
    if targets:
        cmd += ["theories/%s.vo" % t for t in targets]
    rc, out = run(cmd, cwd=COQ, timeout=timeout)
    return rc == 0, out


def forbidden_scan():
    """Every .v file under coq/ is scanned for constructs the brief forbids."""
    hits = []
    for p in sorted(glob.glob(os.path.join(COQ, "**", "*.v"), recursive=True)):
        text = open(p, errors="replace").read()
        # strip comments (nested) before scanning
        out, depth, i = [], 0, 0
        while i < len(text):
            if text.startswith("(*", i):
                depth += 1; i += 2
            elif text.startswith("*)", i) and depth > 0:
                depth -= 1; i += 2
            else:
                if depth == 0:
                    out.append(text[i])
                i += 1
        code = "".join(out)
        for m in FORBIDDEN.finditer(code):
            hits.append("%s: %s" % (os.path.relpath(p, VERIF), m.group(0)))
    return hits


def check_properties_file(pid):
    """Re-compile Properties_<pid>.v; returns dict(theorems, assumptions, ok, log)."""
    src = os.path.join(THEORIES, "Properties_%s.v" % pid)
    if not os.path.exists(src):
        return dict(ok=False, theorems=[], assumptions={}, log="missing " + src, shape_ok=False)
    text = open(src).read()
    theorems = re.findall(r"^\s*(?:Theorem|Corollary)\s+([A-Za-z0-9_']+)", text, re.M)
    # shape: every proof in a Properties file is `exact <lemma>.`
    proofs = re.findall(r"Proof\.(.*?)Qed\.", text, re.S)
    shape_ok = all(re.fullmatch(r"\s*exact\s+[^.]+(\.[A-Za-z0-9_']+)*\s*\.\s*", p) for p in proofs) and len(proofs) == len(theorems)
    rc, out = run(["coqc", "-Q", "theories", "GW", "-w", "-notation-overridden", src], cwd=COQ, timeout=1800)
    assumptions = {}
    # output: for each Print Assumptions either "Closed under the global context" or "Axioms:\n name : type ..."
    blocks = re.split(r"(?=Closed under the global context|Axioms:)", out)
    blocks = [b for b in blocks if b.startswith("Closed") or b.startswith("Axioms:")]
    printed = re.findall(r"Print Assumptions\s+([A-Za-z0-9_']+)", text)
    for name, b in zip(printed, blocks):
        if b.startswith("Closed"):
            assumptions[name] = []
        else:
            assumptions[name] = re.findall(r"^([A-Za-z0-9_.']+)\s*:", b[len("Axioms:"):], re.M)
    ok = rc == 0 and len(blocks) == len(printed) and set(printed) == set(theorems)
    return dict(ok=ok, theorems=theorems, assumptions=assumptions, log=out, shape_ok=shape_ok)


# ---------------------------------------------------------------- oracle / harness builds

def newest(paths):
    return max([os.path.getmtime(p) for p in paths if os.path.exists(p)] or [0])


def build_oracle(pid):
    """Extract the Gallina definitions for <pid> and compile the oracle.  Returns (exe, log)."""
    low = pid.lower()
    bdir = os.path.join(ORACLE, "_build", low)
    exe = os.path.join(bdir, low + ".exe")
    ext = os.path.join(COQ, "extract", "Extract%s.v" % pid)
    # the theories the extraction imports must be compiled from their current sources
    mods = []
    for m in re.finditer(r"From\s+GW\s+Require\s+Import\s+([^.]*)\.", open(ext).read()):
        mods += m.group(1).split()
    if mods:
        ok, blog = coq_build(targets=mods)
        if not ok:
            return None, "theories imported by %s do not build:\n%s" % (os.path.basename(ext), blog[-3000:])
    srcs = [ext, os.path.join(ORACLE, low, "main.ml"), os.path.join(ORACLE, "common", "sx.ml")]
    # the statement files are recompiled by every check and are never extracted from
    srcs += [f for f in glob.glob(os.path.join(THEORIES, "*.vo")) if not os.path.basename(f).startswith("Properties_")]
    if os.path.exists(exe) and os.path.getmtime(exe) >= newest(srcs):
        return exe, "up to date"
    # build beside the live directory and move the executable into place in one step: a check
    # running at the same time (against another tree) may be about to execute the old one
    tdir = bdir + ".tmp.%d" % os.getpid()
    shutil.rmtree(tdir, ignore_errors=True)
    os.makedirs(tdir)
    try:
        shutil.copy(ext, tdir)
        rc, out = run(["coqc", "-Q", THEORIES, "GW", "-w", "-notation-overridden,-unknown-option,-extraction", os.path.basename(ext)], cwd=tdir, timeout=900)
        if rc != 0:
            return None, out
        shutil.copy(os.path.join(ORACLE, "common", "sx.ml"), tdir)
        shutil.copy(os.path.join(ORACLE, low, "main.ml"), tdir)
        model = "model_%s" % low
        texe = os.path.join(tdir, low + ".exe")
        rc, out2 = run(["ocamlfind", "ocamlopt", "-O2", "-w", "-a", "sx.ml", model + ".mli", model + ".ml", "main.ml", "-o", texe], cwd=tdir, timeout=900)
        if rc != 0:
            return None, out + out2
        os.makedirs(bdir, exist_ok=True)
        for f in os.listdir(tdir):
            if f != low + ".exe":
                os.replace(os.path.join(tdir, f), os.path.join(bdir, f))
        os.replace(texe, exe)
        return exe, out + out2
    finally:
        shutil.rmtree(tdir, ignore_errors=True)


def build_harness(cmd):
    """go build -tags verif of harness/cmd/<cmd> against the tree under test (/repo's current
    working tree, or VERIF_REPO).  The module file and the binary are kept per tree under test,
    so that checks running at the same time against different trees (seeded changes in scratch
    worktrees) never execute one another's binaries."""
    tag = "main" if REPO == "/repo" else hashlib.sha1(REPO.encode()).hexdigest()[:10]
    mdir = os.path.join(HARNESS, ".mods", tag)
    os.makedirs(mdir, exist_ok=True)
    shutil.copy(os.path.join(REPO, "go.sum"), os.path.join(mdir, "go.sum"))
    gomod = open(os.path.join(HARNESS, "go.mod.tmpl")).read().replace("@REPO@", REPO)
    gm = os.path.join(mdir, "go.mod")
    if not os.path.exists(gm) or open(gm).read() != gomod:
        open(gm, "w").write(gomod)
    # keep a go.mod in the module root as well (editors, go vet by hand); it always names /repo
    root_gm = os.path.join(HARNESS, "go.mod")
    root_mod = open(os.path.join(HARNESS, "go.mod.tmpl")).read().replace("@REPO@", "/repo")
    if not os.path.exists(root_gm) or open(root_gm).read() != root_mod:
        open(root_gm, "w").write(root_mod)
        shutil.copy(os.path.join("/repo", "go.sum"), os.path.join(HARNESS, "go.sum"))
    bdir = os.path.join(HARNESS, "bin") if tag == "main" else os.path.join(HARNESS, "bin", tag)
    os.makedirs(bdir, exist_ok=True)
    exe = os.path.join(bdir, cmd)
    rc, out = run(["go", "build", "-modfile", gm, "-tags", "verif", "-o", exe, "./cmd/" + cmd], cwd=HARNESS, env=GOENV, timeout=1800)
    if rc != 0:
        return None, out
    return exe, out


def scratch_dir():
    base = "/dev/shm" if os.path.isdir("/dev/shm") and os.access("/dev/shm", os.W_OK) else os.path.join(VERIF, ".scratch")
    d = os.path.join(base, "verif.%d" % os.getpid())
    os.makedirs(d, exist_ok=True)
    return d


def sweep_stale_scratch():
    for base in ("/dev/shm", os.path.join(VERIF, ".scratch")):
        for d in glob.glob(os.path.join(base, "verif.*")):
            try:
                pid = int(d.rsplit(".", 1)[1])
                os.kill(pid, 0)
            except (ValueError, ProcessLookupError):
                shutil.rmtree(d, ignore_errors=True)
            except PermissionError:
                pass


def repo_tree_hash():
    rc, out = run(["git", "-C", REPO, "rev-parse", "HEAD"])
    head = out.strip()
    rc, diff = run(["git", "-C", REPO, "diff", "HEAD"])
    return head[:12] + ("+dirty:" + hashlib.sha1(diff.encode()).hexdigest()[:8] if diff.strip() else "")
