theories/Base.vo theories/Base.glob theories/Base.v.beautified theories/Base.required_vo: theories/Base.v 
theories/Base.vio: theories/Base.v 
theories/Base.vos theories/Base.vok theories/Base.required_vos: theories/Base.v 
theories/CalMatch.vo theories/CalMatch.glob theories/CalMatch.v.beautified theories/CalMatch.required_vo: theories/CalMatch.v theories/Base.vo
theories/CalMatch.vio: theories/CalMatch.v theories/Base.vio
theories/CalMatch.vos theories/CalMatch.vok theories/CalMatch.required_vos: theories/CalMatch.v theories/Base.vos
theories/CalMatchProofs.vo theories/CalMatchProofs.glob theories/CalMatchProofs.v.beautified theories/CalMatchProofs.required_vo: theories/CalMatchProofs.v theories/Base.vo theories/CalMatch.vo
theories/CalMatchProofs.vio: theories/CalMatchProofs.v theories/Base.vio theories/CalMatch.vio
theories/CalMatchProofs.vos theories/CalMatchProofs.vok theories/CalMatchProofs.required_vos: theories/CalMatchProofs.v theories/Base.vos theories/CalMatch.vos
theories/CalTime.vo theories/CalTime.glob theories/CalTime.v.beautified theories/CalTime.required_vo: theories/CalTime.v theories/Base.vo
theories/CalTime.vio: theories/CalTime.v theories/Base.vio
theories/CalTime.vos theories/CalTime.vok theories/CalTime.required_vos: theories/CalTime.v theories/Base.vos
theories/CalTimeProofs.vo theories/CalTimeProofs.glob theories/CalTimeProofs.v.beautified theories/CalTimeProofs.required_vo: theories/CalTimeProofs.v theories/Base.vo theories/CalTime.vo
theories/CalTimeProofs.vio: theories/CalTimeProofs.v theories/Base.vio theories/CalTime.vio
theories/CalTimeProofs.vos theories/CalTimeProofs.vok theories/CalTimeProofs.required_vos: theories/CalTimeProofs.v theories/Base.vos theories/CalTime.vos
theories/CalValidate.vo theories/CalValidate.glob theories/CalValidate.v.beautified theories/CalValidate.required_vo: theories/CalValidate.v theories/Base.vo
theories/CalValidate.vio: theories/CalValidate.v theories/Base.vio
theories/CalValidate.vos theories/CalValidate.vok theories/CalValidate.required_vos: theories/CalValidate.v theories/Base.vos
theories/CalValidateProofs.vo theories/CalValidateProofs.glob theories/CalValidateProofs.v.beautified theories/CalValidateProofs.required_vo: theories/CalValidateProofs.v theories/Base.vo theories/CalValidate.vo
theories/CalValidateProofs.vio: theories/CalValidateProofs.v theories/Base.vio theories/CalValidate.vio
theories/CalValidateProofs.vos theories/CalValidateProofs.vok theories/CalValidateProofs.required_vos: theories/CalValidateProofs.v theories/Base.vos theories/CalValidate.vos
theories/CalWire.vo theories/CalWire.glob theories/CalWire.v.beautified theories/CalWire.required_vo: theories/CalWire.v theories/Base.vo theories/CalTime.vo theories/CalXml.vo
theories/CalWire.vio: theories/CalWire.v theories/Base.vio theories/CalTime.vio theories/CalXml.vio
theories/CalWire.vos theories/CalWire.vok theories/CalWire.required_vos: theories/CalWire.v theories/Base.vos theories/CalTime.vos theories/CalXml.vos
theories/CalWireLex.vo theories/CalWireLex.glob theories/CalWireLex.v.beautified theories/CalWireLex.required_vo: theories/CalWireLex.v theories/Base.vo theories/CalTime.vo theories/CalTimeProofs.vo theories/CalXml.vo theories/CalWire.vo
theories/CalWireLex.vio: theories/CalWireLex.v theories/Base.vio theories/CalTime.vio theories/CalTimeProofs.vio theories/CalXml.vio theories/CalWire.vio
theories/CalWireLex.vos theories/CalWireLex.vok theories/CalWireLex.required_vos: theories/CalWireLex.v theories/Base.vos theories/CalTime.vos theories/CalTimeProofs.vos theories/CalXml.vos theories/CalWire.vos
theories/CalWireProofs.vo theories/CalWireProofs.glob theories/CalWireProofs.v.beautified theories/CalWireProofs.required_vo: theories/CalWireProofs.v theories/Base.vo theories/CalTime.vo theories/CalTimeProofs.vo theories/CalXml.vo theories/CalWire.vo theories/CalWireLex.vo theories/CalWireServer.vo theories/CalWireReader.vo theories/CalWireVariant.vo
theories/CalWireProofs.vio: theories/CalWireProofs.v theories/Base.vio theories/CalTime.vio theories/CalTimeProofs.vio theories/CalXml.vio theories/CalWire.vio theories/CalWireLex.vio theories/CalWireServer.vio theories/CalWireReader.vio theories/CalWireVariant.vio
theories/CalWireProofs.vos theories/CalWireProofs.vok theories/CalWireProofs.required_vos: theories/CalWireProofs.v theories/Base.vos theories/CalTime.vos theories/CalTimeProofs.vos theories/CalXml.vos theories/CalWire.vos theories/CalWireLex.vos theories/CalWireServer.vos theories/CalWireReader.vos theories/CalWireVariant.vos
theories/CalWireReader.vo theories/CalWireReader.glob theories/CalWireReader.v.beautified theories/CalWireReader.required_vo: theories/CalWireReader.v theories/Base.vo theories/CalTime.vo theories/CalTimeProofs.vo theories/CalXml.vo theories/CalWire.vo theories/CalWireLex.vo theories/CalWireServer.vo
theories/CalWireReader.vio: theories/CalWireReader.v theories/Base.vio theories/CalTime.vio theories/CalTimeProofs.vio theories/CalXml.vio theories/CalWire.vio theories/CalWireLex.vio theories/CalWireServer.vio
theories/CalWireReader.vos theories/CalWireReader.vok theories/CalWireReader.required_vos: theories/CalWireReader.v theories/Base.vos theories/CalTime.vos theories/CalTimeProofs.vos theories/CalXml.vos theories/CalWire.vos theories/CalWireLex.vos theories/CalWireServer.vos
theories/CalWireServer.vo theories/CalWireServer.glob theories/CalWireServer.v.beautified theories/CalWireServer.required_vo: theories/CalWireServer.v theories/Base.vo theories/CalTime.vo theories/CalTimeProofs.vo theories/CalXml.vo theories/CalWire.vo theories/CalWireLex.vo
theories/CalWireServer.vio: theories/CalWireServer.v theories/Base.vio theories/CalTime.vio theories/CalTimeProofs.vio theories/CalXml.vio theories/CalWire.vio theories/CalWireLex.vio
theories/CalWireServer.vos theories/CalWireServer.vok theories/CalWireServer.required_vos: theories/CalWireServer.v theories/Base.vos theories/CalTime.vos theories/CalTimeProofs.vos theories/CalXml.vos theories/CalWire.vos theories/CalWireLex.vos
theories/CalWireVariant.vo theories/CalWireVariant.glob theories/CalWireVariant.v.beautified theories/CalWireVariant.required_vo: theories/CalWireVariant.v theories/Base.vo theories/CalTime.vo theories/CalXml.vo theories/CalWire.vo theories/CalWireLex.vo
theories/CalWireVariant.vio: theories/CalWireVariant.v theories/Base.vio theories/CalTime.vio theories/CalXml.vio theories/CalWire.vio theories/CalWireLex.vio
theories/CalWireVariant.vos theories/CalWireVariant.vok theories/CalWireVariant.required_vos: theories/CalWireVariant.v theories/Base.vos theories/CalTime.vos theories/CalXml.vos theories/CalWire.vos theories/CalWireLex.vos
theories/CalXml.vo theories/CalXml.glob theories/CalXml.v.beautified theories/CalXml.required_vo: theories/CalXml.v theories/Base.vo
theories/CalXml.vio: theories/CalXml.v theories/Base.vio
theories/CalXml.vos theories/CalXml.vok theories/CalXml.required_vos: theories/CalXml.v theories/Base.vos
theories/CardMatch.vo theories/CardMatch.glob theories/CardMatch.v.beautified theories/CardMatch.required_vo: theories/CardMatch.v theories/Base.vo
theories/CardMatch.vio: theories/CardMatch.v theories/Base.vio
theories/CardMatch.vos theories/CardMatch.vok theories/CardMatch.required_vos: theories/CardMatch.v theories/Base.vos
theories/CardMatchProofs.vo theories/CardMatchProofs.glob theories/CardMatchProofs.v.beautified theories/CardMatchProofs.required_vo: theories/CardMatchProofs.v theories/Base.vo theories/CardMatch.vo
theories/CardMatchProofs.vio: theories/CardMatchProofs.v theories/Base.vio theories/CardMatch.vio
theories/CardMatchProofs.vos theories/CardMatchProofs.vok theories/CardMatchProofs.required_vos: theories/CardMatchProofs.v theories/Base.vos theories/CardMatch.vos
theories/CardWire.vo theories/CardWire.glob theories/CardWire.v.beautified theories/CardWire.required_vo: theories/CardWire.v theories/Base.vo theories/CardXml.vo
theories/CardWire.vio: theories/CardWire.v theories/Base.vio theories/CardXml.vio
theories/CardWire.vos theories/CardWire.vok theories/CardWire.required_vos: theories/CardWire.v theories/Base.vos theories/CardXml.vos
theories/CardWireProofs.vo theories/CardWireProofs.glob theories/CardWireProofs.v.beautified theories/CardWireProofs.required_vo: theories/CardWireProofs.v theories/Base.vo theories/CardXml.vo theories/CardWire.vo
theories/CardWireProofs.vio: theories/CardWireProofs.v theories/Base.vio theories/CardXml.vio theories/CardWire.vio
theories/CardWireProofs.vos theories/CardWireProofs.vok theories/CardWireProofs.required_vos: theories/CardWireProofs.v theories/Base.vos theories/CardXml.vos theories/CardWire.vos
theories/CardWireProofs2.vo theories/CardWireProofs2.glob theories/CardWireProofs2.v.beautified theories/CardWireProofs2.required_vo: theories/CardWireProofs2.v theories/Base.vo theories/CardXml.vo theories/CardWire.vo theories/CardWireProofs.vo
theories/CardWireProofs2.vio: theories/CardWireProofs2.v theories/Base.vio theories/CardXml.vio theories/CardWire.vio theories/CardWireProofs.vio
theories/CardWireProofs2.vos theories/CardWireProofs2.vok theories/CardWireProofs2.required_vos: theories/CardWireProofs2.v theories/Base.vos theories/CardXml.vos theories/CardWire.vos theories/CardWireProofs.vos
theories/CardXml.vo theories/CardXml.glob theories/CardXml.v.beautified theories/CardXml.required_vo: theories/CardXml.v theories/Base.vo
theories/CardXml.vio: theories/CardXml.v theories/Base.vio
theories/CardXml.vos theories/CardXml.vok theories/CardXml.required_vos: theories/CardXml.v theories/Base.vos
theories/Civil.vo theories/Civil.glob theories/Civil.v.beautified theories/Civil.required_vo: theories/Civil.v theories/Base.vo theories/Wire.vo
theories/Civil.vio: theories/Civil.v theories/Base.vio theories/Wire.vio
theories/Civil.vos theories/Civil.vok theories/Civil.required_vos: theories/Civil.v theories/Base.vos theories/Wire.vos
theories/CivilProofs.vo theories/CivilProofs.glob theories/CivilProofs.v.beautified theories/CivilProofs.required_vo: theories/CivilProofs.v theories/Base.vo theories/Wire.vo theories/WireProofs.vo theories/Civil.vo theories/CivilSweep.vo
theories/CivilProofs.vio: theories/CivilProofs.v theories/Base.vio theories/Wire.vio theories/WireProofs.vio theories/Civil.vio theories/CivilSweep.vio
theories/CivilProofs.vos theories/CivilProofs.vok theories/CivilProofs.required_vos: theories/CivilProofs.v theories/Base.vos theories/Wire.vos theories/WireProofs.vos theories/Civil.vos theories/CivilSweep.vos
theories/CivilProofs2.vo theories/CivilProofs2.glob theories/CivilProofs2.v.beautified theories/CivilProofs2.required_vo: theories/CivilProofs2.v theories/Base.vo theories/Wire.vo theories/WireProofs.vo theories/Civil.vo theories/CivilSweep.vo theories/CivilProofs.vo
theories/CivilProofs2.vio: theories/CivilProofs2.v theories/Base.vio theories/Wire.vio theories/WireProofs.vio theories/Civil.vio theories/CivilSweep.vio theories/CivilProofs.vio
theories/CivilProofs2.vos theories/CivilProofs2.vok theories/CivilProofs2.required_vos: theories/CivilProofs2.v theories/Base.vos theories/Wire.vos theories/WireProofs.vos theories/Civil.vos theories/CivilSweep.vos theories/CivilProofs.vos
theories/CivilProofs3.vo theories/CivilProofs3.glob theories/CivilProofs3.v.beautified theories/CivilProofs3.required_vo: theories/CivilProofs3.v theories/Base.vo theories/Wire.vo theories/WireProofs.vo theories/Civil.vo theories/CivilSweep.vo theories/CivilProofs.vo theories/CivilProofs2.vo
theories/CivilProofs3.vio: theories/CivilProofs3.v theories/Base.vio theories/Wire.vio theories/WireProofs.vio theories/Civil.vio theories/CivilSweep.vio theories/CivilProofs.vio theories/CivilProofs2.vio
theories/CivilProofs3.vos theories/CivilProofs3.vok theories/CivilProofs3.required_vos: theories/CivilProofs3.v theories/Base.vos theories/Wire.vos theories/WireProofs.vos theories/Civil.vos theories/CivilSweep.vos theories/CivilProofs.vos theories/CivilProofs2.vos
theories/CivilSweep.vo theories/CivilSweep.glob theories/CivilSweep.v.beautified theories/CivilSweep.required_vo: theories/CivilSweep.v theories/Base.vo theories/Wire.vo theories/WireProofs.vo theories/Civil.vo
theories/CivilSweep.vio: theories/CivilSweep.v theories/Base.vio theories/Wire.vio theories/WireProofs.vio theories/Civil.vio
theories/CivilSweep.vos theories/CivilSweep.vok theories/CivilSweep.required_vos: theories/CivilSweep.v theories/Base.vos theories/Wire.vos theories/WireProofs.vos theories/Civil.vos
theories/ClientTotal.vo theories/ClientTotal.glob theories/ClientTotal.v.beautified theories/ClientTotal.required_vo: theories/ClientTotal.v theories/Base.vo
theories/ClientTotal.vio: theories/ClientTotal.v theories/Base.vio
theories/ClientTotal.vos theories/ClientTotal.vok theories/ClientTotal.required_vos: theories/ClientTotal.v theories/Base.vos
theories/ClientTotalProofs.vo theories/ClientTotalProofs.glob theories/ClientTotalProofs.v.beautified theories/ClientTotalProofs.required_vo: theories/ClientTotalProofs.v theories/Base.vo theories/ClientTotal.vo
theories/ClientTotalProofs.vio: theories/ClientTotalProofs.v theories/Base.vio theories/ClientTotal.vio
theories/ClientTotalProofs.vos theories/ClientTotalProofs.vok theories/ClientTotalProofs.required_vos: theories/ClientTotalProofs.v theories/Base.vos theories/ClientTotal.vos
theories/Concurrent.vo theories/Concurrent.glob theories/Concurrent.v.beautified theories/Concurrent.required_vo: theories/Concurrent.v theories/Base.vo
theories/Concurrent.vio: theories/Concurrent.v theories/Base.vio
theories/Concurrent.vos theories/Concurrent.vok theories/Concurrent.required_vos: theories/Concurrent.v theories/Base.vos
theories/ConcurrentProofs.vo theories/ConcurrentProofs.glob theories/ConcurrentProofs.v.beautified theories/ConcurrentProofs.required_vo: theories/ConcurrentProofs.v theories/Base.vo theories/Concurrent.vo
theories/ConcurrentProofs.vio: theories/ConcurrentProofs.v theories/Base.vio theories/Concurrent.vio
theories/ConcurrentProofs.vos theories/ConcurrentProofs.vok theories/ConcurrentProofs.required_vos: theories/ConcurrentProofs.v theories/Base.vos theories/Concurrent.vos
theories/CondWire.vo theories/CondWire.glob theories/CondWire.v.beautified theories/CondWire.required_vo: theories/CondWire.v theories/Base.vo theories/GoPath.vo theories/Fs.vo theories/DavServer.vo theories/Quote.vo theories/Href.vo
theories/CondWire.vio: theories/CondWire.v theories/Base.vio theories/GoPath.vio theories/Fs.vio theories/DavServer.vio theories/Quote.vio theories/Href.vio
theories/CondWire.vos theories/CondWire.vok theories/CondWire.required_vos: theories/CondWire.v theories/Base.vos theories/GoPath.vos theories/Fs.vos theories/DavServer.vos theories/Quote.vos theories/Href.vos
theories/CondWireProofs.vo theories/CondWireProofs.glob theories/CondWireProofs.v.beautified theories/CondWireProofs.required_vo: theories/CondWireProofs.v theories/Base.vo theories/GoPath.vo theories/Fs.vo theories/DavServer.vo theories/Quote.vo theories/QuoteProofs.vo theories/CondWire.vo
theories/CondWireProofs.vio: theories/CondWireProofs.v theories/Base.vio theories/GoPath.vio theories/Fs.vio theories/DavServer.vio theories/Quote.vio theories/QuoteProofs.vio theories/CondWire.vio
theories/CondWireProofs.vos theories/CondWireProofs.vok theories/CondWireProofs.required_vos: theories/CondWireProofs.v theories/Base.vos theories/GoPath.vos theories/Fs.vos theories/DavServer.vos theories/Quote.vos theories/QuoteProofs.vos theories/CondWire.vos
theories/CopySteps.vo theories/CopySteps.glob theories/CopySteps.v.beautified theories/CopySteps.required_vo: theories/CopySteps.v theories/Base.vo theories/GoPath.vo theories/Fs.vo theories/DavServer.vo
theories/CopySteps.vio: theories/CopySteps.v theories/Base.vio theories/GoPath.vio theories/Fs.vio theories/DavServer.vio
theories/CopySteps.vos theories/CopySteps.vok theories/CopySteps.required_vos: theories/CopySteps.v theories/Base.vos theories/GoPath.vos theories/Fs.vos theories/DavServer.vos
theories/CopyStepsProofs.vo theories/CopyStepsProofs.glob theories/CopyStepsProofs.v.beautified theories/CopyStepsProofs.required_vo: theories/CopyStepsProofs.v theories/Base.vo theories/GoPath.vo theories/Fs.vo theories/DavServer.vo theories/FsProofs.vo theories/UploadSteps.vo theories/UploadStepsProofs.vo theories/CopySteps.vo
theories/CopyStepsProofs.vio: theories/CopyStepsProofs.v theories/Base.vio theories/GoPath.vio theories/Fs.vio theories/DavServer.vio theories/FsProofs.vio theories/UploadSteps.vio theories/UploadStepsProofs.vio theories/CopySteps.vio
theories/CopyStepsProofs.vos theories/CopyStepsProofs.vok theories/CopyStepsProofs.required_vos: theories/CopyStepsProofs.v theories/Base.vos theories/GoPath.vos theories/Fs.vos theories/DavServer.vos theories/FsProofs.vos theories/UploadSteps.vos theories/UploadStepsProofs.vos theories/CopySteps.vos
theories/DavCheck.vo theories/DavCheck.glob theories/DavCheck.v.beautified theories/DavCheck.required_vo: theories/DavCheck.v theories/Base.vo theories/GoPath.vo theories/Fs.vo theories/DavServer.vo theories/Rfc4918.vo
theories/DavCheck.vio: theories/DavCheck.v theories/Base.vio theories/GoPath.vio theories/Fs.vio theories/DavServer.vio theories/Rfc4918.vio
theories/DavCheck.vos theories/DavCheck.vok theories/DavCheck.required_vos: theories/DavCheck.v theories/Base.vos theories/GoPath.vos theories/Fs.vos theories/DavServer.vos theories/Rfc4918.vos
theories/DavClient.vo theories/DavClient.glob theories/DavClient.v.beautified theories/DavClient.required_vo: theories/DavClient.v theories/Base.vo theories/GoPath.vo theories/Fs.vo theories/DavServer.vo
theories/DavClient.vio: theories/DavClient.v theories/Base.vio theories/GoPath.vio theories/Fs.vio theories/DavServer.vio
theories/DavClient.vos theories/DavClient.vok theories/DavClient.required_vos: theories/DavClient.v theories/Base.vos theories/GoPath.vos theories/Fs.vos theories/DavServer.vos
theories/DavClientProofs.vo theories/DavClientProofs.glob theories/DavClientProofs.v.beautified theories/DavClientProofs.required_vo: theories/DavClientProofs.v theories/Base.vo theories/GoPath.vo theories/Fs.vo theories/DavServer.vo theories/DavClient.vo
theories/DavClientProofs.vio: theories/DavClientProofs.v theories/Base.vio theories/GoPath.vio theories/Fs.vio theories/DavServer.vio theories/DavClient.vio
theories/DavClientProofs.vos theories/DavClientProofs.vok theories/DavClientProofs.required_vos: theories/DavClientProofs.v theories/Base.vos theories/GoPath.vos theories/Fs.vos theories/DavServer.vos theories/DavClient.vos
theories/DavCorollaries.vo theories/DavCorollaries.glob theories/DavCorollaries.v.beautified theories/DavCorollaries.required_vo: theories/DavCorollaries.v theories/Base.vo theories/GoPath.vo theories/Fs.vo theories/DavServer.vo theories/Rfc4918.vo theories/FsProofs.vo theories/DavRefine.vo
theories/DavCorollaries.vio: theories/DavCorollaries.v theories/Base.vio theories/GoPath.vio theories/Fs.vio theories/DavServer.vio theories/Rfc4918.vio theories/FsProofs.vio theories/DavRefine.vio
theories/DavCorollaries.vos theories/DavCorollaries.vok theories/DavCorollaries.required_vos: theories/DavCorollaries.v theories/Base.vos theories/GoPath.vos theories/Fs.vos theories/DavServer.vos theories/Rfc4918.vos theories/FsProofs.vos theories/DavRefine.vos
theories/DavRefine.vo theories/DavRefine.glob theories/DavRefine.v.beautified theories/DavRefine.required_vo: theories/DavRefine.v theories/Base.vo theories/GoPath.vo theories/Fs.vo theories/DavServer.vo theories/Rfc4918.vo theories/FsProofs.vo
theories/DavRefine.vio: theories/DavRefine.v theories/Base.vio theories/GoPath.vio theories/Fs.vio theories/DavServer.vio theories/Rfc4918.vio theories/FsProofs.vio
theories/DavRefine.vos theories/DavRefine.vok theories/DavRefine.required_vos: theories/DavRefine.v theories/Base.vos theories/GoPath.vos theories/Fs.vos theories/DavServer.vos theories/Rfc4918.vos theories/FsProofs.vos
theories/DavServer.vo theories/DavServer.glob theories/DavServer.v.beautified theories/DavServer.required_vo: theories/DavServer.v theories/Base.vo theories/GoPath.vo theories/Fs.vo
theories/DavServer.vio: theories/DavServer.v theories/Base.vio theories/GoPath.vio theories/Fs.vio
theories/DavServer.vos theories/DavServer.vok theories/DavServer.required_vos: theories/DavServer.v theories/Base.vos theories/GoPath.vos theories/Fs.vos
theories/Discovery.vo theories/Discovery.glob theories/Discovery.v.beautified theories/Discovery.required_vo: theories/Discovery.v theories/Base.vo theories/Route.vo theories/PropFind.vo
theories/Discovery.vio: theories/Discovery.v theories/Base.vio theories/Route.vio theories/PropFind.vio
theories/Discovery.vos theories/Discovery.vok theories/Discovery.required_vos: theories/Discovery.v theories/Base.vos theories/Route.vos theories/PropFind.vos
theories/DiscoveryProofs.vo theories/DiscoveryProofs.glob theories/DiscoveryProofs.v.beautified theories/DiscoveryProofs.required_vo: theories/DiscoveryProofs.v theories/Base.vo theories/Route.vo theories/RouteProofs.vo theories/PropFind.vo theories/PropFindProofs.vo theories/PropFindScope.vo theories/Discovery.vo
theories/DiscoveryProofs.vio: theories/DiscoveryProofs.v theories/Base.vio theories/Route.vio theories/RouteProofs.vio theories/PropFind.vio theories/PropFindProofs.vio theories/PropFindScope.vio theories/Discovery.vio
theories/DiscoveryProofs.vos theories/DiscoveryProofs.vok theories/DiscoveryProofs.required_vos: theories/DiscoveryProofs.v theories/Base.vos theories/Route.vos theories/RouteProofs.vos theories/PropFind.vos theories/PropFindProofs.vos theories/PropFindScope.vos theories/Discovery.vos
theories/Fs.vo theories/Fs.glob theories/Fs.v.beautified theories/Fs.required_vo: theories/Fs.v theories/Base.vo
theories/Fs.vio: theories/Fs.v theories/Base.vio
theories/Fs.vos theories/Fs.vok theories/Fs.required_vos: theories/Fs.v theories/Base.vos
theories/FsProofs.vo theories/FsProofs.glob theories/FsProofs.v.beautified theories/FsProofs.required_vo: theories/FsProofs.v theories/Base.vo theories/GoPath.vo theories/Fs.vo theories/DavServer.vo theories/Rfc4918.vo
theories/FsProofs.vio: theories/FsProofs.v theories/Base.vio theories/GoPath.vio theories/Fs.vio theories/DavServer.vio theories/Rfc4918.vio
theories/FsProofs.vos theories/FsProofs.vok theories/FsProofs.required_vos: theories/FsProofs.v theories/Base.vos theories/GoPath.vos theories/Fs.vos theories/DavServer.vos theories/Rfc4918.vos
theories/GoPath.vo theories/GoPath.glob theories/GoPath.v.beautified theories/GoPath.required_vo: theories/GoPath.v theories/Base.vo
theories/GoPath.vio: theories/GoPath.v theories/Base.vio
theories/GoPath.vos theories/GoPath.vok theories/GoPath.required_vos: theories/GoPath.v theories/Base.vos
theories/Href.vo theories/Href.glob theories/Href.v.beautified theories/Href.required_vo: theories/Href.v theories/Base.vo theories/Wire.vo theories/Quote.vo
theories/Href.vio: theories/Href.v theories/Base.vio theories/Wire.vio theories/Quote.vio
theories/Href.vos theories/Href.vok theories/Href.required_vos: theories/Href.v theories/Base.vos theories/Wire.vos theories/Quote.vos
theories/HrefProofs.vo theories/HrefProofs.glob theories/HrefProofs.v.beautified theories/HrefProofs.required_vo: theories/HrefProofs.v theories/Base.vo theories/Wire.vo theories/WireProofs.vo theories/Quote.vo theories/Utf8Proofs.vo theories/QuoteProofs.vo theories/Href.vo
theories/HrefProofs.vio: theories/HrefProofs.v theories/Base.vio theories/Wire.vio theories/WireProofs.vio theories/Quote.vio theories/Utf8Proofs.vio theories/QuoteProofs.vio theories/Href.vio
theories/HrefProofs.vos theories/HrefProofs.vok theories/HrefProofs.required_vos: theories/HrefProofs.v theories/Base.vos theories/Wire.vos theories/WireProofs.vos theories/Quote.vos theories/Utf8Proofs.vos theories/QuoteProofs.vos theories/Href.vos
theories/ObjCheck.vo theories/ObjCheck.glob theories/ObjCheck.v.beautified theories/ObjCheck.required_vo: theories/ObjCheck.v theories/Base.vo theories/ObjXml.vo theories/Objects.vo theories/ObjRfc.vo
theories/ObjCheck.vio: theories/ObjCheck.v theories/Base.vio theories/ObjXml.vio theories/Objects.vio theories/ObjRfc.vio
theories/ObjCheck.vos theories/ObjCheck.vok theories/ObjCheck.required_vos: theories/ObjCheck.v theories/Base.vos theories/ObjXml.vos theories/Objects.vos theories/ObjRfc.vos
theories/ObjRfc.vo theories/ObjRfc.glob theories/ObjRfc.v.beautified theories/ObjRfc.required_vo: theories/ObjRfc.v theories/Base.vo theories/ObjXml.vo theories/Objects.vo
theories/ObjRfc.vio: theories/ObjRfc.v theories/Base.vio theories/ObjXml.vio theories/Objects.vio
theories/ObjRfc.vos theories/ObjRfc.vok theories/ObjRfc.required_vos: theories/ObjRfc.v theories/Base.vos theories/ObjXml.vos theories/Objects.vos
theories/ObjXml.vo theories/ObjXml.glob theories/ObjXml.v.beautified theories/ObjXml.required_vo: theories/ObjXml.v theories/Base.vo
theories/ObjXml.vio: theories/ObjXml.v theories/Base.vio
theories/ObjXml.vos theories/ObjXml.vok theories/ObjXml.required_vos: theories/ObjXml.v theories/Base.vos
theories/Objects.vo theories/Objects.glob theories/Objects.v.beautified theories/Objects.required_vo: theories/Objects.v theories/Base.vo theories/ObjXml.vo
theories/Objects.vio: theories/Objects.v theories/Base.vio theories/ObjXml.vio
theories/Objects.vos theories/Objects.vok theories/Objects.required_vos: theories/Objects.v theories/Base.vos theories/ObjXml.vos
theories/ObjectsE2E.vo theories/ObjectsE2E.glob theories/ObjectsE2E.v.beautified theories/ObjectsE2E.required_vo: theories/ObjectsE2E.v theories/Base.vo theories/ObjXml.vo theories/Objects.vo theories/ObjRfc.vo theories/ObjCheck.vo theories/ObjectsProofs.vo
theories/ObjectsE2E.vio: theories/ObjectsE2E.v theories/Base.vio theories/ObjXml.vio theories/Objects.vio theories/ObjRfc.vio theories/ObjCheck.vio theories/ObjectsProofs.vio
theories/ObjectsE2E.vos theories/ObjectsE2E.vok theories/ObjectsE2E.required_vos: theories/ObjectsE2E.v theories/Base.vos theories/ObjXml.vos theories/Objects.vos theories/ObjRfc.vos theories/ObjCheck.vos theories/ObjectsProofs.vos
theories/ObjectsProofs.vo theories/ObjectsProofs.glob theories/ObjectsProofs.v.beautified theories/ObjectsProofs.required_vo: theories/ObjectsProofs.v theories/Base.vo theories/ObjXml.vo theories/Objects.vo theories/ObjRfc.vo theories/ObjCheck.vo
theories/ObjectsProofs.vio: theories/ObjectsProofs.v theories/Base.vio theories/ObjXml.vio theories/Objects.vio theories/ObjRfc.vio theories/ObjCheck.vio
theories/ObjectsProofs.vos theories/ObjectsProofs.vok theories/ObjectsProofs.required_vos: theories/ObjectsProofs.v theories/Base.vos theories/ObjXml.vos theories/Objects.vos theories/ObjRfc.vos theories/ObjCheck.vos
theories/ObjectsReader.vo theories/ObjectsReader.glob theories/ObjectsReader.v.beautified theories/ObjectsReader.required_vo: theories/ObjectsReader.v theories/Base.vo theories/ObjXml.vo theories/Objects.vo theories/ObjRfc.vo theories/ObjCheck.vo theories/ObjectsProofs.vo theories/ObjectsE2E.vo
theories/ObjectsReader.vio: theories/ObjectsReader.v theories/Base.vio theories/ObjXml.vio theories/Objects.vio theories/ObjRfc.vio theories/ObjCheck.vio theories/ObjectsProofs.vio theories/ObjectsE2E.vio
theories/ObjectsReader.vos theories/ObjectsReader.vok theories/ObjectsReader.required_vos: theories/ObjectsReader.v theories/Base.vos theories/ObjXml.vos theories/Objects.vos theories/ObjRfc.vos theories/ObjCheck.vos theories/ObjectsProofs.vos theories/ObjectsE2E.vos
theories/ObjectsVariants.vo theories/ObjectsVariants.glob theories/ObjectsVariants.v.beautified theories/ObjectsVariants.required_vo: theories/ObjectsVariants.v theories/Base.vo theories/ObjXml.vo theories/Objects.vo theories/ObjRfc.vo theories/ObjCheck.vo theories/ObjectsProofs.vo
theories/ObjectsVariants.vio: theories/ObjectsVariants.v theories/Base.vio theories/ObjXml.vio theories/Objects.vio theories/ObjRfc.vio theories/ObjCheck.vio theories/ObjectsProofs.vio
theories/ObjectsVariants.vos theories/ObjectsVariants.vok theories/ObjectsVariants.required_vos: theories/ObjectsVariants.v theories/Base.vos theories/ObjXml.vos theories/Objects.vos theories/ObjRfc.vos theories/ObjCheck.vos theories/ObjectsProofs.vos
theories/PropFind.vo theories/PropFind.glob theories/PropFind.v.beautified theories/PropFind.required_vo: theories/PropFind.v theories/Base.vo theories/Route.vo
theories/PropFind.vio: theories/PropFind.v theories/Base.vio theories/Route.vio
theories/PropFind.vos theories/PropFind.vok theories/PropFind.required_vos: theories/PropFind.v theories/Base.vos theories/Route.vos
theories/PropFindDav.vo theories/PropFindDav.glob theories/PropFindDav.v.beautified theories/PropFindDav.required_vo: theories/PropFindDav.v theories/Base.vo theories/Route.vo theories/RouteProofs.vo theories/PropFind.vo theories/PropFindProofs.vo theories/PropFindScope.vo theories/PropFindSpec.vo
theories/PropFindDav.vio: theories/PropFindDav.v theories/Base.vio theories/Route.vio theories/RouteProofs.vio theories/PropFind.vio theories/PropFindProofs.vio theories/PropFindScope.vio theories/PropFindSpec.vio
theories/PropFindDav.vos theories/PropFindDav.vok theories/PropFindDav.required_vos: theories/PropFindDav.v theories/Base.vos theories/Route.vos theories/RouteProofs.vos theories/PropFind.vos theories/PropFindProofs.vos theories/PropFindScope.vos theories/PropFindSpec.vos
theories/PropFindProofs.vo theories/PropFindProofs.glob theories/PropFindProofs.v.beautified theories/PropFindProofs.required_vo: theories/PropFindProofs.v theories/Base.vo theories/Route.vo theories/RouteProofs.vo theories/PropFind.vo
theories/PropFindProofs.vio: theories/PropFindProofs.v theories/Base.vio theories/Route.vio theories/RouteProofs.vio theories/PropFind.vio
theories/PropFindProofs.vos theories/PropFindProofs.vok theories/PropFindProofs.required_vos: theories/PropFindProofs.v theories/Base.vos theories/Route.vos theories/RouteProofs.vos theories/PropFind.vos
theories/PropFindScope.vo theories/PropFindScope.glob theories/PropFindScope.v.beautified theories/PropFindScope.required_vo: theories/PropFindScope.v theories/Base.vo theories/Route.vo theories/RouteProofs.vo theories/PropFind.vo theories/PropFindProofs.vo
theories/PropFindScope.vio: theories/PropFindScope.v theories/Base.vio theories/Route.vio theories/RouteProofs.vio theories/PropFind.vio theories/PropFindProofs.vio
theories/PropFindScope.vos theories/PropFindScope.vok theories/PropFindScope.required_vos: theories/PropFindScope.v theories/Base.vos theories/Route.vos theories/RouteProofs.vos theories/PropFind.vos theories/PropFindProofs.vos
theories/PropFindSpec.vo theories/PropFindSpec.glob theories/PropFindSpec.v.beautified theories/PropFindSpec.required_vo: theories/PropFindSpec.v theories/Base.vo theories/Route.vo theories/RouteProofs.vo theories/PropFind.vo theories/PropFindProofs.vo theories/PropFindScope.vo
theories/PropFindSpec.vio: theories/PropFindSpec.v theories/Base.vio theories/Route.vio theories/RouteProofs.vio theories/PropFind.vio theories/PropFindProofs.vio theories/PropFindScope.vio
theories/PropFindSpec.vos theories/PropFindSpec.vok theories/PropFindSpec.required_vos: theories/PropFindSpec.v theories/Base.vos theories/Route.vos theories/RouteProofs.vos theories/PropFind.vos theories/PropFindProofs.vos theories/PropFindScope.vos
theories/Properties_C01.vo theories/Properties_C01.glob theories/Properties_C01.v.beautified theories/Properties_C01.required_vo: theories/Properties_C01.v theories/Base.vo theories/GoPath.vo theories/Fs.vo theories/DavServer.vo theories/Rfc4918.vo theories/FsProofs.vo theories/DavRefine.vo theories/DavCorollaries.vo theories/UploadSteps.vo theories/UploadStepsProofs.vo theories/CopySteps.vo theories/CopyStepsProofs.vo theories/SortedProofs.vo
theories/Properties_C01.vio: theories/Properties_C01.v theories/Base.vio theories/GoPath.vio theories/Fs.vio theories/DavServer.vio theories/Rfc4918.vio theories/FsProofs.vio theories/DavRefine.vio theories/DavCorollaries.vio theories/UploadSteps.vio theories/UploadStepsProofs.vio theories/CopySteps.vio theories/CopyStepsProofs.vio theories/SortedProofs.vio
theories/Properties_C01.vos theories/Properties_C01.vok theories/Properties_C01.required_vos: theories/Properties_C01.v theories/Base.vos theories/GoPath.vos theories/Fs.vos theories/DavServer.vos theories/Rfc4918.vos theories/FsProofs.vos theories/DavRefine.vos theories/DavCorollaries.vos theories/UploadSteps.vos theories/UploadStepsProofs.vos theories/CopySteps.vos theories/CopyStepsProofs.vos theories/SortedProofs.vos
theories/Properties_C02.vo theories/Properties_C02.glob theories/Properties_C02.v.beautified theories/Properties_C02.required_vo: theories/Properties_C02.v theories/Base.vo theories/GoPath.vo theories/Fs.vo theories/DavServer.vo theories/Rfc4918.vo theories/FsProofs.vo theories/DavRefine.vo theories/DavCorollaries.vo theories/UploadSteps.vo theories/UploadStepsProofs.vo
theories/Properties_C02.vio: theories/Properties_C02.v theories/Base.vio theories/GoPath.vio theories/Fs.vio theories/DavServer.vio theories/Rfc4918.vio theories/FsProofs.vio theories/DavRefine.vio theories/DavCorollaries.vio theories/UploadSteps.vio theories/UploadStepsProofs.vio
theories/Properties_C02.vos theories/Properties_C02.vok theories/Properties_C02.required_vos: theories/Properties_C02.v theories/Base.vos theories/GoPath.vos theories/Fs.vos theories/DavServer.vos theories/Rfc4918.vos theories/FsProofs.vos theories/DavRefine.vos theories/DavCorollaries.vos theories/UploadSteps.vos theories/UploadStepsProofs.vos
theories/Properties_C03.vo theories/Properties_C03.glob theories/Properties_C03.v.beautified theories/Properties_C03.required_vo: theories/Properties_C03.v theories/Base.vo theories/GoPath.vo theories/Fs.vo theories/DavServer.vo theories/Rfc4918.vo theories/FsProofs.vo theories/DavRefine.vo theories/DavCorollaries.vo theories/RelocProofs.vo
theories/Properties_C03.vio: theories/Properties_C03.v theories/Base.vio theories/GoPath.vio theories/Fs.vio theories/DavServer.vio theories/Rfc4918.vio theories/FsProofs.vio theories/DavRefine.vio theories/DavCorollaries.vio theories/RelocProofs.vio
theories/Properties_C03.vos theories/Properties_C03.vok theories/Properties_C03.required_vos: theories/Properties_C03.v theories/Base.vos theories/GoPath.vos theories/Fs.vos theories/DavServer.vos theories/Rfc4918.vos theories/FsProofs.vos theories/DavRefine.vos theories/DavCorollaries.vos theories/RelocProofs.vos
theories/Properties_C04.vo theories/Properties_C04.glob theories/Properties_C04.v.beautified theories/Properties_C04.required_vo: theories/Properties_C04.v theories/Base.vo theories/GoPath.vo theories/Fs.vo theories/DavServer.vo theories/Rfc4918.vo theories/FsProofs.vo theories/DavRefine.vo theories/DavCorollaries.vo theories/Quote.vo theories/CondWire.vo theories/CondWireProofs.vo
theories/Properties_C04.vio: theories/Properties_C04.v theories/Base.vio theories/GoPath.vio theories/Fs.vio theories/DavServer.vio theories/Rfc4918.vio theories/FsProofs.vio theories/DavRefine.vio theories/DavCorollaries.vio theories/Quote.vio theories/CondWire.vio theories/CondWireProofs.vio
theories/Properties_C04.vos theories/Properties_C04.vok theories/Properties_C04.required_vos: theories/Properties_C04.v theories/Base.vos theories/GoPath.vos theories/Fs.vos theories/DavServer.vos theories/Rfc4918.vos theories/FsProofs.vos theories/DavRefine.vos theories/DavCorollaries.vos theories/Quote.vos theories/CondWire.vos theories/CondWireProofs.vos
theories/Properties_C05.vo theories/Properties_C05.glob theories/Properties_C05.v.beautified theories/Properties_C05.required_vo: theories/Properties_C05.v theories/Base.vo theories/GoPath.vo theories/Fs.vo theories/DavServer.vo theories/DavClient.vo theories/DavClientProofs.vo
theories/Properties_C05.vio: theories/Properties_C05.v theories/Base.vio theories/GoPath.vio theories/Fs.vio theories/DavServer.vio theories/DavClient.vio theories/DavClientProofs.vio
theories/Properties_C05.vos theories/Properties_C05.vok theories/Properties_C05.required_vos: theories/Properties_C05.v theories/Base.vos theories/GoPath.vos theories/Fs.vos theories/DavServer.vos theories/DavClient.vos theories/DavClientProofs.vos
theories/Properties_C06.vo theories/Properties_C06.glob theories/Properties_C06.v.beautified theories/Properties_C06.required_vo: theories/Properties_C06.v theories/Base.vo theories/CalMatch.vo theories/CalMatchProofs.vo
theories/Properties_C06.vio: theories/Properties_C06.v theories/Base.vio theories/CalMatch.vio theories/CalMatchProofs.vio
theories/Properties_C06.vos theories/Properties_C06.vok theories/Properties_C06.required_vos: theories/Properties_C06.v theories/Base.vos theories/CalMatch.vos theories/CalMatchProofs.vos
theories/Properties_C07.vo theories/Properties_C07.glob theories/Properties_C07.v.beautified theories/Properties_C07.required_vo: theories/Properties_C07.v theories/Base.vo theories/CardMatch.vo theories/CardMatchProofs.vo
theories/Properties_C07.vio: theories/Properties_C07.v theories/Base.vio theories/CardMatch.vio theories/CardMatchProofs.vio
theories/Properties_C07.vos theories/Properties_C07.vok theories/Properties_C07.required_vos: theories/Properties_C07.v theories/Base.vos theories/CardMatch.vos theories/CardMatchProofs.vos
theories/Properties_C08.vo theories/Properties_C08.glob theories/Properties_C08.v.beautified theories/Properties_C08.required_vo: theories/Properties_C08.v theories/Base.vo theories/CalTime.vo theories/CalTimeProofs.vo theories/CalXml.vo theories/CalWire.vo theories/CalWireLex.vo theories/CalWireServer.vo theories/CalWireReader.vo theories/CalWireVariant.vo theories/CalWireProofs.vo
theories/Properties_C08.vio: theories/Properties_C08.v theories/Base.vio theories/CalTime.vio theories/CalTimeProofs.vio theories/CalXml.vio theories/CalWire.vio theories/CalWireLex.vio theories/CalWireServer.vio theories/CalWireReader.vio theories/CalWireVariant.vio theories/CalWireProofs.vio
theories/Properties_C08.vos theories/Properties_C08.vok theories/Properties_C08.required_vos: theories/Properties_C08.v theories/Base.vos theories/CalTime.vos theories/CalTimeProofs.vos theories/CalXml.vos theories/CalWire.vos theories/CalWireLex.vos theories/CalWireServer.vos theories/CalWireReader.vos theories/CalWireVariant.vos theories/CalWireProofs.vos
theories/Properties_C09.vo theories/Properties_C09.glob theories/Properties_C09.v.beautified theories/Properties_C09.required_vo: theories/Properties_C09.v theories/Base.vo theories/CardXml.vo theories/CardWire.vo theories/CardWireProofs.vo theories/CardWireProofs2.vo
theories/Properties_C09.vio: theories/Properties_C09.v theories/Base.vio theories/CardXml.vio theories/CardWire.vio theories/CardWireProofs.vio theories/CardWireProofs2.vio
theories/Properties_C09.vos theories/Properties_C09.vok theories/Properties_C09.required_vos: theories/Properties_C09.v theories/Base.vos theories/CardXml.vos theories/CardWire.vos theories/CardWireProofs.vos theories/CardWireProofs2.vos
theories/Properties_C10.vo theories/Properties_C10.glob theories/Properties_C10.v.beautified theories/Properties_C10.required_vo: theories/Properties_C10.v theories/Base.vo theories/ObjXml.vo theories/Objects.vo theories/ObjRfc.vo theories/ObjCheck.vo theories/ObjectsProofs.vo theories/ObjectsE2E.vo theories/ObjectsReader.vo theories/ObjectsVariants.vo
theories/Properties_C10.vio: theories/Properties_C10.v theories/Base.vio theories/ObjXml.vio theories/Objects.vio theories/ObjRfc.vio theories/ObjCheck.vio theories/ObjectsProofs.vio theories/ObjectsE2E.vio theories/ObjectsReader.vio theories/ObjectsVariants.vio
theories/Properties_C10.vos theories/Properties_C10.vok theories/Properties_C10.required_vos: theories/Properties_C10.v theories/Base.vos theories/ObjXml.vos theories/Objects.vos theories/ObjRfc.vos theories/ObjCheck.vos theories/ObjectsProofs.vos theories/ObjectsE2E.vos theories/ObjectsReader.vos theories/ObjectsVariants.vos
theories/Properties_C11.vo theories/Properties_C11.glob theories/Properties_C11.v.beautified theories/Properties_C11.required_vo: theories/Properties_C11.v theories/Base.vo theories/Route.vo theories/RouteProofs.vo theories/PropFind.vo theories/PropFindProofs.vo theories/PropFindScope.vo theories/PropFindSpec.vo theories/PropFindDav.vo
theories/Properties_C11.vio: theories/Properties_C11.v theories/Base.vio theories/Route.vio theories/RouteProofs.vio theories/PropFind.vio theories/PropFindProofs.vio theories/PropFindScope.vio theories/PropFindSpec.vio theories/PropFindDav.vio
theories/Properties_C11.vos theories/Properties_C11.vok theories/Properties_C11.required_vos: theories/Properties_C11.v theories/Base.vos theories/Route.vos theories/RouteProofs.vos theories/PropFind.vos theories/PropFindProofs.vos theories/PropFindScope.vos theories/PropFindSpec.vos theories/PropFindDav.vos
theories/Properties_C12.vo theories/Properties_C12.glob theories/Properties_C12.v.beautified theories/Properties_C12.required_vo: theories/Properties_C12.v theories/Base.vo theories/Route.vo theories/RouteProofs.vo theories/PropFind.vo theories/Discovery.vo theories/DiscoveryProofs.vo
theories/Properties_C12.vio: theories/Properties_C12.v theories/Base.vio theories/Route.vio theories/RouteProofs.vio theories/PropFind.vio theories/Discovery.vio theories/DiscoveryProofs.vio
theories/Properties_C12.vos theories/Properties_C12.vok theories/Properties_C12.required_vos: theories/Properties_C12.v theories/Base.vos theories/Route.vos theories/RouteProofs.vos theories/PropFind.vos theories/Discovery.vos theories/DiscoveryProofs.vos
theories/Properties_C13.vo theories/Properties_C13.glob theories/Properties_C13.v.beautified theories/Properties_C13.required_vo: theories/Properties_C13.v theories/Base.vo theories/GoPath.vo theories/ServerTotal.vo theories/ServerTotalProofs.vo
theories/Properties_C13.vio: theories/Properties_C13.v theories/Base.vio theories/GoPath.vio theories/ServerTotal.vio theories/ServerTotalProofs.vio
theories/Properties_C13.vos theories/Properties_C13.vok theories/Properties_C13.required_vos: theories/Properties_C13.v theories/Base.vos theories/GoPath.vos theories/ServerTotal.vos theories/ServerTotalProofs.vos
theories/Properties_C14.vo theories/Properties_C14.glob theories/Properties_C14.v.beautified theories/Properties_C14.required_vo: theories/Properties_C14.v theories/Base.vo theories/ClientTotal.vo theories/ClientTotalProofs.vo
theories/Properties_C14.vio: theories/Properties_C14.v theories/Base.vio theories/ClientTotal.vio theories/ClientTotalProofs.vio
theories/Properties_C14.vos theories/Properties_C14.vok theories/Properties_C14.required_vos: theories/Properties_C14.v theories/Base.vos theories/ClientTotal.vos theories/ClientTotalProofs.vos
theories/Properties_C15.vo theories/Properties_C15.glob theories/Properties_C15.v.beautified theories/Properties_C15.required_vo: theories/Properties_C15.v theories/Base.vo theories/Xml.vo theories/XmlProofs.vo
theories/Properties_C15.vio: theories/Properties_C15.v theories/Base.vio theories/Xml.vio theories/XmlProofs.vio
theories/Properties_C15.vos theories/Properties_C15.vok theories/Properties_C15.required_vos: theories/Properties_C15.v theories/Base.vos theories/Xml.vos theories/XmlProofs.vos
theories/Properties_C16.vo theories/Properties_C16.glob theories/Properties_C16.v.beautified theories/Properties_C16.required_vo: theories/Properties_C16.v theories/Base.vo theories/Wire.vo theories/WireProofs.vo theories/Civil.vo theories/CivilSweep.vo theories/CivilProofs.vo theories/CivilProofs2.vo theories/CivilProofs3.vo theories/Quote.vo theories/Utf8Proofs.vo theories/QuoteProofs.vo theories/QuoteStrict.vo theories/Href.vo theories/HrefProofs.vo
theories/Properties_C16.vio: theories/Properties_C16.v theories/Base.vio theories/Wire.vio theories/WireProofs.vio theories/Civil.vio theories/CivilSweep.vio theories/CivilProofs.vio theories/CivilProofs2.vio theories/CivilProofs3.vio theories/Quote.vio theories/Utf8Proofs.vio theories/QuoteProofs.vio theories/QuoteStrict.vio theories/Href.vio theories/HrefProofs.vio
theories/Properties_C16.vos theories/Properties_C16.vok theories/Properties_C16.required_vos: theories/Properties_C16.v theories/Base.vos theories/Wire.vos theories/WireProofs.vos theories/Civil.vos theories/CivilSweep.vos theories/CivilProofs.vos theories/CivilProofs2.vos theories/CivilProofs3.vos theories/Quote.vos theories/Utf8Proofs.vos theories/QuoteProofs.vos theories/QuoteStrict.vos theories/Href.vos theories/HrefProofs.vos
theories/Properties_C17.vo theories/Properties_C17.glob theories/Properties_C17.v.beautified theories/Properties_C17.required_vo: theories/Properties_C17.v theories/Base.vo theories/GoPath.vo theories/Fs.vo theories/DavServer.vo theories/Rfc4918.vo theories/FsProofs.vo theories/DavRefine.vo theories/DavCorollaries.vo
theories/Properties_C17.vio: theories/Properties_C17.v theories/Base.vio theories/GoPath.vio theories/Fs.vio theories/DavServer.vio theories/Rfc4918.vio theories/FsProofs.vio theories/DavRefine.vio theories/DavCorollaries.vio
theories/Properties_C17.vos theories/Properties_C17.vok theories/Properties_C17.required_vos: theories/Properties_C17.v theories/Base.vos theories/GoPath.vos theories/Fs.vos theories/DavServer.vos theories/Rfc4918.vos theories/FsProofs.vos theories/DavRefine.vos theories/DavCorollaries.vos
theories/Properties_C18.vo theories/Properties_C18.glob theories/Properties_C18.v.beautified theories/Properties_C18.required_vo: theories/Properties_C18.v theories/Base.vo theories/Upload.vo theories/UploadProofs.vo theories/Concurrent.vo theories/ConcurrentProofs.vo
theories/Properties_C18.vio: theories/Properties_C18.v theories/Base.vio theories/Upload.vio theories/UploadProofs.vio theories/Concurrent.vio theories/ConcurrentProofs.vio
theories/Properties_C18.vos theories/Properties_C18.vok theories/Properties_C18.required_vos: theories/Properties_C18.v theories/Base.vos theories/Upload.vos theories/UploadProofs.vos theories/Concurrent.vos theories/ConcurrentProofs.vos
theories/Properties_C19.vo theories/Properties_C19.glob theories/Properties_C19.v.beautified theories/Properties_C19.required_vo: theories/Properties_C19.v theories/Base.vo theories/CalValidate.vo theories/CalValidateProofs.vo
theories/Properties_C19.vio: theories/Properties_C19.v theories/Base.vio theories/CalValidate.vio theories/CalValidateProofs.vio
theories/Properties_C19.vos theories/Properties_C19.vok theories/Properties_C19.required_vos: theories/Properties_C19.v theories/Base.vos theories/CalValidate.vos theories/CalValidateProofs.vos
theories/Quote.vo theories/Quote.glob theories/Quote.v.beautified theories/Quote.required_vo: theories/Quote.v theories/Base.vo theories/Wire.vo
theories/Quote.vio: theories/Quote.v theories/Base.vio theories/Wire.vio
theories/Quote.vos theories/Quote.vok theories/Quote.required_vos: theories/Quote.v theories/Base.vos theories/Wire.vos
theories/QuoteProofs.vo theories/QuoteProofs.glob theories/QuoteProofs.v.beautified theories/QuoteProofs.required_vo: theories/QuoteProofs.v theories/Base.vo theories/Wire.vo theories/WireProofs.vo theories/Quote.vo theories/Utf8Proofs.vo
theories/QuoteProofs.vio: theories/QuoteProofs.v theories/Base.vio theories/Wire.vio theories/WireProofs.vio theories/Quote.vio theories/Utf8Proofs.vio
theories/QuoteProofs.vos theories/QuoteProofs.vok theories/QuoteProofs.required_vos: theories/QuoteProofs.v theories/Base.vos theories/Wire.vos theories/WireProofs.vos theories/Quote.vos theories/Utf8Proofs.vos
theories/QuoteStrict.vo theories/QuoteStrict.glob theories/QuoteStrict.v.beautified theories/QuoteStrict.required_vo: theories/QuoteStrict.v theories/Base.vo theories/Wire.vo theories/WireProofs.vo theories/Quote.vo theories/Utf8Proofs.vo theories/QuoteProofs.vo
theories/QuoteStrict.vio: theories/QuoteStrict.v theories/Base.vio theories/Wire.vio theories/WireProofs.vio theories/Quote.vio theories/Utf8Proofs.vio theories/QuoteProofs.vio
theories/QuoteStrict.vos theories/QuoteStrict.vok theories/QuoteStrict.required_vos: theories/QuoteStrict.v theories/Base.vos theories/Wire.vos theories/WireProofs.vos theories/Quote.vos theories/Utf8Proofs.vos theories/QuoteProofs.vos
theories/RelocProofs.vo theories/RelocProofs.glob theories/RelocProofs.v.beautified theories/RelocProofs.required_vo: theories/RelocProofs.v theories/Base.vo theories/GoPath.vo theories/Fs.vo theories/DavServer.vo theories/FsProofs.vo theories/UploadSteps.vo theories/UploadStepsProofs.vo theories/CopySteps.vo theories/CopyStepsProofs.vo
theories/RelocProofs.vio: theories/RelocProofs.v theories/Base.vio theories/GoPath.vio theories/Fs.vio theories/DavServer.vio theories/FsProofs.vio theories/UploadSteps.vio theories/UploadStepsProofs.vio theories/CopySteps.vio theories/CopyStepsProofs.vio
theories/RelocProofs.vos theories/RelocProofs.vok theories/RelocProofs.required_vos: theories/RelocProofs.v theories/Base.vos theories/GoPath.vos theories/Fs.vos theories/DavServer.vos theories/FsProofs.vos theories/UploadSteps.vos theories/UploadStepsProofs.vos theories/CopySteps.vos theories/CopyStepsProofs.vos
theories/Rfc4918.vo theories/Rfc4918.glob theories/Rfc4918.v.beautified theories/Rfc4918.required_vo: theories/Rfc4918.v theories/Base.vo theories/GoPath.vo theories/Fs.vo theories/DavServer.vo
theories/Rfc4918.vio: theories/Rfc4918.v theories/Base.vio theories/GoPath.vio theories/Fs.vio theories/DavServer.vio
theories/Rfc4918.vos theories/Rfc4918.vok theories/Rfc4918.required_vos: theories/Rfc4918.v theories/Base.vos theories/GoPath.vos theories/Fs.vos theories/DavServer.vos
theories/Route.vo theories/Route.glob theories/Route.v.beautified theories/Route.required_vo: theories/Route.v theories/Base.vo
theories/Route.vio: theories/Route.v theories/Base.vio
theories/Route.vos theories/Route.vok theories/Route.required_vos: theories/Route.v theories/Base.vos
theories/RouteProofs.vo theories/RouteProofs.glob theories/RouteProofs.v.beautified theories/RouteProofs.required_vo: theories/RouteProofs.v theories/Base.vo theories/Route.vo
theories/RouteProofs.vio: theories/RouteProofs.v theories/Base.vio theories/Route.vio
theories/RouteProofs.vos theories/RouteProofs.vok theories/RouteProofs.required_vos: theories/RouteProofs.v theories/Base.vos theories/Route.vos
theories/ServerTotal.vo theories/ServerTotal.glob theories/ServerTotal.v.beautified theories/ServerTotal.required_vo: theories/ServerTotal.v theories/Base.vo theories/GoPath.vo
theories/ServerTotal.vio: theories/ServerTotal.v theories/Base.vio theories/GoPath.vio
theories/ServerTotal.vos theories/ServerTotal.vok theories/ServerTotal.required_vos: theories/ServerTotal.v theories/Base.vos theories/GoPath.vos
theories/ServerTotalProofs.vo theories/ServerTotalProofs.glob theories/ServerTotalProofs.v.beautified theories/ServerTotalProofs.required_vo: theories/ServerTotalProofs.v theories/Base.vo theories/GoPath.vo theories/ServerTotal.vo
theories/ServerTotalProofs.vio: theories/ServerTotalProofs.v theories/Base.vio theories/GoPath.vio theories/ServerTotal.vio
theories/ServerTotalProofs.vos theories/ServerTotalProofs.vok theories/ServerTotalProofs.required_vos: theories/ServerTotalProofs.v theories/Base.vos theories/GoPath.vos theories/ServerTotal.vos
theories/SortedProofs.vo theories/SortedProofs.glob theories/SortedProofs.v.beautified theories/SortedProofs.required_vo: theories/SortedProofs.v theories/Base.vo theories/GoPath.vo theories/Fs.vo theories/DavServer.vo theories/FsProofs.vo theories/UploadSteps.vo theories/UploadStepsProofs.vo theories/CopySteps.vo theories/CopyStepsProofs.vo
theories/SortedProofs.vio: theories/SortedProofs.v theories/Base.vio theories/GoPath.vio theories/Fs.vio theories/DavServer.vio theories/FsProofs.vio theories/UploadSteps.vio theories/UploadStepsProofs.vio theories/CopySteps.vio theories/CopyStepsProofs.vio
theories/SortedProofs.vos theories/SortedProofs.vok theories/SortedProofs.required_vos: theories/SortedProofs.v theories/Base.vos theories/GoPath.vos theories/Fs.vos theories/DavServer.vos theories/FsProofs.vos theories/UploadSteps.vos theories/UploadStepsProofs.vos theories/CopySteps.vos theories/CopyStepsProofs.vos
theories/Upload.vo theories/Upload.glob theories/Upload.v.beautified theories/Upload.required_vo: theories/Upload.v theories/Base.vo
theories/Upload.vio: theories/Upload.v theories/Base.vio
theories/Upload.vos theories/Upload.vok theories/Upload.required_vos: theories/Upload.v theories/Base.vos
theories/UploadProofs.vo theories/UploadProofs.glob theories/UploadProofs.v.beautified theories/UploadProofs.required_vo: theories/UploadProofs.v theories/Base.vo theories/Upload.vo
theories/UploadProofs.vio: theories/UploadProofs.v theories/Base.vio theories/Upload.vio
theories/UploadProofs.vos theories/UploadProofs.vok theories/UploadProofs.required_vos: theories/UploadProofs.v theories/Base.vos theories/Upload.vos
theories/UploadSteps.vo theories/UploadSteps.glob theories/UploadSteps.v.beautified theories/UploadSteps.required_vo: theories/UploadSteps.v theories/Base.vo theories/GoPath.vo theories/Fs.vo theories/DavServer.vo
theories/UploadSteps.vio: theories/UploadSteps.v theories/Base.vio theories/GoPath.vio theories/Fs.vio theories/DavServer.vio
theories/UploadSteps.vos theories/UploadSteps.vok theories/UploadSteps.required_vos: theories/UploadSteps.v theories/Base.vos theories/GoPath.vos theories/Fs.vos theories/DavServer.vos
theories/UploadStepsProofs.vo theories/UploadStepsProofs.glob theories/UploadStepsProofs.v.beautified theories/UploadStepsProofs.required_vo: theories/UploadStepsProofs.v theories/Base.vo theories/GoPath.vo theories/Fs.vo theories/DavServer.vo theories/FsProofs.vo theories/UploadSteps.vo
theories/UploadStepsProofs.vio: theories/UploadStepsProofs.v theories/Base.vio theories/GoPath.vio theories/Fs.vio theories/DavServer.vio theories/FsProofs.vio theories/UploadSteps.vio
theories/UploadStepsProofs.vos theories/UploadStepsProofs.vok theories/UploadStepsProofs.required_vos: theories/UploadStepsProofs.v theories/Base.vos theories/GoPath.vos theories/Fs.vos theories/DavServer.vos theories/FsProofs.vos theories/UploadSteps.vos
theories/Utf8Proofs.vo theories/Utf8Proofs.glob theories/Utf8Proofs.v.beautified theories/Utf8Proofs.required_vo: theories/Utf8Proofs.v theories/Base.vo theories/Wire.vo theories/WireProofs.vo theories/Quote.vo
theories/Utf8Proofs.vio: theories/Utf8Proofs.v theories/Base.vio theories/Wire.vio theories/WireProofs.vio theories/Quote.vio
theories/Utf8Proofs.vos theories/Utf8Proofs.vok theories/Utf8Proofs.required_vos: theories/Utf8Proofs.v theories/Base.vos theories/Wire.vos theories/WireProofs.vos theories/Quote.vos
theories/Wire.vo theories/Wire.glob theories/Wire.v.beautified theories/Wire.required_vo: theories/Wire.v theories/Base.vo
theories/Wire.vio: theories/Wire.v theories/Base.vio
theories/Wire.vos theories/Wire.vok theories/Wire.required_vos: theories/Wire.v theories/Base.vos
theories/WireProofs.vo theories/WireProofs.glob theories/WireProofs.v.beautified theories/WireProofs.required_vo: theories/WireProofs.v theories/Base.vo theories/Wire.vo
theories/WireProofs.vio: theories/WireProofs.v theories/Base.vio theories/Wire.vio
theories/WireProofs.vos theories/WireProofs.vok theories/WireProofs.required_vos: theories/WireProofs.v theories/Base.vos theories/Wire.vos
theories/Xml.vo theories/Xml.glob theories/Xml.v.beautified theories/Xml.required_vo: theories/Xml.v theories/Base.vo
theories/Xml.vio: theories/Xml.v theories/Base.vio
theories/Xml.vos theories/Xml.vok theories/Xml.required_vos: theories/Xml.v theories/Base.vos
theories/XmlProofs.vo theories/XmlProofs.glob theories/XmlProofs.v.beautified theories/XmlProofs.required_vo: theories/XmlProofs.v theories/Base.vo theories/Xml.vo
theories/XmlProofs.vio: theories/XmlProofs.v theories/Base.vio theories/Xml.vio
theories/XmlProofs.vos theories/XmlProofs.vok theories/XmlProofs.required_vos: theories/XmlProofs.v theories/Base.vos theories/Xml.vos
