(** CalXml.v — namespace-expanded XML element trees, exactly the information
    [encoding/xml]'s token stream carries (DESIGN.md section 6), plus the small
    vocabulary the C08 model and specification share.  Own copy for C08: it
    depends on no other property's files.  Definitions only (extracted).

    Bytes <-> tokens (tokenising, entities, CDATA, prefix resolution, the
    encoder's choice of xmlns declarations) is [encoding/xml]'s and is not
    modelled; the harness obtains trees by running Go's tokenizer.  Namespace
    declarations stay in the attribute list, as Go's [xml.StartElement] keeps
    them: [xmlns:p="u"] is the attribute [(("xmlns","p"),"u")], [xmlns="u"] is
    [(("","xmlns"),"u")]. *)
From GW Require Import Base.

Definition xname := (string * string)%type.          (* namespace URI, local name *)
Definition xattr := (xname * string)%type.

Inductive xtree :=
| Elem (n : xname) (a : list xattr) (k : list xtree)
| Text (s : string)          (* one CharData token: text, CDATA section or a run between them *)
| Comment (s : string).

Definition name_eqb (a b : xname) : bool :=
  String.eqb (fst a) (fst b) && String.eqb (snd a) (snd b).

Definition a_space (x : xattr) : string := fst (fst x).
Definition a_local (x : xattr) : string := snd (fst x).
Definition a_value (x : xattr) : string := snd x.

Definition is_elem (t : xtree) : bool := match t with Elem _ _ _ => true | _ => false end.
Definition is_text (t : xtree) : bool := match t with Text _ => true | _ => false end.
Definition elems (k : list xtree) : list xtree := filter is_elem k.
Definition no_elems (k : list xtree) : bool := forallb (fun t => negb (is_elem t)) k.

(** All character data directly inside an element, concatenated (comments and
    child elements do not interrupt it) — what [Unmarshal] stores in a
    [,chardata] field and hands to a [TextUnmarshaler] element. *)
Fixpoint text_of (k : list xtree) : string :=
  match k with
  | [] => ""
  | Text s :: r => s ++ text_of r
  | _ :: r => text_of r
  end.

Definition ws_char (c : ascii) : bool :=
  Ascii.eqb c " " || Ascii.eqb c "009" || Ascii.eqb c "010" || Ascii.eqb c "013".
Fixpoint is_ws (s : string) : bool :=
  match s with EmptyString => true | String c r => ws_char c && is_ws r end.

(** Element content: every text node is white space only. *)
Definition content_ok (k : list xtree) : bool :=
  forallb (fun t => match t with Text s => is_ws s | _ => true end) k.

(** Namespace declarations among the attributes. *)
Definition is_decl (x : xattr) : bool :=
  String.eqb (a_space x) "xmlns" || (String.eqb (a_space x) "" && String.eqb (a_local x) "xmlns").

Definition drop_decls (a : list xattr) : list xattr := filter (fun x => negb (is_decl x)) a.

(** The tree without any namespace declaration: what [RawXMLValue.UnmarshalXML]
    captures (internal/xml.go, [withoutNamespaceDecls] at every level), and the
    form in which the body written by the client is compared with [marshal]. *)
Fixpoint strip_decls (t : xtree) : xtree :=
  match t with
  | Elem n a k => Elem n (drop_decls a) (map strip_decls k)
  | _ => t
  end.

(** Attributes in no namespace: what [unqualifiedAttrReader] (caldav/elements.go)
    lets through to the decoder of a REPORT request. *)
Definition drop_foreign (a : list xattr) : list xattr := filter (fun x => str_empty (a_space x)) a.
Fixpoint strip_foreign (t : xtree) : xtree :=
  match t with
  | Elem n a k => Elem n (drop_foreign a) (map strip_foreign k)
  | _ => t
  end.

(** Un-namespaced attribute [l] (first occurrence): the RFC reader's view. *)
Definition get_attr (l : string) (a : list xattr) : option string :=
  match find (fun x => name_eqb (fst x) ("", l)) a with
  | Some x => Some (snd x)
  | None => None
  end.

Definition cattr (l v : string) : xattr := (("", l), v).
Definition text_kids (s : string) : list xtree := if str_empty s then [] else [Text s].
Definition opt_list {A B} (f : A -> B) (o : option A) : list B :=
  match o with Some a => [f a] | None => [] end.
Definition flag_elem (b : bool) (n : xname) : list xtree := if b then [Elem n [] []] else [].
Definition is_some {A} (o : option A) : bool := match o with Some _ => true | None => false end.
Definition opt_default {A} (d : A) (o : option A) : A := match o with Some a => a | None => d end.

(** Sequential processing with early exit on the first error, as a Go loop
    with [return err] does. *)
Definition fold_res {S A} (f : S -> A -> res S) : list A -> S -> res S :=
  fix go (l : list A) (s : S) {struct l} : res S :=
    match l with
    | [] => Ok s
    | x :: r => match f s x with Ok s' => go r s' | Err c => Err c | Panic => Panic end
    end.

Definition map_res {A B} (f : A -> res B) : list A -> res (list B) :=
  fix go (l : list A) {struct l} : res (list B) :=
    match l with
    | [] => Ok []
    | x :: r =>
      match f x with
      | Ok y => match go r with Ok ys => Ok (y :: ys) | Err c => Err c | Panic => Panic end
      | Err c => Err c
      | Panic => Panic
      end
    end.

Definition map_opt {A B} (f : A -> option B) : list A -> option (list B) :=
  fix go (l : list A) {struct l} : option (list B) :=
    match l with
    | [] => Some []
    | x :: r =>
      match f x, go r with
      | Some y, Some ys => Some (y :: ys)
      | _, _ => None
      end
    end.

(** Decidable equality of trees (used by the oracle to compare the body the
    client wrote with the model's). *)
Definition xname_eq_dec (a b : xname) : {a = b} + {a <> b}.
Proof. decide equality; apply string_dec. Defined.
Definition xattr_eq_dec (a b : xattr) : {a = b} + {a <> b}.
Proof. decide equality; [apply string_dec | apply xname_eq_dec]. Defined.
Fixpoint xtree_eq_dec (a b : xtree) : {a = b} + {a <> b}.
Proof.
  decide equality; try apply string_dec.
  - apply (list_eq_dec xtree_eq_dec).
  - apply (list_eq_dec xattr_eq_dec).
  - apply xname_eq_dec.
Defined.
