(** FsProofs.v — algebra of the tree operations of Fs.v, phrased through the
    abstraction [abs] of Rfc4918.v (names, kinds and bytes at every path). *)
From GW Require Import Base GoPath Fs DavServer Rfc4918.
Local Open Scope list_scope.

(** * Association lists *)

Lemma assoc_rep_same k v l : assoc k l <> None -> assoc k (rep_assoc k v l) = Some v.
Proof.
  induction l as [|[k' v'] r IH]; cbn [assoc rep_assoc]; intros H; [congruence|].
  destruct (String.eqb k' k) eqn:E.
  - cbn [assoc]. rewrite String.eqb_refl. reflexivity.
  - cbn [assoc]. rewrite E. apply IH. exact H.
Qed.

Lemma assoc_rep_other k k' v l : k' <> k -> assoc k' (rep_assoc k v l) = assoc k' l.
Proof.
  intros Hne. induction l as [|[k0 v0] r IH]; cbn [assoc rep_assoc]; [reflexivity|].
  destruct (String.eqb k0 k) eqn:E.
  - apply String.eqb_eq in E. subst k0. cbn [assoc].
    destruct (String.eqb k k') eqn:E2; [apply String.eqb_eq in E2; congruence|reflexivity].
  - cbn [assoc]. destruct (String.eqb k0 k'); [reflexivity|apply IH].
Qed.

Lemma assoc_ins_same k v l : assoc k l = None -> assoc k (ins_assoc k v l) = Some v.
Proof.
  induction l as [|[k' v'] r IH]; cbn [assoc ins_assoc]; intros H.
  - rewrite String.eqb_refl. reflexivity.
  - destruct (String.eqb k' k) eqn:E; [discriminate|].
    destruct (str_ltb k k'); cbn [assoc].
    + rewrite String.eqb_refl. reflexivity.
    + rewrite E. apply IH. exact H.
Qed.

Lemma assoc_ins_other k k' v l : k' <> k -> assoc k' (ins_assoc k v l) = assoc k' l.
Proof.
  intros Hne. induction l as [|[k0 v0] r IH]; cbn [assoc ins_assoc].
  - destruct (String.eqb k k') eqn:E; [apply String.eqb_eq in E; congruence|reflexivity].
  - destruct (str_ltb k k0); cbn [assoc].
    + destruct (String.eqb k k') eqn:E; [apply String.eqb_eq in E; congruence|reflexivity].
    + destruct (String.eqb k0 k'); [reflexivity|apply IH].
Qed.

Lemma assoc_set_same k v l : assoc k (set_assoc k v l) = Some v.
Proof.
  unfold set_assoc. destruct (assoc k l) eqn:E.
  - apply assoc_rep_same. congruence.
  - apply assoc_ins_same. exact E.
Qed.

Lemma assoc_set_other k k' v l : k' <> k -> assoc k' (set_assoc k v l) = assoc k' l.
Proof.
  intros H. unfold set_assoc. destruct (assoc k l).
  - apply assoc_rep_other; exact H.
  - apply assoc_ins_other; exact H.
Qed.

Lemma assoc_del_same k l : assoc k (del_assoc k l) = None.
Proof.
  induction l as [|[k' v'] r IH]; cbn [assoc del_assoc filter fst]; [reflexivity|].
  destruct (String.eqb k' k) eqn:E; cbn [negb]; [exact IH|].
  cbn [assoc]. rewrite E. exact IH.
Qed.

Lemma assoc_del_other k k' l : k' <> k -> assoc k' (del_assoc k l) = assoc k' l.
Proof.
  intros Hne. induction l as [|[k0 v0] r IH]; cbn [assoc del_assoc filter fst]; [reflexivity|].
  destruct (String.eqb k0 k) eqn:E; cbn [negb].
  - apply String.eqb_eq in E. subst k0.
    destruct (String.eqb k k') eqn:E2; [apply String.eqb_eq in E2; congruence|exact IH].
  - cbn [assoc]. destruct (String.eqb k0 k'); [reflexivity|exact IH].
Qed.

(** * Prefixes *)

Lemma is_prefix_refl p : is_prefix p p = true.
Proof. induction p as [|a p IH]; cbn; [reflexivity|]. rewrite String.eqb_refl. exact IH. Qed.

Lemma is_prefix_app p q : is_prefix p (p ++ q) = true.
Proof. induction p as [|a p IH]; cbn; [reflexivity|]. rewrite String.eqb_refl. exact IH. Qed.

Lemma strip_prefix_app p q : strip_prefix p (p ++ q) = Some q.
Proof. induction p as [|a p IH]; cbn; [reflexivity|]. rewrite String.eqb_refl. exact IH. Qed.

Lemma strip_prefix_spec p q suf : strip_prefix p q = Some suf <-> q = p ++ suf.
Proof.
  revert q. induction p as [|a p IH]; intros q; cbn.
  - split; intros H; congruence.
  - destruct q as [|b q]; [split; intros H; discriminate|].
    destruct (String.eqb a b) eqn:E.
    + apply String.eqb_eq in E. subst b. rewrite IH. split; intros H; congruence.
    + apply String.eqb_neq in E. split; intros H; [discriminate|]. inversion H. congruence.
Qed.

Lemma strip_prefix_is_prefix p q : is_prefix p q = match strip_prefix p q with Some _ => true | None => false end.
Proof.
  revert q. induction p as [|a p IH]; intros q; cbn; [reflexivity|].
  destruct q as [|b q]; [reflexivity|]. destruct (String.eqb a b); [apply IH|reflexivity].
Qed.

Lemma is_prefix_spec p q : is_prefix p q = true <-> exists suf, q = p ++ suf.
Proof.
  rewrite strip_prefix_is_prefix. destruct (strip_prefix p q) as [suf|] eqn:E.
  - apply strip_prefix_spec in E. split; eauto.
  - split; [discriminate|]. intros [suf H]. apply strip_prefix_spec in H. congruence.
Qed.

Lemma strip_prefix_app_l r p q : strip_prefix (r ++ p) (r ++ q) = strip_prefix p q.
Proof. induction r as [|a r IH]; cbn; [reflexivity|]. rewrite String.eqb_refl. exact IH. Qed.

Lemma is_prefix_app_l r p q : is_prefix (r ++ p) (r ++ q) = is_prefix p q.
Proof. rewrite !strip_prefix_is_prefix, strip_prefix_app_l. reflexivity. Qed.

(** * Lookup *)

Lemma geto_None p : geto None p = None.
Proof. destruct p; reflexivity. Qed.

Lemma geto_app on p q : geto on (p ++ q) = geto (geto on p) q.
Proof.
  revert on. induction p as [|s p IH]; intros on; cbn [app geto]; [reflexivity|].
  destruct on as [[c m|ch]|]; try (rewrite geto_None; reflexivity). apply IH.
Qed.

Lemma geto_file_cons c m s q : geto (Some (File c m)) (s :: q) = None.
Proof. reflexivity. Qed.

(** * [seto]: mapping a node at a path *)

Lemma abs_seto p : forall on x t,
  seto on p x = Some t ->
  forall q, kind_of (geto (Some t) q) =
            match strip_prefix p q with
            | Some suf => kind_of (geto (Some x) suf)
            | None => kind_of (geto on q)
            end.
Proof.
  induction p as [|s r IH]; intros on x t H q.
  - cbn in H. inversion H; subst. reflexivity.
  - cbn [seto] in H. destruct on as [[c m|ch]|]; try discriminate.
    destruct (seto (assoc s ch) r x) as [c'|] eqn:E; [|discriminate].
    inversion H; subst t; clear H.
    destruct q as [|s' q']; [reflexivity|].
    cbn [geto strip_prefix].
    destruct (String.eqb s s') eqn:Es.
    + apply String.eqb_eq in Es. subst s'. rewrite assoc_set_same.
      apply (IH _ _ _ E).
    + apply String.eqb_neq in Es. rewrite assoc_set_other by congruence. reflexivity.
Qed.

(** Lookups that do not pass through [p] are untouched altogether (contents and
    modification times included). *)
Lemma geto_seto_other p : forall on x t q,
  seto on p x = Some t -> is_prefix p q = false -> is_prefix q p = false ->
  geto (Some t) q = geto on q.
Proof.
  induction p as [|s r IH]; intros on x t q H Hpq Hqp; [discriminate|].
  cbn [seto] in H. destruct on as [[c m|ch]|]; try discriminate.
  destruct (seto (assoc s ch) r x) as [c'|] eqn:E; [|discriminate].
  inversion H; subst t; clear H.
  destruct q as [|s' q']; [discriminate|].
  cbn [geto]. cbn [is_prefix] in Hpq, Hqp.
  destruct (String.eqb s s') eqn:Es.
  - apply String.eqb_eq in Es. subst s'. rewrite String.eqb_refl in Hqp. cbn [andb] in *.
    rewrite assoc_set_same. apply (IH _ _ _ _ E); assumption.
  - apply String.eqb_neq in Es. rewrite assoc_set_other by congruence. reflexivity.
Qed.

Lemma geto_seto_at p : forall on x t q, seto on p x = Some t -> geto (Some t) (p ++ q) = geto (Some x) q.
Proof.
  induction p as [|s r IH]; intros on x t q H.
  - cbn in H. inversion H; subst. reflexivity.
  - cbn [seto] in H. destruct on as [[c m|ch]|]; try discriminate.
    destruct (seto (assoc s ch) r x) as [c'|] eqn:E; [|discriminate].
    inversion H; subst t; clear H. cbn [app geto]. rewrite assoc_set_same. apply (IH _ _ _ _ E).
Qed.

Lemma removelast_cons (s : string) r : r <> [] -> removelast (s :: r) = s :: removelast r.
Proof. destruct r; [congruence|reflexivity]. Qed.

Lemma seto_cons on s r x :
  seto on (s :: r) x =
  match on with
  | Some (Dir ch) =>
    match seto (assoc s ch) r x with
    | Some c' => Some (Dir (set_assoc s c' ch))
    | None => None
    end
  | _ => None
  end.
Proof. reflexivity. Qed.

Lemma seto_ok p : forall on x,
  p <> [] -> is_dir (geto on (removelast p)) = true -> exists t, seto on p x = Some t.
Proof.
  induction p as [|s r IH]; intros on x Hne Hd; [congruence|].
  destruct r as [|s2 r2].
  - cbn in Hd. destruct on as [[c m|ch]|]; try discriminate. cbn. eauto.
  - rewrite removelast_cons in Hd by congruence. cbn [geto] in Hd.
    destruct on as [[c m|ch]|]; try (rewrite ?geto_None in Hd; discriminate).
    rewrite seto_cons. destruct (IH (assoc s ch) x) as [t Ht]; [congruence|exact Hd|].
    rewrite Ht. eauto.
Qed.

Lemma seto_top on x : seto on [] x = Some x.
Proof. reflexivity. Qed.

(** * [remo]: unmapping a subtree *)

Lemma remo_some_none c r : remo (Some c) r = None -> r = [].
Proof.
  destruct r as [|s r]; [reflexivity|]. cbn [remo]. destruct c as [cc m|ch]; [discriminate|].
  destruct (assoc s ch) as [c0|]; [|discriminate].
  destruct (remo (Some c0) r); discriminate.
Qed.

Lemma abs_remo p : forall on q,
  kind_of (geto (remo on p) q) = if is_prefix p q then None else kind_of (geto on q).
Proof.
  induction p as [|s r IH]; intros on q.
  - cbn. rewrite geto_None. reflexivity.
  - cbn [remo]. destruct on as [[c m|ch]|].
    + destruct q as [|s' q']; [reflexivity|]. cbn. destruct (String.eqb s s' && is_prefix r q'); reflexivity.
    + destruct (assoc s ch) as [c0|] eqn:Ea.
      * destruct (remo (Some c0) r) as [c'|] eqn:Er.
        -- destruct q as [|s' q']; [reflexivity|]. cbn [geto is_prefix].
           destruct (String.eqb s s') eqn:Es.
           ++ apply String.eqb_eq in Es. subst s'. rewrite assoc_set_same. cbn [andb].
              rewrite <- Er. rewrite IH. rewrite Ea. reflexivity.
           ++ apply String.eqb_neq in Es. rewrite assoc_set_other by congruence. reflexivity.
        -- apply remo_some_none in Er. subst r.
           destruct q as [|s' q']; [reflexivity|]. cbn [geto is_prefix].
           destruct (String.eqb s s') eqn:Es.
           ++ apply String.eqb_eq in Es. subst s'. rewrite assoc_del_same, geto_None. reflexivity.
           ++ apply String.eqb_neq in Es. rewrite assoc_del_other by congruence. reflexivity.
      * destruct q as [|s' q']; [reflexivity|]. cbn [geto is_prefix].
        destruct (String.eqb s s') eqn:Es; [|reflexivity].
        apply String.eqb_eq in Es. subst s'. rewrite Ea, geto_None. cbn [andb].
        destruct (is_prefix r q'); reflexivity.
    + rewrite geto_None. destruct (is_prefix (s :: r) q); reflexivity.
Qed.

Lemma geto_remo_other p : forall on q,
  is_prefix p q = false -> is_prefix q p = false -> geto (remo on p) q = geto on q.
Proof.
  induction p as [|s r IH]; intros on q Hpq Hqp; [discriminate|].
  cbn [remo]. destruct on as [[c m|ch]|]; try reflexivity.
  destruct (assoc s ch) as [c0|] eqn:Ea; [|reflexivity].
  destruct q as [|s' q']; [discriminate|].
  cbn [is_prefix] in Hpq, Hqp.
  destruct (remo (Some c0) r) as [c'|] eqn:Er.
  - cbn [geto]. destruct (String.eqb s s') eqn:Es.
    + apply String.eqb_eq in Es. subst s'. rewrite String.eqb_refl in Hqp. cbn [andb] in *.
      rewrite assoc_set_same, <- Er, IH by assumption. rewrite Ea. reflexivity.
    + apply String.eqb_neq in Es. rewrite assoc_set_other by congruence. reflexivity.
  - apply remo_some_none in Er. subst r. cbn [geto].
    destruct (String.eqb s s') eqn:Es.
    + cbn in Hpq. discriminate.
    + apply String.eqb_neq in Es. rewrite assoc_del_other by congruence. reflexivity.
Qed.

(** The parent of an unrelated path keeps being a directory. *)
Lemma is_dir_kind on : is_dir on = is_col (kind_of on).
Proof. destruct on as [[c m|ch]|]; reflexivity. Qed.

Lemma exists_kind on : exists_ on = mapped (kind_of on).
Proof. destruct on as [[c m|ch]|]; reflexivity. Qed.

(** * Copies keep names, kinds and bytes *)

Lemma copy_tree_assoc st k : forall ch,
  assoc k ((fix go (l : list (string * node)) : list (string * node) :=
              match l with
              | [] => []
              | (k0, c) :: r => (k0, copy_tree st c) :: go r
              end) ch) = option_map (copy_tree st) (assoc k ch).
Proof.
  induction ch as [|[k0 c] r IH]; [reflexivity|]. cbn [assoc].
  destruct (String.eqb k0 k); [reflexivity|exact IH].
Qed.

Lemma geto_copy_tree st q : forall n,
  geto (Some (copy_tree st n)) q = option_map (copy_tree st) (geto (Some n) q).
Proof.
  induction q as [|s q IH]; intros n; [reflexivity|].
  destruct n as [c m|ch]; [reflexivity|].
  cbn [copy_tree geto]. rewrite copy_tree_assoc.
  destruct (assoc s ch) as [c0|]; cbn [option_map]; [apply IH|rewrite geto_None; reflexivity].
Qed.

Lemma kind_copy_tree st on : kind_of (option_map (copy_tree st) on) = kind_of on.
Proof. destruct on as [[c m|ch]|]; reflexivity. Qed.

Lemma abs_copy_tree st n q : kind_of (geto (Some (copy_tree st n)) q) = kind_of (geto (Some n) q).
Proof. rewrite geto_copy_tree. apply kind_copy_tree. Qed.

Lemma abs_copy_shallow st n q :
  kind_of (geto (Some (copy_shallow st n)) q) =
  match q with [] => kind_of (Some n) | _ => None end.
Proof.
  destruct n as [c m|ch]; destruct q as [|s q]; try reflexivity.
  cbn. rewrite geto_None. reflexivity.
Qed.
