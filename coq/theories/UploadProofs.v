(** UploadProofs.v — proofs about the transition system of Upload.v. *)
From GW Require Import Base Upload.
From Coq Require Import Wellfounded Relations.
Local Open Scope N_scope.

(** * Small facts *)

Lemma result_eqb_eq a b : result_eqb a b = true <-> a = b.
Proof.
  destruct a, b; simpl; split; intro H; try congruence; try discriminate.
  - apply N.eqb_eq in H. congruence.
  - inversion H. apply N.eqb_refl.
Qed.

Lemma result_eqb_refl a : result_eqb a a = true.
Proof. apply result_eqb_eq. reflexivity. Qed.

Ltac break_hyp :=
  match goal with
  | H : context [match ?x with _ => _ end] |- _ => destruct x eqn:?; try discriminate
  end.

Ltac bool_hyps :=
  repeat match goal with
  | H : _ && _ = true |- _ => apply andb_true_iff in H; destruct H
  | H : _ || _ = false |- _ => apply orb_false_iff in H; destruct H
  | H : negb _ = true |- _ => apply negb_true_iff in H
  | H : negb _ = false |- _ => apply negb_false_iff in H
  | H : result_eqb _ _ = true |- _ => apply result_eqb_eq in H
  | H : (_ <=? _) = true |- _ => apply N.leb_le in H
  | H : (_ <=? _) = false |- _ => apply N.leb_gt in H
  | H : (_ <? _) = true |- _ => apply N.ltb_lt in H
  | H : (_ <? _) = false |- _ => apply N.ltb_ge in H
  | H : (_ =? _) = true |- _ => apply N.eqb_eq in H
  | H : (_ =? _) = false |- _ => apply N.eqb_neq in H
  end.

(** case analysis of one move: [H : apply cf s l = Some s'] *)
Ltac do_apply H :=
  unfold apply in H; repeat break_hyp; inversion H; subst; clear H;
  unfold write_returns, set_caller, set_env, set_go, close_result, wr_closed in *; cbn in *.

(** * The protocol invariant *)

(** Where the goroutine is determines the channel and what Close has returned;
    exactly one value is ever sent, and it is [Do]'s result. *)
Definition Inv (s : state) : Prop :=
  match go s with
  | GDo => chan s = None /\ close_result s = None
  | GSend r =>
    chan s = None /\ close_result s = None /\ env_active (env s) = false /\ r = result_of (env s)
  | GExit =>
    env_active (env s) = false /\
    ((chan s = Some (result_of (env s)) /\ close_result s = None) \/
     (chan s = None /\ close_result s = Some (result_of (env s))))
  end.

Lemma Inv_init chunks : Inv (init chunks).
Proof. unfold Inv; simpl; auto. Qed.

Lemma Inv_step cf s l s' :
  Inv s -> guard s l = true -> apply cf s l = Some s' -> Inv s'.
Proof.
  intros I G A. unfold Inv in *.
  destruct l; do_apply A; unfold guard in G; cbn in G;
    repeat match goal with H : go _ = _ |- _ => rewrite H in * end;
    repeat match goal with H : caller _ = _ |- _ => rewrite H in * end;
    repeat match goal with H : chan _ = _ |- _ => rewrite H in * end;
    cbn in *; bool_hyps;
    try (destruct (go s) eqn:?; cbn in *; intuition congruence).
  all: try (intuition (subst; auto; congruence)).
Qed.

Lemma Inv_run cf tr : forall s s',
  Inv s -> run cf s tr = Some s' -> env_contract cf s tr = true -> Inv s'.
Proof.
  induction tr as [|l tr IH]; simpl; intros s s' I R C.
  - inversion R; subst; auto.
  - destruct (apply cf s l) eqn:A; try discriminate.
    apply andb_true_iff in C. destruct C as [G C].
    apply (IH s0 s'); auto. eapply Inv_step; eauto.
Qed.

(** * Progress: no reachable state is stuck unless it is final *)

Ltac take l := right; exists l; eexists; cbn; rewrite ?result_eqb_refl; split; [reflexivity | reflexivity].

Lemma progress_inv cf s :
  buffered cf = true -> Inv s ->
  final cf s = true \/ exists l s', guard s l = true /\ apply cf s l = Some s'.
Proof.
  intros B I. destruct s as [td ca wl wp rc g ch e nr se].
  unfold Inv, final, caller_finished, go_exited, close_result in *; cbn in *.
  (* the caller can move by itself, or waits for the pipe / the channel *)
  destruct ca as [| c n | | r].
  - (* between calls *)
    destruct td as [|c t].
    + destruct (closes cf) eqn:CL.
      * right. exists LClosePw. eexists. cbn. rewrite CL. split; reflexivity.
      * (* a caller that never closes: finished; the rest must still wind down *)
        destruct g as [| r |].
        -- destruct e; [ take (LAnswer 0) | take (LDoReturn (result_of (EAnswered st)))
                       | take (LDoReturn RTransport) | take (LDoReturn RCtx) ].
        -- destruct I as (C & _ & _ & _). subst ch.
           right. exists LSend. eexists. cbn. rewrite B. split; reflexivity.
        -- destruct I as (EA & _). rewrite EA. cbn.
           destruct rc; [left; reflexivity|].
           right. exists LCloseBody. eexists. cbn. rewrite EA. split; reflexivity.
    + take LCallWrite.
  - (* inside Write: the pipe either delivers or fails *)
    destruct rc.
    + take LWriteFail.
    + destruct (n =? 0) eqn:Z.
      * apply N.eqb_eq in Z. subst n. right. exists (LRead 0). eexists. cbn.
        split; reflexivity.
      * apply N.eqb_neq in Z. right. exists (LRead n). eexists. cbn. split.
        -- replace (1 <=? n) with true by (symmetry; apply N.leb_le; lia). reflexivity.
        -- rewrite N.leb_refl, N.sub_diag. cbn. reflexivity.
  - (* in Close, after pw.Close(): waiting on <-done *)
    destruct ch as [r|].
    + take LRecv.
    + destruct g as [| r |].
      * destruct e; [ take (LAnswer 0) | take (LDoReturn (result_of (EAnswered st)))
                    | take (LDoReturn RTransport) | take (LDoReturn RCtx) ].
      * right. exists LSend. eexists. cbn. rewrite B. split; reflexivity.
      * destruct I as (_ & [(C & _) | (_ & C)]); discriminate.
  - (* Close has returned *)
    destruct g as [| r' | ].
    + destruct I; discriminate.
    + destruct I as (_ & C & _); discriminate.
    + destruct I as (EA & _). rewrite EA. cbn.
      destruct rc; [left; reflexivity|].
      right. exists LCloseBody. eexists. cbn. rewrite EA. split; reflexivity.
Qed.

(** A final state has no successor (with or without the contract). *)
Lemma final_stuck cf s l s' : final cf s = true -> apply cf s l = Some s' -> False.
Proof.
  intros F A. unfold final, caller_finished, go_exited in F. bool_hyps.
  destruct l; do_apply A; try congruence;
    repeat match goal with H : caller _ = _ |- _ => rewrite H in * end;
    repeat match goal with H : todo _ = _ |- _ => rewrite H in * end;
    repeat match goal with H : go _ = _ |- _ => rewrite H in * end;
    cbn in *; bool_hyps; try congruence.
Qed.

(** * Termination: the measure strictly decreases on every move *)

Opaque N.add N.sub.
Lemma measure_decreases cf s l s' :
  guard s l = true -> apply cf s l = Some s' -> measure cf s' < measure cf s.
Proof.
  intros G A. unfold measure.
  destruct l; do_apply A; unfold guard in G; cbn in G;
    repeat match goal with H : caller _ = _ |- _ => rewrite H in * end;
    repeat match goal with H : todo _ = _ |- _ => rewrite H in * end;
    repeat match goal with H : go _ = _ |- _ => rewrite H in * end;
    repeat match goal with H : rd_closed _ = _ |- _ => rewrite H in * end;
    repeat match goal with H : saw_eof _ = _ |- _ => rewrite H in * end;
    repeat match goal with H : env_active _ = _ |- _ => rewrite H in * end;
    cbn in *; bool_hyps;
    repeat match goal with |- context [if ?b then _ else _] => destruct b end;
    repeat match goal with |- context [match go ?s with _ => _ end] => destruct (go s) end;
    try lia.
  (* a read that does not complete the write took at least one byte *)
  all: match goal with H : _ \/ _ |- _ => idtac | _ => idtac end.
  all: try (apply orb_true_iff in G; destruct G; bool_hyps; lia).
Qed.
Transparent N.add N.sub.

Lemma step_wf cf : well_founded (fun s' s => step cf s s').
Proof.
  apply wf_incl with (R2 := fun a b => measure cf a < measure cf b).
  - intros a b (l & G & A). eapply measure_decreases; eauto.
  - apply wf_inverse_image. apply N.lt_wf_0.
Qed.

(** * Reachability *)

Definition reachable (cf : config) (s : state) : Prop :=
  exists chunks tr, run cf (init chunks) tr = Some s /\ env_contract cf (init chunks) tr = true.

Lemma reachable_Inv cf s : reachable cf s -> Inv s.
Proof. intros (ch & tr & R & C). eapply Inv_run; eauto. apply Inv_init. Qed.

Lemma run_app cf tr1 : forall s tr2,
  run cf s (tr1 ++ tr2)%list =
  match run cf s tr1 with Some s' => run cf s' tr2 | None => None end.
Proof.
  induction tr1; simpl; intros; auto. destruct (apply cf s a); auto.
Qed.

Lemma contract_app cf tr1 : forall s s' tr2,
  run cf s tr1 = Some s' ->
  env_contract cf s (tr1 ++ tr2)%list = env_contract cf s tr1 && env_contract cf s' tr2.
Proof.
  induction tr1; simpl; intros s s' tr2 R.
  - inversion R; subst; auto.
  - destruct (apply cf s a) eqn:A; try discriminate.
    rewrite (IHtr1 _ _ _ R). rewrite andb_assoc. reflexivity.
Qed.

Lemma reachable_step cf s s' : reachable cf s -> step cf s s' -> reachable cf s'.
Proof.
  intros (ch & tr & R & C) (l & G & A). exists ch, (tr ++ [l])%list. split.
  - rewrite run_app, R. simpl. rewrite A. reflexivity.
  - rewrite (contract_app _ _ _ _ _ R), C. simpl. rewrite G, A. reflexivity.
Qed.

(** * The theorems *)

Theorem progress cf s :
  buffered cf = true -> reachable cf s -> final cf s = true \/ exists s', step cf s s'.
Proof.
  intros B R. destruct (progress_inv cf s B (reachable_Inv _ _ R)) as [F | (l & s' & G & A)]; auto.
  right. exists s', l. auto.
Qed.

Theorem terminates cf s s' : step cf s s' -> measure cf s' < measure cf s.
Proof. intros (l & G & A). eapply measure_decreases; eauto. Qed.

(** every execution can be extended to a final state, and only finitely far *)
Theorem reaches_final cf s :
  buffered cf = true -> reachable cf s ->
  exists s', clos_refl_trans _ (step cf) s s' /\ final cf s' = true.
Proof.
  intros B. induction (step_wf cf s) as [s _ IH]. intros R.
  destruct (progress cf s B R) as [F | (s1 & S)].
  - exists s. split; [apply rt_refl | auto].
  - destruct (IH s1 S (reachable_step _ _ _ R S)) as (s' & P & F).
    exists s'. split; auto. eapply rt_trans; [apply rt_step; eauto | auto].
Qed.

Theorem close_after_answer cf s r :
  reachable cf s -> close_result s = Some r -> env_active (env s) = false.
Proof.
  intros R C. pose proof (reachable_Inv _ _ R) as I. unfold Inv in I.
  destruct (go s); intuition congruence.
Qed.

Theorem close_outcome cf s r :
  reachable cf s -> close_result s = Some r ->
  r = result_of (env s) /\ (r = RNil <-> answered_2xx s = true).
Proof.
  intros R C. pose proof (reachable_Inv _ _ R) as I. unfold Inv in I.
  assert (E : r = result_of (env s) /\ env_active (env s) = false).
  { destruct (go s); intuition congruence. }
  destruct E as [E A]. split; auto. subst r. unfold answered_2xx, result_of.
  destruct (env s); cbn in *; try discriminate; try (split; congruence).
  destruct (is_2xx st); split; congruence.
Qed.

(** a state without successor is final: Close has returned (or the caller never
    closes and has finished writing) and the goroutine has exited *)
Theorem no_leak cf s :
  buffered cf = true -> reachable cf s -> (forall s', ~ step cf s s') ->
  go_exited s = true /\ caller_finished cf s = true /\ rd_closed s = true.
Proof.
  intros B R N. destruct (progress cf s B R) as [F | (s' & S)].
  - unfold final in F. bool_hyps. auto.
  - destruct (N s' S).
Qed.

Lemma reachable_steps cf s s' :
  reachable cf s -> clos_refl_trans _ (step cf) s s' -> reachable cf s'.
Proof.
  intros R P. induction P as [a b S | a | a b c P1 IH1 P2 IH2]; auto.
  eapply reachable_step; eauto.
Qed.

(** every maximal execution (one that cannot be continued) has ended in a final
    state; with [step_wf] there are no others *)
Theorem maximal_runs_end_final cf s s' :
  buffered cf = true -> reachable cf s -> clos_refl_trans _ (step cf) s s' ->
  (forall s'', ~ step cf s' s'') -> final cf s' = true.
Proof.
  intros B R P N. pose proof (reachable_steps _ _ _ R P) as R'.
  destruct (progress cf s' B R') as [F | (s'' & S)]; auto. destruct (N s'' S).
Qed.

(** and when Close returns the goroutine is already past its only send *)
Theorem closed_implies_exited cf s r :
  reachable cf s -> close_result s = Some r -> go_exited s = true.
Proof.
  intros R C. pose proof (reachable_Inv _ _ R) as I. unfold Inv, go_exited in *.
  destruct (go s); intuition congruence.
Qed.

(** * Sensitivity: with an unbuffered channel a caller that never calls Close
    leaves the goroutine blocked in its send forever. *)
Definition cf_unbuffered : config := {| closes := false; buffered := false |}.

Theorem unbuffered_leaks :
  exists s, reachable cf_unbuffered s /\ (forall s', ~ step cf_unbuffered s s') /\ go_exited s = false.
Proof.
  exists {| todo := []; caller := CIdle; wlog := []; w_pos := 0; rd_closed := true;
            go := GSend RNil; chan := None; env := EAnswered 201; nread := 0; saw_eof := false |}.
  split; [|split].
  - exists [], [LAnswer 201; LDoReturn RNil; LCloseBody]. split; reflexivity.
  - intros s' (l & G & A). destruct l; cbn in A; discriminate.
  - reflexivity.
Qed.

(** * The outcome function is sound for the transition system *)

Definition lens (l : list wentry) : N := total (map w_len l).

Definition cur_chunk (s : state) : list N :=
  match caller s with CWriting c _ => [c] | _ => [] end.

Fixpoint offs_ok (l : list wentry) : Prop :=
  match l with [] => True | e :: r => w_off e = lens r /\ offs_ok r end.

(** J1: the log, the write in progress and the chunks still to come are the
    caller's program; logged offsets are the running sums. *)
Definition J1 (chunks : list N) (s : state) : Prop :=
  (map w_len (rev (wlog s)) ++ cur_chunk s ++ todo s)%list = chunks /\
  offs_ok (wlog s) /\ w_pos s = lens (wlog s) /\
  (wr_closed s = true -> todo s = []).

Lemma lens_cons e r : lens (e :: r) = w_len e + lens r.
Proof. reflexivity. Qed.

Lemma J1_init chunks : J1 chunks (init chunks).
Proof. unfold J1; simpl; repeat split; auto. discriminate. Qed.

Lemma J1_step cf chunks s l s' : J1 chunks s -> apply cf s l = Some s' -> J1 chunks s'.
Proof.
  unfold J1, cur_chunk. intros (D & O & P & T) A.
  destruct l; do_apply A;
    repeat match goal with H : caller _ = _ |- _ => rewrite H in * end;
    repeat match goal with H : todo _ = _ |- _ => rewrite H in * end;
    cbn in *; auto.
  all: try (repeat split; auto; discriminate).
  - (* LWriteFail *) rewrite map_app, <- app_assoc. cbn. split; [auto|]. split; [auto|].
    split; [|discriminate]. unfold lens in *. cbn. rewrite P. lia.
  - (* LRead, write completes *) rewrite map_app, <- app_assoc. cbn. split; [auto|]. split; [auto|].
    split; [|discriminate]. unfold lens in *. cbn. rewrite P. lia.
Qed.

(** J2: the environment never has more bytes than the pipe handed over. *)
Definition J2 (s : state) : Prop :=
  match caller s with
  | CWriting c n => n <= c /\ (n = 0 -> c = 0) /\ nread s + n <= w_pos s + c
  | _ => nread s <= w_pos s
  end.

Lemma J2_init chunks : J2 (init chunks).
Proof. unfold J2; simpl. lia. Qed.

Opaque N.add N.sub.
Lemma J2_step cf s l s' : J2 s -> guard s l = true -> apply cf s l = Some s' -> J2 s'.
Proof.
  unfold J2. intros J G A.
  destruct l; do_apply A; unfold guard in G; cbn in G;
    repeat match goal with H : caller _ = _ |- _ => rewrite H in * end;
    cbn in *; bool_hyps; try lia; auto.
Qed.
Transparent N.add N.sub.

(** J3: the exchange is decided only when and how the script says; the body is
    closed only after the decision or EOF; EOF only after pw.Close. *)
Definition J3 (sc : script) (s : state) : Prop :=
  (env_active (env s) = false ->
     sc_read sc <= nread s /\ (sc_eof sc = true -> saw_eof s = true) /\
     result_of (env s) = result_of_dec (sc_dec sc)) /\
  (rd_closed s = true -> env_active (env s) = false \/ saw_eof s = true) /\
  (saw_eof s = true -> wr_closed s = true).

Lemma J3_init sc : J3 sc (init (sc_chunks sc)).
Proof. unfold J3; simpl. repeat split; intros; discriminate. Qed.

Lemma decision_eqb_eq a b : decision_eqb a b = true -> a = b.
Proof.
  destruct a, b; simpl; intro H; try discriminate; auto.
  apply N.eqb_eq in H. congruence.
Qed.

Opaque N.add N.sub.
Lemma J3_step sc s l s' :
  J3 sc s -> guard s l = true -> conform sc s l = true ->
  apply (sc_cfg sc) s l = Some s' -> J3 sc s'.
Proof.
  unfold J3. intros (D & B & E) G C A.
  destruct l; do_apply A; unfold guard in G; unfold conform, decision_ready in C; cbn in G, C;
    repeat match goal with H : caller _ = _ |- _ => rewrite H in * end;
    cbn in *; bool_hyps;
    try match goal with H : decision_eqb _ _ = true |- _ => apply decision_eqb_eq in H end.
  all: try (repeat split; intros; try discriminate; try congruence;
            try (destruct (D ltac:(assumption)) as (? & ? & ?); auto; lia);
            try (destruct (saw_eof s) eqn:?; [specialize (E eq_refl); discriminate | auto]);
            auto; fail).
  all: try (repeat split; intros; auto; try discriminate;
            try (match goal with H : negb (sc_eof ?x) || _ = true |- _ => destruct (sc_eof x); cbn in *; auto; congruence end);
            try (match goal with H : sc_dec _ = _ |- _ => rewrite H; reflexivity end); fail).
  (* LCloseBody: the guard is exactly what J3 records *)
  split; [auto|]. split; [|auto]. intros _.
  apply orb_true_iff in G. destruct G as [G|G]; bool_hyps; auto.
Qed.
Transparent N.add N.sub.

(** J4: a Write fails only where the script allows it, and failures are final. *)
Fixpoint mono_nf (l : list wentry) : Prop :=
  match l with
  | [] => True
  | e :: r => (w_ok e = true -> Forall (fun x => w_ok x = true) r) /\ mono_nf r
  end.

Definition J4 (sc : script) (s : state) : Prop :=
  Forall (fun e => w_ok e = false -> must_ok sc (w_off e) (w_len e) = false) (wlog s) /\
  mono_nf (wlog s) /\
  (rd_closed s = false -> Forall (fun x => w_ok x = true) (wlog s)).

Lemma J4_init sc : J4 sc (init (sc_chunks sc)).
Proof. unfold J4; simpl. auto. Qed.

Lemma fail_not_must_ok sc s c n :
  J2 s -> J3 sc s -> caller s = CWriting c n -> rd_closed s = true ->
  must_ok sc (w_pos s) c = false.
Proof.
  unfold J2, J3. intros J2 (D & B & E) CA RC. rewrite CA in J2.
  destruct J2 as (LE & Z & CNT).
  assert (SE : saw_eof s = false).
  { destruct (saw_eof s) eqn:SE; auto. specialize (E eq_refl). unfold wr_closed in E.
    rewrite CA in E. discriminate. }
  destruct (B RC) as [EA | X]; [| congruence].
  destruct (D EA) as (RD & EOF & _).
  unfold must_ok. destruct (sc_eof sc) eqn:SEOF.
  - specialize (EOF eq_refl). congruence.
  - cbn. destruct (w_pos s + c <=? sc_read sc) eqn:L1; cbn; auto. bool_hyps.
    assert (n = 0) by lia. specialize (Z H). subst.
    apply orb_false_iff. split; [apply N.ltb_ge; lia | apply N.ltb_ge; lia].
Qed.

Lemma J4_step sc s l s' :
  J2 s -> J3 sc s -> J4 sc s -> apply (sc_cfg sc) s l = Some s' -> J4 sc s'.
Proof.
  unfold J4. intros J2 J3 (F & M & A) AP.
  destruct l; try (do_apply AP; auto; fail).
  - (* LWriteFail *)
    unfold apply in AP. destruct (caller s) eqn:CA; try discriminate.
    destruct (rd_closed s) eqn:RC; try discriminate. inversion AP; subst; clear AP.
    unfold write_returns; cbn. rewrite RC. split; [|split].
    + constructor; auto. cbn. intros _. eapply fail_not_must_ok; eauto.
    + split; auto; cbn; discriminate.
    + discriminate.
  - (* LRead *)
    unfold apply in AP. destruct (caller s) eqn:CA; try discriminate.
    destruct (rd_closed s) eqn:RC; cbn in AP; try discriminate.
    destruct (k <=? n); try discriminate.
    destruct (n - k =? 0); inversion AP; subst; clear AP; unfold write_returns; cbn;
      rewrite ?RC; auto.
    split; [|split].
    + constructor; auto. cbn. discriminate.
    + split; auto.
    + intros _. constructor; auto.
Qed.

(** all four invariants along a conforming, contract-respecting run *)
Lemma J_run sc tr : forall s s',
  J1 (sc_chunks sc) s -> J2 s -> J3 sc s -> J4 sc s ->
  run (sc_cfg sc) s tr = Some s' ->
  env_contract (sc_cfg sc) s tr = true -> script_conform sc s tr = true ->
  J1 (sc_chunks sc) s' /\ J2 s' /\ J3 sc s' /\ J4 sc s'.
Proof.
  induction tr as [|l tr IH]; simpl; intros s s' H1 H2 H3 H4 R C SC.
  - inversion R; subst; auto.
  - destruct (apply (sc_cfg sc) s l) eqn:A; try discriminate.
    apply andb_true_iff in C. destruct C as [G C].
    apply andb_true_iff in SC. destruct SC as [CF SC].
    apply (IH s0 s'); auto.
    + eapply J1_step; eauto.
    + eapply J2_step; eauto.
    + eapply J3_step; eauto.
    + eapply J4_step; eauto.
Qed.

(** ** From the invariants to the verdict *)

Lemma total_app a b : total (a ++ b)%list = total a + total b.
Proof. induction a; simpl; auto. rewrite IHa. lia. Qed.

Lemma total_rev a : total (rev a) = total a.
Proof. induction a; simpl; auto. rewrite total_app, IHa. simpl. lia. Qed.

Lemma classes_app sc l1 : forall off l2,
  classes sc off (l1 ++ l2)%list = (classes sc off l1 ++ classes sc (off + total l1) l2)%list.
Proof.
  induction l1; simpl; intros.
  - rewrite N.add_0_r. reflexivity.
  - rewrite IHl1. rewrite N.add_assoc. reflexivity.
Qed.

Lemma classes_ok_app c1 : forall o1 c2 o2,
  classes_ok c1 o1 = true -> classes_ok c2 o2 = true ->
  classes_ok (c1 ++ c2)%list (o1 ++ o2)%list = true.
Proof.
  induction c1; destruct o1; simpl; intros; try discriminate; auto.
  apply andb_true_iff in H. destruct H. rewrite H. simpl. auto.
Qed.

Lemma log_classes_ok sc l :
  offs_ok l ->
  Forall (fun e => w_ok e = false -> must_ok sc (w_off e) (w_len e) = false) l ->
  classes_ok (classes sc 0 (map w_len (rev l))) (map w_ok (rev l)) = true.
Proof.
  induction l as [|e r IH]; simpl; intros O F; auto.
  destruct O as [OE OR]. inversion F; subst.
  rewrite !map_app, classes_app. apply classes_ok_app; auto.
  rewrite N.add_0_l, map_rev, total_rev. fold (lens r). rewrite <- OE. cbn.
  destruct (w_ok e) eqn:K.
  - rewrite orb_true_r. reflexivity.
  - rewrite (H1 eq_refl). reflexivity.
Qed.

Lemma mono_snoc_false l : mono l = true -> mono (l ++ [false])%list = true.
Proof.
  induction l as [|b t IH]; simpl; auto. destruct b; auto.
  intro H. rewrite forallb_app, H. reflexivity.
Qed.

Lemma mono_all_true l : forallb (fun b => b) l = true -> mono l = true.
Proof. induction l as [|b t IH]; simpl; auto. destruct b; simpl; auto. discriminate. Qed.

Lemma all_ok_rev r :
  Forall (fun x => w_ok x = true) r -> forallb (fun b => b) (map w_ok (rev r)) = true.
Proof.
  intro F. apply forallb_forall. intros b IN. apply in_map_iff in IN.
  destruct IN as (e & E & IN). apply in_rev in IN. rewrite Forall_forall in F.
  rewrite <- E. auto.
Qed.

Lemma log_mono l : mono_nf l -> mono (map w_ok (rev l)) = true.
Proof.
  induction l as [|e r IH]; simpl; auto. intros (A & M).
  rewrite map_app. cbn. destruct (w_ok e) eqn:K.
  - apply mono_all_true. rewrite forallb_app. rewrite (all_ok_rev r (A eq_refl)). reflexivity.
  - apply mono_snoc_false. auto.
Qed.

Lemma list_N_eqb_refl l : list_N_eqb l l = true.
Proof. induction l; simpl; auto. rewrite N.eqb_refl. auto. Qed.

(** Every execution of the transition system that respects the transport contract
    and in which the environment follows the script ends in a state whose
    observation the outcome function accepts. *)
Theorem outcome_sound sc tr s :
  run (sc_cfg sc) (init (sc_chunks sc)) tr = Some s ->
  env_contract (sc_cfg sc) (init (sc_chunks sc)) tr = true ->
  script_conform sc (init (sc_chunks sc)) tr = true ->
  final (sc_cfg sc) s = true ->
  model_agrees sc (obs_of (sc_cfg sc) s) = true.
Proof.
  intros R C SC F.
  destruct (J_run sc tr _ _ (J1_init _) (J2_init _) (J3_init sc) (J4_init sc) R C SC)
    as ((D & O & P & T) & _ & (DEC & _ & _) & (FM & M & _)).
  assert (RE : reachable (sc_cfg sc) s) by (exists (sc_chunks sc), tr; auto).
  unfold final in F. bool_hyps. rename H into CF, H2 into GE, H1 into RC, H0 into EA.
  unfold model_agrees, obs_of, outcome, obs_writes. cbn.
  rewrite CF, GE. cbn.
  rewrite !map_map. cbn.
  (* the caller has finished: nothing in progress, nothing to come *)
  assert (W : map w_len (rev (wlog s)) = sc_chunks sc).
  { unfold caller_finished, cur_chunk, wr_closed in *. destruct (caller s); try discriminate.
    - destruct (todo s); try discriminate. rewrite !app_nil_r in D. auto.
    - rewrite (T eq_refl) in D. rewrite !app_nil_r in D. auto. }
  change (map (fun x : wentry => w_len x) (rev (wlog s))) with (map w_len (rev (wlog s))).
  change (map (fun x : wentry => w_ok x) (rev (wlog s))) with (map w_ok (rev (wlog s))).
  rewrite W, list_N_eqb_refl. cbn.
  rewrite <- W at 1. rewrite (log_classes_ok sc _ O FM). cbn.
  rewrite (log_mono _ M). cbn.
  (* Close's result *)
  destruct (DEC EA) as (_ & _ & RES).
  unfold caller_finished in CF. unfold close_result. unfold sc_cfg in CF; cbn in CF.
  destruct (caller s) eqn:CA; try discriminate.
  - destruct (todo s); try discriminate. bool_hyps. rewrite CF. reflexivity.
  - destruct (close_outcome _ _ r RE) as (E & _).
    { unfold close_result. rewrite CA. reflexivity. }
    destruct (sc_close sc) eqn:CL.
    + cbn. rewrite E, RES, result_eqb_refl, EA. reflexivity.
    + (* a caller that never closes cannot have a Close result *)
      exfalso. clear - R CA CL. revert R.
      assert (G : forall tr s0, run (sc_cfg sc) s0 tr = Some s ->
                  (forall r0, caller s0 <> CDone r0) -> caller s0 <> CWaitDone -> False).
      { induction tr0 as [|l tr0 IH]; simpl; intros s0 R N1 N2.
        - inversion R; subst. eapply N1; eauto.
        - destruct (apply (sc_cfg sc) s0 l) eqn:A; try discriminate.
          apply (IH s1 R).
          + intros r0 X. destruct l; do_apply A; try congruence;
              try (eapply N1; eauto; fail).
          + intro X. destruct l; do_apply A; try congruence. }
      intro R. apply (G tr _ R); simpl; congruence.
Qed.

Theorem agree_implies_spec_ok sc o : model_agrees sc o = true -> spec_ok sc o = true.
Proof.
  unfold model_agrees, spec_ok, outcome. cbn. intro H.
  repeat (apply andb_true_iff in H; destruct H as [H ?]).
  repeat (apply andb_true_iff; split); auto.
Qed.

(** * The outcome classes are inhabited: for every well-formed script there is an
    execution that respects the contract, follows the script and ends in a final
    state (the one in which the environment reads every byte before it decides). *)

Definition wsched (chunks : list N) : list label :=
  flat_map (fun c => [LCallWrite; LRead c]) chunks.

Lemma run_app_some cf tr1 tr2 s s1 s2 :
  run cf s tr1 = Some s1 -> run cf s1 tr2 = Some s2 -> run cf s (tr1 ++ tr2)%list = Some s2.
Proof. intros A B. rewrite run_app, A. auto. Qed.

Lemma conform_app sc tr1 : forall s s' tr2,
  run (sc_cfg sc) s tr1 = Some s' ->
  script_conform sc s (tr1 ++ tr2)%list = script_conform sc s tr1 && script_conform sc s' tr2.
Proof.
  induction tr1; simpl; intros s s' tr2 R.
  - inversion R; subst; auto.
  - destruct (apply (sc_cfg sc) s a) eqn:A; try discriminate.
    rewrite (IHtr1 _ _ _ R). rewrite andb_assoc. reflexivity.
Qed.

Lemma wphase sc chunks : forall wl wp g ch e nr se,
  exists wl' wp',
    let s := {| todo := chunks; caller := CIdle; wlog := wl; w_pos := wp; rd_closed := false;
                go := g; chan := ch; env := e; nread := nr; saw_eof := se |} in
    let s' := {| todo := []; caller := CIdle; wlog := wl'; w_pos := wp'; rd_closed := false;
                 go := g; chan := ch; env := e; nread := nr + total chunks; saw_eof := se |} in
    run (sc_cfg sc) s (wsched chunks) = Some s' /\
    env_contract (sc_cfg sc) s (wsched chunks) = true /\
    script_conform sc s (wsched chunks) = true.
Proof.
  induction chunks as [|c t IH]; intros.
  - exists wl, wp. cbn. rewrite N.add_0_r. auto.
  - destruct (IH ({| w_off := wp; w_len := c; w_ok := true |} :: wl) (wp + c) g ch e (nr + c) se)
      as (wl' & wp' & R & C & S).
    exists wl', wp'. cbn -[N.add N.sub N.leb N.eqb total wsched].
    cbn [wsched flat_map app]. fold (wsched t).
    cbn [run env_contract script_conform apply guard conform caller todo rd_closed negb andb].
    rewrite N.leb_refl, N.sub_diag. cbn [N.eqb andb]. unfold write_returns.
    cbn [todo caller wlog w_pos rd_closed go chan env nread saw_eof].
    cbn [total]. replace (nr + (c + total t)) with (nr + c + total t) by lia.
    rewrite R, C, S.
    replace ((1 <=? c) || (c =? 0)) with true; [auto|].
    symmetry. apply orb_true_iff.
    destruct (c =? 0) eqn:Z; [right; auto|].
    apply N.eqb_neq in Z. left. apply N.leb_le. lia.
Qed.

Theorem outcome_realised sc :
  script_wf sc = true ->
  exists tr s,
    run (sc_cfg sc) (init (sc_chunks sc)) tr = Some s /\
    env_contract (sc_cfg sc) (init (sc_chunks sc)) tr = true /\
    script_conform sc (init (sc_chunks sc)) tr = true /\
    final (sc_cfg sc) s = true.
Proof.
  intro WF. unfold script_wf in WF. apply andb_true_iff in WF. destruct WF as [RD CE].
  destruct (wphase sc (sc_chunks sc) [] 0 GDo None EActive 0 false) as (wl & wp & R & C & S).
  cbn zeta in *. rewrite N.add_0_l in *.
  set (dl := match sc_dec sc with DAnswer st => LAnswer st | DDrop => LDrop | DCancel => LCancel end).
  set (r := result_of_dec (sc_dec sc)).
  set (tail := ((if sc_close sc then [LClosePw; LEof] else []) ++
                [dl; LDoReturn r; LCloseBody; LSend] ++
                (if sc_close sc then [LRecv] else []))%list).
  exists (wsched (sc_chunks sc) ++ tail)%list.
  unfold init in *.
  assert (T : exists s,
    run (sc_cfg sc) {| todo := []; caller := CIdle; wlog := wl; w_pos := wp; rd_closed := false;
                       go := GDo; chan := None; env := EActive; nread := total (sc_chunks sc);
                       saw_eof := false |} tail = Some s /\
    env_contract (sc_cfg sc) {| todo := []; caller := CIdle; wlog := wl; w_pos := wp; rd_closed := false;
                       go := GDo; chan := None; env := EActive; nread := total (sc_chunks sc);
                       saw_eof := false |} tail = true /\
    script_conform sc {| todo := []; caller := CIdle; wlog := wl; w_pos := wp; rd_closed := false;
                       go := GDo; chan := None; env := EActive; nread := total (sc_chunks sc);
                       saw_eof := false |} tail = true /\
    final (sc_cfg sc) s = true).
  { unfold tail, dl, r. unfold sc_cfg.
    destruct (sc_close sc) eqn:CL; destruct (sc_dec sc) eqn:DD; cbn in CE;
      repeat (cbn -[N.leb N.eqb total N.div]; unfold decision_ready;
              rewrite ?CL, ?RD, ?DD, ?CE, ?result_eqb_refl, ?N.eqb_refl, ?orb_true_r);
      try (destruct (is_2xx st));
      eexists; repeat split; try reflexivity. }
  destruct T as (s & TR & TC & TS & TF).
  exists s. split; [|split; [|split]]; auto.
  - eapply run_app_some; eauto.
  - rewrite (contract_app _ _ _ _ _ R), C, TC. reflexivity.
  - rewrite (conform_app _ _ _ _ _ R), S, TS. reflexivity.
Qed.

(** * Cancellation at any point: what the "upx" part of the check observes *)
Theorem xmodel_sound cf s :
  closes cf = true -> reachable cf s -> final cf s = true -> xmodel_agrees (xobs_of cf s) = true.
Proof.
  intros CL R F. unfold final in F. bool_hyps.
  rename H into CF, H2 into GE, H1 into RC, H0 into EA.
  unfold xmodel_agrees, xobs_of, close_is_do. cbn. rewrite CF, GE. cbn.
  unfold caller_finished in CF. rewrite CL in CF.
  destruct (caller s) as [| | |r] eqn:CA; try discriminate; try (destruct (todo s); discriminate).
  assert (C : close_result s = Some r) by (unfold close_result; rewrite CA; reflexivity).
  rewrite C. destruct (close_outcome cf s r R C) as [E _].
  unfold go_exited in GE. destruct (go s); try discriminate. cbn. rewrite E. apply result_eqb_refl.
Qed.

Theorem xagree_implies_spec dead o : xmodel_agrees o = true -> xspec_ok dead o = true.
Proof. unfold xspec_ok. intros ->. reflexivity. Qed.
