(** Properties_C08.v — placeholder while the proofs are being written. *)
From GW Require Import Base CalTime CalTimeProofs.

Theorem C08_time_text_round_trip : forall s, in_range s = true -> parse_utc (fmt_utc s) = Some s.
Proof. exact parse_fmt_utc. Qed.
Print Assumptions C08_time_text_round_trip.
