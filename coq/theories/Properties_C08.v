(** Properties_C08.v — C08: CalDAV queries cross the wire without loss, in
    RFC 4791 form.  Statements only; the proofs are in CalTimeProofs.v,
    CalWireLex.v, CalWireServer.v and CalWireProofs.v. *)
From GW Require Import Base CalTime CalTimeProofs CalXml CalWire CalWireLex CalWireServer CalWireProofs.

(** The "date with UTC time" text form round-trips for every instant whose
    year has four digits. *)
Theorem C08_time_text_round_trip : forall s, in_range s = true -> parse_utc (fmt_utc s) = Some s.
Proof. exact parse_fmt_utc. Qed.
Print Assumptions C08_time_text_round_trip.

(** Wire to backend: every lexical variant (prefixes, declarations, foreign
    attributes, attribute order, defaulted attributes spelled out, comments,
    white space, split character data) of the RFC 4791 document of a valid
    request reaches the backend as exactly that request. *)
Theorem C08_server_denotes :
  forall (href_fmt : string -> string) (href_parse : string -> option string) path r doc,
    valid href_fmt href_parse r = true ->
    lexvar (rfc_write href_fmt r) doc ->
    handle_report href_parse path doc = Ok (backend_call_of path r).
Proof. exact server_denotes. Qed.
Print Assumptions C08_server_denotes.

(** Client to backend: whatever the caller can express arrives at the
    backend of the server unchanged, instants as UTC seconds. *)
Theorem C08_end_to_end :
  forall (href_fmt : string -> string) (href_parse : string -> option string) path r,
    expressible href_fmt href_parse r = true ->
    handle_report href_parse path (client_body href_fmt path r) = Ok (backend_call_of path (normalise r)).
Proof. exact end_to_end. Qed.
Print Assumptions C08_end_to_end.
