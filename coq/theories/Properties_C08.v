(** Properties_C08.v — C08: CalDAV queries cross the wire without loss, in
    RFC 4791 form.  Statements only; the proofs are in CalTimeProofs.v,
    CalWireLex.v, CalWireServer.v, CalWireReader.v, CalWireVariant.v and
    CalWireProofs.v.

    [href_fmt] / [href_parse] stand for net/url ([(&url.URL{Path: p}).String()]
    and [url.Parse(text).Path]); they are universally quantified: the theorems
    hold for whatever these functions are, and [valid] asks of each path of a
    multiget only that it survives the two ([valid_path]). *)
From GW Require Import Base CalTime CalTimeProofs CalXml CalWire CalWireLex CalWireServer CalWireReader
     CalWireVariant CalWireProofs CalWireAgree.

(** The "date with UTC time" text form round-trips for every instant whose
    year has four digits. *)
Theorem C08_time_text_round_trip : forall s, in_range s = true -> parse_utc (fmt_utc s) = Some s.
Proof. exact parse_fmt_utc. Qed.
Print Assumptions C08_time_text_round_trip.

(** The reference is coherent: the reader written from RFC 4791 inverts the
    writer written from RFC 4791, on every request the grammar can carry. *)
Theorem C08_rfc_codec :
  forall (href_fmt : string -> string) (href_parse : string -> option string) r,
    valid href_fmt href_parse r = true -> rfc_read href_parse (rfc_write href_fmt r) = Some r.
Proof. exact rfc_codec. Qed.
Print Assumptions C08_rfc_codec.

(** ... and it reads every lexical variant of such a document (prefixes,
    namespace declarations, foreign attributes, attribute order, defaulted
    attributes spelled out, comments, white space between elements, character
    data in pieces) as the same request. *)
Theorem C08_rfc_read_lexical_invariance :
  forall (href_fmt : string -> string) (href_parse : string -> option string) r doc,
    valid href_fmt href_parse r = true -> lexvar (rfc_write href_fmt r) doc ->
    rfc_read href_parse doc = Some r.
Proof. exact rfc_read_lex. Qed.
Print Assumptions C08_rfc_read_lexical_invariance.

(** Client to wire: what caldav.Client writes for any request a caller can
    express is an RFC 4791 document that the independent reader decodes to
    that request, instants as UTC seconds. *)
(** [denote path r] is what a call on [path] with the value [r] asks for: [r]
    itself, except that a CalendarMultiGet without Paths asks for [path]
    ([denote path r = r] whenever [r] is expressible, C08_denote_expressible). *)
Theorem C08_client_conformant :
  forall (href_fmt : string -> string) (href_parse : string -> option string) path r,
    expressible href_fmt href_parse (denote path r) = true ->
    rfc_read href_parse (client_body href_fmt path r) = Some (normalise (denote path r)).
Proof. exact client_conformant_call. Qed.
Print Assumptions C08_client_conformant.

(** Wire to backend: every lexical variant of the RFC 4791 document of a
    valid request that stays below encoding/xml's nesting limit
    ([fits_request]: errUnmarshalDepth at 10000 levels, a comp-filter in a
    comp-filter costs two) reaches the backend as exactly that request. *)
Theorem C08_server_denotes :
  forall (href_fmt : string -> string) (href_parse : string -> option string) path r doc,
    valid href_fmt href_parse r = true -> fits_request r = true ->
    lexvar (rfc_write href_fmt r) doc ->
    handle_report href_parse path doc = Ok (backend_call_of path r).
Proof. exact server_denotes. Qed.
Print Assumptions C08_server_denotes.

(** comp is optional in calendar-data (RFC 4791 9.6): a request for the whole
    object (no name, all properties, all components; with or without expand)
    may also be written without comp; every lexical variant of that document
    reaches the backend as the same request and is read as it. *)
Theorem C08_server_denotes_without_comp :
  forall (href_fmt : string -> string) (href_parse : string -> option string) path r doc,
    valid href_fmt href_parse r = true -> fits_request r = true -> is_whole (req_cr r) = true ->
    lexvar (rfc_write_nc href_fmt r) doc ->
    handle_report href_parse path doc = Ok (backend_call_of path r).
Proof. exact server_denotes_nc. Qed.
Print Assumptions C08_server_denotes_without_comp.

Theorem C08_rfc_read_without_comp :
  forall (href_fmt : string -> string) (href_parse : string -> option string) r doc,
    valid href_fmt href_parse r = true -> is_whole (req_cr r) = true ->
    lexvar (rfc_write_nc href_fmt r) doc ->
    rfc_read href_parse doc = Some r.
Proof. exact rfc_read_lex_nc. Qed.
Print Assumptions C08_rfc_read_without_comp.

(** Client to backend: whatever the caller can express, nested below the
    limit, arrives at the backend of the server unchanged, instants as UTC
    seconds.  The premise is about the caller's value, not about XML. *)
Theorem C08_end_to_end :
  forall (href_fmt : string -> string) (href_parse : string -> option string) path r,
    expressible href_fmt href_parse (denote path r) = true -> fits_request (denote path r) = true ->
    handle_report href_parse path (client_body href_fmt path r)
    = Ok (backend_call_of path (normalise (denote path r))).
Proof. exact end_to_end_call. Qed.
Print Assumptions C08_end_to_end.

Theorem C08_denote_expressible :
  forall (href_fmt : string -> string) (href_parse : string -> option string) path r,
    expressible href_fmt href_parse r = true -> denote path r = r.
Proof. exact denote_expressible. Qed.
Print Assumptions C08_denote_expressible.

(** A request whose comp-filters are nested at most 4997 deep and whose
    component requests at most 4999 deep is below the limit, whatever else it
    contains ([fits_request] itself is exact: it depends on what the innermost
    filters carry). *)
Theorem C08_fits_by_depth :
  forall r, (req_cf_depth r <= 4997)%N -> (req_cr_depth r <= 4999)%N -> fits_request r = true.
Proof. exact fits_by_depth. Qed.
Print Assumptions C08_fits_by_depth.

(** "Nothing altered": normalisation keeps the second of every instant and
    sets its zone offset to 0, and is the identity on requests whose instants
    are UTC already — names, flags, texts, selections and hrefs are untouched. *)
Theorem C08_normalise_instant : forall i, fst (norm_i i) = fst i /\ snd (norm_i i) = 0%Z.
Proof. exact norm_i_second. Qed.
Print Assumptions C08_normalise_instant.

Theorem C08_normalise_utc_identity : forall r, utc_request r = true -> normalise r = r.
Proof. exact normalise_utc_id. Qed.
Print Assumptions C08_normalise_utc_identity.

(** The decidable variant test of the oracle is sound for [lexvar]; hence
    every document the oracle puts in the domain of the server-side
    specification is covered by [C08_server_denotes] and
    [C08_rfc_read_lexical_invariance]. *)
Theorem C08_variant_test_sound :
  forall (href_fmt : string -> string) r doc,
    variant_b (rfc_write href_fmt r) doc = true -> lexvar (rfc_write href_fmt r) doc.
Proof. exact variant_b_lexvar. Qed.
Print Assumptions C08_variant_test_sound.

(** Model ⊑ specification in the form the check uses (DESIGN.md section 5):
    the extracted specification verdicts accept the model's own output on
    every input. *)
Theorem C08_server_model_meets_spec :
  forall (href_fmt : string -> string) (href_parse : string -> option string) path r doc,
    server_spec_ok href_fmt href_parse path r doc (handle_report href_parse path doc) = true.
Proof. exact server_model_meets_spec. Qed.
Print Assumptions C08_server_model_meets_spec.

Theorem C08_client_model_meets_spec :
  forall (href_fmt : string -> string) (href_parse : string -> option string) path r,
    client_spec_ok href_fmt href_parse path r (client_body href_fmt path r)
                   (handle_report href_parse path (client_body href_fmt path r)) = true.
Proof. exact client_model_meets_spec. Qed.
Print Assumptions C08_client_model_meets_spec.

(** The two Coq models of the CalDAV server's REPORT decoding — this one
    ([CalWire.handle_report]: which request value reaches the backend) and C13's
    ([ServerTotal.cal_handle_report]: which status is answered, whether the
    backend is reached) — describe the same function on EVERY report body tree,
    encoding/xml's nesting limit included: [Err c] here iff ServerTotal answers
    the 400 of [bad_request] (c = 400; this model never yields another code nor
    a panic), [Ok (BQuery ..)] iff ServerTotal consults QueryCalendarObjects
    (with a filter structure whose decoding is the query's filter),
    [Ok (BMultiget ..)] iff ServerTotal runs the GetCalendarObject loop over the
    same hrefs.  [tr] translates ServerTotal's trees into CalWire's;
    [r_url_ok] and [href_parse] are the two models' views of url.Parse. *)
Theorem C08_agrees_with_server_total_model :
  forall (href_parse : string -> option string) env r t path,
    ServerTotal.is_content_xml r = true -> ServerTotal.r_xml r = ServerTotal.XTree t ->
    (forall s, ServerTotal.r_url_ok r s = some_b (href_parse s)) ->
    match handle_report href_parse path (tr t) with
    | Err c =>
      c = 400%N /\ ServerTotal.cal_handle_report env r = ServerTotal.bad_request
    | Ok (BQuery p q) =>
      p = path /\ exists qw,
        ServerTotal.cal_handle_report env r =
        match ServerTotal.ce_query env with
        | ServerTotal.BErr e => ServerTotal.HErr e []
        | ServerTotal.BOk objs =>
          ServerTotal.hmap (fun _ => 207%N) (ServerTotal.each_response (ServerTotal.cq_sel qw) objs)
        end
        /\ exists w, R_cf (ServerTotal.cq_filter qw) w /\ decode_comp_filter w = Ok (q_cf q)
    | Ok (BMultiget ps cr) =>
      exists mw,
        ServerTotal.cal_handle_report env r =
        ServerTotal.multiget_loop (ServerTotal.ce_get_obj env) (ServerTotal.mg_sel mw) (ServerTotal.mg_hrefs mw)
        /\ Forall2 (R_href href_parse) (ServerTotal.mg_hrefs mw) ps
    | Panic => False
    end.
Proof. exact agrees_with_cal_handle_report. Qed.
Print Assumptions C08_agrees_with_server_total_model.
