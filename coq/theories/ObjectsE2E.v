(** ObjectsE2E.v — end-to-end theorems of property C10: what the clients return when
    they read what the servers wrote (model of Objects.v), under the round-trip laws of
    the external codecs as visible premises ([obj_codec_ok] etc. of ObjCheck.v). *)
From GW Require Import Base ObjXml Objects ObjRfc ObjCheck ObjectsProofs.
From Coq Require Import Permutation.

Local Open Scope Z_scope.
Local Open Scope list_scope.

(* ------------------------------------------------------------------ *)
(** * Generic *)

Lemma mapC_map {A B C} (f : B -> cres C) (g : A -> B) l : mapC f (map g l) = mapC (fun x => f (g x)) l.
Proof. induction l; cbn; [reflexivity | rewrite IHl; reflexivity]. Qed.
Lemma mapC_all_ok {A B} (f : A -> cres B) (g : A -> B) l :
  (forall x, In x l -> f x = COk (g x)) -> mapC f l = COk (map g l).
Proof.
  induction l; cbn; intros H; [reflexivity|].
  rewrite (H a) by auto. cbn. rewrite IHl by auto. reflexivity.
Qed.
Lemma mapC_ext {A B} (f g : A -> cres B) l : (forall x, In x l -> f x = g x) -> mapC f l = mapC g l.
Proof.
  induction l; cbn; intros H; [reflexivity|]. rewrite (H a) by auto. rewrite IHl by auto. reflexivity.
Qed.

Lemma opt_str_is_true o s : opt_str_is o s = true -> o = Some s.
Proof. destruct o; cbn; [|discriminate]. intros H. apply String.eqb_eq in H. congruence. Qed.

Section E2E.
Variable cd hd : codecs.

Lemma path_ok_true p : path_ok cd p = true -> href_dec cd (href_enc cd p) = Some p.
Proof. apply opt_str_is_true. Qed.

Lemma ms_of_dec rs :
  (forall r, In r rs -> resp_wf cd r) ->
  dec_multistatus cd (ms_of cd rs) = Some {| ms_responses := map (norm_resp cd) rs; ms_sync_token := "" |}.
Proof. intros W. unfold ms_of. rewrite dec_multistatus_enc by exact W. reflexivity. Qed.

Lemma decode_object_norm fl r : decode_object cd fl (norm_resp cd r) = decode_object cd fl r.
Proof. unfold decode_object. rewrite response_path_norm, !decode_prop_raw_norm. reflexivity. Qed.
Lemma find_one_norm fl r : find_one fl (norm_resp cd r) = find_one fl r.
Proof. unfold find_one. rewrite response_path_norm, !decode_prop_raw_norm. reflexivity. Qed.

(** the clients' list decoders on a body the server built from well-formed responses *)
Lemma client_object_list_ms_of fl rs :
  (forall r, In r rs -> resp_wf cd r) ->
  client_object_list cd fl (ms_of cd rs) = mapC (decode_object cd fl) rs.
Proof.
  intros W. unfold client_object_list, decode_object_list. rewrite ms_of_dec by exact W. cbn [ms_responses].
  rewrite mapC_map. apply mapC_ext. intros r _. apply decode_object_norm.
Qed.
Lemma find_collections_ms_of fl rs :
  (forall r, In r rs -> resp_wf cd r) ->
  find_collections cd fl (ms_of cd rs) = bindc (mapC (find_one fl) rs) (fun l => COk (somes l)).
Proof.
  intros W. unfold find_collections. rewrite ms_of_dec by exact W. cbn [ms_responses].
  rewrite mapC_map. f_equal. apply mapC_ext. intros r _. apply find_one_norm.
Qed.

(* ------------------------------------------------------------------ *)
(** * Objects *)

Lemma soa_data fl p o :
  spec_object_answer cd fl p o (data_name fl)
  = match pay_enc cd fl (o_data o) with
    | Some b => present (simple (data_name fl) b)
    | None => (Elem (data_name fl) [] [], 500)
    end.
Proof. destruct fl; reflexivity. Qed.
Lemma soa_lastmod fl p o :
  spec_object_answer cd fl p o n_getlastmodified
  = if is_zero_time o then absent n_getlastmodified else present (simple n_getlastmodified (time_enc cd (o_sec o))).
Proof. reflexivity. Qed.
Lemma soa_etag fl p o :
  spec_object_answer cd fl p o n_getetag
  = if str_empty (o_etag o) then absent n_getetag else present (simple n_getetag (etag_enc cd (o_etag o))).
Proof. reflexivity. Qed.
Lemma soa_len fl p o :
  spec_object_answer cd fl p o n_getcontentlength
  = if 0 <? o_len o then present (simple n_getcontentlength (dec_of_Z (o_len o))) else absent n_getcontentlength.
Proof. reflexivity. Qed.

Lemma simple_chardata n s : chardata (root_kids (simple n s)) = s.
Proof. unfold simple. cbn [root_kids]. apply chardata_text_nodes. Qed.

Lemma obj_wf fl principal req o :
  path_ok cd (o_path o) = true -> resp_wf cd (prop_find_object cd fl principal req o).
Proof.
  intros H. apply new_prop_find_response_wf;
    [apply object_answers_named | apply object_answers_coded | apply path_ok_true, H].
Qed.

Lemma is_zero_time_sec o : is_zero_time o = true -> o_sec o = zero_sec.
Proof. unfold is_zero_time. intros H. apply andb_true_iff in H. destruct H as [H _]. apply Z.eqb_eq in H. exact H. Qed.

Definition read_answer (a : xtree * Z) : cres xtree :=
  if Z.quot (snd a) 100 =? 2 then COk (fst a) else CHttp (snd a).
Lemma read_present v : read_answer (present v) = COk v.
Proof. reflexivity. Qed.
Lemma read_absent n : read_answer (absent n) = CHttp 404.
Proof. reflexivity. Qed.
Lemma read_if (b : bool) x y : read_answer (if b then x else y) = if b then read_answer x else read_answer y.
Proof. destruct b; reflexivity. Qed.
Lemma decode_prop_raw_read path req props n :
  answers_named (with_resourcetype props) ->
  decode_prop_raw (new_prop_find_response path req props) n
  = if existsb (xname_eqb n) req then read_answer (answer (with_resourcetype props) n) else CHttp 404.
Proof. intros H. rewrite decode_prop_raw_npfr by exact H. reflexivity. Qed.

(** One object as the REPORT clients read it back. *)
Lemma decode_object_prop_find fl principal o :
  obj_codec_ok cd fl o = true ->
  decode_object cd fl (prop_find_object cd fl principal (report_req fl) o) = COk (report_view o).
Proof.
  intros H. unfold obj_codec_ok in H. rewrite !andb_true_iff in H.
  destruct H as [[[[HP HE] HT] HD] HL].
  unfold decode_object, prop_find_object.
  replace (response_path (new_prop_find_response (o_path o) (report_req fl) (object_props cd fl principal o)))
    with (o_path o, @COk unit tt) by reflexivity.
  rewrite !decode_prop_raw_read by apply object_answers_named.
  rewrite !answer_object_spec, soa_data, soa_lastmod, soa_etag, soa_len.
  replace (existsb (xname_eqb (data_name fl)) (report_req fl)) with true by (destruct fl; reflexivity).
  replace (existsb (xname_eqb n_getlastmodified) (report_req fl)) with true by (destruct fl; reflexivity).
  replace (existsb (xname_eqb n_getetag) (report_req fl)) with true by (destruct fl; reflexivity).
  replace (existsb (xname_eqb n_getcontentlength) (report_req fl)) with false by (destruct fl; reflexivity).
  destruct (pay_enc cd fl (o_data o)) as [b|] eqn:EB; [|discriminate].
  apply opt_str_is_true in HD.
  rewrite !read_if, !read_present, !read_absent.
  unfold required at 1. unfold dec_string at 1. rewrite simple_chardata. cbn [bindc].
  assert (ET : optional (if is_zero_time o
                         then CHttp 404
                         else COk (simple n_getlastmodified (time_enc cd (o_sec o)))) (dec_time cd) zero_sec
               = COk (o_sec o)).
  { destruct (is_zero_time o) eqn:EZ.
    - cbn. symmetry. f_equal. apply is_zero_time_sec, EZ.
    - cbn [orb] in HT. unfold optional, dec_time. rewrite simple_chardata.
      destruct (time_dec cd (time_enc cd (o_sec o))); [|discriminate]. apply Z.eqb_eq in HT. subst. reflexivity. }
  assert (EE : optional (if str_empty (o_etag o)
                         then CHttp 404
                         else COk (simple n_getetag (etag_enc cd (o_etag o)))) (dec_etag cd) ""%string
               = COk (o_etag o)).
  { destruct (str_empty (o_etag o)) eqn:EZ.
    - cbn. apply str_empty_spec in EZ. rewrite EZ. reflexivity.
    - cbn [orb] in HE. apply opt_str_is_true in HE. unfold optional, dec_etag. rewrite simple_chardata, HE. reflexivity. }
  rewrite ET. cbn [bindc]. rewrite EE. cbn [bindc optional]. change (404 =? 404) with true. cbv iota.
  rewrite HD. reflexivity.
Qed.

(** QueryCalendar / QueryAddressBook: the objects of the backend come back, in order. *)
Theorem query_roundtrip fl principal os :
  forallb (obj_codec_ok cd fl) os = true ->
  e2e_query cd fl principal os = COk (map report_view os).
Proof.
  intros H. rewrite forallb_forall in H. unfold e2e_query, server_query.
  rewrite client_object_list_ms_of.
  - rewrite mapC_map. apply mapC_all_ok. intros o Ho. apply decode_object_prop_find, H, Ho.
  - intros r Hr. apply in_map_iff in Hr. destruct Hr as (o & <- & Ho). apply obj_wf.
    specialize (H o Ho). unfold obj_codec_ok in H. rewrite !andb_true_iff in H. tauto.
Qed.

(* ------------------------------------------------------------------ *)
(** * Multiget *)

Lemma error_resp_wf h c d p :
  path_ok cd h = true -> code_ok (fail_code c) -> resp_wf cd (new_error_response h c d p).
Proof.
  intros HP HC. unfold resp_wf, new_error_response. cbn [r_hrefs r_propstats r_status r_error].
  split; [| split; [| split]].
  - intros q [<- | []]. apply path_ok_true, HP.
  - intros ps [].
  - intros st E. inversion E; subst. exact HC.
  - intros raw E. destruct p; inversion E; subst. intros t [<- | []]. reflexivity.
Qed.

Lemma decode_object_error fl h c d p :
  (Z.quot (fail_code c) 100 =? 2) = false ->
  decode_object cd fl (new_error_response h c d p) = CHttp (fail_code c).
Proof.
  intros H. unfold decode_object, response_path, response_err, new_error_response.
  cbn [r_hrefs r_status st_code]. rewrite H. reflexivity.
Qed.

Lemma outcome_ok_path fl h out : outcome_ok cd fl h out = true -> path_ok cd h = true.
Proof.
  destruct out as [o | c d p]; cbn [outcome_ok]; intros H.
  - apply andb_true_iff in H. destruct H as [H E]. apply String.eqb_eq in E. subst h.
    unfold obj_codec_ok in H. rewrite !andb_true_iff in H. tauto.
  - rewrite !andb_true_iff in H. tauto.
Qed.

(** MultiGetCalendar / MultiGetAddressBook: the objects in request order, or the status
    the backend gave for the first href it failed on. *)
Theorem multiget_roundtrip fl principal backend hrefs :
  forallb (fun h => outcome_ok cd fl h (backend h)) hrefs = true ->
  e2e_multiget cd fl principal backend hrefs = spec_multiget_client backend hrefs.
Proof.
  intros H. rewrite forallb_forall in H. unfold e2e_multiget, request_hrefs.
  rewrite (mapM_all_some _ (fun h => h)) by (intros h Hh; apply path_ok_true; eapply outcome_ok_path, H, Hh).
  rewrite map_id. unfold server_multiget, multiget_loop.
  rewrite client_object_list_ms_of.
  - rewrite mapC_map. induction hrefs as [|h r IH]; [reflexivity|].
    cbn [mapC spec_multiget_client]. pose proof (H h (or_introl eq_refl)) as Hh.
    destruct (backend h) as [o | c d p]; cbn [outcome_ok] in Hh.
    + apply andb_true_iff in Hh. destruct Hh as [Hh _]. rewrite decode_object_prop_find by exact Hh.
      cbn [bindc]. rewrite IH by (intros x Hx; apply H; right; exact Hx). reflexivity.
    + rewrite !andb_true_iff in Hh. destruct Hh as [[[[_ _] H2] _] _].
      rewrite decode_object_error by (apply negb_true_iff, H2). reflexivity.
  - intros x Hx. apply in_map_iff in Hx. destruct Hx as (h & <- & Hh). specialize (H h Hh).
    destruct (backend h) as [o | c d p]; cbn [outcome_ok] in H.
    + apply obj_wf. apply andb_true_iff in H. destruct H as [H _].
      unfold obj_codec_ok in H. rewrite !andb_true_iff in H. tauto.
    + rewrite !andb_true_iff in H. destruct H as [[[[HP _] _] L] U].
      apply error_resp_wf; [exact HP|]. apply Z.leb_le in L. apply Z.leb_le in U. split; assumption.
Qed.

(** The multi-status the server builds: one response per requested href, in request
    order, carrying that href; the object's properties if the backend found it, and
    otherwise no properties and exactly the backend's status for that resource. *)
Definition answers_href (fl : flavor) (principal : string) (req : list xname) (backend : string -> outcome)
           (h : string) (r : response) : Prop :=
  match backend h with
  | Found o => r = prop_find_object cd fl principal req o /\ r_hrefs r = [o_path o]
  | Failed c d p => r_hrefs r = [h] /\ r_propstats r = []
                    /\ r_status r = Some {| st_code := fail_code c; st_text := "" |}
  end.
Theorem multiget_order fl principal req backend hrefs :
  Forall2 (answers_href fl principal req backend) hrefs (multiget_loop cd fl principal req backend hrefs).
Proof.
  unfold multiget_loop. induction hrefs as [|h r IH]; cbn [map]; constructor; [|exact IH].
  unfold answers_href. destruct (backend h); [split; reflexivity | repeat split].
Qed.
Corollary multiget_length fl principal req backend hrefs :
  List.length (multiget_loop cd fl principal req backend hrefs) = List.length hrefs.
Proof. unfold multiget_loop. apply map_length. Qed.
Corollary multiget_hrefs fl principal req backend hrefs :
  (forall h o, In h hrefs -> backend h = Found o -> o_path o = h) ->
  map r_hrefs (multiget_loop cd fl principal req backend hrefs) = map (fun h => [h]) hrefs.
Proof.
  intros H. unfold multiget_loop. rewrite map_map. apply map_ext_in. intros h Hh.
  destruct (backend h) eqn:E; [|reflexivity]. cbn. f_equal. apply (H h o Hh E).
Qed.

(* ------------------------------------------------------------------ *)
(** * Discovery *)

Lemma sca_rt fl p c :
  spec_collection_answer cd fl p c n_resourcetype
  = present (Elem n_resourcetype [] [Elem n_collection [] []; Elem (coll_type_name fl) [] []]).
Proof. destruct fl; reflexivity. Qed.
Lemma sca_name fl p c :
  spec_collection_answer cd fl p c n_displayname
  = if str_empty (c_name c) then absent n_displayname else present (simple n_displayname (c_name c)).
Proof. destruct fl; reflexivity. Qed.
Lemma sca_desc fl p c :
  spec_collection_answer cd fl p c (desc_name fl)
  = match fl with
    | Cal => present (simple (desc_name fl) (c_desc c))
    | Card => if str_empty (c_desc c) then absent (desc_name fl) else present (simple (desc_name fl) (c_desc c))
    end.
Proof. destruct fl; reflexivity. Qed.
Lemma sca_max fl p c :
  spec_collection_answer cd fl p c (maxsize_name fl)
  = if 0 <? c_max c then present (simple (maxsize_name fl) (dec_of_Z (c_max c))) else absent (maxsize_name fl).
Proof. destruct fl; reflexivity. Qed.
Lemma sca_compset p c :
  spec_collection_answer cd Cal p c n_compset
  = present (Elem n_compset [] (map (fun name => Elem n_comp [(noattr "name", name)] []) (advertised_comps c))).
Proof. reflexivity. Qed.
Lemma sca_adata p c :
  spec_collection_answer cd Card p c n_adata_types
  = present (Elem n_adata_types [] [Elem (ns_of Card, "address-data-type"%string)
                                      [(noattr "content-type", "text/vcard"%string); (noattr "version", "3.0"%string)] [];
                                 Elem (ns_of Card, "address-data-type"%string)
                                      [(noattr "content-type", "text/vcard"%string); (noattr "version", "4.0"%string)] []]).
Proof. reflexivity. Qed.

Lemma coll_wf fl principal req c :
  path_ok cd (c_path c) = true -> resp_wf cd (prop_find_collection cd fl principal req c).
Proof.
  intros H. apply new_prop_find_response_wf;
    [apply collection_answers_named | apply collection_answers_coded | apply path_ok_true, H].
Qed.

Definition home_props (principal : string) : list (xname * pres) :=
  [ (n_cup, POk (cup_value cd principal)); (n_resourcetype, POk (resourcetype_value [n_collection])) ].
Lemma home_answer principal n :
  answer (with_resourcetype (home_props principal)) n
  = if xname_eqb n_cup n then (cup_value cd principal, 200)
    else if xname_eqb n_resourcetype n then (resourcetype_value [n_collection], 200)
    else (empty_elem n, 404).
Proof.
  unfold with_resourcetype, home_props, answer. cbn [assoc_name].
  replace (xname_eqb n_cup n_resourcetype) with false by reflexivity.
  replace (xname_eqb n_resourcetype n_resourcetype) with true by reflexivity.
  cbn [assoc_name]. destruct (xname_eqb n_cup n); [reflexivity|]. destruct (xname_eqb n_resourcetype n); reflexivity.
Qed.
Lemma home_answers_named principal : answers_named (with_resourcetype (home_props principal)).
Proof.
  intros m. rewrite home_answer. destruct (xname_eqb n_cup m) eqn:E1.
  - apply xname_eqb_eq in E1. subst. reflexivity.
  - destruct (xname_eqb n_resourcetype m) eqn:E2; [apply xname_eqb_eq in E2; subst|]; reflexivity.
Qed.
Lemma home_answers_coded principal : answers_coded (with_resourcetype (home_props principal)).
Proof.
  intros m. rewrite home_answer. unfold code_ok.
  destruct (xname_eqb n_cup m); [cbn; lia|]. destruct (xname_eqb n_resourcetype m); cbn; lia.
Qed.
Lemma home_wf principal home req :
  path_ok cd home = true -> resp_wf cd (prop_find_home_set cd principal home req).
Proof.
  intros H. apply (new_prop_find_response_wf cd home req (home_props principal));
    [apply home_answers_named | apply home_answers_coded | apply path_ok_true, H].
Qed.

(** the home set itself is not a calendar / address book: FindCalendars skips it *)
Lemma find_one_home fl principal home :
  find_one fl (prop_find_home_set cd principal home (find_req fl)) = COk None.
Proof.
  unfold find_one, prop_find_home_set.
  replace (response_path (new_prop_find_response home (find_req fl)
             [(n_cup, POk (cup_value cd principal)); (n_resourcetype, POk (resourcetype_value [n_collection]))]))
    with (home, @COk unit tt) by reflexivity.
  rewrite (decode_prop_raw_read home (find_req fl) (home_props principal)) by apply home_answers_named.
  rewrite home_answer.
  replace (existsb (xname_eqb n_resourcetype) (find_req fl)) with true by (destruct fl; reflexivity).
  replace (xname_eqb n_cup n_resourcetype) with false by reflexivity.
  replace (xname_eqb n_resourcetype n_resourcetype) with true by reflexivity.
  destruct fl; reflexivity.
Qed.

Lemma attr_local_name name : attr_local "name" [(noattr "name", name)] = name.
Proof. reflexivity. Qed.

Lemma dec_compset_comps l :
  dec_compset (Elem n_compset [] (map (fun name => Elem n_comp [(noattr "name", name)] []) l)) = Some l.
Proof.
  unfold dec_compset. cbn [root_kids].
  assert (K : kids_local "comp" (map (fun name => Elem n_comp [(noattr "name", name)] []) l)
              = map (fun name => (ns_of Cal, ([(noattr "name", name)], @nil xtree))) l).
  { induction l; cbn; [reflexivity | rewrite IHl; reflexivity]. }
  rewrite K.
  assert (A : all_in_ns (ns_of Cal) (map (fun name => (ns_of Cal, ([(noattr "name", name)], @nil xtree))) l) = true).
  { unfold all_in_ns. apply forallb_forall. intros x Hx. apply in_map_iff in Hx. destruct Hx as (n & <- & _). reflexivity. }
  rewrite A.
  assert (B : forallb (fun k : string * (list (xname * string) * list xtree) =>
                         comp_ok (Elem (fst k, "comp"%string) (fst (snd k)) (snd (snd k))))
                      (map (fun name => (ns_of Cal, ([(noattr "name", name)], @nil xtree))) l) = true).
  { apply forallb_forall. intros x Hx. apply in_map_iff in Hx. destruct Hx as (n & <- & _). reflexivity. }
  rewrite B. cbn [andb]. rewrite map_map. cbn [snd fst]. f_equal. clear K A B.
  induction l; cbn [map]; [reflexivity | rewrite IHl; reflexivity].
Qed.

Lemma pos_or_zero_max n c :
  int64_ok (c_max c) = true ->
  optional (read_answer (if 0 <? c_max c then present (simple n (dec_of_Z (c_max c)))
                         else absent n)) dec_int 0 = COk (pos_or_zero (c_max c)).
Proof.
  intros R. unfold pos_or_zero. destruct (0 <? c_max c).
  - rewrite read_present. unfold optional, dec_int. rewrite simple_chardata, chardata_int_dec by exact R. reflexivity.
  - reflexivity.
Qed.
Lemma pos_or_zero_nonneg z : (pos_or_zero z <? 0) = false.
Proof. unfold pos_or_zero. destruct (0 <? z) eqn:E; [apply Z.ltb_lt in E; apply Z.ltb_ge; lia | reflexivity]. Qed.

Lemma opt_string_read n s :
  optional (read_answer (if str_empty s then absent n else present (simple n s))) dec_string ""%string = COk s.
Proof.
  destruct (str_empty s) eqn:E.
  - apply str_empty_spec in E. subst. reflexivity.
  - rewrite read_present. unfold optional, dec_string. rewrite simple_chardata. reflexivity.
Qed.

(** One calendar / address book as FindCalendars / FindAddressBooks read it back. *)
Lemma find_one_collection fl principal c :
  coll_codec_ok cd c = true ->
  find_one fl (prop_find_collection cd fl principal (find_req fl) c) = COk (Some (coll_spec_view fl c)).
Proof.
  intros H. unfold coll_codec_ok in H. apply andb_true_iff in H. destruct H as [HP HM].
  unfold find_one, prop_find_collection.
  replace (response_path (new_prop_find_response (c_path c) (find_req fl) (collection_props cd fl principal c)))
    with (c_path c, @COk unit tt) by reflexivity.
  rewrite !decode_prop_raw_read by apply collection_answers_named.
  rewrite !answer_collection_spec, sca_rt, sca_name, sca_desc, sca_max.
  replace (existsb (xname_eqb n_resourcetype) (find_req fl)) with true by (destruct fl; reflexivity).
  replace (existsb (xname_eqb n_displayname) (find_req fl)) with true by (destruct fl; reflexivity).
  replace (existsb (xname_eqb (desc_name fl)) (find_req fl)) with true by (destruct fl; reflexivity).
  replace (existsb (xname_eqb (maxsize_name fl)) (find_req fl)) with true by (destruct fl; reflexivity).
  rewrite read_present. unfold required at 1. unfold dec_raws at 1. cbn [root_kids elem_kids bindc].
  replace (existsb (has_name (coll_type_name fl)) [Elem n_collection [] []; Elem (coll_type_name fl) [] []])
    with true by (destruct fl; reflexivity).
  cbn [negb]. cbv iota.
  rewrite opt_string_read.
  destruct fl.
  - rewrite read_present. unfold optional at 1. unfold dec_string at 1. rewrite simple_chardata. cbn [bindc].
    rewrite pos_or_zero_max by exact HM. cbn [bindc]. rewrite pos_or_zero_nonneg.
    rewrite sca_compset.
    replace (existsb (xname_eqb n_compset) (find_req Cal)) with true by reflexivity.
    rewrite read_present. unfold optional. rewrite dec_compset_comps. reflexivity.
  - rewrite opt_string_read. cbn [bindc].
    rewrite pos_or_zero_max by exact HM. cbn [bindc]. rewrite pos_or_zero_nonneg.
    rewrite sca_adata.
    replace (existsb (xname_eqb n_adata_types) (find_req Card)) with true by reflexivity.
    rewrite read_present. reflexivity.
Qed.

(** FindCalendars / FindAddressBooks: the collections of the backend, in order, with
    path, display name, description, size limit and supported component set. *)
Theorem find_roundtrip fl principal home cs :
  forallb (coll_codec_ok cd) cs = true -> path_ok cd home = true ->
  e2e_find cd fl principal home cs = COk (map (coll_spec_view fl) cs).
Proof.
  intros H HH. rewrite forallb_forall in H. unfold e2e_find, server_propfind_homeset.
  rewrite find_collections_ms_of.
  - cbn [mapC]. rewrite find_one_home. cbn [bindc]. rewrite mapC_map.
    rewrite (mapC_all_ok _ (fun c => Some (coll_spec_view fl c)))
      by (intros c Hc; apply find_one_collection, H, Hc).
    cbn [bindc somes]. f_equal. induction cs; cbn; [reflexivity|]. f_equal. apply IHcs. intros x Hx. apply H. right. exact Hx.
  - intros r [<- | Hr]; [apply home_wf, HH|].
    apply in_map_iff in Hr. destruct Hr as (c & <- & Hc). apply coll_wf.
    specialize (H c Hc). unfold coll_codec_ok in H. apply andb_true_iff in H. tauto.
Qed.

(* ------------------------------------------------------------------ *)
(** * GET and PUT *)

Lemma meta_headers_get o :
  let h := meta_headers cd hd o in
  hget h "ETag" = (if str_empty (o_etag o) then "" else etag_enc cd (o_etag o))%string
  /\ hget h "Last-Modified" = (if is_zero_time o then "" else time_enc hd (o_sec o))%string
  /\ hget h "Location" = ""%string /\ hget h "Content-Length" = ""%string.
Proof. unfold meta_headers. destruct (str_empty (o_etag o)), (is_zero_time o); repeat split; reflexivity. Qed.

(** populate on the metadata headers the servers set *)
Lemma populate_meta (v : obj_view) o (loc : option string) (len : option Z) h :
  hdr_meta_ok cd hd o = true ->
  hget h "ETag" = (if str_empty (o_etag o) then "" else etag_enc cd (o_etag o))%string ->
  hget h "Last-Modified" = (if is_zero_time o then "" else time_enc hd (o_sec o))%string ->
  (if str_empty (hget h "Location") then Some (v_path v) else href_dec hd (hget h "Location")) = loc ->
  (if str_empty (hget h "Content-Length") then Some (v_len v) else parse_int (hget h "Content-Length")) = len ->
  v_etag v = ""%string -> v_sec v = zero_sec ->
  populate hd v h
  = match loc, len with
    | Some p, Some n => Some {| v_path := p; v_etag := o_etag o; v_sec := o_sec o; v_len := n; v_data := v_data v |}
    | _, _ => None
    end.
Proof.
  intros HM HE HT HL HN VE VS. unfold populate. rewrite HL, HN, HE, HT.
  destruct loc as [p|]; [|reflexivity].
  unfold hdr_meta_ok in HM. apply andb_true_iff in HM. destruct HM as [ME MT].
  assert (E1 : (if str_empty (if str_empty (o_etag o) then "" else etag_enc cd (o_etag o))%string
                then Some (v_etag v) else etag_dec hd (if str_empty (o_etag o) then "" else etag_enc cd (o_etag o))%string)
               = Some (o_etag o)).
  { destruct (str_empty (o_etag o)) eqn:EZ.
    - cbn. apply str_empty_spec in EZ. congruence.
    - cbn [orb] in ME. apply andb_true_iff in ME. destruct ME as [NE RT]. apply negb_true_iff in NE. rewrite NE.
      apply opt_str_is_true, RT. }
  rewrite E1.
  assert (E2 : (if str_empty (if is_zero_time o then "" else time_enc hd (o_sec o))%string
                then Some (v_sec v) else time_dec hd (if is_zero_time o then "" else time_enc hd (o_sec o))%string)
               = Some (o_sec o)).
  { destruct (is_zero_time o) eqn:EZ.
    - cbn. rewrite VS. f_equal. symmetry. apply is_zero_time_sec, EZ.
    - cbn [orb] in MT. apply andb_true_iff in MT. destruct MT as [NE RT]. apply negb_true_iff in NE. rewrite NE.
      destruct (time_dec hd (time_enc hd (o_sec o))); [|discriminate]. apply Z.eqb_eq in RT. congruence. }
  destruct len as [n|]; [|reflexivity]. rewrite E2. reflexivity.
Qed.

Definition get_view (reqpath : string) (o : obj) : obj_view :=
  {| v_path := reqpath; v_etag := o_etag o; v_sec := o_sec o; v_len := pos_or_zero (o_len o); v_data := o_data o |}.

(** GetCalendarObject / GetAddressObject *)
Theorem get_roundtrip fl reqpath o :
  obj_codec_ok cd fl o = true -> hdr_meta_ok cd hd o = true ->
  e2e_get cd hd fl reqpath (Found o) = COk (get_view reqpath o).
Proof.
  intros H HM. pose proof H as H'. unfold obj_codec_ok in H'. rewrite !andb_true_iff in H'.
  destruct H' as [[[[HP HE] HT] HD] HL].
  unfold e2e_get, head_get. destruct (pay_enc cd fl (o_data o)) as [b|] eqn:EB; [|discriminate].
  apply opt_str_is_true in HD.
  unfold client_get. cbn [h_code h_headers h_body]. change (Z.quot 200 100 =? 2) with true. cbn [negb]. cbv iota.
  replace (hget ([("Content-Type"%string, mime_of fl)]
                 ++ (if 0 <? o_len o then [("Content-Length"%string, dec_of_Z (o_len o))] else [])
                 ++ meta_headers cd hd o) "Content-Type") with (mime_of fl) by reflexivity.
  rewrite String.eqb_refl. cbn [negb]. cbv iota. rewrite HD.
  destruct (meta_headers_get o) as (GE & GT & GL & GC).
  erewrite populate_meta with (o := o) (loc := Some reqpath)
                              (len := Some (pos_or_zero (o_len o))); try exact HM; try reflexivity.
  - unfold meta_headers in *. destruct (0 <? o_len o), (str_empty (o_etag o)), (is_zero_time o); reflexivity.
  - unfold meta_headers in *. destruct (0 <? o_len o), (str_empty (o_etag o)), (is_zero_time o); reflexivity.
  - unfold meta_headers in *. destruct (0 <? o_len o), (str_empty (o_etag o)), (is_zero_time o); reflexivity.
  - unfold pos_or_zero, meta_headers.
    destruct (0 <? o_len o) eqn:EL.
    + replace (hget _ "Content-Length") with (dec_of_Z (o_len o))
        by (destruct (str_empty (o_etag o)), (is_zero_time o); reflexivity).
      rewrite dec_of_Z_nonempty. rewrite parse_int_dec by exact HL. reflexivity.
    + replace (hget _ "Content-Length") with ""%string
        by (destruct (str_empty (o_etag o)), (is_zero_time o); reflexivity).
      reflexivity.
Qed.

Theorem get_failure fl reqpath c d p :
  (Z.quot (fail_code c) 100 =? 2) = false ->
  e2e_get cd hd fl reqpath (Failed c d p) = CHttp (fail_code c).
Proof. intros H. unfold e2e_get, head_get, client_get. cbn [h_code]. rewrite H. reflexivity. Qed.

Definition put_view (reqpath : string) (o : obj) : obj_view :=
  {| v_path := if str_empty (o_path o) then reqpath else o_path o;
     v_etag := o_etag o; v_sec := o_sec o; v_len := 0; v_data := "" |}.

(** PutCalendarObject / PutAddressObject: the backend receives the caller's value at the
    caller's path; the client hands back the backend's path, entity tag and instant. *)
Theorem put_roundtrip fl reqpath data o b :
  pay_enc cd fl data = Some b -> pay_dec cd fl b = Some data ->
  hdr_loc_ok hd o = true -> hdr_meta_ok cd hd o = true ->
  e2e_put cd hd fl reqpath data (Found o) = (COk (put_view reqpath o), Some data).
Proof.
  intros EB ED HL HM. unfold e2e_put. rewrite EB. unfold server_put. rewrite String.eqb_refl. cbn [negb]. cbv iota.
  rewrite ED. cbn [fst snd]. f_equal.
  unfold client_put_result. cbn [h_code h_headers]. change (Z.quot 201 100 =? 2) with true. cbn [negb]. cbv iota.
  destruct (meta_headers_get o) as (GE & GT & GL & GC).
  erewrite populate_meta with (o := o) (loc := Some (if str_empty (o_path o) then reqpath else o_path o))
                              (len := Some 0); try exact HM; try reflexivity.
  - unfold meta_headers in *. destruct (str_empty (o_path o)), (str_empty (o_etag o)), (is_zero_time o); reflexivity.
  - unfold meta_headers in *. destruct (str_empty (o_path o)), (str_empty (o_etag o)), (is_zero_time o); reflexivity.
  - unfold hdr_loc_ok in HL. unfold meta_headers. destruct (str_empty (o_path o)) eqn:EP.
    + replace (hget _ "Location") with ""%string by (destruct (str_empty (o_etag o)), (is_zero_time o); reflexivity).
      reflexivity.
    + replace (hget _ "Location") with (href_enc hd (o_path o))
        by (destruct (str_empty (o_etag o)), (is_zero_time o); reflexivity).
      cbn [orb] in HL. apply andb_true_iff in HL. destruct HL as [NE RT]. apply negb_true_iff in NE. rewrite NE.
      apply opt_str_is_true, RT.
  - unfold meta_headers. replace (hget _ "Content-Length") with ""%string
      by (destruct (str_empty (o_path o)), (str_empty (o_etag o)), (is_zero_time o); reflexivity).
    reflexivity.
Qed.

Theorem put_failure fl reqpath data c d p b :
  pay_enc cd fl data = Some b -> pay_dec cd fl b = Some data ->
  (Z.quot (fail_code c) 100 =? 2) = false ->
  e2e_put cd hd fl reqpath data (Failed c d p) = (CHttp (fail_code c), Some data).
Proof.
  intros EB ED H. unfold e2e_put. rewrite EB. unfold server_put. rewrite String.eqb_refl. cbn [negb]. cbv iota.
  rewrite ED. cbn [fst snd]. unfold client_put_result. cbn [h_code]. rewrite H. reflexivity.
Qed.


(** A history of PUTs: nothing in the code path consults the backend before Put, so the
    answer to each PUT of a history is the answer to that PUT alone — whether the object
    was already retrievable at the request path (an earlier PUT of the history, or an object
    that was there) does not matter: every time the backend receives the caller's value and
    the client gets back the path, tag and instant the backend answered. *)
Theorem put_history fl reqpath (steps : list (string * obj)) :
  (forall data o, In (data, o) steps ->
     exists b, pay_enc cd fl data = Some b /\ pay_dec cd fl b = Some data
               /\ hdr_loc_ok hd o = true /\ hdr_meta_ok cd hd o = true) ->
  map (fun s => e2e_put cd hd fl reqpath (fst s) (Found (snd s))) steps
  = map (fun s => (COk (put_view reqpath (snd s)), Some (fst s))) steps.
Proof.
  intros H. apply map_ext_in. intros [data o] Hs. cbn [fst snd].
  destruct (H data o Hs) as (b & E1 & E2 & E3 & E4). apply (put_roundtrip fl reqpath data o b); assumption.
Qed.

End E2E.
