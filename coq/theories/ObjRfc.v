(** ObjRfc.v — the specification side of C10, written from RFC 4918 section 14 (and
    RFC 2616 section 6.1 for the status line), not from the Go code:
    - [rfc4918_read_multistatus]: an independent reader that reduces a multi-status
      tree to its (href, property, status) table;
    - [rfc_write]: an independent writer of conformant multi-status documents, with
      the layout freedoms the property quantifies over (a property set split over
      several propstat elements, in any order; unknown extra properties; white
      space, comments and foreign elements between the known ones; any reason
      phrase; any spelling of an href that denotes the same path);
    - the per-property answers the RFCs prescribe for an object or collection.
    No proofs here: this file is extracted. *)
From GW Require Import Base ObjXml Objects.

Local Open Scope Z_scope.

(** * Reader *)
Inductive row :=
| PropRow (href : string) (prop : xtree) (code : Z)   (* one property of one resource *)
| StatusRow (href : string) (code : Z).               (* a resource answered by a status alone *)

Definition row_eqb (a b : row) : bool :=
  match a, b with
  | PropRow h1 p1 c1, PropRow h2 p2 c2 => String.eqb h1 h2 && xtree_eqb p1 p2 && (c1 =? c2)
  | StatusRow h1 c1, StatusRow h2 c2 => String.eqb h1 h2 && (c1 =? c2)
  | _, _ => false
  end.

Fixpoint all_chars (p : ascii -> bool) (s : string) : bool :=
  match s with EmptyString => true | String c r => p c && all_chars p r end.

(** Element-only content: character data between the children is white space. *)
Definition ws_only (ks : list xtree) : bool :=
  forallb (fun t => match t with Text s => all_chars is_space s | _ => true end) ks.
(** #PCDATA content: no child elements. *)
Definition text_only (ks : list xtree) : bool :=
  forallb (fun t => match t with Elem _ _ _ => false | _ => true end) ks.

Fixpoint split_at (d : ascii) (s : string) : option (string * string) :=
  match s with
  | EmptyString => None
  | String c r => if Ascii.eqb c d then Some (EmptyString, r)
                  else match split_at d r with Some (a, b) => Some (String c a, b) | None => None end
  end.


(** Status-Line = "HTTP/" 1*DIGIT "." 1*DIGIT SP 3DIGIT SP Reason-Phrase *)
Definition rfc_status_code (s : string) : option Z :=
  match split_at " " s with
  | None => None
  | Some (ver, rest) =>
    let ver_ok :=
      match ver with
      | String "H" (String "T" (String "T" (String "P" (String "/" v)))) =>
        match split_at "." v with
        | Some (a, b) => negb (str_empty a) && negb (str_empty b) && all_chars is_digit a && all_chars is_digit b
        | None => false
        end
      | _ => false
      end in
    if ver_ok then
      match rest with
      | String a (String b (String c (String " " _))) =>
        if is_digit a && is_digit b && is_digit c
        then Some (digit_val a * 100 + digit_val b * 10 + digit_val c) else None
      | _ => None
      end
    else None
  end.

Definition rfc_read_propstat (href : string) (ks : list xtree) : option (list row) :=
  if ws_only ks then
    match kids_named (dav "prop") ks, kids_named (dav "status") ks with
    | [(_, pk)], [(_, sk)] =>
      if ws_only pk && text_only sk then
        match rfc_status_code (chardata sk) with
        | Some c => Some (map (fun p => PropRow href p c) (elem_kids pk))
        | None => None
        end
      else None
    | _, _ => None
    end
  else None.

Definition rfc_href_text (k : list (xname * string) * list xtree) : option string :=
  if text_only (snd k) && negb (str_empty (chardata (snd k))) then Some (chardata (snd k)) else None.

Definition rfc_read_response (ks : list xtree) : option (list row) :=
  if ws_only ks then
    match mapM rfc_href_text (kids_named (dav "href") ks) with
    | None | Some [] => None
    | Some (h :: more) =>
      match kids_named (dav "propstat") ks, kids_named (dav "status") ks with
      | [], [(_, sk)] =>
        if text_only sk then
          match rfc_status_code (chardata sk) with
          | Some c => Some (map (fun x => StatusRow x c) (h :: more))
          | None => None
          end
        else None
      | (p :: ps), [] =>
        match more with
        | [] => match mapM (fun k => rfc_read_propstat h (snd k)) (p :: ps) with
                | Some l => Some (List.concat l)
                | None => None
                end
        | _ => None
        end
      | _, _ => None
      end
    end
  else None.

Definition rfc4918_read_multistatus (t : xtree) : option (list row) :=
  match t with
  | Elem n _ ks =>
    if xname_eqb n (dav "multistatus") && ws_only ks then
      match mapM (fun k => rfc_read_response (snd k)) (kids_named (dav "response") ks) with
      | Some l => Some (List.concat l)
      | None => None
      end
    else None
  | _ => None
  end.

(** * Writer *)
Record wgroup := {
  wg_code : Z; wg_reason : string;
  wg_props : list xtree;               (* property elements *)
  wg_status_first : bool;              (* status before prop *)
  wg_junk : list (list xtree);         (* between the children of propstat *)
  wg_pjunk : list (list xtree);        (* between the properties *)
}.
Record wresp := {
  wr_hrefs : list string;              (* href texts as written *)
  wr_status : option (Z * string);
  wr_groups : list wgroup;
  wr_desc : string;
  wr_junk : list (list xtree);
}.
Record wdoc := { wd_resps : list wresp; wd_token : string; wd_junk : list (list xtree) }.

Fixpoint interleave (junk : list (list xtree)) (xs : list xtree) : list xtree :=
  match xs with
  | [] => match junk with j :: _ => j | [] => [] end
  | x :: r => match junk with
              | j :: jr => j ++ x :: interleave jr r
              | [] => x :: interleave [] r
              end
  end.

Definition w_status (code : Z) (reason : string) : xtree :=
  Elem (dav "status") [] [Text ("HTTP/1.1 " ++ dec_of_Z code ++ " " ++ reason)].
Definition w_group (g : wgroup) : xtree :=
  let p := Elem (dav "prop") [] (interleave (wg_pjunk g) (wg_props g)) in
  let s := w_status (wg_code g) (wg_reason g) in
  Elem (dav "propstat") [] (interleave (wg_junk g) (if wg_status_first g then [s; p] else [p; s])).
Definition w_resp (r : wresp) : xtree :=
  Elem (dav "response") []
    (interleave (wr_junk r)
       (map (fun h => Elem (dav "href") [] (text_nodes h)) (wr_hrefs r)
        ++ map w_group (wr_groups r)
        ++ match wr_status r with Some (c, t) => [w_status c t] | None => [] end
        ++ (if str_empty (wr_desc r) then [] else [Elem (dav "responsedescription") [] [Text (wr_desc r)]]))).
Definition rfc_write (d : wdoc) : xtree :=
  Elem (dav "multistatus") []
    (interleave (wd_junk d)
       (map w_resp (wd_resps d)
        ++ (if str_empty (wd_token d) then [] else [Elem (dav "sync-token") [] [Text (wd_token d)]]))).

(** Layout conditions: junk never looks like one of the elements of the schema,
    junk between properties is not an element, properties are elements. *)
Definition is_elem (t : xtree) : bool := match t with Elem _ _ _ => true | _ => false end.
Definition dav_schema : list xname :=
  [dav "response"; dav "href"; dav "propstat"; dav "prop"; dav "status"; dav "responsedescription";
   dav "error"; dav "location"; dav "sync-token"].
Definition junk_ok (junk : list (list xtree)) : bool :=
  forallb (forallb (fun t => negb (existsb (fun n => has_name n t) dav_schema))) junk.
(** The stricter condition the clients need (known finding C10-foreign-namesake): no
    junk element, in whatever namespace, has the LOCAL name of a schema element. *)
Definition has_local (l : string) (t : xtree) : bool :=
  match t with Elem (_, m) _ _ => String.eqb m l | _ => false end.
Definition junk_local_ok (junk : list (list xtree)) : bool :=
  forallb (forallb (fun t => negb (existsb (fun n => has_local (snd n) t) dav_schema))) junk.
Definition pjunk_ok (junk : list (list xtree)) : bool :=
  forallb (forallb (fun t => negb (is_elem t))) junk.
(** [wdoc_rfc_ok]: what RFC 4918 section 17 allows (unknown elements are those with another
    expanded name); [wdoc_ok]: what the clients tolerate (also no foreign namesake). *)
(** a status code is three digits (RFC 2616 section 6.1.1) *)
Definition code3_ok (c : Z) : bool := (100 <=? c) && (c <=? 999).
Definition wstatus_ok (s : option (Z * string)) : bool :=
  match s with Some (c, _) => code3_ok c | None => true end.
Definition wgroup_rfc_ok (g : wgroup) : bool :=
  junk_ok (wg_junk g) && pjunk_ok (wg_pjunk g) && forallb is_elem (wg_props g) && code3_ok (wg_code g).
Definition wresp_rfc_ok (r : wresp) : bool :=
  junk_ok (wr_junk r) && forallb wgroup_rfc_ok (wr_groups r) && wstatus_ok (wr_status r).
Definition wdoc_rfc_ok (d : wdoc) : bool := junk_ok (wd_junk d) && forallb wresp_rfc_ok (wd_resps d).
Definition wgroup_ok (g : wgroup) : bool :=
  junk_local_ok (wg_junk g) && pjunk_ok (wg_pjunk g) && forallb is_elem (wg_props g) && code3_ok (wg_code g).
Definition wresp_ok (r : wresp) : bool :=
  junk_local_ok (wr_junk r) && forallb wgroup_ok (wr_groups r) && wstatus_ok (wr_status r).
Definition wdoc_ok (d : wdoc) : bool := junk_local_ok (wd_junk d) && forallb wresp_ok (wd_resps d).
(** selector of the known finding: some layout is RFC-conformant but not [wdoc_ok] *)
Definition foreign_namesake (d1 d2 : wdoc) : bool := negb (wdoc_ok d1 && wdoc_ok d2).

(** Two documents have the same content for a reader interested in the properties
    [known]: same resources in the same order (hrefs denoting the same paths), the
    same response status codes, the same sync token, and for every known property
    name the same sequence of (value, status code) answers. *)
Definition flat_group (g : wgroup) : list (xtree * Z) := map (fun p => (p, wg_code g)) (wg_props g).
Definition flat_resp (r : wresp) : list (xtree * Z) := flat_map flat_group (wr_groups r).
Definition answers_for (n : xname) (r : wresp) : list (xtree * Z) :=
  filter (fun e => has_name n (fst e)) (flat_resp r).

Definition pair_eqb (a b : xtree * Z) : bool := xtree_eqb (fst a) (fst b) && (snd a =? snd b).
Definition opt_eqb {A} (eqb : A -> A -> bool) (a b : option A) : bool :=
  match a, b with Some x, Some y => eqb x y | None, None => true | _, _ => false end.

Section WithCodecs.
Variable cd : codecs.

Definition same_resp_b (known : list xname) (r1 r2 : wresp) : bool :=
  list_eqb (opt_eqb String.eqb) (map (href_dec cd) (wr_hrefs r1)) (map (href_dec cd) (wr_hrefs r2))
  && opt_eqb Z.eqb (option_map fst (wr_status r1)) (option_map fst (wr_status r2))
  && forallb (fun n => list_eqb pair_eqb (answers_for n r1) (answers_for n r2)) known.
Definition same_content_b (known : list xname) (d1 d2 : wdoc) : bool :=
  String.eqb (wd_token d1) (wd_token d2) && list_eqb (same_resp_b known) (wd_resps d1) (wd_resps d2).

(** * What the RFCs prescribe as the answer for one requested property.
    RFC 4918 section 15 (getetag: an entity tag, i.e. a quoted string, RFC 2616 3.11;
    getlastmodified: an rfc1123 date; getcontentlength: decimal octets; a property
    the resource does not have is reported with 404), RFC 4791 9.6 / RFC 6352 10.4
    (calendar-data / address-data carry the object's text), RFC 4791 5.2, RFC 6352 6.2
    (descriptions, max-resource-size, supported sets), RFC 5397 (current-user-principal). *)
Definition present (v : xtree) : xtree * Z := (v, 200).
Definition absent (n : xname) : xtree * Z := (Elem n [] [], 404).
Definition simple (n : xname) (s : string) : xtree := Elem n [] (if str_empty s then [] else [Text s]).
Definition principal_elem (principal : string) : xtree :=
  Elem n_cup [] [Elem (dav "href") [] (if str_empty (href_enc cd principal) then [] else [Text (href_enc cd principal)])].

Definition spec_object_answer (fl : flavor) (principal : string) (o : obj) (n : xname) : xtree * Z :=
  if xname_eqb n n_getetag then
    (if str_empty (o_etag o) then absent n else present (simple n (etag_enc cd (o_etag o))))
  else if xname_eqb n n_getlastmodified then
    (if is_zero_time o then absent n else present (simple n (time_enc cd (o_sec o))))
  else if xname_eqb n n_getcontentlength then
    (if 0 <? o_len o then present (simple n (dec_of_Z (o_len o))) else absent n)
  else if xname_eqb n n_getcontenttype then present (simple n (mime_of fl))
  else if xname_eqb n (data_name fl) then
    match pay_enc cd fl (o_data o) with
    | Some b => present (simple n b)
    | None => (Elem n [] [], 500)
    end
  else if xname_eqb n n_resourcetype then present (Elem n [] [])
  else if xname_eqb n n_cup then present (principal_elem principal)
  else absent n.

(** The comp set a calendar advertises: the backend's, or VEVENT when it names none. *)
Definition advertised_comps (c : coll) : list string :=
  match c_comps c with Some l => l | None => ["VEVENT"%string] end.

Definition spec_collection_answer (fl : flavor) (principal : string) (c : coll) (n : xname) : xtree * Z :=
  if xname_eqb n n_resourcetype then
    present (Elem n [] [Elem n_collection [] []; Elem (coll_type_name fl) [] []])
  else if xname_eqb n n_displayname then
    (if str_empty (c_name c) then absent n else present (simple n (c_name c)))
  else if xname_eqb n (desc_name fl) then
    match fl with
    | Cal => present (simple n (c_desc c))
    | Card => if str_empty (c_desc c) then absent n else present (simple n (c_desc c))
    end
  else if xname_eqb n (maxsize_name fl) then
    (if 0 <? c_max c then present (simple n (dec_of_Z (c_max c))) else absent n)
  else if xname_eqb n n_cup then present (principal_elem principal)
  else match fl with
       | Cal =>
         if xname_eqb n n_compset then
           present (Elem n [] (map (fun name => Elem n_comp [(noattr "name", name)] []) (advertised_comps c)))
         else if xname_eqb n n_caldata_types then
           present (Elem n [] [Elem (data_name Cal) [(noattr "content-type", "text/calendar"%string);
                                                    (noattr "version", "2.0"%string)] []])
         else absent n
       | Card =>
         if xname_eqb n n_adata_types then
           present (Elem n [] [Elem (ns_of Card, "address-data-type"%string)
                                    [(noattr "content-type", "text/vcard"%string); (noattr "version", "3.0"%string)] [];
                               Elem (ns_of Card, "address-data-type"%string)
                                    [(noattr "content-type", "text/vcard"%string); (noattr "version", "4.0"%string)] []])
         else absent n
       end.

(** The table a reader should obtain for a list of resources answered with [ans]. *)
Fixpoint first_occurrences (seen req : list xname) : list xname :=
  match req with
  | [] => []
  | n :: r => if existsb (xname_eqb n) seen then first_occurrences seen r
              else n :: first_occurrences (n :: seen) r
  end.
(** one row per requested name (a name requested twice is answered once) *)
Definition expected_rows (href : string) (ans : xname -> xtree * Z) (req : list xname) : list row :=
  map (fun n => PropRow (href_enc cd href) (fst (ans n)) (snd (ans n))) (first_occurrences [] req).

End WithCodecs.
