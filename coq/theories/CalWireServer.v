(** CalWireServer.v — C08 proofs, part 2: the server side.  For every element
    of the RFC grammar: whatever lexical variant of the element [rfc_write]
    produces for a (valid) public value is handed to the model of
    [xml.Unmarshal] + the [decode*] functions of caldav/server.go, the public
    value comes out again. *)
From Coq Require Import Permutation.
From GW Require Import Base CalTime CalTimeProofs CalXml CalWire CalWireLex.

Local Opaque fmt_utc parse_utc u_instant.

Ltac inv_f2 :=
  repeat match goal with
         | H : Forall2 _ (_ :: _) _ |- _ => inversion H; subst; clear H
         | H : Forall2 _ [] _ |- _ => inversion H; subst; clear H
         end.

(** * Attribute loops *)
Lemma attrs_active {W} (set : string -> string -> W -> res W) act n a a' w :
  (forall l v w, act l = false -> set l v w = Ok w) ->
  attrs_var n a a' -> act "xmlns" = false ->
  (forall x, In x (default_attrs n) -> act (a_local x) = false) ->
  Forall (fun x => actf act x = true) a ->
  exists p, Permutation a p /\ fold_attrs set a' w = fold_attrs set p w.
Proof.
  intros Hs Hv Hx Hd Ha. exists (filter (actf act) a'). split.
  - eapply attrs_var_filter; eassumption.
  - now apply fold_attrs_filter.
Qed.

Definition act_name (l : string) : bool := String.eqb l "name".

Lemma fold_attrs_name {W} (set : string -> string -> W -> res W) n v a' w :
  (forall l v w, act_name l = false -> set l v w = Ok w) ->
  attrs_var n [cattr "name" v] a' ->
  (forall x, In x (default_attrs n) -> act_name (a_local x) = false) ->
  fold_attrs set a' w = set "name" v w.
Proof.
  intros Hs Hv Hd.
  destruct (attrs_active set act_name n _ a' w Hs Hv eq_refl Hd) as (p & Hp & ->).
  { repeat constructor. }
  apply Permutation_length_1_inv in Hp. subst p.
  unfold fold_attrs. cbn. destruct (set "name" v w); reflexivity.
Qed.

(** * text-match *)
Definition is_neg (x : xattr) : bool := str_empty (a_space x) && String.eqb (a_local x) "negate-condition".

Lemma tm_fold_ok (b : bool) a :
  (forall x, In x a -> is_neg x = true -> a_value x = if b then "yes" else "no") ->
  forall w, exists w', fold_attrs tm_set a w = Ok w' /\
                       wtm_negate w' = (if existsb is_neg a then b else wtm_negate w).
Proof.
  unfold fold_attrs. induction a as [|x r IH]; intros Hx w.
  - exists w. auto.
  - cbn [fold_res existsb]. unfold is_neg at 1. unfold tm_set at 1.
    assert (Hr : forall y, In y r -> is_neg y = true -> a_value y = if b then "yes" else "no")
      by (intros; apply Hx; [now right | assumption]).
    destruct (str_empty (a_space x)) eqn:Es; cbn [andb].
    2:{ cbn [orb]. destruct (IH Hr w) as (w' & -> & Hn). exists w'. auto. }
    destruct (String.eqb (a_local x) "collation") eqn:Ec.
    { assert (En : String.eqb (a_local x) "negate-condition" = false)
        by (apply String.eqb_eq in Ec; rewrite Ec; reflexivity).
      rewrite En. cbn [orb].
      match goal with |- context [fold_res _ r ?w1] => destruct (IH Hr w1) as (w' & Hw & Hn) end.
      exists w'. split; [exact Hw |]. rewrite Hn. reflexivity. }
    destruct (String.eqb (a_local x) "negate-condition") eqn:En; cbn [orb].
    2:{ destruct (IH Hr w) as (w' & -> & Hn). exists w'. auto. }
    assert (Hv : a_value x = if b then "yes" else "no").
    { apply Hx; [now left |]. unfold is_neg. now rewrite Es, En. }
    rewrite Hv. destruct b.
    + change (String.eqb "yes" "yes") with true. cbv iota.
      match goal with |- context [fold_res _ r ?w1] => destruct (IH Hr w1) as (w' & Hw & Hn) end.
      exists w'. split; [exact Hw |]. rewrite Hn. cbn. now destruct (existsb is_neg r).
    + change (String.eqb "no" "yes") with false. change (String.eqb "no" "no") with true. cbv iota.
      match goal with |- context [fold_res _ r ?w1] => destruct (IH Hr w1) as (w' & Hw & Hn) end.
      exists w'. split; [exact Hw |]. rewrite Hn. cbn. now destruct (existsb is_neg r).
Qed.

Lemma u_tm_lex d tm t' :
  (d < MAXD)%N -> lexvar (w_tm tm) t' ->
  exists w, u_text_match d zero_wtm t' = Ok w /\ wtm_text w = tm_text tm /\ wtm_negate w = tm_negate tm.
Proof.
  intros Hdl Hl. apply lexvar_elem_inv in Hl. destruct Hl as (a' & k' & -> & Ha & Hk).
  change (negb (pcdata (cn "text-match"))) with false in Hk.
  unfold u_text_match. rewrite (chk_lt _ _ Hdl). rewrite name_eqb_refl. cbn [negb].
  assert (Hx : forall x, In x a' -> is_neg x = true -> a_value x = if tm_negate tm then "yes" else "no").
  { intros [[sp lo] v] Hin Hn. unfold is_neg, a_space, a_local in Hn. cbn in Hn.
    apply andb_true_iff in Hn. destruct Hn as [Hs Hlo]. apply str_empty_spec in Hs.
    apply String.eqb_eq in Hlo. subst sp lo. cbn [a_value snd].
    destruct Ha as (extra & Hp & He & Hnd).
    apply (Permutation_in _ (Permutation_sym Hp)) in Hin. apply in_app_or in Hin. destruct Hin as [Hin|Hin].
    - destruct (tm_negate tm); cbn in Hin; [|tauto]. destruct Hin as [E|[]]. now inversion E.
    - rewrite Forall_forall in He. specialize (He _ Hin).
      destruct (extra_plain _ _ _ _ _ He eq_refl) as [Hdef Hni]; [discriminate |].
      cbn in Hdef. destruct Hdef as [E|[E|[]]]; inversion E; subst.
      destruct (tm_negate tm); [|reflexivity]. exfalso. apply Hni. cbn. now left. }
  destruct (tm_fold_ok (tm_negate tm) a' Hx zero_wtm) as (w' & -> & Hn).
  eexists. split; [reflexivity |]. cbn [wtm_text wtm_negate]. split.
  - rewrite (kids_var_text _ _ _ Hk eq_refl). apply text_of_text_kids.
  - rewrite Hn. cbn [wtm_negate zero_wtm].
    destruct (tm_negate tm) eqn:Eb; [|now destruct (existsb is_neg a')].
    assert (Hin : In (cattr "negate-condition" "yes") a').
    { destruct Ha as (extra & Hp & _). apply (Permutation_in _ Hp). apply in_or_app. left. now left. }
    assert (Hex : existsb is_neg a' = true) by (apply existsb_exists; eexists; split; [exact Hin | reflexivity]).
    now rewrite Hex.
Qed.

(** * time-range and expand *)
Definition act_se (l : string) : bool := String.eqb l "start" || String.eqb l "end".

Lemma tr_set_inert l v w : act_se l = false -> tr_set l v w = Ok w.
Proof.
  unfold act_se, tr_set. intros H. apply orb_false_iff in H. destruct H as [-> ->]. reflexivity.
Qed.

Lemma ex_set_inert l v w : act_se l = false -> ex_set l v w = Ok w.
Proof.
  unfold act_se, ex_set. intros H. apply orb_false_iff in H. destruct H as [-> ->]. reflexivity.
Qed.

Definition wtr_of (s e : instant) : w_time_range :=
  {| wtr_start := if i_zero s then None else Some s; wtr_end := if i_zero e then None else Some e |}.

Lemma u_tr_lex d s e t' :
  (d < MAXD)%N -> utc_ok s = true -> utc_ok e = true -> lexvar (w_tr s e) t' ->
  u_time_range d zero_wtr t' = Ok (wtr_of s e).
Proof.
  intros Hdl Hs He Hl. apply lexvar_elem_inv in Hl. destruct Hl as (a' & k' & -> & Ha & Hk).
  unfold u_time_range. rewrite (chk_lt _ _ Hdl). rewrite name_eqb_refl. cbn [negb].
  destruct (attrs_active tr_set act_se _ _ a' zero_wtr tr_set_inert Ha eq_refl) as (p & Hp & ->).
  { cbn. tauto. }
  { destruct (i_zero s), (i_zero e); repeat constructor. }
  unfold wtr_of. destruct (i_zero s), (i_zero e); cbn [app] in Hp.
  - apply Permutation_nil in Hp. subst p. reflexivity.
  - apply Permutation_length_1_inv in Hp. subst p. unfold fold_attrs. cbn.
    unfold tr_set. cbn. now rewrite (u_instant_fmt _ He).
  - apply Permutation_length_1_inv in Hp. subst p. unfold fold_attrs. cbn.
    unfold tr_set. cbn. now rewrite (u_instant_fmt _ Hs).
  - apply Permutation_length_2_inv in Hp. destruct Hp as [-> | ->]; unfold fold_attrs; cbn;
      unfold tr_set; cbn; rewrite (u_instant_fmt _ Hs), (u_instant_fmt _ He); cbn;
      rewrite ?(u_instant_fmt _ Hs), ?(u_instant_fmt _ He); reflexivity.
Qed.

Lemma u_expand_lex d s e t' :
  (d < MAXD)%N -> utc_ok s = true -> utc_ok e = true -> lexvar (w_expand_el (s, e)) t' ->
  u_expand d zero_wex t' = Ok {| wex_start := s; wex_end := e |}.
Proof.
  intros Hdl Hs He Hl. apply lexvar_elem_inv in Hl. destruct Hl as (a' & k' & -> & Ha & Hk).
  unfold u_expand. rewrite (chk_lt _ _ Hdl). rewrite name_eqb_refl. cbn [negb].
  destruct (attrs_active ex_set act_se _ _ a' zero_wex ex_set_inert Ha eq_refl) as (p & Hp & ->).
  { cbn. tauto. }
  { repeat constructor. }
  cbn [fst snd] in Hp.
  apply Permutation_length_2_inv in Hp. destruct Hp as [-> | ->]; unfold fold_attrs; cbn;
    unfold ex_set; cbn; rewrite (u_instant_fmt _ Hs), (u_instant_fmt _ He); cbn;
    rewrite ?(u_instant_fmt _ Hs), ?(u_instant_fmt _ He); reflexivity.
Qed.

(** * Name-only attribute loops *)
Lemma paf_set_inert l v w : act_name l = false -> paf_set l v w = Ok w.
Proof. unfold act_name, paf_set. now intros ->. Qed.
Lemma pf_set_inert l v w : act_name l = false -> pf_set l v w = Ok w.
Proof. unfold act_name, pf_set. now intros ->. Qed.
Lemma wcf_set_inert l v w : act_name l = false -> wcf_set l v w = Ok w.
Proof. unfold act_name, wcf_set. intros ->. now destruct w. Qed.
Lemma cprop_set_inert l v w : act_name l = false -> cprop_set l v w = Ok w.
Proof. unfold act_name, cprop_set. now intros ->. Qed.
Lemma wcomp_set_inert l v w : act_name l = false -> wcomp_set l v w = Ok w.
Proof. unfold act_name, wcomp_set. intros ->. now destruct w. Qed.

Lemma ind_elem_inv t' : lexvar ind_elem t' -> exists a' k', t' = Elem (cn "is-not-defined") a' k'.
Proof. intros H. apply lexvar_elem_inv in H. destruct H as (a' & k' & -> & _). eauto. Qed.

(** * param-filter *)
Lemma paf_kid_skip d w t : is_elem t = false -> paf_kid d w t = Ok w.
Proof. destruct t; cbn; [discriminate | reflexivity | reflexivity]. Qed.

Lemma u_paf_lex d p t' :
  (d + need_paf p < MAXD)%N -> valid_paf p = true -> lexvar (w_paf p) t' ->
  exists w, u_param_filter d zero_wpaf t' = Ok w /\ decode_param_filter w = Ok p.
Proof.
  intros Hdl Hv Hl. apply lexvar_elem_inv in Hl. destruct Hl as (a' & k' & -> & Ha & Hk).
  change (negb (pcdata (cn "param-filter"))) with true in Hk.
  unfold u_param_filter. rewrite chk_lt by lia. rewrite name_eqb_refl. cbn [negb].
  rewrite (fold_attrs_name paf_set _ _ _ _ paf_set_inert Ha) by (cbn; tauto).
  unfold paf_set at 1. cbn [String.eqb Ascii.eqb Bool.eqb]. change (String.eqb "name" "name") with true. cbv iota.
  rewrite fold_res_elems by apply paf_kid_skip.
  destruct p as [nm ind tm]. unfold valid_paf in Hv. unfold need_paf in Hdl. cbn [paf_name paf_ind paf_tm] in *.
  destruct ind.
  - destruct tm; [discriminate |]. cbn [orb] in Hdl.
    destruct (kids_var_econtent _ _ Hk eq_refl) as [_ Hf]. inv_f2.
    match goal with H : lexvar ind_elem _ |- _ => apply ind_elem_inv in H; destruct H as (a1 & k1 & ->) end.
    cbn [fold_res paf_kid]. change (local_is (cn "is-not-defined") "is-not-defined") with true. cbv iota.
    unfold flag_at. rewrite chk_lt by lia. eexists. split; reflexivity.
  - destruct tm as [tm|].
    + destruct (kids_var_econtent _ _ Hk eq_refl) as [_ Hf]. cbn [opt_list] in Hf. inv_f2.
      cbn [orb is_some] in Hdl.
      match goal with H : lexvar (w_tm _) _ |- _ =>
        pose proof H as Hl; apply (u_tm_lex (d + 1)) in H; [|lia]; destruct H as (wt & Hu & Ht & Hn);
        apply lexvar_elem_inv in Hl; destruct Hl as (a1 & k1 & -> & _) end.
      cbn [fold_res paf_kid]. change (local_is (cn "text-match") "is-not-defined") with false.
      change (local_is (cn "text-match") "text-match") with true. cbv iota.
      cbn [wpaf_tm zero_wpaf opt_default]. rewrite Hu.
      eexists. split; [reflexivity |]. unfold decode_param_filter. cbn.
      destruct tm. cbn in *. now subst.
    + destruct (kids_var_econtent _ _ Hk eq_refl) as [_ Hf]. cbn [opt_list] in Hf. inv_f2.
      cbn. eexists. split; reflexivity.
Qed.

(** * prop-filter *)
Lemma tr_start_of s e : utc_ok s = true -> tr_start (Some (wtr_of s e)) = s.
Proof.
  intros Hs. unfold tr_start, wtr_of. cbn. destruct (i_zero s) eqn:E; cbn; [|reflexivity].
  symmetry. now apply i_zero_eq.
Qed.
Lemma tr_end_of s e : utc_ok e = true -> tr_end (Some (wtr_of s e)) = e.
Proof.
  intros He. unfold tr_end, wtr_of. cbn. destruct (i_zero e) eqn:E; cbn; [|reflexivity].
  symmetry. now apply i_zero_eq.
Qed.
Lemma no_tr_zero s e :
  utc_ok s = true -> utc_ok e = true -> has_tr s e = false -> s = zero_instant /\ e = zero_instant.
Proof.
  unfold has_tr. intros Hs He H. apply negb_false_iff, andb_true_iff in H. destruct H.
  split; now apply i_zero_eq.
Qed.

Lemma pf_kid_skip d w t : is_elem t = false -> pf_kid d w t = Ok w.
Proof. destruct t; cbn; [discriminate | reflexivity | reflexivity]. Qed.

Lemma fold_pafs d ps :
  (d + maxl (fun q => 2 + need_paf q)%N ps < MAXD)%N ->
  forallb valid_paf ps = true -> forall rest' w0, Forall2 lexvar (map w_paf ps) rest' ->
  exists ws,
    fold_res (pf_kid d) rest' w0 =
    Ok {| wpf_name := wpf_name w0; wpf_ind := wpf_ind w0; wpf_tr := wpf_tr w0; wpf_tm := wpf_tm w0;
          wpf_params := wpf_params w0 ++ ws |}
    /\ map_res decode_param_filter ws = Ok ps.
Proof.
  induction ps as [|p ps IH]; intros Hdl Hv rest' w0 Hf; cbn [map] in Hf; inv_f2.
  - exists []. rewrite app_nil_r. destruct w0. auto.
  - cbn [forallb] in Hv. apply andb_true_iff in Hv. destruct Hv as [Hp Hps].
    unfold maxl in Hdl. cbn [fold_right] in Hdl. fold (maxl (fun q => 2 + need_paf q)%N ps) in Hdl.
    match goal with H : lexvar (w_paf p) _ |- _ =>
      pose proof H as Hl; apply (u_paf_lex (d + 2) p _ ltac:(lia) Hp) in H; destruct H as (w1 & Hu & Hd);
      apply lexvar_elem_inv in Hl; destruct Hl as (a1 & k1 & -> & _) end.
    cbn [fold_res pf_kid].
    change (local_is (cn "param-filter") "is-not-defined") with false.
    change (local_is (cn "param-filter") "time-range") with false.
    change (local_is (cn "param-filter") "text-match") with false.
    change (local_is (cn "param-filter") "param-filter") with true. cbv iota. rewrite chk_lt by lia. rewrite Hu.
    match goal with HF : Forall2 lexvar (map w_paf ps) _ |- context [fold_res (pf_kid d) _ ?w1] => destruct (IH ltac:(lia) Hps _ w1 HF) as (ws & -> & Hm) end.
    exists (w1 :: ws). cbn [wpf_name wpf_ind wpf_tr wpf_tm wpf_params]. rewrite <- app_assoc. split; [reflexivity |].
    cbn [map_res]. rewrite Hd. cbn in Hm |- *. now rewrite Hm.
Qed.

Lemma map_res_length {A B} (f : A -> res B) l l' : map_res f l = Ok l' -> List.length l = List.length l'.
Proof.
  revert l'. induction l as [|x r IH]; intros l'; cbn.
  - intros E. now inversion E.
  - destruct (f x); try discriminate. destruct (map_res f r) eqn:E; try discriminate.
    intros E'. inversion E'; subst. cbn. f_equal. now apply IH.
Qed.

Lemma u_pf_lex d p t' :
  (d + need_pf p < MAXD)%N -> valid_pf p = true -> lexvar (w_pf p) t' ->
  exists w, u_prop_filter d zero_wpf t' = Ok w /\ decode_prop_filter w = Ok p.
Proof.
  intros Hdl Hv Hl. apply lexvar_elem_inv in Hl. destruct Hl as (a' & k' & -> & Ha & Hk).
  change (negb (pcdata (cn "prop-filter"))) with true in Hk.
  unfold u_prop_filter. rewrite chk_lt by lia. rewrite name_eqb_refl. cbn [negb].
  rewrite (fold_attrs_name pf_set _ _ _ _ pf_set_inert Ha) by (cbn; tauto).
  unfold pf_set at 1. change (String.eqb "name" "name") with true. cbv iota.
  rewrite fold_res_elems by apply pf_kid_skip.
  destruct p as [nm ind s e tm ps]. unfold valid_pf in Hv. unfold need_pf in Hdl.
  cbn [pf_name pf_ind pf_start pf_end pf_tm pf_params] in *.
  apply andb_true_iff in Hv. destruct Hv as [Hv Hps].
  apply andb_true_iff in Hv. destruct Hv as [Hv Hc].
  apply andb_true_iff in Hv. destruct Hv as [Hs He].
  destruct ind.
  - apply andb_true_iff in Hc. destruct Hc as [Hc Hn]. apply andb_true_iff in Hc. destruct Hc as [Htr Htm].
    apply negb_true_iff in Htr. destruct tm; [discriminate |]. destruct ps; [|discriminate].
    destruct (no_tr_zero _ _ Hs He Htr) as [-> ->]. cbn [orb] in Hdl.
    destruct (kids_var_econtent _ _ Hk eq_refl) as [_ Hf]. inv_f2.
    match goal with H : lexvar ind_elem _ |- _ => apply ind_elem_inv in H; destruct H as (a1 & k1 & ->) end.
    cbn [fold_res pf_kid]. change (local_is (cn "is-not-defined") "is-not-defined") with true. cbv iota.
    unfold flag_at. rewrite chk_lt by lia. eexists. split; reflexivity.
  - cbn [orb] in Hdl. destruct (has_tr s e) eqn:Htr.
    + destruct tm; [discriminate |]. cbn [orb] in Hdl.
      assert (Hk0 : forallb is_elem ([w_tr s e] ++ map w_paf ps) = true).
      { cbn. apply forallb_forall. intros x Hin. apply in_map_iff in Hin. destruct Hin as (y & <- & _). reflexivity. }
      destruct (kids_var_econtent _ _ Hk Hk0) as [_ Hf]. cbn [app] in Hf. inv_f2.
      match goal with H : lexvar (w_tr _ _) _ |- _ =>
        pose proof H as Hl; apply (u_tr_lex (d + 1) _ _ _ ltac:(cbn [orb is_some] in Hdl; lia) Hs He) in H; rename H into Hu;
        apply lexvar_elem_inv in Hl; destruct Hl as (a1 & k1 & -> & _) end.
      cbn [fold_res pf_kid].
      change (local_is (cn "time-range") "is-not-defined") with false.
      change (local_is (cn "time-range") "time-range") with true. cbv iota.
      cbn [wpf_tr zero_wpf opt_default]. rewrite Hu.
      match goal with HF : Forall2 lexvar (map w_paf ps) _ |- context [fold_res (pf_kid d) _ ?w1] => destruct (fold_pafs d ps ltac:(cbn [orb is_some] in Hdl; lia) Hps _ w1 HF) as (ws & -> & Hm) end.
      eexists. split; [reflexivity |]. unfold decode_prop_filter.
      cbn [wpf_name wpf_ind wpf_tr wpf_tm wpf_params zero_wpf app andb].
      rewrite Hm. rewrite tr_start_of, tr_end_of by assumption. reflexivity.
    + destruct (no_tr_zero _ _ Hs He Htr) as [-> ->].
      assert (Hk0 : forallb is_elem (opt_list w_tm tm ++ map w_paf ps) = true).
      { rewrite forallb_app. apply andb_true_iff. split; [now destruct tm |].
        apply forallb_forall. intros x Hin. apply in_map_iff in Hin. destruct Hin as (y & <- & _). reflexivity. }
      destruct (kids_var_econtent _ _ Hk Hk0) as [_ Hf].
      destruct tm as [tm|]; cbn [opt_list app] in Hf.
      * inv_f2. cbn [orb is_some] in Hdl.
        match goal with H : lexvar (w_tm _) _ |- _ =>
          pose proof H as Hl; apply (u_tm_lex (d + 1)) in H; [|lia]; destruct H as (wt & Hu & Ht & Hn);
          apply lexvar_elem_inv in Hl; destruct Hl as (a1 & k1 & -> & _) end.
        cbn [fold_res pf_kid].
        change (local_is (cn "text-match") "is-not-defined") with false.
        change (local_is (cn "text-match") "time-range") with false.
        change (local_is (cn "text-match") "text-match") with true. cbv iota.
        cbn [wpf_tm zero_wpf opt_default]. rewrite Hu.
        match goal with HF : Forall2 lexvar (map w_paf ps) _ |- context [fold_res (pf_kid d) _ ?w1] => destruct (fold_pafs d ps ltac:(cbn [orb is_some] in Hdl; lia) Hps _ w1 HF) as (ws & -> & Hm) end.
        eexists. split; [reflexivity |]. unfold decode_prop_filter.
        cbn [wpf_name wpf_ind wpf_tr wpf_tm wpf_params zero_wpf app andb].
        rewrite Hm. cbn. destruct tm. cbn in *. now subst.
      * match goal with |- context [fold_res (pf_kid d) _ ?w1] => destruct (fold_pafs d ps ltac:(cbn [orb is_some] in Hdl; lia) Hps _ w1 Hf) as (ws & -> & Hm) end.
        eexists. split; [reflexivity |]. unfold decode_prop_filter.
        cbn [wpf_name wpf_ind wpf_tr wpf_tm wpf_params zero_wpf app andb].
        rewrite Hm. reflexivity.
Qed.

(** * comp-filter *)
Definition cf_kid (d : N) (w : w_comp_filter) (kid : xtree) : res w_comp_filter :=
  match w with WCF name ind tr pfs cfs =>
  match kid with
  | Elem n' _ _ =>
    if local_is n' "is-not-defined" then flag_at d (WCF name true tr pfs cfs)
    else if local_is n' "time-range" then
      match u_time_range (d + 1) (opt_default zero_wtr tr) kid with
      | Ok tr' => Ok (WCF name ind (Some tr') pfs cfs)
      | Err c => Err c
      | Panic => Panic
      end
    else if local_is n' "prop-filter" then
      chk (d + 1)
      match u_prop_filter (d + 2) zero_wpf kid with
      | Ok p => Ok (WCF name ind tr (pfs ++ [p]) cfs)
      | Err c => Err c
      | Panic => Panic
      end
    else if local_is n' "comp-filter" then
      chk (d + 1)
      match u_comp_filter (d + 2) zero_wcf kid with
      | Ok c' => Ok (WCF name ind tr pfs (cfs ++ [c']))
      | Err c => Err c
      | Panic => Panic
      end
    else Ok w
  | _ => Ok w
  end end.

Lemma u_comp_filter_eq d init n a k :
  u_comp_filter d init (Elem n a k) =
  chk d (
  if negb (name_eqb n (cn "comp-filter")) then Err 400 else
  match fold_attrs wcf_set a init with
  | Ok w0 => fold_res (cf_kid d) k w0
  | Err c => Err c
  | Panic => Panic
  end).
Proof. reflexivity. Qed.

Lemma cf_kid_skip d w t : is_elem t = false -> cf_kid d w t = Ok w.
Proof. destruct w, t; cbn; [discriminate | reflexivity | reflexivity]. Qed.

Lemma fold_pfs d ps :
  (d + maxl (fun p => 2 + need_pf p)%N ps < MAXD)%N ->
  forallb valid_pf ps = true -> forall rest' nm ind tr pfs cfs, Forall2 lexvar (map w_pf ps) rest' ->
  exists ws,
    fold_res (cf_kid d) rest' (WCF nm ind tr pfs cfs) = Ok (WCF nm ind tr (pfs ++ ws) cfs)
    /\ map_res decode_prop_filter ws = Ok ps.
Proof.
  induction ps as [|p ps IH]; intros Hdl Hv rest' nm ind tr pfs cfs Hf; cbn [map] in Hf; inv_f2.
  - exists []. rewrite app_nil_r. auto.
  - cbn [forallb] in Hv. apply andb_true_iff in Hv. destruct Hv as [Hp Hps].
    unfold maxl in Hdl. cbn [fold_right] in Hdl. fold (maxl (fun p => 2 + need_pf p)%N ps) in Hdl.
    match goal with H : lexvar (w_pf p) _ |- _ =>
      pose proof H as Hl; apply (u_pf_lex (d + 2) p _ ltac:(lia) Hp) in H; destruct H as (w1 & Hu & Hd);
      apply lexvar_elem_inv in Hl; destruct Hl as (a1 & k1 & -> & _) end.
    cbn [fold_res cf_kid].
    change (local_is (cn "prop-filter") "is-not-defined") with false.
    change (local_is (cn "prop-filter") "time-range") with false.
    change (local_is (cn "prop-filter") "prop-filter") with true. cbv iota. rewrite chk_lt by lia. rewrite Hu.
    match goal with HF : Forall2 lexvar (map w_pf ps) _ |- _ =>
      destruct (IH ltac:(lia) Hps _ nm ind tr (pfs ++ [w1])%list cfs HF) as (ws & -> & Hm) end.
    exists (w1 :: ws). rewrite <- app_assoc. split; [reflexivity |].
    cbn [map_res]. rewrite Hd. cbn in Hm |- *. now rewrite Hm.
Qed.

Definition cf_ok (f : comp_filter) : Prop :=
  forall d, (d + need_cf f < MAXD)%N ->
  valid_cf f = true -> forall t', lexvar (w_cf f) t' ->
  exists w, u_comp_filter d zero_wcf t' = Ok w /\ decode_comp_filter w = Ok f.

Lemma fold_cfs d comps :
  Forall cf_ok comps -> (d + maxl (fun c => 2 + need_cf c)%N comps < MAXD)%N ->
  forallb valid_cf comps = true ->
  forall rest' nm ind tr pfs cfs, Forall2 lexvar (map w_cf comps) rest' ->
  exists ws,
    fold_res (cf_kid d) rest' (WCF nm ind tr pfs cfs) = Ok (WCF nm ind tr pfs (cfs ++ ws))
    /\ map_res decode_comp_filter ws = Ok comps.
Proof.
  induction 1 as [|f comps Hf0 _ IH]; intros Hdl Hv rest' nm ind tr pfs cfs Hf; cbn [map] in Hf; inv_f2.
  - exists []. rewrite app_nil_r. auto.
  - cbn [forallb] in Hv. apply andb_true_iff in Hv. destruct Hv as [Hp Hps].
    unfold maxl in Hdl. cbn [fold_right] in Hdl. fold (maxl (fun c => 2 + need_cf c)%N comps) in Hdl.
    match goal with H : lexvar (w_cf f) _ |- _ =>
      pose proof H as Hl; apply (Hf0 (d + 2)%N ltac:(lia) Hp) in H; destruct H as (w1 & Hu & Hd);
      destruct f; apply lexvar_elem_inv in Hl; destruct Hl as (a1 & k1 & -> & _) end.
    cbn [fold_res cf_kid].
    change (local_is (cn "comp-filter") "is-not-defined") with false.
    change (local_is (cn "comp-filter") "time-range") with false.
    change (local_is (cn "comp-filter") "prop-filter") with false.
    change (local_is (cn "comp-filter") "comp-filter") with true. cbv iota. rewrite chk_lt by lia. rewrite Hu.
    match goal with HF : Forall2 lexvar (map w_cf comps) _ |- _ =>
      destruct (IH ltac:(lia) Hps _ nm ind tr pfs (cfs ++ [w1])%list HF) as (ws & -> & Hm) end.
    exists (w1 :: ws). rewrite <- app_assoc. split; [reflexivity |].
    cbn [map_res]. rewrite Hd. cbn in Hm |- *. now rewrite Hm.
Qed.

Lemma forallb_map_elem {A} (f : A -> xtree) l : (forall x, is_elem (f x) = true) -> forallb is_elem (map f l) = true.
Proof. intros H. apply forallb_forall. intros x Hin. apply in_map_iff in Hin. destruct Hin as (y & <- & _). apply H. Qed.

Lemma w_cf_is_elem f : is_elem (w_cf f) = true.
Proof. now destruct f. Qed.

Lemma u_cf_lex f : cf_ok f.
Proof.
  induction f as [nm ind s e props comps IH] using comp_filter_ind2.
  intros d Hdl Hv t' Hl. cbn [w_cf] in Hl. apply lexvar_elem_inv in Hl. destruct Hl as (a' & k' & -> & Ha & Hk).
  change (negb (pcdata (cn "comp-filter"))) with true in Hk.
  rewrite u_comp_filter_eq. rewrite chk_lt by lia. rewrite name_eqb_refl. cbn [negb].
  cbn [need_cf] in Hdl.
  rewrite (fold_attrs_name wcf_set _ _ _ _ wcf_set_inert Ha) by (cbn; tauto).
  unfold wcf_set, zero_wcf. change (String.eqb "name" "name") with true. cbv iota.
  rewrite fold_res_elems by apply cf_kid_skip.
  cbn [valid_cf] in Hv.
  apply andb_true_iff in Hv. destruct Hv as [Hv Hcs].
  apply andb_true_iff in Hv. destruct Hv as [Hv Hps].
  apply andb_true_iff in Hv. destruct Hv as [Hv Hc].
  apply andb_true_iff in Hv. destruct Hv as [Hs He].
  destruct ind.
  - apply andb_true_iff in Hc. destruct Hc as [Hc Hn]. apply andb_true_iff in Hc. destruct Hc as [Htr Hn1].
    apply negb_true_iff in Htr. destruct props; [|discriminate]. destruct comps; [|discriminate].
    destruct (no_tr_zero _ _ Hs He Htr) as [-> ->]. cbn [orb] in Hdl.
    destruct (kids_var_econtent _ _ Hk eq_refl) as [_ Hf]. inv_f2.
    match goal with H : lexvar ind_elem _ |- _ => apply ind_elem_inv in H; destruct H as (a1 & k1 & ->) end.
    cbn [fold_res cf_kid]. change (local_is (cn "is-not-defined") "is-not-defined") with true. cbv iota.
    unfold flag_at. rewrite chk_lt by lia. eexists. split; reflexivity.
  - cbn [orb] in Hdl.
    assert (Hk0 : forallb is_elem ((if has_tr s e then [w_tr s e] else []) ++ map w_pf props ++ map w_cf comps) = true).
    { rewrite !forallb_app. rewrite (forallb_map_elem w_pf) by (now intros []).
      rewrite (forallb_map_elem w_cf) by apply w_cf_is_elem. now destruct (has_tr s e). }
    destruct (kids_var_econtent _ _ Hk Hk0) as [_ Hf].
    apply Forall2_app_inv_l in Hf. destruct Hf as (l1 & l23 & Hf1 & Hf23 & ->).
    apply Forall2_app_inv_l in Hf23. destruct Hf23 as (l2 & l3 & Hf2 & Hf3 & ->).
    rewrite !fold_res_app.
    assert (H1 : fold_res (cf_kid d) l1 (WCF nm false None [] []) =
                 Ok (WCF nm false (if has_tr s e then Some (wtr_of s e) else None) [] [])).
    { destruct (has_tr s e); inv_f2; [|reflexivity].
      match goal with H : lexvar (w_tr _ _) _ |- _ =>
        pose proof H as Hl; apply (u_tr_lex (d + 1) _ _ _ ltac:(lia) Hs He) in H; rename H into Hu;
        apply lexvar_elem_inv in Hl; destruct Hl as (a1 & k1 & -> & _) end.
      cbn [fold_res cf_kid].
      change (local_is (cn "time-range") "is-not-defined") with false.
      change (local_is (cn "time-range") "time-range") with true. cbv iota.
      cbn [opt_default]. now rewrite Hu. }
    rewrite H1. cbv beta iota. rewrite fold_res_app.
    destruct (fold_pfs d props ltac:(lia) Hps _ nm false (if has_tr s e then Some (wtr_of s e) else None) [] [] Hf2) as (wps & -> & Hmp).
    cbv beta iota.
    destruct (fold_cfs d _ IH ltac:(lia) Hcs _ nm false (if has_tr s e then Some (wtr_of s e) else None) ([] ++ wps)%list [] Hf3) as (wcs & -> & Hmc).
    eexists. split; [reflexivity |]. cbn [app decode_comp_filter andb].
    rewrite Hmp. change (map_res decode_comp_filter wcs) with (map_res decode_comp_filter wcs). rewrite Hmc.
    destruct (has_tr s e) eqn:Htr.
    + rewrite tr_start_of, tr_end_of by assumption. reflexivity.
    + destruct (no_tr_zero _ _ Hs He Htr) as [-> ->]. reflexivity.
Qed.

(** * calendar-data: prop, comp, expand *)
Lemma u_cprop_lex d nm t' : (d < MAXD)%N -> lexvar (w_cprop nm) t' -> u_cprop d t' = Ok nm.
Proof.
  intros Hdl Hl. apply lexvar_elem_inv in Hl. destruct Hl as (a' & k' & -> & Ha & Hk).
  unfold u_cprop. rewrite (chk_lt _ _ Hdl). rewrite name_eqb_refl. cbn [negb].
  rewrite (fold_attrs_name cprop_set _ _ _ _ cprop_set_inert Ha).
  - reflexivity.
  - cbn. intros x [<-|[]]. reflexivity.
Qed.

Definition comp_kid (d : N) (w : w_comp) (kid : xtree) : res w_comp :=
  match w with WComp name ap ps ac cs =>
  match kid with
  | Elem n' _ _ =>
    if local_is n' "allprop" then flag_at d (WComp name true ps ac cs)
    else if local_is n' "prop" then
      chk (d + 1)
      match u_cprop (d + 2) kid with
      | Ok p => Ok (WComp name ap (ps ++ [p]) ac cs)
      | Err c => Err c
      | Panic => Panic
      end
    else if local_is n' "allcomp" then flag_at d (WComp name ap ps true cs)
    else if local_is n' "comp" then
      chk (d + 1)
      match u_comp (d + 2) zero_wcomp kid with
      | Ok c' => Ok (WComp name ap ps ac (cs ++ [c']))
      | Err c => Err c
      | Panic => Panic
      end
    else Ok w
  | _ => Ok w
  end end.

Lemma u_comp_eq d init n a k :
  u_comp d init (Elem n a k) =
  chk d (
  if negb (name_eqb n (cn "comp")) then Err 400 else
  match fold_attrs wcomp_set a init with
  | Ok w0 => fold_res (comp_kid d) k w0
  | Err c => Err c
  | Panic => Panic
  end).
Proof. reflexivity. Qed.

Lemma comp_kid_skip d w t : is_elem t = false -> comp_kid d w t = Ok w.
Proof. destruct w, t; cbn; [discriminate | reflexivity | reflexivity]. Qed.

Lemma fold_cprops d ps :
  (d + 2 < MAXD)%N ->
  forall rest' nm ap wps ac cs, Forall2 lexvar (map w_cprop ps) rest' ->
  fold_res (comp_kid d) rest' (WComp nm ap wps ac cs) = Ok (WComp nm ap (wps ++ ps) ac cs).
Proof.
  intros Hdl. induction ps as [|p ps IH]; intros rest' nm ap wps ac cs Hf; cbn [map] in Hf; inv_f2.
  - now rewrite app_nil_r.
  - match goal with H : lexvar (w_cprop p) _ |- _ =>
      pose proof H as Hl; apply (u_cprop_lex (d + 2) _ _ Hdl) in H; rename H into Hu;
      apply lexvar_elem_inv in Hl; destruct Hl as (a1 & k1 & -> & _) end.
    cbn [fold_res comp_kid].
    change (local_is (cn "prop") "allprop") with false.
    change (local_is (cn "prop") "prop") with true. cbv iota. rewrite chk_lt by lia. rewrite Hu.
    match goal with HF : Forall2 lexvar (map w_cprop ps) _ |- _ =>
      rewrite (IH _ nm ap (wps ++ [p])%list ac cs HF) end.
    now rewrite <- app_assoc.
Qed.

Definition comp_ok (c : comp_request) : Prop :=
  forall d, (d + need_comp c < MAXD)%N ->
  valid_comp_sel c = true -> forall t', lexvar (w_comp_sel c) t' ->
  exists w, u_comp d zero_wcomp t' = Ok w /\ decode_comp w = Ok c.

Lemma fold_comps d comps :
  Forall comp_ok comps -> (d + maxl (fun k => 2 + need_comp k)%N comps < MAXD)%N ->
  forallb valid_comp_sel comps = true ->
  forall rest' nm ap ps ac cs, Forall2 lexvar (map w_comp_sel comps) rest' ->
  exists ws,
    fold_res (comp_kid d) rest' (WComp nm ap ps ac cs) = Ok (WComp nm ap ps ac (cs ++ ws))
    /\ map_res decode_comp ws = Ok comps.
Proof.
  induction 1 as [|c comps Hc0 _ IH]; intros Hdl Hv rest' nm ap ps ac cs Hf; cbn [map] in Hf; inv_f2.
  - exists []. rewrite app_nil_r. auto.
  - cbn [forallb] in Hv. apply andb_true_iff in Hv. destruct Hv as [Hp Hps].
    unfold maxl in Hdl. cbn [fold_right] in Hdl. fold (maxl (fun k => 2 + need_comp k)%N comps) in Hdl.
    match goal with H : lexvar (w_comp_sel c) _ |- _ =>
      pose proof H as Hl; apply (Hc0 (d + 2)%N ltac:(lia) Hp) in H; destruct H as (w1 & Hu & Hd);
      destruct c; apply lexvar_elem_inv in Hl; destruct Hl as (a1 & k1 & -> & _) end.
    cbn [fold_res comp_kid].
    change (local_is (cn "comp") "allprop") with false.
    change (local_is (cn "comp") "prop") with false.
    change (local_is (cn "comp") "allcomp") with false.
    change (local_is (cn "comp") "comp") with true. cbv iota. rewrite chk_lt by lia. rewrite Hu.
    match goal with HF : Forall2 lexvar (map w_comp_sel comps) _ |- _ =>
      destruct (IH ltac:(lia) Hps _ nm ap ps ac (cs ++ [w1])%list HF) as (ws & -> & Hm) end.
    exists (w1 :: ws). rewrite <- app_assoc. split; [reflexivity |].
    cbn [map_res]. rewrite Hd. cbn in Hm |- *. now rewrite Hm.
Qed.

Lemma w_comp_sel_is_elem c : is_elem (w_comp_sel c) = true.
Proof. now destruct c. Qed.

Lemma flag_inv n t' : lexvar (Elem n [] []) t' -> exists a' k', t' = Elem n a' k'.
Proof. intros H. apply lexvar_elem_inv in H. destruct H as (a' & k' & -> & _). eauto. Qed.

Lemma u_comp_lex c : comp_ok c.
Proof.
  induction c as [nm ap ps ac comps ex IH] using comp_request_ind2.
  intros d Hdl Hv t' Hl. cbn [w_comp_sel] in Hl. apply lexvar_elem_inv in Hl. destruct Hl as (a' & k' & -> & Ha & Hk).
  change (negb (pcdata (cn "comp"))) with true in Hk.
  rewrite u_comp_eq. rewrite chk_lt by lia. rewrite name_eqb_refl. cbn [negb].
  cbn [need_comp] in Hdl.
  rewrite (fold_attrs_name wcomp_set _ _ _ _ wcomp_set_inert Ha) by (cbn; tauto).
  unfold wcomp_set, zero_wcomp. change (String.eqb "name" "name") with true. cbv iota.
  rewrite fold_res_elems by apply comp_kid_skip.
  cbn [valid_comp_sel] in Hv.
  apply andb_true_iff in Hv. destruct Hv as [Hv Hcs].
  apply andb_true_iff in Hv. destruct Hv as [Hv Hex].
  apply andb_true_iff in Hv. destruct Hv as [Hap Hac].
  destruct ex; [discriminate |].
  assert (Hk0 : forallb is_elem ((if ap then [Elem (cn "allprop") [] []] else map w_cprop ps)
                                 ++ (if ac then [Elem (cn "allcomp") [] []] else map w_comp_sel comps)) = true).
  { rewrite forallb_app. apply andb_true_iff. split.
    - destruct ap; [reflexivity |]. now apply forallb_map_elem.
    - destruct ac; [reflexivity |]. apply forallb_map_elem. apply w_comp_sel_is_elem. }
  destruct (kids_var_econtent _ _ Hk Hk0) as [_ Hf].
  apply Forall2_app_inv_l in Hf. destruct Hf as (l1 & l2 & Hf1 & Hf2 & ->).
  rewrite fold_res_app.
  assert (H1 : fold_res (comp_kid d) l1 (WComp nm false [] false []) = Ok (WComp nm ap ps false [])).
  { destruct ap.
    - destruct ps; [|discriminate]. inv_f2. cbn [orb] in Hdl.
      match goal with H : lexvar (Elem _ [] []) _ |- _ => apply flag_inv in H; destruct H as (a1 & k1 & ->) end.
      cbn [fold_res comp_kid]. change (local_is (cn "allprop") "allprop") with true. cbv iota.
      unfold flag_at. rewrite chk_lt by lia. reflexivity.
    - destruct ps as [|p0 ps]; [cbn [map] in Hf1; inv_f2; reflexivity |].
      now rewrite (fold_cprops d _ ltac:(lia) _ nm false [] false [] Hf1). }
  rewrite H1. cbv beta iota.
  destruct ac.
  - destruct comps; [|discriminate]. inv_f2. rewrite orb_true_r in Hdl.
    match goal with H : lexvar (Elem _ [] []) _ |- _ => apply flag_inv in H; destruct H as (a1 & k1 & ->) end.
    cbn [fold_res comp_kid].
    change (local_is (cn "allcomp") "allprop") with false.
    change (local_is (cn "allcomp") "prop") with false.
    change (local_is (cn "allcomp") "allcomp") with true. cbv iota.
    unfold flag_at. rewrite chk_lt by lia.
    eexists. split; [reflexivity |]. cbn [decode_comp].
    destruct ap; [destruct ps; [|discriminate] |]; reflexivity.
  - destruct (fold_comps d _ IH ltac:(lia) Hcs _ nm ap ps false [] Hf2) as (wcs & -> & Hmc).
    eexists. split; [reflexivity |]. cbn [decode_comp app andb].
    destruct ap; [destruct ps; [|discriminate] |]; cbn [andb negb List.length Nat.eqb]; rewrite Hmc; reflexivity.
Qed.

Lemma w_comp_sel_expand c : w_comp_sel (set_expand c None) = w_comp_sel c.
Proof. now destruct c. Qed.

Lemma wcd_kid_skip d w t : is_elem t = false -> wcd_kid d w t = Ok w.
Proof. destruct t; cbn; [discriminate | reflexivity | reflexivity]. Qed.

Lemma need_comp_expand c : need_comp (set_expand c None) = need_comp c.
Proof. now destruct c. Qed.

Lemma u_caldata_lex d c t' :
  (d + 1 + need_comp c < MAXD)%N ->
  valid_cr c = true -> lexvar (w_caldata c) t' ->
  exists cd, u_cal_data_req d zero_wcd t' = Ok cd /\ decode_calendar_data_req cd = Ok c.
Proof.
  intros Hdl Hv Hl. apply lexvar_elem_inv in Hl. destruct Hl as (a' & k' & -> & Ha & Hk).
  change (negb (pcdata (cn "calendar-data"))) with true in Hk.
  unfold u_cal_data_req. rewrite chk_lt by lia. rewrite name_eqb_refl. cbn [negb].
  rewrite fold_res_elems by apply wcd_kid_skip.
  unfold valid_cr in Hv. apply andb_true_iff in Hv. destruct Hv as [Hc Hex].
  assert (Hk0 : forallb is_elem (w_comp_sel c :: opt_list w_expand_el (cr_expand c)) = true).
  { cbn. rewrite w_comp_sel_is_elem. now destruct (cr_expand c). }
  destruct (kids_var_econtent _ _ Hk Hk0) as [_ Hf]. inversion Hf as [|x y l l' Hx Hl]; subst. clear Hf.
  rewrite <- w_comp_sel_expand in Hx.
  pose proof Hx as Hx'. apply (u_comp_lex (set_expand c None) (d + 1)%N ltac:(rewrite need_comp_expand; lia) Hc) in Hx. destruct Hx as (wc & Hu & Hd).
  rewrite w_comp_sel_expand in Hx'. destruct c as [nm ap ps ac cs ex].
  cbn [w_comp_sel] in Hx'. apply lexvar_elem_inv in Hx'. destruct Hx' as (a1 & k1 & -> & _).
  cbn [fold_res wcd_kid]. change (local_is (cn "comp") "comp") with true. cbv iota.
  cbn [wcd_comp zero_wcd opt_default]. rewrite Hu.
  cbn [cr_expand] in *. destruct ex as [[s e]|]; cbn [opt_list] in Hl; inv_f2.
  - apply andb_true_iff in Hex. destruct Hex as [Hs He].
    match goal with H : lexvar (w_expand_el _) _ |- _ =>
      pose proof H as Hl; apply (u_expand_lex (d + 1) _ _ _ ltac:(lia) Hs He) in H; rename H into Hue;
      apply lexvar_elem_inv in Hl; destruct Hl as (a2 & k2 & -> & _) end.
    cbn [fold_res wcd_kid].
    change (local_is (cn "expand") "comp") with false.
    change (local_is (cn "expand") "expand") with true. cbv iota.
    cbn [wcd_expand wcd_comp zero_wcd opt_default]. rewrite Hue.
    eexists. split; [reflexivity |]. unfold decode_calendar_data_req. cbn [wcd_comp wcd_expand].
    rewrite Hd. reflexivity.
  - eexists. split; [reflexivity |]. unfold decode_calendar_data_req. cbn [wcd_comp wcd_expand].
    rewrite Hd. reflexivity.
Qed.

(** calendar-data without comp: the whole object *)
Lemma u_caldata_nc_lex d e t' :
  (d + 1 < MAXD)%N ->
  match e with Some (s, e') => utc_ok s && utc_ok e' | None => true end = true ->
  lexvar (w_caldata_nc e) t' ->
  exists cd, u_cal_data_req d zero_wcd t' = Ok cd /\ decode_calendar_data_req cd = Ok (whole_cr e).
Proof.
  intros Hdl Hex Hl. apply lexvar_elem_inv in Hl. destruct Hl as (a' & k' & -> & Ha & Hk).
  change (negb (pcdata (cn "calendar-data"))) with true in Hk.
  unfold u_cal_data_req. rewrite chk_lt by lia. rewrite name_eqb_refl. cbn [negb].
  rewrite fold_res_elems by apply wcd_kid_skip.
  assert (Hk0 : forallb is_elem (opt_list w_expand_el e) = true) by (now destruct e).
  destruct (kids_var_econtent _ _ Hk Hk0) as [_ Hf].
  destruct e as [[s e']|]; cbn [opt_list] in Hf; inv_f2.
  - apply andb_true_iff in Hex. destruct Hex as [Hs He].
    match goal with H : lexvar (w_expand_el _) _ |- _ =>
      pose proof H as Hl; apply (u_expand_lex (d + 1) _ _ _ ltac:(lia) Hs He) in H; rename H into Hue;
      apply lexvar_elem_inv in Hl; destruct Hl as (a2 & k2 & -> & _) end.
    cbn [fold_res wcd_kid].
    change (local_is (cn "expand") "comp") with false.
    change (local_is (cn "expand") "expand") with true. cbv iota.
    cbn [wcd_expand wcd_comp zero_wcd opt_default]. rewrite Hue.
    eexists. split; reflexivity.
  - eexists. split; reflexivity.
Qed.

Lemma plain_caldata_nc e : plain_b (w_caldata_nc e) = true.
Proof. destruct e as [[s e']|]; reflexivity. Qed.

(** written trees carry no declarations or foreign attributes *)
Lemma plain_comp_sel c : plain_b (w_comp_sel c) = true.
Proof.
  induction c as [nm ap ps ac comps ex IH] using comp_request_ind2. cbn [w_comp_sel plain_b].
  apply andb_true_iff. split; [reflexivity |]. rewrite forallb_app. apply andb_true_iff. split.
  - destruct ap; [reflexivity |]. apply forallb_forall. intros x Hin. apply in_map_iff in Hin.
    destruct Hin as (y & <- & _). reflexivity.
  - destruct ac; [reflexivity |]. apply forallb_forall. intros x Hin. apply in_map_iff in Hin.
    destruct Hin as (y & <- & Hy). rewrite Forall_forall in IH. now apply IH.
Qed.

Lemma plain_caldata c : plain_b (w_caldata c) = true.
Proof.
  unfold w_caldata. cbn [plain_b forallb andb]. rewrite plain_comp_sel.
  destruct (cr_expand c) as [[s e]|]; reflexivity.
Qed.

Lemma dprop_kid_skip d w t : is_elem t = false -> dprop_kid d w t = Ok w.
Proof. destruct t; cbn; [discriminate | reflexivity | reflexivity]. Qed.

(** DAV:prop around any calendar-data element [X] whose variants decode to [c] *)
Definition caldata_for (X : xtree) (c : comp_request) : Prop :=
  (exists a0 k0, X = Elem (cn "calendar-data") a0 k0) /\ plain_b X = true
  /\ forall t', lexvar X t' ->
      exists cd, u_cal_data_req 0 zero_wcd t' = Ok cd /\ decode_calendar_data_req cd = Ok c.

Lemma u_dprop_x_lex d X c t' :
  caldata_for X c -> (d + 2 < MAXD)%N -> lexvar (w_dprop_x X) t' ->
  exists raws, u_dprop d [] t' = Ok raws /\ decode_prop_caldata (Some raws) = Ok c.
Proof.
  intros ((a0 & k0 & ->) & Hpl & HX) Hdl Hl. apply lexvar_elem_inv in Hl. destruct Hl as (a' & k' & -> & Ha & Hk).
  change (negb (pcdata (dn "prop"))) with true in Hk.
  unfold u_dprop. rewrite chk_lt by lia. rewrite name_eqb_refl. cbn [negb].
  rewrite fold_res_elems by apply dprop_kid_skip.
  destruct (kids_var_econtent _ _ Hk eq_refl) as [_ Hf]. inv_f2.
  match goal with H : lexvar (Elem (dn "getetag") _ _) _ |- _ =>
    apply lexvar_elem_inv in H; destruct H as (a1 & k1 & -> & _) end.
  match goal with H : lexvar (Elem (cn "calendar-data") a0 k0) _ |- _ =>
    pose proof H as Hl; apply lexvar_strip in H; [|exact Hpl];
    apply HX in H; destruct H as (cd & Hu & Hd);
    apply lexvar_elem_inv in Hl; destruct Hl as (a2 & k2 & -> & _) end.
  cbn [fold_res dprop_kid app]. rewrite !chk_lt by lia. cbv beta iota. eexists. split; [reflexivity |].
  unfold decode_prop_caldata.
  change (strip_decls (strip_foreign (Elem (cn "calendar-data") a2 k2))) with (strip (Elem (cn "calendar-data") a2 k2)).
  cbn [find strip_foreign strip_decls is_caldata].
  change (name_eqb (dn "getetag") (cn "calendar-data")) with false. cbv iota.
  unfold strip in Hu |- *. cbn [strip_foreign strip_decls] in Hu |- *.
  cbn [app find is_caldata].
  change (name_eqb (dn "getetag") (cn "calendar-data")) with false. rewrite name_eqb_refl. cbv iota.
  rewrite Hu. exact Hd.
Qed.

Lemma caldata_for_comp c : (1 + need_comp c < MAXD)%N -> valid_cr c = true -> caldata_for (w_caldata c) c.
Proof.
  intros Hn Hv. split; [unfold w_caldata; eauto |]. split; [apply plain_caldata |].
  intros t' Hl. apply (u_caldata_lex 0 c _ ltac:(lia) Hv Hl).
Qed.

Lemma caldata_for_nc e :
  match e with Some (s, e') => utc_ok s && utc_ok e' | None => true end = true ->
  caldata_for (w_caldata_nc e) (whole_cr e).
Proof.
  intros He. split; [unfold w_caldata_nc; eauto |]. split; [apply plain_caldata_nc |].
  intros t' Hl. apply (u_caldata_nc_lex 0 e _ ltac:(reflexivity) He Hl).
Qed.

Lemma u_dprop_lex d c t' :
  (d + 2 < MAXD)%N -> (1 + need_comp c < MAXD)%N ->
  valid_cr c = true -> lexvar (w_dprop c) t' ->
  exists raws, u_dprop d [] t' = Ok raws /\ decode_prop_caldata (Some raws) = Ok c.
Proof. intros Hd Hn Hv Hl. exact (u_dprop_x_lex d _ c t' (caldata_for_comp c Hn Hv) Hd Hl). Qed.

Lemma filter_kid_skip d w t : is_elem t = false -> filter_kid d w t = Ok w.
Proof. destruct t; cbn; [discriminate | reflexivity | reflexivity]. Qed.

Lemma u_filter_lex d f t' :
  (d + 1 + need_cf f < MAXD)%N ->
  valid_cf f = true -> lexvar (Elem (cn "filter") [] [w_cf f]) t' ->
  exists w, u_filter d zero_wcf t' = Ok w /\ decode_comp_filter w = Ok f.
Proof.
  intros Hdl Hv Hl. apply lexvar_elem_inv in Hl. destruct Hl as (a' & k' & -> & Ha & Hk).
  change (negb (pcdata (cn "filter"))) with true in Hk.
  unfold u_filter. rewrite chk_lt by lia. rewrite name_eqb_refl. cbn [negb].
  rewrite fold_res_elems by apply filter_kid_skip.
  assert (Hk0 : forallb is_elem [w_cf f] = true) by (cbn; now rewrite w_cf_is_elem).
  destruct (kids_var_econtent _ _ Hk Hk0) as [_ Hf]. inv_f2.
  match goal with H : lexvar (w_cf f) _ |- _ =>
    pose proof H as Hl; apply (u_cf_lex f (d + 1)%N ltac:(lia) Hv) in H; destruct H as (w & Hu & Hd);
    destruct f; apply lexvar_elem_inv in Hl; destruct Hl as (a1 & k1 & -> & _) end.
  cbn [fold_res filter_kid]. change (local_is (cn "comp-filter") "comp-filter") with true. cbv iota.
  rewrite Hu. eauto.
Qed.

(** * The two reports *)
Section Top.
Variable href_fmt : string -> string.
Variable href_parse : string -> option string.

Lemma wq_kid_skip d w t : is_elem t = false -> wq_kid d w t = Ok w.
Proof. destruct t; cbn; [discriminate | reflexivity | reflexivity]. Qed.
Lemma wm_kid_skip d w t : is_elem t = false -> wm_kid href_parse d w t = Ok w.
Proof. destruct t; cbn; [discriminate | reflexivity | reflexivity]. Qed.

Lemma u_href_lex d p t' :
  (d < MAXD)%N ->
  valid_path href_fmt href_parse p = true -> lexvar (w_href href_fmt p) t' -> u_href href_parse d t' = Ok p.
Proof.
  intros Hdl Hv Hl. apply lexvar_elem_inv in Hl. destruct Hl as (a' & k' & -> & Ha & Hk).
  change (negb (pcdata (dn "href"))) with false in Hk.
  unfold u_href. rewrite (chk_lt _ _ Hdl). rewrite (kids_var_text _ _ _ Hk eq_refl), text_of_text_kids.
  unfold valid_path in Hv. destruct (href_parse (href_fmt p)); [|discriminate].
  apply String.eqb_eq in Hv. now subst.
Qed.

Lemma fold_hrefs d ps :
  (d + 2 < MAXD)%N ->
  forallb (valid_path href_fmt href_parse) ps = true ->
  forall rest' w, Forall2 lexvar (map (w_href href_fmt) ps) rest' ->
  fold_res (wm_kid href_parse d) rest' w =
  Ok {| wm_prop := wm_prop w; wm_allprop := wm_allprop w; wm_propname := wm_propname w;
        wm_hrefs := wm_hrefs w ++ ps |}.
Proof.
  intros Hdl. induction ps as [|p ps IH]; intros Hv rest' w Hf; cbn [map] in Hf; inv_f2.
  - rewrite app_nil_r. now destruct w.
  - cbn [forallb] in Hv. apply andb_true_iff in Hv. destruct Hv as [Hp Hps].
    match goal with H : lexvar (w_href _ p) _ |- _ =>
      pose proof H as Hl; apply (u_href_lex (d + 2) _ _ Hdl Hp) in H; rename H into Hu;
      apply lexvar_elem_inv in Hl; destruct Hl as (a1 & k1 & -> & _) end.
    cbn [fold_res wm_kid].
    change (name_eqb (dn "href") (dn "prop")) with false.
    change (name_eqb (dn "href") (dn "allprop")) with false.
    change (name_eqb (dn "href") (dn "propname")) with false.
    change (name_eqb (dn "href") (dn "href")) with true. cbv iota. rewrite chk_lt by lia. rewrite Hu.
    match goal with HF : Forall2 lexvar (map _ ps) _ |- _ => rewrite (IH Hps _ _ HF) end.
    cbn [wm_prop wm_allprop wm_propname wm_hrefs]. now rewrite <- app_assoc.
Qed.

Lemma MAXD_big : (16 < MAXD)%N.
Proof. reflexivity. Qed.

Definition valid_rest (r : request) : bool :=
  match r with
  | RQuery q => valid_cf (q_cf q)
  | RMultiget m => negb (Nat.eqb (List.length (mg_paths m)) 0) && forallb (valid_path href_fmt href_parse) (mg_paths m)
  end.
Definition fits_rest (r : request) : bool :=
  match r with RQuery q => N.ltb (2 + need_cf (q_cf q)) MAXD | RMultiget _ => true end.

Theorem server_denotes_x path r X doc :
  caldata_for X (req_cr r) -> valid_rest r = true -> fits_rest r = true ->
  lexvar (rfc_write_x href_fmt X r) doc ->
  handle_report href_parse path doc = Ok (backend_call_of path r).
Proof.
  pose proof MAXD_big as HM.
  intros HX Hv Hfit Hl. destruct r as [q|m]; cbn [rfc_write_x valid_rest fits_rest backend_call_of req_cr] in *.
  - rename Hv into Hcf. apply N.ltb_lt in Hfit.
    apply lexvar_elem_inv in Hl. destruct Hl as (a' & k' & -> & Ha & Hk).
    change (negb (pcdata (cn "calendar-query"))) with true in Hk.
    unfold handle_report. rewrite name_eqb_refl. unfold u_calendar_query. rewrite chk_lt by lia.
    rewrite name_eqb_refl. cbn [negb].
    rewrite fold_res_elems by apply wq_kid_skip.
    destruct (kids_var_econtent _ _ Hk eq_refl) as [_ Hf]. inv_f2.
    match goal with H : lexvar (w_dprop_x _) _ |- _ =>
      pose proof H as Hl; apply (u_dprop_x_lex (0 + 1) X (q_cr q) _ HX ltac:(lia)) in H; destruct H as (raws & Hu & Hd);
      apply lexvar_elem_inv in Hl; destruct Hl as (a1 & k1 & -> & _) end.
    match goal with H : lexvar (Elem (cn "filter") _ _) _ |- _ =>
      pose proof H as Hl; apply (u_filter_lex (0 + 1) (q_cf q) _ ltac:(lia) Hcf) in H; destruct H as (wf & Huf & Hdf);
      apply lexvar_elem_inv in Hl; destruct Hl as (a2 & k2 & -> & _) end.
    cbn [fold_res wq_kid]. rewrite name_eqb_refl. cbn [wq_prop zero_wq opt_default]. rewrite Hu.
    change (name_eqb (cn "filter") (dn "prop")) with false.
    change (name_eqb (cn "filter") (dn "allprop")) with false.
    change (name_eqb (cn "filter") (dn "propname")) with false.
    change (local_is (cn "filter") "filter") with true. cbv iota.
    cbn [wq_filter zero_wq]. rewrite Huf.
    unfold handle_query. cbn [wq_prop wq_filter]. rewrite Hd, Hdf. now destruct q.
  - apply andb_true_iff in Hv. destruct Hv as [Hne Hps].
    apply lexvar_elem_inv in Hl. destruct Hl as (a' & k' & -> & Ha & Hk).
    change (negb (pcdata (cn "calendar-multiget"))) with true in Hk.
    unfold handle_report.
    change (name_eqb (cn "calendar-multiget") (cn "calendar-query")) with false.
    rewrite name_eqb_refl. unfold u_multiget. rewrite chk_lt by lia. rewrite name_eqb_refl. cbn [negb].
    rewrite fold_res_elems by apply wm_kid_skip.
    assert (Hk0 : forallb is_elem (w_dprop_x X :: map (w_href href_fmt) (mg_paths m)) = true).
    { cbn. now apply forallb_map_elem. }
    destruct (kids_var_econtent _ _ Hk Hk0) as [_ Hf]. inversion Hf as [|x y l l' Hx Hl]; subst. clear Hf.
    pose proof Hx as Hx'. apply (u_dprop_x_lex (0 + 1) X (mg_cr m) _ HX ltac:(lia)) in Hx. destruct Hx as (raws & Hu & Hd).
    apply lexvar_elem_inv in Hx'. destruct Hx' as (a1 & k1 & -> & _).
    cbn [fold_res wm_kid]. rewrite name_eqb_refl. cbn [wm_prop zero_wm opt_default]. rewrite Hu.
    rewrite (fold_hrefs 0 _ ltac:(lia) Hps _ _ Hl). cbn [wm_prop wm_hrefs zero_wm app].
    unfold handle_multiget. cbn [wm_prop wm_hrefs]. rewrite Hd. reflexivity.
Qed.

Lemma valid_split r :
  valid href_fmt href_parse r = true -> valid_cr (req_cr r) = true /\ valid_rest r = true.
Proof.
  destruct r as [q|m]; cbn [valid req_cr valid_rest]; intros H.
  - apply andb_true_iff in H. exact H.
  - apply andb_true_iff in H. destruct H as [H Hps]. apply andb_true_iff in H. destruct H as [Hcr Hne].
    split; [exact Hcr |]. now rewrite Hne, Hps.
Qed.

Lemma fits_split r :
  fits_request r = true -> (1 + need_comp (req_cr r) < MAXD)%N /\ fits_rest r = true.
Proof.
  destruct r as [q|m]; cbn [fits_request req_cr fits_rest]; intros H.
  - apply andb_true_iff in H. destruct H as [H1 H2]. apply N.ltb_lt in H1. auto.
  - apply N.ltb_lt in H. auto.
Qed.

Lemma rfc_write_as_x r : rfc_write href_fmt r = rfc_write_x href_fmt (w_caldata (req_cr r)) r.
Proof. destruct r; reflexivity. Qed.

Theorem server_denotes path r doc :
  valid href_fmt href_parse r = true -> fits_request r = true ->
  lexvar (rfc_write href_fmt r) doc ->
  handle_report href_parse path doc = Ok (backend_call_of path r).
Proof.
  intros Hv Hfit Hl. rewrite rfc_write_as_x in Hl.
  destruct (valid_split _ Hv) as [Hcr Hr]. destruct (fits_split _ Hfit) as [Hn Hfr].
  exact (server_denotes_x path r _ doc (caldata_for_comp _ Hn Hcr) Hr Hfr Hl).
Qed.

(** the same request written without comp (possible when it asks for the whole object) *)
Lemma whole_eq c : is_whole c = true -> c = whole_cr (cr_expand c).
Proof.
  destruct c as [nm ap ps ac cs ex]. cbn. intros H.
  repeat (apply andb_true_iff in H; destruct H as [H ?]).
  apply str_empty_spec in H. destruct ps; [|discriminate]. destruct cs; [|discriminate]. now subst.
Qed.

Theorem server_denotes_nc path r doc :
  valid href_fmt href_parse r = true -> fits_request r = true -> is_whole (req_cr r) = true ->
  lexvar (rfc_write_nc href_fmt r) doc ->
  handle_report href_parse path doc = Ok (backend_call_of path r).
Proof.
  intros Hv Hfit Hw Hl. unfold rfc_write_nc in Hl.
  destruct (valid_split _ Hv) as [Hcr Hr]. destruct (fits_split _ Hfit) as [Hn Hfr].
  apply (server_denotes_x path r (w_caldata_nc (cr_expand (req_cr r))) doc); try assumption.
  rewrite (whole_eq _ Hw) at 2. apply caldata_for_nc.
  unfold valid_cr in Hcr. apply andb_true_iff in Hcr. destruct Hcr as [_ He].
  destruct (cr_expand (req_cr r)) as [[s e]|]; assumption.
Qed.

End Top.
