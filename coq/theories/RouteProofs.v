(** RouteProofs.v — proofs about the model of Route.v (property C12). *)
From GW Require Import Base Route.

Local Open Scope string_scope.

(** * Strings *)

Lemma append_nil_r (s : string) : s ++ "" = s.
Proof. induction s; simpl; congruence. Qed.

Lemma append_assoc (a b c : string) : (a ++ b) ++ c = a ++ (b ++ c).
Proof. induction a; simpl; congruence. Qed.

Lemma slash_eqb : Ascii.eqb slash slash = true.
Proof. reflexivity. Qed.

Lemma has_prefix_app (a b : string) : has_prefix (a ++ b) a = true.
Proof. induction a; simpl; [reflexivity|]. rewrite Ascii.eqb_refl. exact IHa. Qed.

Lemma drop_app (a b : string) : drop (String.length a) (a ++ b) = b.
Proof. induction a; simpl; auto. Qed.

Lemma trim_prefix_app (a b : string) : trim_prefix (a ++ b) a = b.
Proof. unfold trim_prefix. rewrite has_prefix_app. apply drop_app. Qed.

Lemma trim_prefix_self (a : string) : trim_prefix a a = "".
Proof. pose proof (trim_prefix_app a "") as H. rewrite append_nil_r in H. exact H. Qed.

Lemma trim_prefix_nil (s : string) : trim_prefix s "" = s.
Proof. unfold trim_prefix. simpl. destruct s; reflexivity. Qed.

Lemma trim_slash_cons c (r : string) : r <> "" -> trim_slash (String c r) = String c (trim_slash r).
Proof. destruct r; [congruence|reflexivity]. Qed.

Lemma app_slash_ne (r : string) : r ++ "/" <> "".
Proof. destruct r; discriminate. Qed.

Lemma trim_slash_app_slash (s : string) : trim_slash (s ++ "/") = s.
Proof.
  induction s as [|c r IH]; [reflexivity|].
  change (String c r ++ "/") with (String c (r ++ "/")).
  rewrite trim_slash_cons by apply app_slash_ne. rewrite IH. reflexivity.
Qed.

(** a string that does not end with a slash *)
Fixpoint ends_slash (s : string) : bool :=
  match s with
  | EmptyString => false
  | String c r => match r with EmptyString => Ascii.eqb c slash | _ => ends_slash r end
  end.

Lemma trim_slash_id (s : string) : ends_slash s = false -> trim_slash s = s.
Proof.
  induction s as [|c r IH]; [reflexivity|].
  simpl. destruct r.
  - intros ->. reflexivity.
  - intros H. rewrite IH; auto.
Qed.

Lemma ends_slash_app (a b : string) : b <> "" -> ends_slash (a ++ b) = ends_slash b.
Proof.
  intros Hb. induction a as [|c r IH]; [reflexivity|].
  simpl. destruct (r ++ b) eqn:E.
  - destruct r; simpl in E; [contradiction|discriminate].
  - exact IH.
Qed.

Lemma no_slash_ends (s : string) : no_slash s = true -> ends_slash s = false.
Proof.
  induction s as [|c r IH]; [reflexivity|].
  simpl. intros H. apply andb_prop in H. destruct H as [Hc Hr].
  destruct r.
  - destruct (Ascii.eqb c slash); [discriminate|reflexivity].
  - auto.
Qed.

(** * Segments *)

Lemma seg_ok_inv s : seg_ok s = true ->
  no_slash s = true /\ s <> "" /\ s <> "." /\ s <> "..".
Proof.
  unfold seg_ok. intros H.
  repeat (apply andb_prop in H; destruct H as [H ?]).
  repeat split; auto; intros ->; discriminate.
Qed.

Lemma segs_ok_cons s l : segs_ok (s :: l) = true <-> seg_ok s = true /\ segs_ok l = true.
Proof. unfold segs_ok. simpl. apply andb_true_iff. Qed.

Lemma segs_ok_app a b : segs_ok (a ++ b)%list = true <-> segs_ok a = true /\ segs_ok b = true.
Proof.
  unfold segs_ok. rewrite forallb_app. apply andb_true_iff.
Qed.

Lemma join_app (a b : list string) : join (a ++ b)%list = join a ++ join b.
Proof.
  induction a as [|s r IH]; [reflexivity|].
  simpl. rewrite IH. rewrite append_assoc. reflexivity.
Qed.

Lemma join_cons_ne s l : join (s :: l) <> "".
Proof. simpl. discriminate. Qed.

Lemma ends_slash_join (l : list string) : segs_ok l = true -> ends_slash (join l) = false.
Proof.
  induction l as [|s r IH]; [reflexivity|].
  intros H. apply segs_ok_cons in H. destruct H as [Hs Hr].
  apply seg_ok_inv in Hs. destruct Hs as (Hns & Hne & _).
  change (join (s :: r)) with ("/" ++ (s ++ join r)).
  destruct r as [|s' r'].
  - simpl join. rewrite append_nil_r. rewrite ends_slash_app by exact Hne.
    apply no_slash_ends. exact Hns.
  - rewrite ends_slash_app.
    + rewrite ends_slash_app by apply join_cons_ne. apply IH. exact Hr.
    + destruct s; [contradiction|discriminate].
Qed.

Lemma trim_slash_spell (ps : list string) (t : bool) :
  segs_ok ps = true -> trim_slash (spell_prefix ps t) = join ps.
Proof.
  intros H. unfold spell_prefix. destruct t.
  - apply trim_slash_app_slash.
  - rewrite append_nil_r. apply trim_slash_id. apply ends_slash_join. exact H.
Qed.

(** * strings.Split on joined segments *)

Lemma split_no_slash (s : string) : no_slash s = true -> split_slash s = [s].
Proof.
  induction s as [|c r IH]; [reflexivity|].
  simpl. intros H. apply andb_prop in H. destruct H as [Hc Hr].
  destruct (Ascii.eqb c slash); [discriminate|].
  rewrite IH by exact Hr. reflexivity.
Qed.

Lemma split_app_slash (s t : string) :
  no_slash s = true -> split_slash (s ++ String slash t) = s :: split_slash t.
Proof.
  induction s as [|c r IH]; intros H.
  - simpl. reflexivity.
  - simpl in H. apply andb_prop in H. destruct H as [Hc Hr].
    simpl. destruct (Ascii.eqb c slash); [discriminate|].
    rewrite IH by exact Hr. reflexivity.
Qed.

Definition all_no_slash (l : list string) : bool := forallb no_slash l.

Lemma segs_ok_no_slash l : segs_ok l = true -> all_no_slash l = true.
Proof.
  unfold segs_ok, all_no_slash. intros H. apply forallb_forall. intros x Hx.
  rewrite forallb_forall in H. specialize (H x Hx). apply seg_ok_inv in H. tauto.
Qed.

Lemma split_join (l : list string) : forall s,
  no_slash s = true -> all_no_slash l = true ->
  split_slash (s ++ join l) = s :: l.
Proof.
  induction l as [|x r IH]; intros s Hs Hl.
  - simpl. rewrite append_nil_r. apply split_no_slash. exact Hs.
  - simpl in Hl. apply andb_prop in Hl. destruct Hl as [Hx Hr].
    change (join (x :: r)) with (String slash (x ++ join r)).
    rewrite split_app_slash by exact Hs.
    rewrite IH by assumption. reflexivity.
Qed.

Lemma split_join_slash (l : list string) : forall s,
  no_slash s = true -> all_no_slash l = true ->
  split_slash (s ++ join l ++ "/") = (s :: l ++ [""])%list.
Proof.
  induction l as [|x r IH]; intros s Hs Hl.
  - simpl. change "/" with (String slash ""). rewrite split_app_slash by exact Hs. reflexivity.
  - simpl in Hl. apply andb_prop in Hl. destruct Hl as [Hx Hr].
    replace (join (x :: r) ++ "/") with (String slash (x ++ join r ++ "/"))
      by (simpl; rewrite append_assoc; reflexivity).
    rewrite split_app_slash by exact Hs. rewrite IH by assumption. reflexivity.
Qed.

Lemma split_join0 (l : list string) : all_no_slash l = true -> split_slash (join l) = "" :: l.
Proof. intros H. change (join l) with ("" ++ join l). apply split_join; auto. Qed.

Lemma split_join_slash0 (l : list string) :
  all_no_slash l = true -> split_slash (join l ++ "/") = ("" :: l ++ [""])%list.
Proof. intros H. change (join l ++ "/") with ("" ++ join l ++ "/"). apply split_join_slash; auto. Qed.

(** * path.Clean on joined segments *)

Lemma clean_step_ok r st s : seg_ok s = true -> clean_step r st s = s :: st.
Proof.
  intros H. apply seg_ok_inv in H. destruct H as (_ & H1 & H2 & H3).
  unfold clean_step.
  apply String.eqb_neq in H1, H2, H3. rewrite H1, H2, H3. reflexivity.
Qed.

Lemma clean_step_empty r st : clean_step r st "" = st.
Proof. reflexivity. Qed.

Lemma fold_clean_skip r l st : fold_left (clean_step r) ("" :: l) st = fold_left (clean_step r) l st.
Proof. reflexivity. Qed.

Lemma fold_clean_ok r (l : list string) : forall st,
  segs_ok l = true -> fold_left (clean_step r) l st = (rev l ++ st)%list.
Proof.
  induction l as [|s t IH]; intros st H; [reflexivity|].
  apply segs_ok_cons in H. destruct H as [Hs Ht].
  simpl. rewrite clean_step_ok by exact Hs. rewrite IH by exact Ht.
  rewrite <- app_assoc. reflexivity.
Qed.

Lemma concat_join (l : list string) : l <> [] -> "/" ++ String.concat "/" l = join l.
Proof.
  induction l as [|s r IH]; [congruence|]. intros _.
  destruct r as [|s' r'].
  - simpl. rewrite append_nil_r. reflexivity.
  - change (String.concat "/" (s :: s' :: r')) with (s ++ "/" ++ String.concat "/" (s' :: r')).
    rewrite IH by discriminate. reflexivity.
Qed.

Lemma clean_join (l : list string) (t : bool) :
  l <> [] -> segs_ok l = true ->
  clean (join l ++ (if t then "/" else "")) = join l.
Proof.
  intros Hne H. unfold clean.
  destruct l as [|s r]; [congruence|].
  assert (Hp : exists rest, join (s :: r) ++ (if t then "/" else "") = String slash rest).
  { simpl. eexists. reflexivity. }
  destruct Hp as [rest Hp]. rewrite Hp.
  cbn [String.eqb].
  replace (String.eqb (String slash rest) "") with false by reflexivity.
  replace (has_prefix (String slash rest) "/") with true by reflexivity.
  rewrite <- Hp.
  assert (Hsplit : fold_left (clean_step true) (split_slash (join (s :: r) ++ (if t then "/" else ""))) []
                   = rev (s :: r)).
  { destruct t.
    - rewrite (split_join_slash0 (s :: r) (segs_ok_no_slash _ H)).
      rewrite fold_clean_skip.
      rewrite fold_left_app. rewrite (fold_clean_ok true (s :: r)) by exact H.
      rewrite fold_clean_skip. cbn [fold_left]. apply app_nil_r.
    - rewrite append_nil_r.
      rewrite (split_join0 (s :: r) (segs_ok_no_slash _ H)).
      rewrite fold_clean_skip.
      rewrite fold_clean_ok by exact H. apply app_nil_r. }
  rewrite Hsplit. rewrite rev_involutive.
  apply concat_join. discriminate.
Qed.

Lemma clean_root : clean "/" = "/".
Proof. reflexivity. Qed.

(** * C12_depth_only *)

Lemma clean_req_path ps rs t :
  segs_ok ps = true -> segs_ok rs = true ->
  clean (req_path ps rs t) = match (ps ++ rs)%list with [] => "/" | l => join l end.
Proof.
  intros Hp Hr. unfold req_path.
  destruct (ps ++ rs)%list as [|s l] eqn:E; [reflexivity|].
  apply clean_join; [discriminate|].
  rewrite <- E. apply segs_ok_app. split; assumption.
Qed.

Lemma level_of_join (prefix_segs rs : list string) :
  segs_ok prefix_segs = true -> segs_ok rs = true ->
  let p := trim_prefix (match (prefix_segs ++ rs)%list with [] => "/" | l => join l end) (join prefix_segs) in
  let p := if has_prefix p "/" then p else "/" ++ p in
  (if String.eqb p "/" then 0 else List.length (split_slash p) - 1) = List.length rs.
Proof.
  intros Hp Hr.
  destruct rs as [|x r].
  - rewrite app_nil_r. destruct prefix_segs as [|s l].
    + reflexivity.
    + cbv zeta. cbn [app]. rewrite trim_prefix_self. reflexivity.
  - assert (E : (match (prefix_segs ++ x :: r)%list with [] => "/" | l => join l end)
                = join prefix_segs ++ join (x :: r)).
    { rewrite <- join_app. destruct (prefix_segs ++ x :: r)%list eqn:E; [|reflexivity].
      destruct prefix_segs; discriminate. }
    cbv zeta. rewrite E. rewrite trim_prefix_app.
    apply segs_ok_cons in Hr. destruct Hr as [Hx Hr'].
    pose proof (seg_ok_inv _ Hx) as (Hxs & Hxne & _).
    replace (has_prefix (join (x :: r)) "/") with true by reflexivity.
    assert (Hne : String.eqb (join (x :: r)) "/" = false).
    { apply String.eqb_neq. simpl. destruct x; [contradiction|discriminate]. }
    rewrite Hne.
    rewrite split_join0.
    + cbn [List.length]. lia.
    + apply segs_ok_no_slash. apply segs_ok_cons. split; assumption.
Qed.

(** The depth of a request path below the prefix, and nothing else, is its
    resource type: any number of prefix segments, any segment bytes. *)
Theorem depth_only : forall (ps rs : list string) (ptrail rtrail : bool),
  segs_ok ps = true -> segs_ok rs = true ->
  resource_type_at_path (trim_slash (spell_prefix ps ptrail)) (req_path ps rs rtrail) = List.length rs.
Proof.
  intros ps rs pt rt Hp Hr.
  rewrite trim_slash_spell by exact Hp.
  unfold resource_type_at_path.
  rewrite clean_req_path by assumption.
  apply level_of_join; assumption.
Qed.

(** Without normalisation by the handler: the prefix as "/a/b" (or ""). *)
Corollary depth_only_plain : forall (ps rs : list string) (rtrail : bool),
  segs_ok ps = true -> segs_ok rs = true ->
  resource_type_at_path (join ps) (req_path ps rs rtrail) = List.length rs.
Proof.
  intros ps rs rt Hp Hr.
  pose proof (depth_only ps rs false rt Hp Hr) as H.
  rewrite trim_slash_spell in H by exact Hp. exact H.
Qed.

(** * C12_routing, C12_mkcol, C12_foreign *)

Definition in_layout (s : server) (hprefix : string) (q : request) (ps rs : list string) (pt rt : bool) : Prop :=
  segs_ok ps = true /\ segs_ok rs = true /\
  hprefix = spell_prefix ps pt /\ q_path q = req_path ps rs rt /\ q_path q <> well_known s.

Lemma in_quantifier_spec s hprefix q l :
  in_quantifier s hprefix q l = true <-> in_layout s hprefix q (l_ps l) (l_rs l) (l_ptrail l) (l_rtrail l).
Proof.
  unfold in_quantifier, in_layout.
  rewrite !andb_true_iff, !String.eqb_eq, negb_true_iff, String.eqb_neq. tauto.
Qed.

Lemma serve_level s hprefix q ps rs pt rt :
  in_layout s hprefix q ps rs pt rt ->
  String.eqb (q_path q) (well_known s) = false /\
  resource_type_at_path (trim_slash hprefix) (q_path q) = List.length rs.
Proof.
  intros (Hp & Hr & -> & Hq & Hw). split.
  - apply String.eqb_neq. exact Hw.
  - rewrite Hq. apply depth_only; assumption.
Qed.

Lemma op_eqb_refl o : op_eqb o o = true.
Proof. destruct o; reflexivity. Qed.

Lemma routed_reach o wp path t st hs ex :
  routed_ok (Reach o wp) path {| o_trace := (o, if wp then path else "") :: t; o_status := st; o_hrefs := hs; o_extra := ex |} = true.
Proof. cbn [routed_ok o_trace]. rewrite op_eqb_refl, String.eqb_refl. reflexivity. Qed.

Lemma routed_nocall st path hs ex :
  routed_ok (NoCall st) path {| o_trace := []; o_status := st; o_hrefs := hs; o_extra := ex |} = true.
Proof. cbn [routed_ok o_trace o_status]. apply N.eqb_refl. Qed.

Ltac route_done :=
  first [ apply (routed_reach _ true) | apply (routed_reach _ false) | apply routed_nocall ].

Lemma routing_propfind s b n path d :
  routed_ok (route s MPropfind n) path
    (match propfind_at n s b path d with
     | (t, Ok l) => {| o_trace := t; o_status := 207; o_hrefs := map (href_of b) l; o_extra := "" |}
     | (t, Err c) => out t c
     | (t, Panic) => out t 0
     end) = true.
Proof.
  destruct n as [|[|[|[|[|n]]]]]; cbn [route propfind_at].
  - route_done.
  - destruct (same_path path (principal b)); [destruct d|]; unfold cP; route_done.
  - destruct (same_path path (homeset b)); [destruct d|]; unfold cH; route_done.
  - destruct (find_coll b path); [destruct (is_d0 d)|]; unfold out; route_done.
  - destruct (find_obj b path); unfold out; route_done.
  - route_done.
Qed.

Theorem routing_dispatch : forall s b n q,
  plain q = true -> routed_ok (route s (q_meth q) n) (q_path q) (dispatch s b n q) = true.
Proof.
  intros s b n [m path d v] Hplain. unfold plain in Hplain. cbn [q_var] in Hplain.
  unfold dispatch. cbn [q_meth q_path q_var q_depth].
  destruct m.
  - (* OPTIONS *) cbn [route]. destruct (Nat.eqb n 4); route_done.
  - cbn [route]. unfold out. route_done.
  - cbn [route]. unfold out. route_done.
  - (* PUT *) cbn [route]. destruct v; try discriminate; cbn [is_bad]; unfold out; route_done.
  - (* DELETE *) destruct s; cbn [route]; [unfold out; route_done|].
    destruct n as [|[|[|[|[|n]]]]]; cbn [Nat.eqb]; unfold out; route_done.
  - (* PROPFIND *) apply routing_propfind.
  - (* PROPPATCH *) destruct s; cbn [route]; unfold out, cH; route_done.
  - (* MKCOL *) cbn [route].
    destruct n as [|[|[|[|n]]]]; cbn [Nat.eqb negb];
      try (destruct v; try discriminate; cbn [is_bad]); unfold out; route_done.
  - cbn [route]. unfold out. route_done.
  - cbn [route]. unfold out. route_done.
  - (* REPORT *) cbn [route]. destruct v; try discriminate; unfold out; route_done.
  - cbn [route]. unfold out. route_done.
Qed.

Theorem routing : forall s hprefix b q ps rs pt rt,
  in_layout s hprefix q ps rs pt rt -> plain q = true ->
  routed_ok (route s (q_meth q) (List.length rs)) (q_path q) (serve s hprefix b q) = true.
Proof.
  intros s hprefix b q ps rs pt rt HL Hplain.
  destruct (serve_level s hprefix q ps rs pt rt HL) as [Hw Hlev].
  unfold serve. rewrite Hw, Hlev. apply routing_dispatch. exact Hplain.
Qed.

(** Collection creation: accepted exactly at collection depth (201, one
    CreateCalendar / CreateAddressBook with the request path unchanged),
    403 without any backend call everywhere else. *)
Theorem mkcol : forall s hprefix b q ps rs pt rt,
  in_layout s hprefix q ps rs pt rt -> q_meth q = MMkcol -> plain q = true ->
  (List.length rs = 3 ->
     o_status (serve s hprefix b q) = 201%N /\ o_trace (serve s hprefix b q) = [(OpCreateColl, q_path q)]) /\
  (List.length rs <> 3 ->
     o_status (serve s hprefix b q) = 403%N /\ o_trace (serve s hprefix b q) = []).
Proof.
  intros s hprefix b q ps rs pt rt HL Hm Hplain.
  destruct (serve_level s hprefix q ps rs pt rt HL) as [Hw Hlev].
  unfold serve. rewrite Hw, Hlev. unfold dispatch. rewrite Hm.
  unfold plain in Hplain.
  split; intros Hlen.
  - rewrite Hlen. cbn [Nat.eqb negb]. destruct (q_var q); try discriminate; split; reflexivity.
  - apply Nat.eqb_neq in Hlen. rewrite Hlen. split; reflexivity.
Qed.

(** A PROPFIND on a principal-level (home-set-level) path that is not the
    current user's principal (home set), with or without trailing slash, is
    answered without a single response, whatever the Depth. *)
Theorem foreign : forall s hprefix b q,
  q_meth q = MPropfind -> q_path q <> well_known s ->
  let level := resource_type_at_path (trim_slash hprefix) (q_path q) in
  (level = 1 /\ same_path (q_path q) (principal b) = false) \/
  (level = 2 /\ same_path (q_path q) (homeset b) = false) ->
  o_hrefs (serve s hprefix b q) = [] /\ o_status (serve s hprefix b q) = 207%N.
Proof.
  intros s hprefix b q Hm Hw level H.
  apply String.eqb_neq in Hw.
  unfold serve. rewrite Hw. fold level. unfold dispatch. rewrite Hm.
  destruct H as [[-> Hs] | [-> Hs]]; cbn [propfind_at]; rewrite Hs; split; reflexivity.
Qed.

(** [same_path] on joined segments is equality of the segments: the foreign
    guard in terms of the layout. *)
Lemma trim_slash_req (l : list string) (t : bool) : l <> [] -> segs_ok l = true ->
  trim_slash (join l ++ (if t then "/" else "")) = join l.
Proof.
  intros Hne H. destruct t.
  - apply trim_slash_app_slash.
  - rewrite append_nil_r. apply trim_slash_id. apply ends_slash_join. exact H.
Qed.

Lemma join_inj (a : list string) : forall b,
  all_no_slash a = true -> all_no_slash b = true -> join a = join b -> a = b.
Proof.
  intros b Ha Hb E.
  assert (S : split_slash (join a) = split_slash (join b)) by (rewrite E; reflexivity).
  rewrite !split_join0 in S by assumption. congruence.
Qed.

Lemma same_path_layout (l1 l2 : list string) (t1 t2 : bool) :
  l1 <> [] -> l2 <> [] -> segs_ok l1 = true -> segs_ok l2 = true ->
  same_path (join l1 ++ (if t1 then "/" else "")) (join l2 ++ (if t2 then "/" else "")) = true <-> l1 = l2.
Proof.
  intros N1 N2 H1 H2. unfold same_path.
  rewrite !trim_slash_req by assumption. rewrite String.eqb_eq. split.
  - apply join_inj; apply segs_ok_no_slash; assumption.
  - congruence.
Qed.

(** * The executable specification is the conjunction of the three statements *)

Lemma list_eqb_call_spec (l1 l2 : list call) : list_eqb call_eqb l1 l2 = true <-> l1 = l2.
Proof.
  revert l2. induction l1 as [|[o a] r IH]; destruct l2 as [|[o' a'] r']; simpl; try (split; congruence).
  rewrite !andb_true_iff, IH. unfold call_eqb. simpl. rewrite andb_true_iff, String.eqb_eq.
  split.
  - intros [[Ho ->] ->]. destruct o, o'; try discriminate; reflexivity.
  - intros E. inversion E; subst. rewrite op_eqb_refl. auto.
Qed.

Lemma list_eqb_string_spec (l1 l2 : list string) : list_eqb String.eqb l1 l2 = true <-> l1 = l2.
Proof.
  revert l2. induction l1 as [|a r IH]; destruct l2 as [|a' r']; simpl; try (split; congruence).
  rewrite andb_true_iff, IH, String.eqb_eq. split; [intros [-> ->]; reflexivity | intros E; inversion E; auto].
Qed.

(** ** the tolerant verdict *)

(** the exact verdict (what the model does) implies the tolerant one *)
Lemma routed_ok_tol r path o : routed_ok r path o = true -> routed_tol r path o = true.
Proof.
  destruct r as [p wp|st]; cbn [routed_ok routed_tol].
  - destruct (o_trace o) as [|[p' a] t]; [discriminate|]. intros H.
    change (reaches p wp path ((p', a) :: t))
      with ((op_eqb p p' && String.eqb a (if wp then path else ""))
            || (tolerable path (p', a) && reaches p wp path t)).
    rewrite H. reflexivity.
  - destruct (o_trace o); [|discriminate]. intros H. cbn [forallb andb]. exact H.
Qed.

(** what the tolerant verdict means: the expected call is in the trace, after
    tolerable calls only *)
Lemma reaches_spec p wp path t :
  reaches p wp path t = true <->
  exists pre rest a, t = (pre ++ (p, a) :: rest)%list /\ a = (if wp then path else "") /\
                     Forall (fun c => tolerable path c = true) pre.
Proof.
  induction t as [|c t IH]; cbn [reaches].
  - split; [discriminate|]. intros (pre & rest & a & E & _). destruct pre; discriminate.
  - rewrite orb_true_iff, andb_true_iff, IH. split.
    + intros [E|[T (pre & rest & a & -> & Ha & F)]].
      * unfold expected_call in E. apply andb_prop in E. destruct E as [E1 E2].
        destruct c as [p' a']. cbn [fst snd] in *. apply String.eqb_eq in E2.
        assert (p = p') by (destruct p, p'; try discriminate; reflexivity). subst p'.
        exists [], t, a'. repeat split; [exact E2|constructor].
      * exists (c :: pre), rest, a. repeat split; [exact Ha|constructor; assumption].
    + intros (pre & rest & a & E & Ha & F). destruct pre as [|c' pre].
      * cbn [app] in E. inversion E; subst c. left. unfold expected_call. cbn [fst snd].
        rewrite op_eqb_refl, Ha, String.eqb_refl. reflexivity.
      * cbn [app] in E. inversion E; subst c' t. inversion F; subst. right. split; [assumption|].
        exists pre, rest, (if wp then path else ""). repeat split; assumption.
Qed.

(** The model meets the executable specification on every case of the quantifier. *)
Theorem model_spec_ok : forall s hprefix b q l,
  in_quantifier s hprefix q l = true -> spec_ok s b q l (serve s hprefix b q) = true.
Proof.
  intros s hprefix b q l HQ. apply in_quantifier_spec in HQ.
  unfold spec_ok. rewrite !andb_true_iff. repeat split.
  - destruct (plain q) eqn:P; [|reflexivity]. apply routed_ok_tol. eapply routing; eauto.
  - destruct (is_mkcol (q_meth q)) eqn:M; [|reflexivity].
    destruct (plain q) eqn:P; [|reflexivity]. cbn [andb].
    assert (Hm : q_meth q = MMkcol) by (destruct (q_meth q); try discriminate; reflexivity).
    destruct (mkcol s hprefix b q _ _ _ _ HQ Hm P) as [H3 Hn3].
    destruct (Nat.eqb (List.length (l_rs l)) 3) eqn:E.
    + apply Nat.eqb_eq in E. destruct (H3 E) as [-> ->].
      cbn [forallb fst read_only negb orb andb mutating filter N.eqb Pos.eqb].
      apply list_eqb_call_spec. reflexivity.
    + apply Nat.eqb_neq in E. destruct (Hn3 E) as [-> ->]. reflexivity.
  - destruct (is_propfind (q_meth q)) eqn:M; [|reflexivity].
    assert (Hm : q_meth q = MPropfind) by (destruct (q_meth q); try discriminate; reflexivity).
    destruct HQ as (Hp & Hr & Hh & Hq & Hw).
    match goal with |- (if ?c then _ else _) = true => destruct c eqn:C end; [|reflexivity].
    apply list_eqb_string_spec.
    refine (proj1 (foreign s hprefix b q Hm Hw _)).
    assert (Hlev : resource_type_at_path (trim_slash hprefix) (q_path q) = List.length (l_rs l)).
    { rewrite Hh, Hq. apply depth_only; assumption. }
    rewrite Hlev.
    apply orb_prop in C. destruct C as [C|C]; apply andb_prop in C; destruct C as [C1 C2];
      apply Nat.eqb_eq in C1; apply negb_true_iff in C2; [left|right]; split; assumption.
Qed.

(** If the implementation did what the model says, its observation meets the
    specification. *)
Theorem agree_implies_spec_ok : forall s hprefix b q l o,
  in_quantifier s hprefix q l = true ->
  o = serve s hprefix b q -> spec_ok s b q l o = true.
Proof. intros; subst; apply model_spec_ok; assumption. Qed.
