(** Properties_C18.v — C18: handlers and clients are safe for concurrent use; uploads
    always terminate.  Statements only; each is closed by [exact] of a lemma proved
    in UploadProofs.v / ConcurrentProofs.v.

    PARTIAL, and named so where it matters: the upload theorems are about the
    transition system of Upload.v under the http.RoundTripper contract, which is a
    visible premise of every statement ([guard] inside [step], [env_contract] inside
    [reachable]); the disjointness theorems treat one request as one atomic function
    of the subtree below its root.  Absence of data races under the Go memory model
    is not expressible in either model (notes/C18.md). *)
From Coq Require Import Relations PeanoNat List.
From GW Require Import Base Upload UploadProofs Concurrent ConcurrentProofs.
Local Open Scope N_scope.
Local Open Scope list_scope.

(** * The upload protocol: Create, Write..., Close (client.go:179-217) *)

(** No deadlock: every state reachable under the transport contract is final or can
    move — in particular the goroutine's send on [done] never blocks, whether or not
    the caller ever calls Close. *)
Theorem C18_progress_partial : forall cf s,
  buffered cf = true -> reachable cf s -> final cf s = true \/ exists s', step cf s s'.
Proof. exact progress. Qed.
Print Assumptions C18_progress_partial.

(** Every move strictly decreases a natural-number measure: no execution is infinite. *)
Theorem C18_terminates_partial : forall cf s s', step cf s s' -> measure cf s' < measure cf s.
Proof. exact terminates. Qed.
Print Assumptions C18_terminates_partial.

(** ... so the step relation is well-founded, *)
Theorem C18_steps_well_founded_partial : forall cf, well_founded (fun s' s => step cf s s').
Proof. exact step_wf. Qed.
Print Assumptions C18_steps_well_founded_partial.

(** ... from every reachable state a final state is reached, *)
Theorem C18_reaches_final_partial : forall cf s,
  buffered cf = true -> reachable cf s ->
  exists s', clos_refl_trans _ (step cf) s s' /\ final cf s' = true.
Proof. exact reaches_final. Qed.
Print Assumptions C18_reaches_final_partial.

(** ... and an execution that cannot be continued has ended there: Close has
    returned (or the caller, who never closes, has finished writing), the goroutine
    has exited, the request body is closed. *)
Theorem C18_no_leak_partial : forall cf s,
  buffered cf = true -> reachable cf s -> (forall s', ~ step cf s s') ->
  go_exited s = true /\ caller_finished cf s = true /\ rd_closed s = true.
Proof. exact no_leak. Qed.
Print Assumptions C18_no_leak_partial.

(** Every maximal execution — one that cannot be continued — from a reachable state
    has ended in a final state (and by well-foundedness every execution can be
    continued only finitely often). *)
Theorem C18_maximal_runs_end_final_partial : forall cf s s',
  buffered cf = true -> reachable cf s -> clos_refl_trans _ (step cf) s s' ->
  (forall s'', ~ step cf s' s'') -> final cf s' = true.
Proof. exact maximal_runs_end_final. Qed.
Print Assumptions C18_maximal_runs_end_final_partial.

(** Close returns only after the server has answered, the exchange has failed or the
    context has ended. *)
Theorem C18_close_after_answer_partial : forall cf s r,
  reachable cf s -> close_result s = Some r -> env_active (env s) = false.
Proof. exact close_after_answer. Qed.
Print Assumptions C18_close_after_answer_partial.

(** Close returns what [Do] returned: nil exactly for a 2xx answer, the failure otherwise. *)
Theorem C18_close_outcome_partial : forall cf s r,
  reachable cf s -> close_result s = Some r ->
  r = result_of (env s) /\ (r = RNil <-> answered_2xx s = true).
Proof. exact close_outcome. Qed.
Print Assumptions C18_close_outcome_partial.

(** When Close returns, the request goroutine is already past its only send. *)
Theorem C18_closed_implies_exited_partial : forall cf s r,
  reachable cf s -> close_result s = Some r -> go_exited s = true.
Proof. exact closed_implies_exited. Qed.
Print Assumptions C18_closed_implies_exited_partial.

(** The capacity of the [done] channel matters: with an unbuffered channel a caller
    that never calls Close leaves the goroutine blocked in its send for ever. *)
Theorem C18_unbuffered_leaks :
  exists s, reachable cf_unbuffered s /\ (forall s', ~ step cf_unbuffered s s') /\ go_exited s = false.
Proof. exact unbuffered_leaks. Qed.
Print Assumptions C18_unbuffered_leaks.

(** The outcome function the oracle runs is sound for the transition system: every
    execution that respects the contract, in which the environment follows the fault
    script, ends in a state whose observation [model_agrees] accepts. *)
Theorem C18_outcome_sound_partial : forall sc tr s,
  run (sc_cfg sc) (init (sc_chunks sc)) tr = Some s ->
  env_contract (sc_cfg sc) (init (sc_chunks sc)) tr = true ->
  script_conform sc (init (sc_chunks sc)) tr = true ->
  final (sc_cfg sc) s = true ->
  model_agrees sc (obs_of (sc_cfg sc) s) = true.
Proof. exact outcome_sound. Qed.
Print Assumptions C18_outcome_sound_partial.

(** ... and not vacuous: every well-formed script has such an execution. *)
Theorem C18_outcome_realised : forall sc,
  script_wf sc = true ->
  exists tr s,
    run (sc_cfg sc) (init (sc_chunks sc)) tr = Some s /\
    env_contract (sc_cfg sc) (init (sc_chunks sc)) tr = true /\
    script_conform sc (init (sc_chunks sc)) tr = true /\
    final (sc_cfg sc) s = true.
Proof. exact outcome_realised. Qed.
Print Assumptions C18_outcome_realised.

(** Agreement of the implementation with the model entails the property on that run. *)
Theorem C18_agree_implies_spec_ok : forall sc o, model_agrees sc o = true -> spec_ok sc o = true.
Proof. exact agree_implies_spec_ok. Qed.
Print Assumptions C18_agree_implies_spec_ok.

(** When the caller's context ends at an arbitrary point the fault script no longer fixes
    what [Do] returns; what stays fixed, and what part "upx" of the check compares the
    implementation with: in every final state Create has handed out a writer and Close
    has returned after [Do] did, and exactly what [Do] returned. *)
Theorem C18_close_is_do_partial : forall cf s,
  closes cf = true -> reachable cf s -> final cf s = true -> xmodel_agrees (xobs_of cf s) = true.
Proof. exact xmodel_sound. Qed.
Print Assumptions C18_close_is_do_partial.

(** Agreement with the model entails the property's verdict (which, for a context that
    is already dead when Create is called, also accepts a Create that refuses with the
    context's error, nothing sent, nothing left behind). *)
Theorem C18_xagree_implies_spec_ok : forall dead o, xmodel_agrees o = true -> xspec_ok dead o = true.
Proof. exact xagree_implies_spec. Qed.
Print Assumptions C18_xagree_implies_spec_ok.

(** * Requests on disjoint subtrees *)

(** Two calls anchored at disjoint roots commute: same tree, same two answers. *)
Theorem C18_calls_commute_partial : forall (c1 c2 : call) (t : node),
  disjoint (fst c1) (fst c2) = true ->
  fst (exec c2 (fst (exec c1 t))) = fst (exec c1 (fst (exec c2 t))) /\
  snd (exec c1 t) = snd (exec c1 (fst (exec c2 t))) /\
  snd (exec c2 (fst (exec c1 t))) = snd (exec c2 t).
Proof. exact calls_commute. Qed.
Print Assumptions C18_calls_commute_partial.

(** Any two schedules that give every program the same calls in the same order end
    in the same tree and give every program the same answers. *)
Theorem C18_interleavings_partial : forall (s s' : list (nat * call)) (t : node),
  (forall i, proj i s = proj i s') -> roots_disjoint s ->
  fst (runs s t) = fst (runs s' t) /\
  forall i, proj i (snd (runs s t)) = proj i (snd (runs s' t)).
Proof. exact interleavings_agree. Qed.
Print Assumptions C18_interleavings_partial.

(** A program anchored at [p] gets in ANY interleaving with programs on roots
    disjoint from [p] exactly the answers, and leaves below [p] exactly the subtree,
    that it produces when it runs alone. *)
Theorem C18_alone_partial : forall (s : list (nat * call)) (t : node) (i : nat) (p : path),
  roots_disjoint s ->
  (forall j d, In (j, d) s -> j <> i -> disjoint (fst d) p = true) ->
  proj i (snd (runs s t)) = proj i (snd (runs (only i s) t)) /\
  sub p (fst (runs s t)) = sub p (fst (runs (only i s) t)).
Proof. exact alone. Qed.
Print Assumptions C18_alone_partial.

(** Requests are not assumed atomic: a THREAD is a root with an adaptive program of
    primitive calls anchored at that root, and the scheduler may switch threads
    between any two primitive calls.  Under ANY schedule the view of every thread —
    its continuation (at the end: its result) and the subtree at its root — is the one
    obtained by performing its own calls alone, as many as the schedule gave it. *)
Theorem C18_threads_independent_partial : forall (R : Type) (sched : list nat)
    (s : list (thread R) * node) (i : nat),
  thread_roots_disjoint (fst s) ->
  view (grun s sched) i =
  option_map (Nat.iter (count_occ Nat.eq_dec sched i) lstep) (view s i).
Proof. exact @threads_independent. Qed.
Print Assumptions C18_threads_independent_partial.

(** ... in particular the one it has when only its own calls are scheduled. *)
Theorem C18_threads_alone_partial : forall (R : Type) (sched : list nat)
    (s : list (thread R) * node) (i : nat),
  thread_roots_disjoint (fst s) ->
  view (grun s sched) i = view (grun s (repeat i (count_occ Nat.eq_dec sched i))) i.
Proof. exact @threads_alone. Qed.
Print Assumptions C18_threads_alone_partial.

(** Independence of progress: whatever thread [j] does and wherever it stops — e.g. in
    the middle of an upload whose body never arrives — every other thread's view is
    the one it has when [j] is never scheduled at all. *)
Theorem C18_stalled_thread_harmless_partial : forall (R : Type) (sched : list nat)
    (s : list (thread R) * node) (i j : nat),
  thread_roots_disjoint (fst s) -> i <> j ->
  view (grun s sched) i = view (grun s (remove Nat.eq_dec j sched)) i.
Proof. exact @stalled_thread_harmless. Qed.
Print Assumptions C18_stalled_thread_harmless_partial.

(** fs_local.go Create is such a program: Stat, createTemp in the target's directory,
    io.Copy into the temporary file, Rename over the target.  Run alone it ends with
    the answer and the tree of the one-step PUT of [Concurrent.sem] (which the harness
    ties to the real handler), provided the temporary name is not taken ... *)
Theorem C18_put_program_refines_partial : forall d l tmp s m,
  tmp_fresh d tmp m ->
  Nat.iter 4 lstep (put_prog d l tmp s, Some m) =
  (PRet (snd (sem (FPut (d ++ [l]) s) m)), Some (fst (sem (FPut (d ++ [l]) s) m))).
Proof. exact put_prog_refines. Qed.
Print Assumptions C18_put_program_refines_partial.

(** ... and so it does among other threads on disjoint roots, under any schedule of
    primitive calls that lets it finish, whatever the others did in between. *)
Theorem C18_put_concurrent_partial : forall sched (s : list (thread outc) * node) i p d l tmp c m,
  thread_roots_disjoint (fst s) ->
  nth_error (fst s) i = Some (p, put_prog d l tmp c) ->
  sub p (snd s) = Some m -> tmp_fresh d tmp m ->
  (4 <= count_occ Nat.eq_dec sched i)%nat ->
  view (grun s sched) i =
  Some (PRet (snd (sem (FPut (d ++ [l]) c) m)), Some (fst (sem (FPut (d ++ [l]) c) m))).
Proof. exact put_concurrent. Qed.
Print Assumptions C18_put_concurrent_partial.

(** The workload of the correspondence check: whatever interleaving of the clients'
    requests the scheduler produces, every client gets the answers, and the served
    tree ends as, the oracle computes by running the programs one after another. *)
Theorem C18_workload_any_interleaving_partial : forall cs s,
  distinct (map cl_name cs) = true -> is_interleaving s (progs_of cs) ->
  fst (runs s (init_tree cs)) = fst (expected cs) /\
  forall i, proj i (snd (runs s (init_tree cs))) = proj i (snd (expected cs)).
Proof. exact expected_any_interleaving. Qed.
Print Assumptions C18_workload_any_interleaving_partial.

(** ... and exactly what its own program produces when it runs alone. *)
Theorem C18_workload_alone_partial : forall cs s i c,
  distinct (map cl_name cs) = true -> is_interleaving s (progs_of cs) ->
  nth_error cs i = Some c ->
  proj i (snd (runs s (init_tree cs))) = proj i (snd (expected_alone cs i c)) /\
  sub [cl_name c] (fst (runs s (init_tree cs))) = sub [cl_name c] (fst (expected_alone cs i c)).
Proof. exact expected_is_alone. Qed.
Print Assumptions C18_workload_alone_partial.

(** Agreement of the implementation with the model, concurrently and alone, entails
    the property on that run. *)
Theorem C18_conc_agree_implies_spec_ok : forall cs o,
  conc_wf cs = true -> conc_agrees cs o = true -> conc_spec_ok o = true.
Proof. exact conc_agree_implies_spec_ok. Qed.
Print Assumptions C18_conc_agree_implies_spec_ok.
