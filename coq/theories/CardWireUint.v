(** CardWireUint.v — the two models of "character data of <nresults> -> uint" agree:
    CardWire.unmarshal_uint (C09) and ServerTotal.parse_uint (C13) are two independently
    written models of strings.TrimSpace followed by strconv.ParseUint(s, 10, 64). *)
From Coq Require Import Lia DecimalString Decimal.
From GW Require Import Base CardXml CardWire.
From GW Require ServerTotal.
Module ST := ServerTotal.
Local Open Scope N_scope.

(* ------------------------------------------------------------------------- *)
(** * Decimal numerals *)

Fixpoint uval (d : uint) (acc : N) : N :=
  match d with
  | Nil => acc
  | D0 l => uval l (acc * 10 + 0) | D1 l => uval l (acc * 10 + 1) | D2 l => uval l (acc * 10 + 2)
  | D3 l => uval l (acc * 10 + 3) | D4 l => uval l (acc * 10 + 4) | D5 l => uval l (acc * 10 + 5)
  | D6 l => uval l (acc * 10 + 6) | D7 l => uval l (acc * 10 + 7) | D8 l => uval l (acc * 10 + 8)
  | D9 l => uval l (acc * 10 + 9)
  end.

Lemma of_uint_acc_uval d : forall p, N.pos (Pos.of_uint_acc d p) = uval d (N.pos p).
Proof.
  induction d; intros p; cbn [Pos.of_uint_acc uval]; try reflexivity; rewrite IHd; f_equal; lia.
Qed.

Lemma of_uint_uval d : N.of_uint d = uval d 0.
Proof.
  unfold N.of_uint. induction d; cbn [Pos.of_uint uval]; try reflexivity;
    try (rewrite of_uint_acc_uval; reflexivity). exact IHd.
Qed.

Definition dig (k : N) (d : uint) : uint :=
  match k with
  | 0 => D0 d | 1 => D1 d | 2 => D2 d | 3 => D3 d | 4 => D4 d
  | 5 => D5 d | 6 => D6 d | 7 => D7 d | 8 => D8 d | _ => D9 d
  end.

Lemma char_cases c :
  match ST.digit_val c with
  | Some k => k < 10 /\ forall d, uint_of_char c (Some d) = Some (dig k d)
  | None => forall d, uint_of_char c d = None
  end.
Proof.
  destruct c as [[] [] [] [] [] [] [] []]; cbn; try (split; [lia|reflexivity]); intros [d|]; reflexivity.
Qed.

Lemma uval_dig k d acc : k < 10 -> uval (dig k d) acc = uval d (acc * 10 + k).
Proof.
  intros H. assert (C : k = 0 \/ k = 1 \/ k = 2 \/ k = 3 \/ k = 4 \/ k = 5 \/ k = 6 \/ k = 7 \/ k = 8 \/ k = 9) by lia.
  repeat (destruct C as [->|C]; [reflexivity|]). subst. reflexivity.
Qed.

Lemma digits_agree t : forall acc,
  ST.digits_val t acc = option_map (fun d => uval d acc) (NilEmpty.uint_of_string t).
Proof.
  induction t as [|c t IH]; intros acc; cbn [ST.digits_val NilEmpty.uint_of_string]; [reflexivity|].
  pose proof (char_cases c) as C. destruct (ST.digit_val c) as [k|].
  - destruct C as [Hk C]. rewrite IH. destruct (NilEmpty.uint_of_string t) as [d|]; cbn [option_map].
    + rewrite C. cbn [option_map]. rewrite uval_dig by exact Hk. reflexivity.
    + destruct c as [[] [] [] [] [] [] [] []]; reflexivity.
  - rewrite C. reflexivity.
Qed.

Lemma digits_to_N_agree t : str_empty t = false -> digits_to_N t = ST.digits_val t 0.
Proof.
  intros H. unfold digits_to_N. rewrite H, digits_agree.
  destruct (NilEmpty.uint_of_string t); cbn [option_map]; [rewrite of_uint_uval|]; reflexivity.
Qed.

(* ------------------------------------------------------------------------- *)
(** * strings.TrimSpace *)

Notation LA := list_ascii_of_string.

Ltac bytes c := destruct c as [[] [] [] [] [] [] [] []].

(** one white-space code point at the head *)
Lemma strip_one_agree s :
  option_map LA (ST.strip_one ST.space_seqs s) = strip_one (LA s).
Proof.
  destruct s as [|c r]; [reflexivity|].
  bytes c; try reflexivity.
  all: destruct r as [|d r]; [reflexivity|]; bytes d; try reflexivity.
  all: destruct r as [|e r]; [reflexivity|]; try reflexivity.
  all: bytes e; reflexivity.
Qed.

(** ** the loops, given the two single-step lemmas *)

Definition rseqs : list string := map (fun p => ST.srev p "") ST.space_seqs.

Lemma LA_length s : List.length (LA s) = String.length s.
Proof. induction s; simpl; auto. Qed.

Lemma LA_srev s : forall acc, LA (ST.srev s acc) = (rev (LA s) ++ LA acc)%list.
Proof.
  induction s as [|c s IH]; intros acc; cbn [ST.srev LA rev]; [reflexivity|].
  rewrite IH. cbn [LA]. rewrite <- app_assoc. reflexivity.
Qed.

Lemma loop_agree seqs one :
  (forall s, option_map LA (ST.strip_one seqs s) = one (LA s)) ->
  forall fuel s, LA (ST.trim_left seqs fuel s) = strip_many one fuel (LA s).
Proof.
  intros H. induction fuel as [|f IH]; intros s; cbn [ST.trim_left strip_many]; [reflexivity|].
  rewrite <- H. destruct (ST.strip_one seqs s) as [s'|]; cbn [option_map]; [apply IH|reflexivity].
Qed.

Section Trim.
Hypothesis strip_one_rev_agree : forall s, option_map LA (ST.strip_one rseqs s) = strip_one_rev (LA s).

Lemma trim_space_agree s : ST.trim_space s = go_trim_space s.
Proof.
  unfold ST.trim_space, go_trim_space. fold rseqs.
  set (l := ST.trim_left ST.space_seqs (String.length s) s).
  assert (E1 : LA l = strip_many strip_one (List.length (LA s)) (LA s)).
  { unfold l. rewrite LA_length. apply loop_agree, strip_one_agree. }
  rewrite <- E1.
  set (r := ST.trim_left rseqs (String.length l) (ST.srev l "")).
  assert (E2 : LA r = strip_many strip_one_rev (List.length (LA l)) (rev (LA l))).
  { unfold r. rewrite LA_length, (loop_agree rseqs strip_one_rev strip_one_rev_agree), LA_srev.
    cbn [LA]. rewrite app_nil_r. reflexivity. }
  rewrite <- E2. rewrite <- (string_of_list_ascii_of_string (ST.srev r "")). f_equal.
  rewrite LA_srev. cbn [LA]. apply app_nil_r.
Qed.

(** the two readings of the character data of <nresults> *)
Theorem uint_agree s :
  match unmarshal_uint s, ST.parse_uint s with
  | Ok x, Some y => y = x
  | Err c, None => c = 400
  | _, _ => False
  end.
Proof.
  unfold unmarshal_uint, ST.parse_uint. destruct (str_empty s); [reflexivity|].
  rewrite trim_space_agree. cbv zeta. unfold parse_uint64.
  destruct (str_empty (go_trim_space s)) eqn:E.
  - unfold digits_to_N. rewrite E. reflexivity.
  - rewrite (digits_to_N_agree _ E). destruct (ST.digits_val (go_trim_space s) 0) as [n|]; [|reflexivity].
    change two64 with 18446744073709551616. destruct (n <? 18446744073709551616); reflexivity.
Qed.
End Trim.
