(** CalValidateMore.v — consequences of [validate_accept_iff] (C19): the verdict of
    ValidateCalendarObject does not depend on the order of the components, VTIMEZONE
    components without UID never matter, a rejection is final under extension, and the
    verdict on objects with one component. *)
From Coq Require Import Permutation.
From GW Require Import Base CalValidate CalValidateProofs.
Local Open Scope list_scope.

(** * Order of the components *)

Lemma perm_filter {A} (f : A -> bool) l l' : Permutation l l' -> Permutation (filter f l) (filter f l').
Proof.
  induction 1 as [|x l l' _ IH|x y l|l l' l'' _ IH1 _ IH2]; cbn [filter].
  - constructor.
  - destruct (f x); [constructor|]; exact IH.
  - destruct (f x), (f y); try apply perm_swap; apply Permutation_refl.
  - eapply Permutation_trans; eassumption.
Qed.

Lemma perm_flat_map {A B} (f : A -> list B) l l' : Permutation l l' -> Permutation (flat_map f l) (flat_map f l').
Proof.
  induction 1 as [|x l l' _ IH|x y l|l l' l'' _ IH1 _ IH2]; cbn [flat_map].
  - constructor.
  - apply Permutation_app_head; exact IH.
  - rewrite !app_assoc. apply Permutation_app_tail. apply Permutation_app_comm.
  - eapply Permutation_trans; eassumption.
Qed.

Lemma perm_nontz l l' : Permutation l l' -> Permutation (nontz l) (nontz l').
Proof. intros H. unfold nontz. apply Permutation_map. apply perm_filter. exact H. Qed.

Lemma perm_uids l l' : Permutation l l' -> Permutation (uids l) (uids l').
Proof. intros H. unfold uids. apply perm_flat_map. exact H. Qed.

(** "all equal to the first" is a property of the multiset *)
Lemma all_same_perm (l l' : list string) x :
  Permutation l l' -> (forall y, In y l -> y = x) -> x = hd "" l -> (forall y, In y l' -> y = x) /\ x = hd "" l'.
Proof.
  intros P Hall Hhd. split.
  - intros y Hy. apply Hall. eapply Permutation_in; [apply Permutation_sym; exact P|exact Hy].
  - destruct l' as [|z r]; cbn [hd].
    + apply Permutation_sym, Permutation_nil in P. subst l. exact Hhd.
    + symmetry. apply Hall. eapply Permutation_in; [apply Permutation_sym; exact P|left; reflexivity].
Qed.

Theorem accepts_perm c c' ty uid :
  has_method c = has_method c' -> Permutation (comps c) (comps c') ->
  accepts c ty uid -> accepts c' ty uid.
Proof.
  intros Hm P (H1 & H2 & H3 & H4 & H5 & H6).
  destruct (all_same_perm _ _ ty (perm_nontz _ _ P) H3 H4) as [A1 A2].
  destruct (all_same_perm _ _ uid (perm_uids _ _ P) H5 H6) as [B1 B2].
  repeat split; try assumption.
  - congruence.
  - intros x Hx. apply H2. eapply Permutation_in; [apply Permutation_sym; exact P|exact Hx].
Qed.

Lemma names_nonempty_perm c c' : Permutation (comps c) (comps c') -> names_nonempty c -> names_nonempty c'.
Proof. intros P H x Hx. apply H. eapply Permutation_in; [apply Permutation_sym; exact P|exact Hx]. Qed.

(** The verdict — accepted or not, and the type and UID returned — is the same for every
    order of the components. *)
Theorem validate_perm c c' :
  names_nonempty c -> has_method c = has_method c' -> Permutation (comps c) (comps c') ->
  validate c = validate c'.
Proof.
  intros Hne Hm P.
  pose proof (names_nonempty_perm c c' P Hne) as Hne'.
  destruct (validate c) as [[ty uid]|] eqn:E.
  - symmetry. apply (validate_accept_iff c' ty uid Hne').
    apply (accepts_perm c c' ty uid Hm P). apply (validate_accept_iff c ty uid Hne). exact E.
  - destruct (validate c') as [[ty uid]|] eqn:E'; [|reflexivity].
    exfalso. apply (validate_accept_iff c' ty uid Hne') in E'.
    apply (accepts_perm c' c ty uid (eq_sym Hm) (Permutation_sym P)) in E'.
    apply (validate_accept_iff c ty uid Hne) in E'. congruence.
Qed.

(** * VTIMEZONE components *)

Definition with_comps (c : calendar) (l : list (string * uidval)) : calendar :=
  {| has_method := has_method c; comps := l |}.

Lemma nontz_app a b : nontz (a ++ b) = nontz a ++ nontz b.
Proof. unfold nontz. rewrite filter_app, map_app. reflexivity. Qed.
Lemma uids_app a b : uids (a ++ b) = uids a ++ uids b.
Proof. unfold uids. apply flat_map_app. Qed.

(** A VTIMEZONE component without UID, wherever it stands, changes nothing. *)
Theorem validate_timezone_ignored m a b :
  (forall x, In x (a ++ b) -> fst x <> "") ->
  validate {| has_method := m; comps := a ++ ("VTIMEZONE", NoUid) :: b |} =
  validate {| has_method := m; comps := a ++ b |}.
Proof.
  intros Hne.
  rewrite !validate_spec.
  - unfold spec_validate. cbn [has_method comps].
    rewrite !nontz_app, !uids_app, !existsb_app. cbn [nontz uids filter map flat_map existsb is_tz fst snd bad_uid uid_of negb app].
    rewrite ?String.eqb_refl. cbn [negb orb app map]. reflexivity.
  - exact Hne.
  - intros x Hx. cbn [comps] in Hx. apply in_app_or in Hx. destruct Hx as [Hx|[Hx|Hx]].
    + apply Hne. apply in_or_app. left. exact Hx.
    + subst x. cbn. discriminate.
    + apply Hne. apply in_or_app. right. exact Hx.
Qed.

(** * A rejection is final: no further component makes a rejected object acceptable *)
Theorem validate_reject_extends m a b :
  (forall x, In x (a ++ b) -> fst x <> "") ->
  validate {| has_method := m; comps := a |} = None ->
  validate {| has_method := m; comps := a ++ b |} = None.
Proof.
  intros Hne Hrej.
  assert (Hne_a : names_nonempty {| has_method := m; comps := a |}).
  { intros x Hx. apply Hne. apply in_or_app. left. exact Hx. }
  destruct (validate {| has_method := m; comps := a ++ b |}) as [[ty uid]|] eqn:E; [|reflexivity].
  exfalso.
  assert (Hne_ab : names_nonempty {| has_method := m; comps := a ++ b |}) by exact Hne.
  apply (validate_accept_iff _ ty uid Hne_ab) in E. destruct E as (H1 & H2 & H3 & H4 & H5 & H6).
  cbn [has_method comps] in *.
  assert (Hacc : accepts {| has_method := m; comps := a |} (hd "" (nontz a)) (hd "" (uids a))).
  { repeat split; cbn [has_method comps].
    - exact H1.
    - intros x Hx. apply H2. apply in_or_app. left. exact Hx.
    - intros n Hn. assert (n = ty) by (apply H3; rewrite nontz_app; apply in_or_app; left; exact Hn).
      destruct (nontz a) as [|z r] eqn:Ez; [destruct Hn|]. cbn [hd].
      assert (z = ty) by (apply H3; rewrite nontz_app, Ez; left; reflexivity). congruence.
    - intros u Hu. assert (u = uid) by (apply H5; rewrite uids_app; apply in_or_app; left; exact Hu).
      destruct (uids a) as [|z r] eqn:Ez; [destruct Hu|]. cbn [hd].
      assert (z = uid) by (apply H5; rewrite uids_app, Ez; left; reflexivity). congruence. }
  apply (validate_accept_iff _ _ _ Hne_a) in Hacc. congruence.
Qed.

(** * One component *)
Theorem validate_single name u :
  name <> "" ->
  validate {| has_method := false; comps := [(name, u)] |} =
  match uid_text u with
  | None => None
  | Some t => Some (if String.eqb name "VTIMEZONE" then "" else name, t)
  end.
Proof.
  intros Hn. unfold validate. cbn [has_method comps vloop].
  destruct (String.eqb name "VTIMEZONE") eqn:Etz.
  - destruct u as [|s|]; cbn [uid_text]; [reflexivity| |reflexivity].
    change (String.eqb "" "") with true. cbn match.
    rewrite String.eqb_refl. cbn [negb]. rewrite Bool.andb_false_r. reflexivity.
  - change (String.eqb "" "") with true. cbn match. rewrite String.eqb_refl.
    destruct u as [|s|]; cbn [uid_text]; [reflexivity| |reflexivity].
    rewrite String.eqb_refl. cbn [negb]. rewrite Bool.andb_false_r. reflexivity.
Qed.

(** Non-vacuity: an accepted object with components in two orders, and a rejected one. *)
Example perm_example :
  let c1 := {| has_method := false; comps := [("VTIMEZONE", NoUid); ("VEVENT", Uid "u1"); ("VEVENT", NoUid)] |}%string in
  let c2 := {| has_method := false; comps := [("VEVENT", NoUid); ("VEVENT", Uid "u1"); ("VTIMEZONE", NoUid)] |}%string in
  validate c1 = Some ("VEVENT", "u1")%string /\ validate c2 = Some ("VEVENT", "u1")%string /\
  validate {| has_method := false; comps := [("VEVENT", Uid "u1"); ("VTODO", Uid "u1")] |}%string = None.
Proof. vm_compute. repeat split; reflexivity. Qed.
