(** SortedProofs.v — the listings of the modelled file system stay in OS order:
    every operation of the file-server model ([seto], [remo], deep and shallow
    copies, hence [serve] and [run]) turns a tree whose directory listings are
    strictly increasing into one whose listings are strictly increasing.  With it the
    [sorted_tree] hypothesis of the step-level theorems (CopyStepsProofs.v) holds in
    every state reachable from a sorted one. *)
From GW Require Import Base GoPath Fs DavServer FsProofs UploadSteps UploadStepsProofs CopySteps CopyStepsProofs.
Local Open Scope list_scope.

(** * The byte order of names is a strict total order *)
Lemma ascii_lt_trans a b c :
  Ascii.compare a b = Lt -> Ascii.compare b c = Lt -> Ascii.compare a c = Lt.
Proof. unfold Ascii.compare. rewrite !N.compare_lt_iff. lia. Qed.

Lemma str_compare_lt_trans : forall a b c,
  String.compare a b = Lt -> String.compare b c = Lt -> String.compare a c = Lt.
Proof.
  induction a as [|x a IH]; intros [|y b] [|z c]; cbn; try discriminate; auto.
  destruct (Ascii.compare x y) eqn:E1; try discriminate.
  - apply Ascii.compare_eq_iff in E1. subst y.
    destruct (Ascii.compare x z); try discriminate; auto. apply IH.
  - intros _. destruct (Ascii.compare y z) eqn:E2; try discriminate.
    + apply Ascii.compare_eq_iff in E2. subst z. rewrite E1. reflexivity.
    + intros _. rewrite (ascii_lt_trans _ _ _ E1 E2). reflexivity.
Qed.

Lemma str_ltb_trans a b c : str_ltb a b = true -> str_ltb b c = true -> str_ltb a c = true.
Proof.
  unfold str_ltb. intros H1 H2.
  destruct (String.compare a b) eqn:E1; try discriminate.
  destruct (String.compare b c) eqn:E2; try discriminate.
  rewrite (str_compare_lt_trans _ _ _ E1 E2). reflexivity.
Qed.

Lemma str_ltb_total a b : str_ltb a b = false -> String.eqb a b = false -> str_ltb b a = true.
Proof.
  unfold str_ltb. intros H1 H2. rewrite String.compare_antisym.
  destruct (String.compare a b) eqn:E; cbn; try discriminate; [|reflexivity].
  apply String.compare_eq_iff in E. subst b. rewrite String.eqb_refl in H2. discriminate.
Qed.

(** * Sorted listings under the list operations *)
Definition below (k : string) (l : list (string * node)) : bool :=
  forallb (fun kc => str_ltb k (fst kc)) l.

Lemma keys_sorted_cons k v l : keys_sorted ((k, v) :: l) = below k l && keys_sorted l.
Proof. reflexivity. Qed.

Lemma below_trans k k' l : str_ltb k k' = true -> below k' l = true -> below k l = true.
Proof.
  unfold below. rewrite !forallb_forall. intros H Hl x Hx. eapply str_ltb_trans; [exact H|apply Hl; exact Hx].
Qed.

Lemma below_ins k0 k v l : below k0 (ins_assoc k v l) = str_ltb k0 k && below k0 l.
Proof.
  induction l as [|[k' w] r IH]; cbn; [reflexivity|].
  destruct (str_ltb k k'); cbn; [reflexivity|].
  fold (below k0 (ins_assoc k v r)). rewrite IH. fold (below k0 r).
  destruct (str_ltb k0 k'), (str_ltb k0 k); reflexivity.
Qed.

Lemma sorted_ins k v l : keys_sorted l = true -> assoc k l = None -> keys_sorted (ins_assoc k v l) = true.
Proof.
  induction l as [|[k' w] r IH]; intros Hs Ha; [reflexivity|].
  cbn [assoc] in Ha. destruct (String.eqb k' k) eqn:Ee; [discriminate|].
  rewrite keys_sorted_cons in Hs. apply andb_prop in Hs. destruct Hs as [Hb Hs].
  cbn [ins_assoc]. destruct (str_ltb k k') eqn:El.
  - rewrite !keys_sorted_cons. rewrite Hb, Hs. cbn [below forallb fst]. rewrite El. cbn.
    fold (below k r). rewrite (below_trans k k' r El Hb). reflexivity.
  - rewrite keys_sorted_cons, below_ins, Hb, IH by assumption.
    rewrite (str_ltb_total k k' El); [reflexivity|].
    rewrite String.eqb_sym. exact Ee.
Qed.

Lemma below_rep k0 k v l : below k0 (rep_assoc k v l) = below k0 l.
Proof.
  induction l as [|[k' w] r IH]; [reflexivity|]. cbn.
  destruct (String.eqb k' k) eqn:E; cbn.
  - apply String.eqb_eq in E. subst k'. reflexivity.
  - fold (below k0 (rep_assoc k v r)) (below k0 r). rewrite IH. reflexivity.
Qed.

Lemma sorted_rep k v l : keys_sorted (rep_assoc k v l) = keys_sorted l.
Proof.
  induction l as [|[k' w] r IH]; [reflexivity|]. cbn [rep_assoc].
  destruct (String.eqb k' k) eqn:E.
  - apply String.eqb_eq in E. subst k'. reflexivity.
  - rewrite !keys_sorted_cons, below_rep, IH. reflexivity.
Qed.

Lemma sorted_set k v l : keys_sorted l = true -> keys_sorted (set_assoc k v l) = true.
Proof.
  intros H. unfold set_assoc. destruct (assoc k l) eqn:E.
  - rewrite sorted_rep. exact H.
  - apply sorted_ins; assumption.
Qed.

Lemma below_del k0 k l : below k0 l = true -> below k0 (del_assoc k l) = true.
Proof.
  unfold below, del_assoc. rewrite !forallb_forall. intros H x Hx. apply filter_In in Hx. apply H. tauto.
Qed.

Lemma sorted_del k l : keys_sorted l = true -> keys_sorted (del_assoc k l) = true.
Proof.
  induction l as [|[k' w] r IH]; intros H; [reflexivity|].
  rewrite keys_sorted_cons in H. apply andb_prop in H. destruct H as [Hb Hs].
  unfold del_assoc. cbn [filter fst]. fold (del_assoc k r).
  destruct (negb (String.eqb k' k)); [|apply IH; exact Hs].
  rewrite keys_sorted_cons, (below_del _ _ _ Hb), IH by exact Hs. reflexivity.
Qed.

(** members: every member tree is sorted *)
Lemma sorted_kids_assoc k l c : sorted_kids l = true -> assoc k l = Some c -> sorted_tree c = true.
Proof.
  induction l as [|[k' w] r IH]; intros H Ha; [discriminate|].
  cbn [sorted_kids] in H. fold sorted_kids in H. apply andb_prop in H. destruct H as [Hw Hr].
  cbn [assoc] in Ha. destruct (String.eqb k' k); [inversion Ha; subst; exact Hw|apply IH; assumption].
Qed.

Lemma sorted_kids_ins k v l : sorted_tree v = true -> sorted_kids l = true -> sorted_kids (ins_assoc k v l) = true.
Proof.
  induction l as [|[k' w] r IH]; intros Hv H; cbn [ins_assoc sorted_kids]; fold sorted_kids.
  - rewrite Hv. reflexivity.
  - cbn [sorted_kids] in H. fold sorted_kids in H. apply andb_prop in H. destruct H as [Hw Hr].
    destruct (str_ltb k k'); cbn [sorted_kids]; fold sorted_kids.
    + rewrite Hv, Hw, Hr. reflexivity.
    + rewrite Hw, IH by assumption. reflexivity.
Qed.

Lemma sorted_kids_rep k v l : sorted_tree v = true -> sorted_kids l = true -> sorted_kids (rep_assoc k v l) = true.
Proof.
  induction l as [|[k' w] r IH]; intros Hv H; [reflexivity|].
  cbn [sorted_kids] in H. fold sorted_kids in H. apply andb_prop in H. destruct H as [Hw Hr].
  cbn [rep_assoc]. destruct (String.eqb k' k); cbn [sorted_kids]; fold sorted_kids.
  - rewrite Hv, Hr. reflexivity.
  - rewrite Hw, IH by assumption. reflexivity.
Qed.

Lemma sorted_kids_set k v l : sorted_tree v = true -> sorted_kids l = true -> sorted_kids (set_assoc k v l) = true.
Proof.
  intros Hv H. unfold set_assoc. destruct (assoc k l); [apply sorted_kids_rep|apply sorted_kids_ins]; assumption.
Qed.

Lemma sorted_kids_del k l : sorted_kids l = true -> sorted_kids (del_assoc k l) = true.
Proof.
  induction l as [|[k' w] r IH]; intros H; [reflexivity|].
  cbn [sorted_kids] in H. fold sorted_kids in H. apply andb_prop in H. destruct H as [Hw Hr].
  unfold del_assoc. cbn [filter fst]. fold (del_assoc k r).
  destruct (negb (String.eqb k' k)); [|apply IH; exact Hr].
  cbn [sorted_kids]. fold sorted_kids. rewrite Hw, IH by exact Hr. reflexivity.
Qed.

(** * Trees *)
Lemma sorted_dir_iff ch : sorted_tree (Dir ch) = true <-> keys_sorted ch = true /\ sorted_kids ch = true.
Proof. rewrite sorted_dir. split; [apply andb_prop|intros [-> ->]; reflexivity]. Qed.

Lemma sorted_assoc_o k ch : sorted_tree (Dir ch) = true -> sorted_otree (assoc k ch) = true.
Proof.
  intros H. apply sorted_dir_iff in H. destruct H as [_ H].
  destruct (assoc k ch) eqn:E; [|reflexivity]. cbn. eapply sorted_kids_assoc; eassumption.
Qed.

Lemma geto_sorted p : forall on, sorted_otree on = true -> sorted_otree (geto on p) = true.
Proof.
  induction p as [|s r IH]; intros on H; [exact H|].
  cbn [geto]. destruct on as [[c m|ch]|]; try reflexivity.
  apply IH. apply sorted_assoc_o. exact H.
Qed.

Lemma seto_sorted p : forall on x t,
  sorted_otree on = true -> sorted_tree x = true -> seto on p x = Some t -> sorted_tree t = true.
Proof.
  induction p as [|s r IH]; intros on x t Ho Hx H.
  - cbn in H. inversion H; subst. exact Hx.
  - rewrite seto_cons in H. destruct on as [[c m|ch]|]; try discriminate.
    destruct (seto (assoc s ch) r x) as [c'|] eqn:E; [|discriminate].
    inversion H; subst t; clear H.
    pose proof (IH _ _ _ (sorted_assoc_o s ch Ho) Hx E) as Hc'.
    cbn in Ho. apply sorted_dir_iff in Ho. destruct Ho as [Hk Hkids].
    apply sorted_dir_iff. split; [apply sorted_set; exact Hk|apply sorted_kids_set; assumption].
Qed.

Lemma remo_sorted p : forall on, sorted_otree on = true -> sorted_otree (remo on p) = true.
Proof.
  induction p as [|s r IH]; intros on Ho; [reflexivity|].
  cbn [remo]. destruct on as [[c m|ch]|]; try exact Ho.
  destruct (assoc s ch) as [c0|] eqn:Ea; [|exact Ho].
  pose proof (IH (Some c0)) as IH0. pose proof (sorted_assoc_o s ch Ho) as Hc0. rewrite Ea in Hc0.
  specialize (IH0 Hc0).
  cbn in Ho. apply sorted_dir_iff in Ho. destruct Ho as [Hk Hkids].
  destruct (remo (Some c0) r) as [c'|]; cbn [sorted_otree]; apply sorted_dir_iff; split.
  - apply sorted_set; exact Hk.
  - apply sorted_kids_set; [exact IH0|exact Hkids].
  - apply sorted_del; exact Hk.
  - apply sorted_kids_del; exact Hkids.
Qed.

Lemma below_copy_kids st k ch : below k (copy_kids st ch) = below k ch.
Proof. induction ch as [|[k' c] r IH]; [reflexivity|]. cbn. fold (copy_kids st). fold (below k (copy_kids st r)) (below k r). rewrite IH. reflexivity. Qed.

Lemma keys_sorted_copy_kids st ch : keys_sorted (copy_kids st ch) = keys_sorted ch.
Proof.
  induction ch as [|[k c] r IH]; [reflexivity|]. cbn [copy_kids]. fold (copy_kids st).
  rewrite !keys_sorted_cons, below_copy_kids, IH. reflexivity.
Qed.

Lemma copy_tree_sorted st n : sorted_tree n = true -> sorted_tree (copy_tree st n) = true.
Proof.
  induction n as [c m|ch IH] using node_ind'; intros H; [reflexivity|].
  rewrite copy_tree_dir. apply sorted_dir_iff in H. destruct H as [Hk Hkids].
  apply sorted_dir_iff. split; [rewrite keys_sorted_copy_kids; exact Hk|].
  clear Hk. induction ch as [|[k c] r IHr]; [reflexivity|].
  cbn [sorted_kids] in Hkids. fold sorted_kids in Hkids. apply andb_prop in Hkids. destruct Hkids as [Hc Hr].
  inversion IH as [|? ? Hc' HFr]; subst. cbn [snd] in Hc'.
  cbn [copy_kids sorted_kids]. fold (copy_kids st) sorted_kids.
  rewrite (Hc' Hc), (IHr HFr Hr). reflexivity.
Qed.

Lemma copy_shallow_sorted st n : sorted_tree (copy_shallow st n) = true.
Proof. destruct n; reflexivity. Qed.

(** * The server keeps listings sorted *)
Section Served.
  Variable root : path.

  Lemma seto_sorted_o on p x :
    sorted_otree on = true -> sorted_tree x = true ->
    sorted_otree (match seto on p x with Some t => Some t | None => on end) = true.
  Proof.
    intros Ho Hx. destruct (seto on p x) eqn:E; [|exact Ho]. cbn. eapply seto_sorted; eassumption.
  Qed.

  Lemma checks_sorted sb src dst ow ss n ds cr :
    sorted_otree sb = true ->
    copy_move_checks root sb src dst ow = GOk (ss, n, ds, cr) -> sorted_tree n = true.
  Proof.
    intros Hs H. unfold copy_move_checks in H.
    destruct (segs_of src) as [ss0|]; [|discriminate].
    destruct (segs_of dst) as [ds0|]; [|discriminate].
    destruct (is_prefix ss0 ds0 || is_prefix ds0 ss0); [discriminate|].
    destruct (geto sb (hp root ss0)) as [n0|] eqn:Eg; [|discriminate].
    assert (n0 = n).
    { destruct (negb (is_dir (geto sb (hp root (parent ds0))))); [discriminate|].
      destruct (exists_ (geto sb (hp root ds0))); [destruct ow|]; inversion H; reflexivity. }
    subst n0. pose proof (geto_sorted (hp root ss0) sb Hs) as Hg. rewrite Eg in Hg. exact Hg.
  Qed.

  Lemma copy_sorted sb r dst rec ow : sorted_otree sb = true -> sorted_otree (fst (do_copy root sb r dst rec ow)) = true.
  Proof.
    intros Hs. unfold do_copy.
    destruct (copy_move_checks root sb (rpath r) dst ow) as [[[[ss n] ds] cr]|] eqn:Ec; [|exact Hs].
    pose proof (checks_sorted _ _ _ _ _ _ _ _ Hs Ec) as Hn.
    destruct (seto (remo sb (hp root ds)) (hp root ds) (if rec then copy_tree (stamp r) n else copy_shallow (stamp r) n)) eqn:E; [|exact Hs].
    cbn [fst sorted_otree]. eapply seto_sorted; [apply remo_sorted; exact Hs| |exact E].
    destruct rec; [apply copy_tree_sorted; exact Hn|apply copy_shallow_sorted].
  Qed.

  Lemma move_sorted sb r dst ow : sorted_otree sb = true -> sorted_otree (fst (do_move root sb r dst ow)) = true.
  Proof.
    intros Hs. unfold do_move.
    destruct (copy_move_checks root sb (rpath r) dst ow) as [[[[ss n] ds] cr]|] eqn:Ec; [|exact Hs].
    pose proof (checks_sorted _ _ _ _ _ _ _ _ Hs Ec) as Hn.
    destruct (seto (remo (remo sb (hp root ds)) (hp root ss)) (hp root ds) n) eqn:E; [|exact Hs].
    cbn [fst sorted_otree]. eapply seto_sorted; [|exact Hn|exact E].
    apply remo_sorted. apply remo_sorted. exact Hs.
  Qed.

  Lemma copy_move_sorted sb r : sorted_otree sb = true -> sorted_otree (fst (do_copy_move root sb r)) = true.
  Proof.
    intros Hs. unfold do_copy_move. destruct (h_dest r) as [| |dst]; try exact Hs.
    destruct (String.eqb (h_overwrite r) ""); [|destruct (String.eqb (h_overwrite r) "T"); [|destruct (String.eqb (h_overwrite r) "F"); [|exact Hs]]];
    (destruct (String.eqb (h_depth r) ""); [|destruct (String.eqb (h_depth r) "0"); [|destruct (String.eqb (h_depth r) "1"); [|destruct (String.eqb (h_depth r) "infinity"); [|exact Hs]]]]);
    destruct (String.eqb (meth r) "COPY"); cbv iota; cbn [N.eqb Pos.eqb negb];
    first [apply copy_sorted; exact Hs|apply move_sorted; exact Hs|exact Hs].
  Qed.

  Theorem serve_sorted sb r : sorted_otree sb = true -> sorted_otree (fst (serve root sb r)) = true.
  Proof.
    intros Hs. unfold serve. cbv zeta.
    repeat match goal with |- context [if ?b then _ else _] => destruct b end; try exact Hs.
    - unfold do_options. destruct (segs_of (rpath r)); exact Hs.
    - unfold do_get. destruct (stat root sb (dir_tag r) (rpath r)) as [[? [?|?]]|]; exact Hs.
    - unfold do_get. destruct (stat root sb (dir_tag r) (rpath r)) as [[? [?|?]]|]; exact Hs.
    - unfold do_put. destruct (segs_of (rpath r)) as [segs|]; [|exact Hs].
      destruct (req_cond _ _); [exact Hs|].
      destruct (is_dir (geto sb (hp root segs)) || _); [exact Hs|].
      destruct (negb (is_dir (geto sb (hp root (parent segs))))); [exact Hs|].
      destruct (body_fails r); [exact Hs|].
      destruct (seto sb (hp root segs) (File (body r) (stamp r))) eqn:E; [|exact Hs].
      cbn [fst sorted_otree]. eapply seto_sorted; [exact Hs| |exact E]. reflexivity.
    - unfold do_delete. destruct (stat root sb (dir_tag r) (rpath r)) as [[segs n]|]; [|exact Hs].
      destruct (req_cond _ _); [exact Hs|]. cbn [fst]. apply remo_sorted. exact Hs.
    - assert (Hp : fst (do_propfind root sb r) = sb); [|rewrite Hp; exact Hs].
      unfold do_propfind.
      destruct (pf r); try reflexivity;
        (destruct (String.eqb (h_depth r) ""); [|destruct (String.eqb (h_depth r) "0"); [|destruct (String.eqb (h_depth r) "1"); [|destruct (String.eqb (h_depth r) "infinity"); [|reflexivity]]]]);
        destruct (stat root sb (dir_tag r) (rpath r)) as [[? ?]|]; reflexivity.
    - unfold do_mkcol.
      destruct (negb (String.eqb (h_ctype r) "")); [exact Hs|].
      destruct (segs_of (rpath r)) as [segs|]; [|exact Hs].
      destruct (exists_ (geto sb (hp root segs))); [exact Hs|].
      destruct (negb (is_dir (geto sb (parent (hp root segs))))); [exact Hs|].
      destruct (seto sb (hp root segs) (Dir [])) eqn:E; [|exact Hs].
      cbn [fst sorted_otree]. eapply seto_sorted; [exact Hs| |exact E]. reflexivity.
    - apply copy_move_sorted. exact Hs.
    - unfold do_proppatch. destruct (pf r); exact Hs.
  Qed.

  Theorem run_sorted rs : forall sb, sorted_otree sb = true -> sorted_otree (fst (run root sb rs)) = true.
  Proof.
    induction rs as [|r rest IH]; intros sb Hs; [exact Hs|].
    cbn [run]. pose proof (serve_sorted sb r Hs) as H1.
    destruct (serve root sb r) as [sb1 resp]. cbn [fst] in H1.
    specialize (IH sb1 H1). destruct (run root sb1 rest) as [sb2 resps]. exact IH.
  Qed.
End Served.

(** In every state reachable from a sorted sandbox the single step of a COPY is the
    entry-by-entry walk — no hypothesis on the source any more. *)
Corollary copy_is_walk_sorted root sb r dst recursive overwrite ss n ds created :
  sorted_otree sb = true ->
  copy_move_checks root sb (rpath r) dst overwrite = GOk (ss, n, ds, created) ->
  fst (do_copy root sb r dst recursive overwrite)
  = match copy_walk (remo sb (hp root ds)) (hp root ds) (stamp r) n recursive with
    | Some sb' => Some sb'
    | None => sb
    end.
Proof.
  intros Hs Hc. eapply copy_is_walk; [exact Hc|]. eapply checks_sorted; eassumption.
Qed.

Example sorted_example :
  sorted_otree (Some (Dir [("a", File "x" 1); ("b", Dir [("a", File "y" 2); ("c", Dir [])])]))%string = true
  /\ sorted_otree (Some (Dir [("b", File "x" 1); ("a", File "y" 2)]))%string = false.
Proof. vm_compute. split; reflexivity. Qed.
