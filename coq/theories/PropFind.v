(** PropFind.v — C11: PROPFIND answers account for every property and respect Depth.

    Model, function by function, of
      internal/server.go   DecodePropFindRequest, handlePropfind, NewPropFindResponse
      internal/elements.go Response.EncodeProp
      server.go            backend.PropFind, propFindFile (over a model of LocalFileSystem.Stat/ReadDir
                           on a tree), servePrincipalPropfind
      caldav/server.go, carddav/server.go  backend.PropFind (the walk is Route.propfind_walk),
                           propFindRoot/UserPrincipal/HomeSet/Calendar/AddressBook/…Object: which
                           properties each resource has (not their contents: that is C10)
    and the specification: [accounted] (property accounting) and [in_scope] (Depth).
    No proofs here: this file is extracted. *)
From GW Require Import Base Route.
From Coq Require Import Permutation.

Local Open Scope string_scope.

(** * Names and values *)

Definition name := (string * string)%type.   (* namespace, local name *)

Definition name_eqb (a b : name) : bool := String.eqb (fst a) (fst b) && String.eqb (snd a) (snd b).

Definition DAV := "DAV:".
Definition NS_CAL := "urn:ietf:params:xml:ns:caldav".
Definition NS_CARD := "urn:ietf:params:xml:ns:carddav".

Definition n_resourcetype : name := (DAV, "resourcetype").
Definition n_cup : name := (DAV, "current-user-principal").
Definition n_displayname : name := (DAV, "displayname").
Definition n_getcontentlength : name := (DAV, "getcontentlength").
Definition n_getcontenttype : name := (DAV, "getcontenttype").
Definition n_getlastmodified : name := (DAV, "getlastmodified").
Definition n_getetag : name := (DAV, "getetag").
Definition n_collection : name := (DAV, "collection").
Definition n_principal : name := (DAV, "principal").

(** What C11 and C12 see of a property value: an href, the list of resource
    types, a value that serialises to an empty element, anything else; [VText]
    is "anything else" whose text the model happens to know (the file server's
    length, entity tag and content type: compared with the file-server stack's
    model in PropFindAgree.v; on the wire it is as opaque as [VOpaque]). *)
Inductive pval := VHref (p : string) | VRes (types : list name) | VEmpty | VOpaque | VText (s : string).

(** A Go [PropFindFunc]: yields a value or fails with an HTTP status
    ([HTTPErrorFromError(err).Code]). *)
Inductive pfun := Val (v : pval) | Fails (code : N).

(** The Go map [map[xml.Name]PropFindFunc], as an association list.  A Go map
    has unique keys and no order: the theorems assume [NoDup (map fst props)]
    and every comparison is up to permutation. *)
Definition props := list (name * pfun).

(** internal.PropFind after decoding: the three pointers (Include is ignored by the code). *)
Record propfind := { pf_propname : bool; pf_allprop : bool; pf_prop : option (list name) }.

(** One property element inside a propstat: its name and value ([None]: empty). *)
Definition entry := (name * option pval)%type.
Definition propstat := (N * list entry)%type.
Record response := { r_href : string; r_propstats : list propstat }.

(** * internal/elements.go: Response.EncodeProp — propstats grouped by status *)
Fixpoint encode_prop (ps : list propstat) (code : N) (e : entry) : list propstat :=
  match ps with
  | [] => [(code, [e])]
  | (c, es) :: rest =>
    if N.eqb c code then (c, (es ++ [e])%list) :: rest
    else (c, es) :: encode_prop rest code e
  end.

Definition encode_all (l : list (N * entry)) : list propstat :=
  fold_left (fun ps ce => encode_prop ps (fst ce) (snd ce)) l [].

(** * internal/server.go: NewPropFindResponse *)

Fixpoint lookup (n : name) (p : props) : option pfun :=
  match p with
  | [] => None
  | (m, f) :: r => if name_eqb n m then Some f else lookup n r
  end.

Definition has_name (n : name) (p : props) : bool := existsb (fun x => name_eqb n (fst x)) p.

(** [if _, ok := props[ResourceTypeName]; !ok { props[ResourceTypeName] = NewResourceType() }] *)
Definition with_resourcetype (p : props) : props :=
  if has_name n_resourcetype p then p else (p ++ [(n_resourcetype, Val (VRes []))])%list.

Definition mem_name (n : name) (l : list name) : bool := existsb (name_eqb n) l.

(** the [seen] map of the [prop] branch: first occurrences, in request order *)
Fixpoint dedupe (seen : list name) (l : list name) : list name :=
  match l with
  | [] => []
  | n :: r => if mem_name n seen then dedupe seen r else n :: dedupe (n :: seen) r
  end.

Definition answer_value (n : name) (f : pfun) : N * entry :=
  match f with
  | Val v => (200%N, (n, Some v))
  | Fails c => (c, (n, None))
  end.

Definition answer_name (p : props) (n : name) : N * entry :=
  match lookup n p with
  | Some f => answer_value n f
  | None => (404%N, (n, None))
  end.

Definition new_propfind_response (path : string) (pf : propfind) (p : props) : res response :=
  let p' := with_resourcetype p in
  if pf_propname pf then
    Ok {| r_href := path; r_propstats := encode_all (map (fun nf => (200%N, (fst nf, None))) p') |}
  else if pf_allprop pf then
    Ok {| r_href := path; r_propstats := encode_all (map (fun nf => answer_value (fst nf) (snd nf)) p') |}
  else match pf_prop pf with
       | Some names =>
         Ok {| r_href := path; r_propstats := encode_all (map (answer_name p') (dedupe [] names)) |}
       | None => Err 400
       end.

(** * internal/server.go: DecodePropFindRequest and handlePropfind *)

(** Content-Type as [isContentXML] sees it (mime.ParseMediaType is an input). *)
Inductive ctype := CTNone | CTXml | CTOther.

(** The request body: nothing; only white space (no XML document); a well-formed
    <DAV:propfind> document, given by what encoding/xml decodes it to; a
    well-formed document with another root; anything else. *)
Inductive body := BEmpty | BBlank | BPropfind (pf : propfind) | BOtherRoot | BMalformed.

(** [DHInfCase]: an ASCII-case variant of the literal "infinity" other than the
    canonical spelling ("Infinity", "INFINITY", …): the code refuses it like any
    other value; the specification accepts that, or the Depth infinity answer
    (ABNF literals are case-insensitive, RFC 5234 section 2.3). *)
Inductive depth_hdr := DHAbsent | DH0 | DH1 | DHInf | DHBad | DHInfCase.

Definition allprop_pf : propfind := {| pf_propname := false; pf_allprop := true; pf_prop := None |}.

Definition no_form (pf : propfind) : bool :=
  negb (pf_propname pf) && negb (pf_allprop pf) && match pf_prop pf with None => true | Some _ => false end.

Definition decode_propfind_request (ct : ctype) (bd : body) : res propfind :=
  do pf <- match ct with
           | CTXml =>
             match bd with
             | BEmpty | BBlank => Ok allprop_pf      (* Decode returns io.EOF: no document *)
             | BPropfind pf => Ok pf
             | BOtherRoot | BMalformed => Err 400
             end
           | _ =>
             match bd with
             | BEmpty => Ok allprop_pf
             | _ => Err 400                          (* "unsupported request body" *)
             end
           end;
  if no_form pf then Err 400 else Ok pf.

Definition parse_depth (h : depth_hdr) : res depth :=
  match h with
  | DHAbsent | DHInf => Ok DInf
  | DH0 => Ok D0
  | DH1 => Ok D1
  | DHBad | DHInfCase => Err 400
  end.

(** handlePropfind: [backend] is Backend.PropFind; the result is the list of
    responses of the 207 multi-status, or the error status. *)
Definition handle_propfind (backend : propfind -> depth -> res (list response))
           (ct : ctype) (bd : body) (dh : depth_hdr) : res (list response) :=
  do pf <- decode_propfind_request ct bd;
  do d <- parse_depth dh;
  backend pf d.

Fixpoint map_res {A B} (f : A -> res B) (l : list A) : res (list B) :=
  match l with
  | [] => Ok []
  | x :: r => do y <- f x; do ys <- map_res f r; Ok (y :: ys)
  end.

(** * caldav / carddav: which properties each answered resource has *)

Definition opt_prop (b : bool) (n : name) : props := if b then [(n, Val VOpaque)] else [].

Definition props_of (s : server) (b : backend) (a : answered) : props :=
  let cup := (n_cup, Val (VHref (principal b))) in
  let coll_type := (n_resourcetype, Val (VRes [n_collection])) in
  match a with
  | ARoot _ => [cup; coll_type]
  | APrincipal =>
    match s with
    | CalDAV => [cup; ((NS_CAL, "calendar-home-set"), Val (VHref (homeset b))); coll_type]
    | CardDAV => [cup; ((NS_CARD, "addressbook-home-set"), Val (VHref (homeset b))); coll_type]
    end
  | AHome => [cup; coll_type]
  | AColl c =>
    match s with
    | CalDAV =>
      [cup; (n_resourcetype, Val (VRes [n_collection; (NS_CAL, "calendar")]));
       ((NS_CAL, "calendar-description"), Val (if c_desc c then VOpaque else VEmpty));
       ((NS_CAL, "supported-calendar-data"), Val VOpaque);
       ((NS_CAL, "supported-calendar-component-set"), Val VOpaque)]
      ++ opt_prop (c_name c) n_displayname
      ++ opt_prop (c_max c) (NS_CAL, "max-resource-size")
    | CardDAV =>
      [cup; (n_resourcetype, Val (VRes [n_collection; (NS_CARD, "addressbook")]));
       ((NS_CARD, "supported-address-data"), Val VOpaque)]
      ++ opt_prop (c_name c) n_displayname
      ++ opt_prop (c_desc c) (NS_CARD, "addressbook-description")
      ++ opt_prop (c_max c) (NS_CARD, "max-resource-size")
    end
  | AObj o =>
    [cup; (n_getcontenttype, Val VOpaque);
     (match s with CalDAV => (NS_CAL, "calendar-data") | CardDAV => (NS_CARD, "address-data") end, Val VOpaque)]
    ++ opt_prop (o_len o) n_getcontentlength
    ++ opt_prop (o_mod o) n_getlastmodified
    ++ opt_prop (o_etag o) n_getetag
  end%list.

(** backend.PropFind of caldav / carddav *)
Definition hier_backend (s : server) (b : backend) (prefix path : string)
           (pf : propfind) (d : depth) : res (list response) :=
  do l <- snd (propfind_walk s b prefix path d);
  map_res (fun a => new_propfind_response (href_of b a) pf (props_of s b a)) l.

(** Handler.ServeHTTP for a PROPFIND (the /.well-known redirect is in Route.serve). *)
Definition hier_propfind (s : server) (hprefix : string) (b : backend) (path : string)
           (ct : ctype) (bd : body) (dh : depth_hdr) : res (list response) :=
  handle_propfind (hier_backend s b (trim_slash hprefix) path) ct bd dh.

(** * WebDAV file server: backend.PropFind over LocalFileSystem *)

(** The served directory: files (with or without a MIME type known for their
    extension — mime.TypeByExtension is an input) and directories; children in
    the lexical order filepath.Walk visits them in. *)
Record fmeta := { f_clen : string;    (* getcontentlength, as text *)
                  f_etag : string;    (* getetag, unquoted *)
                  f_ctype : string }. (* getcontenttype; "" when no type is known for the extension *)
Definition has_mime (m : fmeta) : bool := negb (String.eqb (f_ctype m) "").

Inductive node := File (meta : fmeta) | Dir (children : list (string * node)).

Definition is_dir (n : node) : bool := match n with Dir _ => true | File _ => false end.

Fixpoint assoc (s : string) (l : list (string * node)) : option node :=
  match l with
  | [] => None
  | (k, v) :: r => if String.eqb s k then Some v else assoc s r
  end.

(** os.Stat below the served root, by path segments *)
Fixpoint get (n : node) (segs : list string) : option node :=
  match segs with
  | [] => Some n
  | s :: r =>
    match n with
    | Dir ch => match assoc s ch with Some c => get c r | None => None end
    | File _ => None
    end
  end.

(** The segments of a path as localPath sees it: path.Clean, then below the root. *)
Definition rid (path : string) : list string :=
  filter (fun s => negb (String.eqb s "")) (split_slash (clean path)).

(** filepath.Walk with the callback of LocalFileSystem.ReadDir: every visited
    entry is listed; when not [recursive], a directory other than the top one
    is not entered (SkipDir). *)
Fixpoint walk (recursive top : bool) (p : list string) (n : node) {struct n} : list (list string * node) :=
  (p, n) ::
  match n with
  | File _ => []
  | Dir ch =>
    if negb recursive && negb top then []
    else (fix go (l : list (string * node)) : list (list string * node) :=
            match l with
            | [] => []
            | (s, c) :: r => (walk recursive false (p ++ [s]) c ++ go r)%list
            end) ch
  end.

(** externalPath: "/" + the path relative to the root; "/" for the root itself *)
Definition ext_path (segs : list string) : string :=
  match segs with [] => "/" | _ => join segs end.

(** propFindFile *)
Definition file_props (n : node) : props :=
  match n with
  | Dir _ => [(n_resourcetype, Val (VRes [n_collection])); (n_getlastmodified, Val VOpaque)]
  | File m =>
    [(n_resourcetype, Val (VRes [])); (n_getlastmodified, Val VOpaque); (n_getcontentlength, Val (VText (f_clen m)))]
    ++ (if has_mime m then [(n_getcontenttype, Val (VText (f_ctype m)))] else [])
    ++ [(n_getetag, Val (VText (f_etag m)))]
  end%list.

(** Stat + ReadDir as backend.PropFind uses them: the answered (href, node) list. *)
Fixpoint has_nul (s : string) : bool :=
  match s with
  | EmptyString => false
  | String c r => Ascii.eqb c "000"%char || has_nul r
  end.

Definition dav_scope (t : node) (path : string) (d : depth) : res (list (string * node)) :=
  if has_nul path then Err 400                              (* localPath: "invalid character in path" *)
  else if negb (has_prefix (clean path) "/") then Err 400   (* localPath: "expected absolute path" *)
  else match get t (rid path) with
       | None => Err 404
       | Some n =>
         if negb (is_d0 d) && is_dir n
         then Ok (map (fun pn => (ext_path (fst pn), snd pn)) (walk (is_inf d) true (rid path) n))
         else Ok [(clean path, n)]                       (* Stat reports the cleaned name *)
       end.

Definition dav_backend (t : node) (path : string) (pf : propfind) (d : depth) : res (list response) :=
  do l <- dav_scope t path d;
  map_res (fun hn => new_propfind_response (fst hn) pf (file_props (snd hn))) l.

Definition dav_propfind (t : node) (path : string) (ct : ctype) (bd : body) (dh : depth_hdr) : res (list response) :=
  handle_propfind (dav_backend t path) ct bd dh.

(** * webdav.ServePrincipal (servePrincipalPropfind): a principal has no members,
    every valid Depth gives the same answer; an invalid one is refused (ac7c79e) *)
Definition principal_props (cup : string) (homesets : list (name * string)) : props :=
  ([(n_resourcetype, Val (VRes [n_principal])); (n_cup, Val (VHref cup))]
   ++ map (fun h => (fst h, Val (VHref (snd h)))) homesets)%list.

Definition serve_principal (cup : string) (homesets : list (name * string)) (path : string)
           (ct : ctype) (bd : body) (dh : depth_hdr) : res (list response) :=
  do pf <- decode_propfind_request ct bd;
  do _d <- parse_depth dh;
  do r <- new_propfind_response path pf (principal_props cup homesets);
  Ok [r].

(** * Specification: accounting *)

(** The request form.  When several of the three elements are present (RFC 4918
    allows exactly one) the code's precedence is taken: propname, allprop, prop. *)
Inductive form := FPropname | FAllprop | FProp (names : list name) | FNone.

Definition form_of (pf : propfind) : form :=
  if pf_propname pf then FPropname
  else if pf_allprop pf then FAllprop
  else match pf_prop pf with Some l => FProp l | None => FNone end.

(** A propstat entry seen flat: (name, status, value). *)
Definition fentry := (name * N * option pval)%type.

Definition flat_ps (ps : list propstat) : list fentry :=
  flat_map (fun cs => map (fun e => (fst e, fst cs, snd e)) (snd cs)) ps.
Definition flat (r : response) : list fentry := flat_ps (r_propstats r).

(** Every resource has DAV:resourcetype (RFC 4918 section 15.9); a resource
    whose backend does not define it has the empty one. *)
Definition available (p : props) : props := with_resourcetype p.

(** How one property must be reported: its value under 200 if the resource has
    it; empty under the status with which its value cannot be produced; empty
    under 404 if the resource does not have it. *)
Definition report_value (n : name) (f : pfun) : fentry :=
  match f with Val v => (n, 200%N, Some v) | Fails c => (n, c, None) end.
Definition report_name (p : props) (n : name) : fentry :=
  match lookup n p with Some f => report_value n f | None => (n, 404%N, None) end.

(** What is compared of values: [id] for the model, [wire] for an observation
    (an empty element on the wire is either no value or an empty one). *)
Definition wire (v : option pval) : option pval :=
  match v with Some VEmpty => None | Some (VRes []) => None | Some (VText _) => Some VOpaque | _ => v end.
Definition proj (f : option pval -> option pval) (e : fentry) : fentry := (fst e, f (snd e)).

(** [accounted_gen f pf p r]: the response [r] accounts for request [pf] on a
    resource with properties [p] (values seen through [f]):
    - propstats are grouped: one per status, none empty;
    - prop: the entries are, up to order, one per DISTINCT requested name, each
      reported as [report_name] says — so nothing is answered twice, nothing
      requested is missing and nothing else is present;
    - propname: the names of all available properties, under 200, without values;
    - allprop: all available properties as [report_value] says;
    - none of the three: never accounted (the request must be refused). *)
Definition accounted_gen (f : option pval -> option pval) (pf : propfind) (p : props) (r : response) : Prop :=
  NoDup (map fst (r_propstats r)) /\
  (forall cs, In cs (r_propstats r) -> snd cs <> []) /\
  match form_of pf with
  | FProp names =>
    exists ds, NoDup ds /\ (forall n, In n ds <-> In n names) /\
               Permutation (map (proj f) (flat r)) (map (proj f) (map (report_name (available p)) ds))
  | FPropname =>
    Permutation (map (proj f) (flat r)) (map (fun nf => (fst nf, 200%N, None)) (available p))
  | FAllprop =>
    Permutation (map (proj f) (flat r)) (map (proj f) (map (fun nf => report_value (fst nf) (snd nf)) (available p)))
  | FNone => False
  end.

Definition accounted := accounted_gen (fun v => v).
Definition accounted_wire := accounted_gen wire.

(** * Specification: scope *)

Fixpoint prefix_b (a l : list string) : bool :=
  match a, l with
  | [], _ => true
  | x :: a', y :: l' => String.eqb x y && prefix_b a' l'
  | _ :: _, [] => false
  end.

(** [r] (a resource, by its path segments) is in the scope of a request on
    [target] with depth [d]: the addressed resource; plus its direct members
    for Depth 1; plus all its descendants for Depth infinity. *)
Definition in_scope (d : depth) (target r : list string) : Prop :=
  r = target \/
  (d <> D0 /\ exists x, r = (target ++ [x])%list) \/
  (d = DInf /\ exists x l, r = (target ++ x :: l)%list).

Definition in_scope_b (d : depth) (target r : list string) : bool :=
  prefix_b target r &&
  (Nat.eqb (List.length r) (List.length target)
   || (negb (is_d0 d) && Nat.eqb (List.length r) (S (List.length target)))
   || is_inf d).

(** ** The file server's resources: every node of the tree, by its segments *)
Fixpoint all_nodes (p : list string) (n : node) {struct n} : list (list string * node) :=
  (p, n) ::
  match n with
  | File _ => []
  | Dir ch =>
    (fix go (l : list (string * node)) : list (list string * node) :=
       match l with
       | [] => []
       | (s, c) :: r => (all_nodes (p ++ [s]) c ++ go r)%list
       end) ch
  end.

Definition dav_expected (t : node) (d : depth) (target : list string) : list (list string * node) :=
  filter (fun pn => in_scope_b d target (fst pn)) (all_nodes [] t).

(** ** A CalDAV/CardDAV hierarchy placed under a prefix *)
Record hobj := { ho_name : string; ho_len : bool; ho_mod : bool; ho_etag : bool }.
Record hcoll := { hc_name : string; hc_slash : bool; hc_hasname : bool; hc_desc : bool; hc_max : bool;
                  hc_objs : list hobj }.
Record hier := { h_ps : list string; h_user : string; h_uslash : bool; h_home : string; h_hslash : bool;
                 h_colls : list hcoll }.

Definition tsl (b : bool) : string := if b then "/" else "".

Definition obj_of (h : hier) (c : hcoll) (o : hobj) : obj :=
  {| o_path := join (h_ps h ++ [h_user h; h_home h; hc_name c; ho_name o]);
     o_len := ho_len o; o_mod := ho_mod o; o_etag := ho_etag o |}.
Definition coll_of (h : hier) (c : hcoll) : coll :=
  {| c_path := join (h_ps h ++ [h_user h; h_home h; hc_name c]) ++ tsl (hc_slash c);
     c_name := hc_hasname c; c_desc := hc_desc c; c_max := hc_max c;
     c_objs := map (obj_of h c) (hc_objs c) |}.
Definition backend_of (h : hier) : backend :=
  {| principal := join (h_ps h ++ [h_user h]) ++ tsl (h_uslash h);
     homeset := join (h_ps h ++ [h_user h; h_home h]) ++ tsl (h_hslash h);
     colls := map (coll_of h) (h_colls h) |}.

(** The exposed resources, by position in the hierarchy, in document order. *)
Inductive pos := PRoot | PPrincipal | PHome | PColl (c : hcoll) | PObj (c : hcoll) (o : hobj).

(** a position's path segments below the prefix *)
Definition pos_rest (h : hier) (p : pos) : list string :=
  match p with
  | PRoot => []
  | PPrincipal => [h_user h]
  | PHome => [h_user h; h_home h]
  | PColl c => [h_user h; h_home h; hc_name c]
  | PObj c o => [h_user h; h_home h; hc_name c; ho_name o]
  end.

Definition all_pos (h : hier) : list pos :=
  PRoot :: PPrincipal :: PHome ::
  flat_map (fun c => PColl c :: map (PObj c) (hc_objs c)) (h_colls h).

(** The root of the hierarchy answers for itself only (it is where discovery
    starts, not a listing of principals): nothing is a member of it. *)
Definition hier_in_scope_b (h : hier) (d : depth) (target : list string) (p : pos) : bool :=
  match target with
  | [] => match p with PRoot => true | _ => false end
  | _ => in_scope_b d target (pos_rest h p)
  end.

Definition hier_expected (h : hier) (d : depth) (target : list string) : list pos :=
  filter (hier_in_scope_b h d target) (all_pos h).

Definition answered_of (h : hier) (path : string) (p : pos) : answered :=
  match p with
  | PRoot => ARoot path
  | PPrincipal => APrincipal
  | PHome => AHome
  | PColl c => AColl (coll_of h c)
  | PObj c o => AObj (obj_of h c o)
  end.

(** well-formed: usable segment names, distinct collection names, distinct
    object names within a collection *)
Fixpoint nodup_b (l : list string) : bool :=
  match l with
  | [] => true
  | x :: r => negb (existsb (String.eqb x) r) && nodup_b r
  end.

Definition hier_ok (h : hier) : bool :=
  segs_ok (h_ps h) && seg_ok (h_user h) && seg_ok (h_home h)
  && segs_ok (map hc_name (h_colls h)) && nodup_b (map hc_name (h_colls h))
  && forallb (fun c => segs_ok (map ho_name (hc_objs c)) && nodup_b (map ho_name (hc_objs c))) (h_colls h).

(** no NUL byte in a target (a file system has no such name; the server refuses the path) *)
Definition nul_free (l : list string) : bool := forallb (fun s => negb (has_nul s)) l.

Fixpoint tree_ok (n : node) : bool :=
  match n with
  | File _ => true
  | Dir ch =>
    segs_ok (map fst ch) && nodup_b (map fst ch)
    && (fix go (l : list (string * node)) : bool :=
          match l with [] => true | (_, c) :: r => tree_ok c && go r end) ch
  end.

(** * Correspondence verdicts (extracted) *)

Fixpoint names_eqb (a b : list name) : bool :=
  match a, b with
  | [], [] => true
  | x :: r, y :: s => name_eqb x y && names_eqb r s
  | _, _ => false
  end.

Definition pval_eqb (a b : pval) : bool :=
  match a, b with
  | VHref x, VHref y => String.eqb x y
  | VRes x, VRes y => names_eqb x y
  | VEmpty, VEmpty => true
  | VOpaque, VOpaque => true
  | VText x, VText y => String.eqb x y
  | _, _ => false
  end.

Definition optval_eqb (a b : option pval) : bool :=
  match a, b with
  | None, None => true
  | Some x, Some y => pval_eqb x y
  | _, _ => false
  end.

Definition fentry_eqb (a b : fentry) : bool :=
  name_eqb (fst (fst a)) (fst (fst b)) && N.eqb (snd (fst a)) (snd (fst b)) && optval_eqb (snd a) (snd b).

Fixpoint remove1 {A} (eqb : A -> A -> bool) (x : A) (l : list A) : option (list A) :=
  match l with
  | [] => None
  | y :: r => if eqb x y then Some r
              else match remove1 eqb x r with Some r' => Some (y :: r') | None => None end
  end.

Fixpoint perm_b {A} (eqb : A -> A -> bool) (l1 l2 : list A) : bool :=
  match l1 with
  | [] => match l2 with [] => true | _ => false end
  | x :: r => match remove1 eqb x l2 with Some l2' => perm_b eqb r l2' | None => false end
  end.

Fixpoint nodup_N (l : list N) : bool :=
  match l with
  | [] => true
  | x :: r => negb (existsb (N.eqb x) r) && nodup_N r
  end.

Definition grouped_b (ps : list propstat) : bool :=
  nodup_N (map fst ps) && forallb (fun cs => match snd cs with [] => false | _ => true end) ps.

(** executable [accounted_wire] *)
Definition accounted_b (pf : propfind) (p : props) (r : response) : bool :=
  grouped_b (r_propstats r) &&
  match form_of pf with
  | FProp names =>
    perm_b fentry_eqb (map (proj wire) (flat r))
           (map (proj wire) (map (report_name (available p)) (dedupe [] names)))
  | FPropname =>
    perm_b fentry_eqb (map (proj wire) (flat r)) (map (fun nf => (fst nf, 200%N, None)) (available p))
  | FAllprop =>
    perm_b fentry_eqb (map (proj wire) (flat r))
           (map (proj wire) (map (fun nf => report_value (fst nf) (snd nf)) (available p)))
  | FNone => false
  end.

(** ** Open accounting (the file server)

    The statement asks that every REQUESTED property is accounted for, that
    allprop / propname answer with the properties the resource defines, and that
    Depth is respected; it does not fix WHICH live properties the file server
    defines.  For the file server the verdict therefore reads the model's
    property set as "at least these": allprop / propname must hold every property
    of the model's set as the model reports it, and may hold more (each once,
    under 200); a requested name outside the model's set may come back 404 empty
    or 200; every name occurs at most once; nothing unrequested is answered. *)
Definition fe_name (e : fentry) : name := fst (fst e).
Definition fe_status (e : fentry) : N := snd (fst e).

Fixpoint nodup_names (l : list name) : bool :=
  match l with
  | [] => true
  | x :: r => negb (mem_name x r) && nodup_names r
  end.

Definition mem_fentry (e : fentry) (l : list fentry) : bool := existsb (fentry_eqb e) l.

Definition accounted_open_b (pf : propfind) (p : props) (r : response) : bool :=
  let F := map (proj wire) (flat r) in
  let av := available p in
  grouped_b (r_propstats r) && nodup_names (map fe_name F) &&
  match form_of pf with
  | FProp names =>
    perm_b name_eqb (map fe_name F) (dedupe [] names)
    && forallb (fun e =>
                  if has_name (fe_name e) av
                  then fentry_eqb e (proj wire (report_name av (fe_name e)))
                  else (N.eqb (fe_status e) 404 && match snd e with None => true | Some _ => false end)
                       || N.eqb (fe_status e) 200) F
  | FPropname =>
    forallb (fun nf => mem_fentry (fst nf, 200%N, None) F) av
    && forallb (fun e => N.eqb (fe_status e) 200 && match snd e with None => true | Some _ => false end) F
  | FAllprop =>
    forallb (fun nf => mem_fentry (proj wire (report_value (fst nf) (snd nf))) F) av
    && forallb (fun e => has_name (fe_name e) av || N.eqb (fe_status e) 200) F
  | FNone => false
  end.

(** the file server's verdict: the exact accounting, or the open one *)
Definition accounted_dav_b (pf : propfind) (p : props) (r : response) : bool :=
  accounted_b pf p r || accounted_open_b pf p r.

(** two responses are the same answer: same href (for the file server, whose
    spelling of hrefs is C05's business: an href naming the same resource), same
    entries up to order, grouped by status (values through [wire]) *)
Definition response_agrees (by_rid : bool) (m o : response) : bool :=
  (if by_rid then list_eqb String.eqb (rid (r_href m)) (rid (r_href o)) else String.eqb (r_href m) (r_href o))
  && grouped_b (r_propstats o)
  && perm_b fentry_eqb (map (proj wire) (flat m)) (map (proj wire) (flat o)).

Fixpoint all2 {A B} (f : A -> B -> bool) (l1 : list A) (l2 : list B) : bool :=
  match l1, l2 with
  | [], [] => true
  | x :: r, y :: s => f x y && all2 f r s
  | _, _ => false
  end.

(** An observation: the HTTP status, the responses of the body (when 207), and
    whether the strict reader accepted the body (well-formed, every prefix
    declared, no duplicate attribute). *)
Record observation := { ob_status : N; ob_responses : list response; ob_strict : bool }.

(** The model's own answer as an observation (its body is a tree, which the
    strict reader accepts by construction). *)
Definition observe (m : res (list response)) : observation :=
  match m with
  | Ok l => {| ob_status := 207; ob_responses := l; ob_strict := true |}
  | Err c => {| ob_status := c; ob_responses := []; ob_strict := true |}
  | Panic => {| ob_status := 500; ob_responses := []; ob_strict := false |}
  end.

(** Statuses are compared by class: 207, 400 (both constrained by the
    property), any other refusal (which one is C13's and C01's business). *)
Definition status_class (c : N) : N :=
  if N.eqb c 207 then 207 else if N.eqb c 400 then 400 else 0.

Definition answer_agrees (by_rid : bool) (m : res (list response)) (o : observation) : bool :=
  match m with
  | Ok l => N.eqb (ob_status o) 207 && all2 (response_agrees by_rid) l (ob_responses o)
  | Err c => N.eqb (status_class c) (status_class (ob_status o)) && negb (N.eqb (ob_status o) 207)
  | Panic => false
  end.

(** What the specification says the request is, independently of the decoder
    model: the form asked for, or a request that must be refused (400), or one
    the property does not speak about (malformed XML, a body of another type…). *)
Inductive asked := AskForm (pf : propfind) | AskRefuse | AskUnspecified.

Definition asked_of (ct : ctype) (bd : body) : asked :=
  match bd with
  | BEmpty => AskForm allprop_pf                       (* an empty body is allprop, whatever the type *)
  | BPropfind pf =>
    match ct with
    | CTXml => if no_form pf then AskRefuse else AskForm pf
    | _ => AskUnspecified
    end
  | _ => AskUnspecified
  end.

Definition depth_asked (dh : depth_hdr) : option depth :=
  match dh with DHAbsent | DHInf => Some DInf | DH0 => Some D0 | DH1 => Some D1 | DHBad | DHInfCase => None end.

Definition is_infcase (dh : depth_hdr) : bool := match dh with DHInfCase => true | _ => false end.

(** [expected]: the in-scope resources in answer order, each with the href
    identifying it (as path segments) and its properties; [None] when the
    addressed resource is not exposed (then any refusal, or an empty answer, is fine). *)
Definition spec_answer_gen (acc : propfind -> props -> response -> bool)
           (ct : ctype) (bd : body) (dh : depth_hdr)
           (expected : depth -> option (list (list string * props)))
           (o : observation) : bool :=
  (if N.eqb (ob_status o) 207 then ob_strict o else true) &&
  match asked_of ct bd with
  | AskRefuse => N.eqb (ob_status o) 400
  | AskUnspecified => true
  | AskForm pf =>
    if is_infcase dh then
      (* a case variant of "infinity": refused with 400, or answered as Depth infinity *)
      N.eqb (ob_status o) 400 ||
      match expected DInf with
      | None => negb (N.eqb (ob_status o) 207) || match ob_responses o with [] => true | _ => false end
      | Some l =>
        N.eqb (ob_status o) 207
        && all2 (fun e r => list_eqb String.eqb (rid (r_href r)) (fst e) && acc pf (snd e) r)
                l (ob_responses o)
      end
    else
    match depth_asked dh with
    | None => negb (N.eqb (ob_status o) 207)
    | Some d =>
      match expected d with
      | None => negb (N.eqb (ob_status o) 207) || match ob_responses o with [] => true | _ => false end
      | Some l =>
        N.eqb (ob_status o) 207
        && all2 (fun e r => list_eqb String.eqb (rid (r_href r)) (fst e) && acc pf (snd e) r)
                l (ob_responses o)
      end
    end
  end.

Definition spec_answer := spec_answer_gen accounted_b.

(** ** per server *)

Definition dav_model (t : node) (path : string) ct bd dh : res (list response) := dav_propfind t path ct bd dh.

Definition dav_spec (t : node) (target : list string) ct bd dh (o : observation) : bool :=
  spec_answer_gen accounted_dav_b ct bd dh
    (fun d => match get t target with
              | None => None
              | Some _ => Some (map (fun pn => (fst pn, file_props (snd pn))) (dav_expected t d target))
              end) o.

Definition hier_model (s : server) (hprefix : string) (b : backend) (path : string) ct bd dh : res (list response) :=
  hier_propfind s hprefix b path ct bd dh.

(** the request addresses [h_ps h ++ rs] (with or without trailing slash) *)
Definition hier_spec (s : server) (h : hier) (rs : list string) (rtrail : bool) ct bd dh (o : observation) : bool :=
  let path := req_path (h_ps h) rs rtrail in
  let b := backend_of h in
  spec_answer ct bd dh
    (fun d => match hier_expected h d rs with
              | [] => None
              | l => if Nat.eqb (List.length rs) 4 && rtrail then None   (* "/…/object/" is not the object *)
                     else Some (map (fun p => ((h_ps h ++ pos_rest h p)%list, props_of s b (answered_of h path p))) l)
              end) o.

Definition principal_model (cup : string) (homesets : list (name * string)) (path : string) ct bd dh
  : res (list response) :=
  serve_principal cup homesets path ct bd dh.

Definition principal_spec (cup : string) (homesets : list (name * string)) (target : list string) ct bd dh
           (o : observation) : bool :=
  spec_answer ct bd dh (fun _ => Some [(target, principal_props cup homesets)]) o.
