(** HrefProofs.v — proofs about Href.v: Parse (String (Href{Path: p})) = Href{Path: p}
    byte for byte for every absolute path whose first segment is not empty; the text sent
    is a path-absolute of RFC 3986 denoting p; in the scope of the specification the
    decoder accepts exactly the lenient reading, which contains the strict grammar. *)
From GW Require Import Base Wire WireProofs Quote Utf8Proofs QuoteProofs Href.
Local Open Scope N_scope.

(** * Per-byte facts, by enumeration of the 256 bytes *)
Ltac all_bytes c := destruct c as [[] [] [] [] [] [] [] []]; vm_compute; try reflexivity; try discriminate.

(** what escape writes for one byte *)
Definition esc1 (m : mode) (c : ascii) : string :=
  if should_escape m c then pct c EmptyString else String c EmptyString.

Lemma escape_cons m c r : escape m (String c r) = (esc1 m c ++ escape m r)%string.
Proof. unfold esc1. cbn [escape]. destruct (should_escape m c); reflexivity. Qed.

Lemma esc1_no_ctl m c : has_ctl (esc1 m c) = false.
Proof. destruct m; all_bytes c. Qed.

Lemma esc1_no_hash m c : contains (esc1 m c) "#" = false.
Proof. destruct m; all_bytes c. Qed.

Lemma esc1_no_qmark c : contains (esc1 EncodePath c) "?" = false.
Proof. all_bytes c. Qed.

Lemma esc1_slash c : esc1 EncodePath c = "/"%string -> c = "/"%char.
Proof. all_bytes c. Qed.

Lemma esc1_head_not_slash c : c <> "/"%char -> forall r, has_prefix "/" (esc1 EncodePath c ++ r) = false.
Proof. all_bytes c; intros H; try reflexivity. exfalso; apply H; reflexivity. Qed.

Lemma unescape_esc1 m c rest :
  unescape (esc1 m c ++ rest) = match unescape rest with Some out => Some (String c out) | None => None end.
Proof. destruct m; destruct c as [[] [] [] [] [] [] [] []]; cbn; destruct (unescape rest); reflexivity. Qed.

Lemma spec_path_tail_esc1 c rest :
  spec_path_tail (esc1 EncodePath c ++ rest)
  = match spec_path_tail rest with Some out => Some (String c out) | None => None end.
Proof. destruct c as [[] [] [] [] [] [] [] []]; cbn; destruct (spec_path_tail rest); reflexivity. Qed.

(** * Strings *)
Lemma append_nil_r (s : string) : (s ++ "")%string = s.
Proof. induction s; cbn; [reflexivity|]. rewrite IHs. reflexivity. Qed.

Lemma has_ctl_app a b : has_ctl (a ++ b) = has_ctl a || has_ctl b.
Proof. induction a; cbn; [reflexivity|]. rewrite IHa. rewrite !orb_assoc. reflexivity. Qed.

Lemma contains_app a b x : contains (a ++ b) x = contains a x || contains b x.
Proof. induction a; cbn [append]; [reflexivity|]. rewrite !contains_cons, IHa. apply orb_assoc. Qed.

Lemma cut_byte_absent s x : contains s x = false -> cut_byte s x = (s, EmptyString, false).
Proof.
  induction s as [|c r IH]; [reflexivity|]. rewrite contains_cons. intros H. apply orb_false_iff in H.
  destruct H as [H1 H2]. cbn [cut_byte]. rewrite H1, (IH H2). reflexivity.
Qed.

Lemma escape_no_ctl m p : has_ctl (escape m p) = false.
Proof. induction p; [reflexivity|]. rewrite escape_cons, has_ctl_app, esc1_no_ctl, IHp. reflexivity. Qed.

Lemma escape_no_hash m p : contains (escape m p) "#" = false.
Proof. induction p; [reflexivity|]. rewrite escape_cons, contains_app, esc1_no_hash, IHp. reflexivity. Qed.

Lemma escape_no_qmark p : contains (escape EncodePath p) "?" = false.
Proof. induction p; [reflexivity|]. rewrite escape_cons, contains_app, esc1_no_qmark, IHp. reflexivity. Qed.

(** unescape inverts escape, in both modes, on every byte string *)
Lemma unescape_escape m p : unescape (escape m p) = Some p.
Proof. induction p; [reflexivity|]. rewrite escape_cons, unescape_esc1, IHp. reflexivity. Qed.

Lemma spec_path_tail_escape p : spec_path_tail (escape EncodePath p) = Some p.
Proof. induction p; [reflexivity|]. rewrite escape_cons, spec_path_tail_esc1, IHp. reflexivity. Qed.

(** * The round trip *)

(** the shape of a path of the domain *)
Lemma in_domain_shape p : href_in_domain p = true ->
  exists r, p = String "/" r /\ has_prefix "/" r = false.
Proof.
  unfold href_in_domain, has_prefix. destruct p as [|c r]; [discriminate|]. cbn [strip_prefix].
  destruct (Ascii.eqb_spec "/" c) as [<-|]; [|discriminate]. cbn [andb].
  destruct r as [|d r']; [intros _; exists EmptyString; split; reflexivity|].
  destruct (Ascii.eqb_spec "/" d) as [<-|Hd]; [discriminate|]. intros _.
  exists (String d r'). split; [reflexivity|]. cbn [strip_prefix]. apply Ascii.eqb_neq in Hd. rewrite Hd. reflexivity.
Qed.

Lemma escape_abs r : escape EncodePath (String "/" r) = String "/" (escape EncodePath r).
Proof. reflexivity. Qed.

Lemma escape_tail_no_slash r : has_prefix "/" r = false -> has_prefix "/" (escape EncodePath r) = false.
Proof.
  destruct r as [|d r']; [reflexivity|]. intros H. rewrite escape_cons. apply esc1_head_not_slash.
  intros ->. discriminate H.
Qed.

Lemma has_prefix_2slash x : has_prefix "//" (String "/" x) = has_prefix "/" x.
Proof. reflexivity. Qed.

Lemma href_marshal_abs r : href_marshal (String "/" r) = String "/" (escape EncodePath r).
Proof.
  unfold href_marshal, url_string, url_of_path. cbn [u_scheme u_opaque u_path u_rawpath u_omithost u_forcequery u_rawquery u_fragment str_empty negb andb orb].
  unfold escaped. cbn [str_empty negb andb]. 
  replace (String.eqb (String "/" r) "*") with false by reflexivity.
  rewrite escape_abs. unfold first_segment_has_colon. cbn [cut_byte]. change (("/" =? "/")%char) with true. cbv iota.
  cbn [contains index_byte append]. rewrite !append_nil_r. reflexivity.
Qed.

(** an absolute path whose first segment is not empty is read back byte for byte, and
    nothing else of the URL is set *)
Theorem href_roundtrip p : href_in_domain p = true ->
  href_unmarshal (href_marshal p) = Ok (HUrl (url_of_path p)).
Proof.
  intros H. destruct (in_domain_shape _ H) as (r & -> & Hr). rewrite href_marshal_abs.
  assert (Hs := escape_tail_no_slash _ Hr).
  set (t := String "/" (escape EncodePath r)).
  assert (Et : t = escape EncodePath (String "/" r)) by reflexivity.
  unfold href_unmarshal, url_parse.
  rewrite (cut_byte_absent t "#") by (rewrite Et; apply escape_no_hash).
  unfold parse_nofrag. rewrite Et at 1. rewrite escape_no_ctl.
  replace (String.eqb t "*") with false by reflexivity.
  replace (get_scheme true t) with NoScheme by reflexivity.
  rewrite (cut_byte_absent t "?") by (rewrite Et; apply escape_no_qmark).
  cbn [andb str_empty].
  replace (has_prefix "/" t) with true by reflexivity. cbn [negb andb orb].
  replace (has_prefix "//" t) with false by (unfold t; rewrite has_prefix_2slash; symmetry; exact Hs).
  rewrite andb_false_r.
  unfold set_escaped. rewrite Et at 1. rewrite unescape_escape. rewrite <- Et, String.eqb_refl. reflexivity.
Qed.

(** the text sent is a path-absolute of RFC 3986 (so a Simple-ref of RFC 4918) denoting p *)
Theorem href_marshal_in_grammar p : href_in_domain p = true ->
  href_den (href_marshal p) = Some p /\ href_scope (href_marshal p) = true.
Proof.
  intros H. destruct (in_domain_shape _ H) as (r & -> & Hr). rewrite href_marshal_abs.
  assert (Hs := escape_tail_no_slash _ Hr). split.
  - unfold href_den. change (("/" =? "/")%char) with true. rewrite Hs. cbn [negb andb].
    rewrite spec_path_tail_escape. reflexivity.
  - unfold href_scope. cbn [spec_has_scheme]. replace (is_alpha (byte "/")) with false by reflexivity. cbn [andb negb].
    rewrite has_prefix_2slash, Hs. reflexivity.
Qed.

Theorem href_unmarshal_never_panics s : href_unmarshal s <> Panic.
Proof. unfold href_unmarshal, plain_err. destruct (url_parse s); discriminate. Qed.


(** * The decoder in the scope of the specification *)

Lemma get_scheme_false_no_err r : get_scheme false r <> SchemeErr.
Proof.
  induction r as [|c r IH]; [discriminate|]. cbn [get_scheme].
  destruct (get_scheme false r); try contradiction;
  destruct (is_alpha (byte c)); try discriminate;
  destruct (is_num (byte c) || mem_bytes (byte c) [43; 45; 46]); try discriminate;
  destruct (byte c =? 58); discriminate.
Qed.

Lemma get_scheme_false_len r n : get_scheme false r = SchemeLen n -> spec_scheme_tail r = true.
Proof.
  revert n. induction r as [|c r IH]; intros n; [discriminate|]. cbn [get_scheme spec_scheme_tail].
  destruct (N.eqb_spec (byte c) 58) as [E|E].
  { intros _. reflexivity. }
  destruct (is_alpha (byte c)); cbn [orb].
  { destruct (get_scheme false r) eqn:G; try discriminate. intros _. eapply IH. reflexivity. }
  destruct (is_num (byte c) || mem_bytes (byte c) [43; 45; 46]).
  { destruct (get_scheme false r) eqn:G; try discriminate. intros _. eapply IH. reflexivity. }
  discriminate.
Qed.

Lemma get_scheme_true_len u n : get_scheme true u = SchemeLen n -> spec_has_scheme u = true.
Proof.
  destruct u as [|c r]; [discriminate|]. cbn [get_scheme spec_has_scheme].
  destruct (is_alpha (byte c)); cbn [andb].
  { destruct (get_scheme false r) eqn:G; try discriminate. intros _. eapply get_scheme_false_len. exact G. }
  destruct (is_num (byte c) || mem_bytes (byte c) [43; 45; 46]); [discriminate|].
  destruct (byte c =? 58); discriminate.
Qed.

Lemma get_scheme_true_err u : get_scheme true u = SchemeErr -> exists r, u = String ":" r.
Proof.
  destruct u as [|c r]; [discriminate|]. cbn [get_scheme].
  assert (H := get_scheme_false_no_err r).
  destruct (is_alpha (byte c)).
  { destruct (get_scheme false r); try discriminate. contradiction. }
  destruct (is_num (byte c) || mem_bytes (byte c) [43; 45; 46]); [discriminate|].
  destruct (N.eqb_spec (byte c) 58) as [E|E]; [|discriminate].
  intros _. exists r. f_equal. apply byte_inj. exact E.
Qed.

Lemma cut_prefix2 s x a b f : cut_byte s x = (a, b, f) -> x <> "/"%char -> has_prefix "//" a = has_prefix "//" s.
Proof.
  intros H Hx. apply Ascii.eqb_neq in Hx.
  destruct s as [|c [|d r]]; cbn [cut_byte] in H.
  - injection H as <- _ _. reflexivity.
  - destruct (Ascii.eqb_spec c x) as [->|]; injection H as <- _ _; [|reflexivity].
    unfold has_prefix. cbn [strip_prefix]. rewrite Ascii.eqb_sym, Hx. reflexivity.
  - destruct (Ascii.eqb_spec c x) as [->|].
    + injection H as <- _ _. unfold has_prefix. cbn [strip_prefix]. rewrite Ascii.eqb_sym, Hx. reflexivity.
    + destruct (Ascii.eqb_spec d x) as [->|].
      * injection H as <- _ _. unfold has_prefix. cbn [strip_prefix].
        destruct (Ascii.eqb "/" c); [|reflexivity]. rewrite Ascii.eqb_sym, Hx. reflexivity.
      * destruct (cut_byte r x) as [[a' b'] f']. injection H as <- _ _.
        unfold has_prefix. cbn [strip_prefix]. destruct (Ascii.eqb "/" c); [destruct (Ascii.eqb "/" d)|]; reflexivity.
Qed.

Lemma lax_path_colon r : lax_path (String ":" r) = None.
Proof.
  unfold lax_path. cbn [cut_byte]. change ((":" =? "?")%char) with false. cbv iota.
  destruct (cut_byte r "?") as [[a b] f]. unfold has_prefix, first_segment_has_colon. cbn [strip_prefix cut_byte].
  change (("/" =? ":")%char) with false. change ((":" =? "/")%char) with false. cbv iota.
  destruct (cut_byte a "/") as [[a' b'] f']. rewrite contains_cons. reflexivity.
Qed.

Lemma parse_nofrag_scope u : spec_has_scheme u = false -> has_prefix "//" u = false ->
  match parse_nofrag u with
  | Some (HUrl x) => has_ctl u = false /\ lax_path u = Some (u_path x)
                     /\ u_scheme x = EmptyString /\ u_opaque x = EmptyString /\ u_fragment x = EmptyString
  | Some (HAuth _ _) => False
  | None => has_ctl u = true \/ lax_path u = None
  end.
Proof.
  intros Hs Hp. unfold parse_nofrag.
  destruct (has_ctl u); [left; reflexivity|].
  destruct (String.eqb_spec u "*") as [->|Hstar]; [repeat split|].
  destruct (get_scheme true u) eqn:G.
  - destruct (get_scheme_true_err _ G) as (r & ->). right. apply lax_path_colon.
  - unfold lax_path. destruct (cut_byte u "?") as [[p q] found] eqn:C.
    cbn [str_empty negb]. rewrite andb_false_r.
    destruct (negb (has_prefix "/" p) && first_segment_has_colon p); [right; reflexivity|].
    rewrite (cut_prefix2 _ _ _ _ _ C) by discriminate. rewrite Hp, andb_false_r.
    unfold set_escaped. destruct (unescape p) as [path|]; [|right; reflexivity].
    repeat split.
  - rewrite (get_scheme_true_len _ _ G) in Hs. discriminate.
Qed.

Lemma spec_scheme_tail_cut r : forall a b f, cut_byte r "#" = (a, b, f) -> spec_scheme_tail a = spec_scheme_tail r.
Proof.
  induction r as [|c r IH]; intros a b f H; cbn [cut_byte] in H.
  - injection H as <- _ _. reflexivity.
  - destruct (Ascii.eqb_spec c "#") as [->|].
    + injection H as <- _ _. reflexivity.
    + destruct (cut_byte r "#") as [[a' b'] f'] eqn:C. injection H as <- _ _.
      cbn [spec_scheme_tail]. rewrite (IH _ _ _ eq_refl). reflexivity.
Qed.

Lemma spec_has_scheme_cut s a b f : cut_byte s "#" = (a, b, f) -> spec_has_scheme a = spec_has_scheme s.
Proof.
  destruct s as [|c r]; cbn [cut_byte]; [intros H; injection H as <- _ _; reflexivity|].
  destruct (Ascii.eqb_spec c "#") as [->|]; [intros H; injection H as <- _ _; reflexivity|].
  destruct (cut_byte r "#") as [[a' b'] f'] eqn:C. intros H; injection H as <- _ _.
  cbn [spec_has_scheme]. rewrite (spec_scheme_tail_cut _ _ _ _ C). reflexivity.
Qed.

(** in scope, Href.UnmarshalText accepts exactly the texts of the lenient reading, with
    the path and fragment it denotes, and never reaches parseAuthority *)
Theorem href_unmarshal_scope s : href_scope s = true ->
  match href_unmarshal s with
  | Ok (HUrl x) => lax_den s = Some (u_path x, u_fragment x) /\ u_scheme x = EmptyString /\ u_opaque x = EmptyString
  | Ok (HAuth _ _) => False
  | Err _ => lax_den s = None
  | Panic => False
  end.
Proof.
  unfold href_scope. rewrite andb_true_iff, !negb_true_iff. intros [Hs Hp].
  unfold href_unmarshal, url_parse, lax_den.
  destruct (cut_byte s "#") as [[u frag] found] eqn:C.
  assert (H := parse_nofrag_scope u).
  rewrite (spec_has_scheme_cut _ _ _ _ C), (cut_prefix2 _ _ _ _ _ C) in H by discriminate.
  specialize (H Hs Hp).
  destruct (parse_nofrag u) as [[x|a x]|]; [| contradiction |].
  - destruct H as (Hc & Hl & H1 & H2 & H3). rewrite Hc, Hl.
    destruct frag as [|fc fr].
    + cbn [str_empty unescape]. rewrite H3. repeat split; assumption.
    + cbn [str_empty]. unfold set_escaped. destruct (unescape (String fc fr)) as [f|]; [|reflexivity].
      destruct x. cbn in *. repeat split; assumption.
  - cbn. destruct H as [->| ->]; [reflexivity|]. destruct (has_ctl u); reflexivity.
Qed.


(** * The strict grammar is contained in the lenient reading *)
Definition plain_byte (c : ascii) : bool :=
  negb ((byte c <? 32) || (byte c =? 127)) && negb (Ascii.eqb c "#").

Lemma unhex_plain c x : unhex c = Some x -> plain_byte c = true.
Proof. destruct c as [[] [] [] [] [] [] [] []]; vm_compute; intros; try reflexivity; discriminate. Qed.

Lemma pchar_plain c : spec_pchar_raw (byte c) || (byte c =? 47) || (byte c =? 63) = true -> plain_byte c = true.
Proof. destruct c as [[] [] [] [] [] [] [] []]; vm_compute; intros; try reflexivity; discriminate. Qed.

Lemma percent_plain : plain_byte "%" = true. Proof. reflexivity. Qed.

Lemma plain_cons c r : plain_byte c = true -> has_ctl r = false /\ contains r "#" = false ->
  has_ctl (String c r) = false /\ contains (String c r) "#" = false.
Proof.
  unfold plain_byte. rewrite andb_true_iff, !negb_true_iff. intros [H1 H2] [H3 H4].
  cbn [has_ctl]. rewrite contains_cons, H2, H4. rewrite H3, orb_false_r. split; [exact H1|reflexivity].
Qed.

Lemma query_plain : forall n q, (String.length q <= n)%nat -> spec_query_ok q = true ->
  has_ctl q = false /\ contains q "#" = false.
Proof.
  induction n as [|n IH]; intros q Hn H.
  - destruct q; [split; reflexivity|cbn in Hn; lia].
  - destruct q as [|c r]; [split; reflexivity|]. cbn [spec_query_ok] in H. cbn [String.length] in Hn.
    destruct (Ascii.eqb_spec c "%") as [->|].
    + destruct r as [|a [|b r']]; try discriminate.
      destruct (unhex a) eqn:Ea; [|discriminate]. destruct (unhex b) eqn:Eb; [|discriminate].
      apply plain_cons; [reflexivity|]. apply plain_cons; [eapply unhex_plain; eauto|].
      apply plain_cons; [eapply unhex_plain; eauto|]. apply IH; [cbn [String.length] in Hn; lia|exact H].
    + apply andb_true_iff in H. destruct H as [H1 H2]. apply plain_cons; [apply pchar_plain; exact H1|].
      apply IH; [lia|exact H2].
Qed.

Lemma path_tail_plain : forall n r out, (String.length r <= n)%nat -> spec_path_tail r = Some out ->
  has_ctl r = false /\ contains r "#" = false
  /\ (let '(p, _, _) := cut_byte r "?" in unescape p = Some out).
Proof.
  induction n as [|n IH]; intros r out Hn H.
  - destruct r; [|cbn in Hn; lia]. injection H as <-. repeat split.
  - destruct r as [|c r]; [injection H as <-; repeat split|]. cbn [spec_path_tail] in H. cbn [String.length] in Hn.
    cbn [cut_byte].
    destruct (Ascii.eqb_spec c "?") as [->|Hq].
    { destruct (spec_query_ok r) eqn:Q; [|discriminate]. injection H as <-.
      destruct (query_plain _ r (le_n _) Q) as [Q1 Q2].
      destruct (plain_cons "?" r eq_refl (conj Q1 Q2)) as [P1 P2]. repeat split; assumption. }
    destruct (Ascii.eqb_spec c "%") as [->|Hp].
    { destruct r as [|a [|b r']]; try discriminate.
      destruct (unhex a) as [x|] eqn:Ea; [|discriminate]. destruct (unhex b) as [y|] eqn:Eb; [|discriminate].
      destruct (spec_path_tail r') as [out'|] eqn:T; [|discriminate]. injection H as <-.
      destruct (IH r' out') as (I1 & I2 & I3); [cbn [String.length] in Hn; lia|exact T|].
      assert (Ha := unhex_plain _ _ Ea). assert (Hb := unhex_plain _ _ Eb).
      destruct (plain_cons b r' Hb (conj I1 I2)) as [B1 B2].
      destruct (plain_cons a _ Ha (conj B1 B2)) as [A1 A2].
      destruct (plain_cons "%" _ eq_refl (conj A1 A2)) as [P1 P2].
      split; [exact P1|]. split; [exact P2|].
      cbn [cut_byte].
      assert (Haq : Ascii.eqb a "?" = false) by (destruct (Ascii.eqb_spec a "?") as [->|]; [discriminate Ea|reflexivity]).
      assert (Hbq : Ascii.eqb b "?" = false) by (destruct (Ascii.eqb_spec b "?") as [->|]; [discriminate Eb|reflexivity]).
      rewrite Haq, Hbq. destruct (cut_byte r' "?") as [[p q] f].
      cbn [unescape]. change (("%" =? "%")%char) with true. cbv iota. rewrite Ea, Eb, I3. reflexivity. }
    destruct (spec_pchar_raw (byte c) || (byte c =? 47)) eqn:Pc; [|discriminate].
    destruct (spec_path_tail r) as [out'|] eqn:T; [|discriminate]. injection H as <-.
    destruct (IH r out') as (I1 & I2 & I3); [lia|exact T|].
    assert (Hc : plain_byte c = true) by (apply pchar_plain; rewrite Pc; reflexivity).
    destruct (plain_cons c r Hc (conj I1 I2)) as [P1 P2].
    split; [exact P1|]. split; [exact P2|].
    destruct (cut_byte r "?") as [[p q] f]. cbn [unescape].
    apply Ascii.eqb_neq in Hp. rewrite Hp, I3. reflexivity.
Qed.

(** a strict path-absolute [ "?" query ] is in scope and the lenient reading gives it the
    same path (and no fragment) *)
Theorem href_den_lax s p : href_den s = Some p -> href_scope s = true /\ lax_den s = Some (p, EmptyString).
Proof.
  unfold href_den. destruct s as [|c r]; [discriminate|].
  destruct (Ascii.eqb_spec c "/") as [->|]; [|discriminate]. cbn [andb].
  destruct (has_prefix "/" r) eqn:Hr; [discriminate|]. cbn [negb].
  destruct (spec_path_tail r) as [out|] eqn:T; [|discriminate]. intros [= <-].
  destruct (path_tail_plain _ r out (le_n _) T) as (H1 & H2 & H3).
  split.
  - unfold href_scope. rewrite has_prefix_2slash, Hr. cbn [spec_has_scheme].
    replace (is_alpha (byte "/")) with false by reflexivity. reflexivity.
  - unfold lax_den.
    rewrite (cut_byte_absent (String "/" r) "#") by (rewrite contains_cons, H2; reflexivity).
    replace (has_ctl (String "/" r)) with false by (cbn [has_ctl]; rewrite H1; reflexivity).
    unfold lax_path. cbn [cut_byte]. change (("/" =? "?")%char) with false. cbv iota.
    destruct (cut_byte r "?") as [[p' q] f].
    replace (has_prefix "/" (String "/" p')) with true by reflexivity. cbn [negb andb].
    cbn [unescape]. change (("/" =? "%")%char) with false. cbv iota. rewrite H3. reflexivity.
Qed.

(** every strict path-absolute [ "?" query ] is accepted, with the path it denotes and
    without scheme, authority or fragment *)
Theorem href_accepts_grammar s p : href_den s = Some p ->
  exists x, href_unmarshal s = Ok (HUrl x) /\ u_path x = p /\ u_fragment x = EmptyString
            /\ u_scheme x = EmptyString /\ u_opaque x = EmptyString.
Proof.
  intros H. destruct (href_den_lax _ _ H) as [Hs Hl]. assert (S := href_unmarshal_scope s Hs).
  destruct (href_unmarshal s) as [[x|a x]|?|]; try contradiction.
  - destruct S as (S1 & S2 & S3). rewrite Hl in S1. injection S1 as E1 E2. exists x. repeat split; try assumption; try (symmetry; assumption); reflexivity.
  - rewrite Hl in S. discriminate.
Qed.

(** rejection side, in scope, except the listed finding C16-href-lenient *)
Theorem href_rejects_except_lenient s v : href_scope s = true ->
  kf_href_lenient s (hobs_of (href_unmarshal s)) = false ->
  href_unmarshal s = Ok v -> exists x, v = HUrl x /\ href_den s = Some (u_path x).
Proof.
  intros Hs Hk Hv. assert (S := href_unmarshal_scope s Hs). rewrite Hv in *.
  destruct v as [x|a x]; [|contradiction]. destruct S as (S1 & S2 & S3).
  exists x. split; [reflexivity|].
  unfold kf_href_lenient in Hk. rewrite Hs in Hk. cbn [andb hobs_of negb str_empty] in Hk.
  destruct (href_den s) as [p|] eqn:D.
  - destruct (href_den_lax _ _ D) as [_ Hl]. rewrite Hl in S1. injection S1 as -> _. reflexivity.
  - rewrite S1, !String.eqb_refl in Hk. discriminate.
Qed.

(** ... which is real: a raw space is accepted *)
Theorem href_rejects_refuted : exists s x,
  href_scope s = true /\ href_unmarshal s = Ok (HUrl x) /\ href_den s = None
  /\ kf_href_lenient s (ObsOk (false, EmptyString, x)) = true.
Proof.
  exists "/a b"%string. eexists. vm_compute. repeat split.
Qed.
