(** CalValidate.v — model of caldav.ValidateCalendarObject (caldav/caldav.go:25-64)
    and the RFC 4791 section 4.1 specification it is proved against.
    No proofs here: this file is extracted and must build even when a proof breaks. *)
From GW Require Import Base.

(** What go-ical's [Props.Text("UID")] yields for a component:
    no UID property ([NoUid], text ""), a text ([Uid s], possibly ""),
    or a decoding error (malformed escape: [BadUid]). *)
Inductive uidval := NoUid | Uid (s : string) | BadUid.

Record calendar := { has_method : bool; comps : list (string * uidval) }.

Definition uid_text (u : uidval) : option string :=
  match u with NoUid => Some "" | Uid s => Some s | BadUid => None end.

(** The loop of ValidateCalendarObject, with (eventType, uid) as accumulators.
    [None] = "return "", "", err". *)
Fixpoint vloop (cs : list (string * uidval)) (ety uid : string) : option (string * string) :=
  match cs with
  | [] => Some (ety, uid)
  | (name, u) :: rest =>
    let ety1 :=
      if String.eqb name "VTIMEZONE" then Some ety
      else
        let e := if String.eqb ety "" then name else ety in
        if String.eqb e name then Some e else None in
    match ety1 with
    | None => None
    | Some e =>
      match uid_text u with
      | None => None
      | Some cu =>
        let uid1 := if String.eqb uid "" then cu else uid in
        if negb (String.eqb cu "") && negb (String.eqb uid1 cu) then None
        else vloop rest e uid1
      end
    end
  end.

Definition validate (c : calendar) : option (string * string) :=
  if has_method c then None else vloop (comps c) "" "".

(** * Specification (RFC 4791 section 4.1, as the property states it) *)

Definition is_tz (c : string * uidval) : bool := String.eqb (fst c) "VTIMEZONE".
Definition nontz (cs : list (string * uidval)) : list string :=
  map fst (filter (fun c => negb (is_tz c)) cs).
Definition uid_of (c : string * uidval) : list string :=
  match snd c with Uid s => if String.eqb s "" then [] else [s] | _ => [] end.
Definition uids (cs : list (string * uidval)) : list string := flat_map uid_of cs.
Definition bad_uid (c : string * uidval) : bool :=
  match snd c with BadUid => true | _ => false end.

(** The calendar is acceptable with component type [ty] and UID [uid]. *)
Definition accepts (c : calendar) (ty uid : string) : Prop :=
  has_method c = false /\
  (forall x, In x (comps c) -> bad_uid x = false) /\
  (forall n, In n (nontz (comps c)) -> n = ty) /\
  ty = hd "" (nontz (comps c)) /\
  (forall u, In u (uids (comps c)) -> u = uid) /\
  uid = hd "" (uids (comps c)).

(** Executable form of the specification, used by the oracle. *)
Definition all_eq (x : string) (l : list string) : bool := forallb (String.eqb x) l.
Definition spec_validate (c : calendar) : option (string * string) :=
  let ty := hd "" (nontz (comps c)) in
  let uid := hd "" (uids (comps c)) in
  if negb (has_method c) && negb (existsb bad_uid (comps c))
     && all_eq ty (nontz (comps c)) && all_eq uid (uids (comps c))
  then Some (ty, uid) else None.

Definition names_nonempty (c : calendar) : Prop :=
  forall x, In x (comps c) -> fst x <> "".
Definition names_nonempty_b (c : calendar) : bool :=
  forallb (fun x => negb (String.eqb (fst x) "")) (comps c).

(** * Correspondence verdicts *)

(** Observation of the Go function: [Some (ty, uid)] when err = nil, [None]
    when err <> nil — in the latter case [empty_results] records that both
    returned strings were empty. *)
Record observation := { o_result : option (string * string); o_empty_on_err : bool }.

Definition opt_pair_eqb (a b : option (string * string)) : bool :=
  match a, b with
  | None, None => true
  | Some (x1, y1), Some (x2, y2) => String.eqb x1 x2 && String.eqb y1 y2
  | _, _ => false
  end.

(** [model_agrees]: the implementation did what the model says. *)
Definition model_agrees (c : calendar) (o : observation) : bool :=
  opt_pair_eqb (validate c) (o_result o).

(** [spec_ok]: the implementation's observation meets the specification. *)
Definition spec_ok (c : calendar) (o : observation) : bool :=
  opt_pair_eqb (spec_validate c) (o_result o) &&
  match o_result o with None => o_empty_on_err o | Some _ => true end.
