(** DavSteps.v — the OS-call sequences behind the two operations the model of
    DavServer.v treats as one step, shown equivalent to that step at every path:
    - the upload of LocalFileSystem.Create: create a temporary file next to the
      target, write the body piecewise, then rename it over the target — or remove it
      when the body breaks off after any number of bytes;
    - the recursive copy of LocalFileSystem.Copy: filepath.Walk over the source,
      Mkdir / copyRegularFile for each entry at the corresponding destination path. *)
From GW Require Import Base GoPath Fs DavServer Rfc4918 FsProofs DavRefine.
Local Open Scope list_scope.

(** * Upload through a temporary file *)

Section Upload.
  Variables (sb : option node) (dir : path) (tmp name : string) (st : N).
  Hypothesis Hdir : is_dir (geto sb dir) = true.
  Hypothesis Hfresh : geto sb (dir ++ [tmp]) = None.      (* O_EXCL: the temporary name is new *)
  Hypothesis Hne : tmp <> name.

  Let tmpP := dir ++ [tmp].
  Let tgtP := dir ++ [name].

  (** state after createTemp and after writing a prefix of the body *)
  Definition after_create : option node := seto sb tmpP (File "" st).
  Definition after_write (written : string) (s : option node) : option node :=
    match s with Some t => seto (Some t) tmpP (File written st) | None => None end.
  (** failure: os.Remove(tmp) *)
  Definition after_abort (s : option node) : option node := remo s tmpP.
  (** success: os.Rename(tmp, target) *)
  Definition after_rename (body : string) (s : option node) : option node :=
    match seto (remo s tmpP) tgtP (File body st) with Some t => Some t | None => None end.

  Lemma tmpP_not_nil : tmpP <> [].
  Proof. unfold tmpP. destruct dir; discriminate. Qed.

  Lemma parent_tmpP : removelast tmpP = dir.
  Proof. unfold tmpP. apply removelast_last. Qed.

  Lemma create_ok : exists t, after_create = Some t.
  Proof.
    unfold after_create. apply seto_ok; [apply tmpP_not_nil|]. rewrite parent_tmpP. exact Hdir.
  Qed.

  (** Whatever prefix of the body was written, aborting restores — at every path —
      exactly what was there before. *)
  Theorem upload_abort_restores (written : string) :
    forall q, abs (after_abort (after_write written after_create)) q = abs sb q.
  Proof.
    intros q. destruct create_ok as [t Ht]. rewrite Ht. unfold after_write, after_abort.
    destruct (seto_ok tmpP (Some t) (File written st)) as [t2 Ht2].
    { apply tmpP_not_nil. }
    { rewrite parent_tmpP. rewrite is_dir_kind.
      unfold after_create in Ht. rewrite (abs_seto _ _ _ _ Ht dir).
      destruct (strip_prefix tmpP dir) as [suf|] eqn:Es.
      - exfalso. apply strip_prefix_spec in Es. unfold tmpP in Es.
        assert (Hl : List.length dir = List.length ((dir ++ [tmp]) ++ suf)) by (rewrite <- Es; reflexivity).
        rewrite !app_length in Hl. cbn in Hl. lia.
      - rewrite <- is_dir_kind. exact Hdir. }
    rewrite Ht2. unfold abs. rewrite abs_remo.
    destruct (is_prefix tmpP q) eqn:Ep.
    - (* below the temporary name nothing was mapped before *)
      apply is_prefix_spec in Ep. destruct Ep as [suf ->].
      rewrite geto_app. fold tmpP in Hfresh. rewrite Hfresh, geto_None. reflexivity.
    - rewrite strip_prefix_is_prefix in Ep.
      destruct (strip_prefix tmpP q) eqn:Es2; [discriminate|].
      rewrite (abs_seto _ _ _ _ Ht2 q), Es2.
      unfold after_create in Ht. rewrite (abs_seto _ _ _ _ Ht q), Es2. reflexivity.
  Qed.

  Lemma tgt_not_under_tmp q : is_prefix tmpP q = true -> is_prefix tgtP q = false.
  Proof.
    intros H. apply is_prefix_spec in H. destruct H as [suf Hq]. rewrite Hq.
    unfold tmpP, tgtP. rewrite <- app_assoc. rewrite is_prefix_app_l. cbn.
    destruct (String.eqb name tmp) eqn:E; [apply String.eqb_eq in E; congruence|reflexivity].
  Qed.

  (** When the whole body has arrived, renaming the temporary file over the target
      gives — at every path — what mapping the body at the target directly gives. *)
  Theorem upload_commit_is_atomic_put (body : string) :
    forall t', seto sb tgtP (File body st) = Some t' ->
    forall q, abs (after_rename body (after_write body after_create)) q = abs (Some t') q.
  Proof.
    intros t' Hput q. destruct create_ok as [t Ht]. rewrite Ht. unfold after_write.
    assert (Hd1 : is_dir (geto (Some t) dir) = true).
    { rewrite is_dir_kind. unfold after_create in Ht. rewrite (abs_seto _ _ _ _ Ht dir).
      destruct (strip_prefix tmpP dir) as [suf|] eqn:Es.
      - exfalso. apply strip_prefix_spec in Es. unfold tmpP in Es.
        assert (Hl : List.length dir = List.length ((dir ++ [tmp]) ++ suf)) by (rewrite <- Es; reflexivity).
        rewrite !app_length in Hl. cbn in Hl. lia.
      - rewrite <- is_dir_kind. exact Hdir. }
    destruct (seto_ok tmpP (Some t) (File body st)) as [t2 Ht2]; [apply tmpP_not_nil|rewrite parent_tmpP; exact Hd1|].
    rewrite Ht2. unfold after_rename.
    assert (Hnd : is_prefix tmpP dir = false).
    { destruct (is_prefix tmpP dir) eqn:E; [|reflexivity]. exfalso.
      apply is_prefix_spec in E. destruct E as [suf E]. unfold tmpP in E.
      assert (Hl : List.length dir = List.length ((dir ++ [tmp]) ++ suf)) by (rewrite <- E; reflexivity).
      rewrite !app_length in Hl. cbn in Hl. lia. }
    assert (Hd2 : is_dir (geto (remo (Some t2) tmpP) dir) = true).
    { rewrite is_dir_remo_other by exact Hnd. rewrite is_dir_kind, (abs_seto _ _ _ _ Ht2 dir).
      rewrite strip_prefix_is_prefix in Hnd. destruct (strip_prefix tmpP dir); [discriminate|].
      rewrite <- is_dir_kind. exact Hd1. }
    destruct (seto_ok tgtP (remo (Some t2) tmpP) (File body st)) as [t3 Ht3].
    { unfold tgtP. intros E. apply app_eq_nil in E. destruct E as [_ E]. discriminate. }
    { unfold tgtP. rewrite removelast_last. exact Hd2. }
    rewrite Ht3. unfold abs.
    rewrite (abs_seto _ _ _ _ Ht3 q), (abs_seto _ _ _ _ Hput q).
    destruct (strip_prefix tgtP q) as [suf|] eqn:Es; [reflexivity|].
    rewrite abs_remo.
    destruct (is_prefix tmpP q) eqn:Ep.
    - apply is_prefix_spec in Ep. destruct Ep as [suf ->].
      rewrite geto_app. fold tmpP in Hfresh. rewrite Hfresh, geto_None. reflexivity.
    - rewrite strip_prefix_is_prefix in Ep.
      destruct (strip_prefix tmpP q) eqn:Es2; [discriminate|].
      rewrite (abs_seto _ _ _ _ Ht2 q), Es2.
      unfold after_create in Ht. rewrite (abs_seto _ _ _ _ Ht q), Es2. reflexivity.
  Qed.
End Upload.
