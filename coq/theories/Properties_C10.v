(** Properties_C10.v — C10: calendars, address books and their objects reach the client
    unchanged.  Statements only; each is closed by [exact] of a lemma proved in
    ObjectsE2E.v / ObjectsProofs.v.

    The model (Objects.v over ObjXml.v) follows caldav/server.go, carddav/server.go,
    caldav/client.go, carddav/client.go and internal/elements.go function by function;
    [e2e_*] compose a client call with the handler that answers it.  The functions of
    net/url, strconv, net/http, go-ical and go-vcard the code calls are the fields of
    [cd] (the TextMarshalers of internal/elements.go and the payload libraries) and [hd]
    (the direct calls of the header code).  Nothing is assumed about them except the
    visible premises: [obj_codec_ok], [coll_codec_ok], [path_ok], [hdr_meta_ok],
    [hdr_loc_ok] say that the codecs round-trip the values of THIS input (the oracle
    evaluates the same predicates on every case with the real functions' graphs). *)
From GW Require Import Base ObjXml Objects ObjRfc ObjCheck ObjectsProofs ObjectsE2E.

Local Open Scope Z_scope.

(** ** REPORT calendar-query / addressbook-query *)
Theorem C10_query : forall cd fl principal os,
  forallb (obj_codec_ok cd fl) os = true ->
  e2e_query cd fl principal os = COk (map report_view os).
Proof. exact query_roundtrip. Qed.
Print Assumptions C10_query.

(** ** REPORT calendar-multiget / addressbook-multiget *)
Theorem C10_multiget_client : forall cd fl principal backend hrefs,
  forallb (fun h => outcome_ok cd fl h (backend h)) hrefs = true ->
  e2e_multiget cd fl principal backend hrefs = spec_multiget_client backend hrefs.
Proof. exact multiget_roundtrip. Qed.
Print Assumptions C10_multiget_client.

Theorem C10_multiget_order : forall cd fl principal req backend hrefs,
  Forall2 (answers_href cd fl principal req backend) hrefs (multiget_loop cd fl principal req backend hrefs).
Proof. exact multiget_order. Qed.
Print Assumptions C10_multiget_order.

Theorem C10_multiget_hrefs : forall cd fl principal req backend hrefs,
  (forall h o, In h hrefs -> backend h = Found o -> o_path o = h) ->
  map r_hrefs (multiget_loop cd fl principal req backend hrefs) = map (fun h => [h]) hrefs.
Proof. exact multiget_hrefs. Qed.
Print Assumptions C10_multiget_hrefs.

(** ** Discovery *)
Theorem C10_find : forall cd fl principal home cs,
  forallb (coll_codec_ok cd) cs = true -> path_ok cd home = true ->
  e2e_find cd fl principal home cs = COk (map (coll_spec_view fl) cs).
Proof. exact find_roundtrip. Qed.
Print Assumptions C10_find.

(** ** GET *)
Theorem C10_get : forall cd hd fl reqpath o,
  obj_codec_ok cd fl o = true -> hdr_meta_ok cd hd o = true ->
  e2e_get cd hd fl reqpath (Found o) = COk (get_view reqpath o).
Proof. exact get_roundtrip. Qed.
Print Assumptions C10_get.

Theorem C10_get_failure : forall cd hd fl reqpath c d p,
  (Z.quot (fail_code c) 100 =? 2) = false ->
  e2e_get cd hd fl reqpath (Failed c d p) = CHttp (fail_code c).
Proof. exact get_failure. Qed.
Print Assumptions C10_get_failure.

(** ** PUT *)
Theorem C10_put : forall cd hd fl reqpath data o b,
  pay_enc cd fl data = Some b -> pay_dec cd fl b = Some data ->
  hdr_loc_ok hd o = true -> hdr_meta_ok cd hd o = true ->
  e2e_put cd hd fl reqpath data (Found o) = (COk (put_view reqpath o), Some data).
Proof. exact put_roundtrip. Qed.
Print Assumptions C10_put.

Theorem C10_put_failure : forall cd hd fl reqpath data c d p b,
  pay_enc cd fl data = Some b -> pay_dec cd fl b = Some data ->
  (Z.quot (fail_code c) 100 =? 2) = false ->
  e2e_put cd hd fl reqpath data (Failed c d p) = (CHttp (fail_code c), Some data).
Proof. exact put_failure. Qed.
Print Assumptions C10_put_failure.
