(** Properties_C10.v — C10: calendars, address books and their objects reach the client
    unchanged.  Statements only; each is closed by [exact] of a lemma proved in
    ObjectsE2E.v / ObjectsProofs.v.

    The model (Objects.v over ObjXml.v) follows caldav/server.go, carddav/server.go,
    caldav/client.go, carddav/client.go and internal/elements.go function by function;
    [e2e_*] compose a client call with the handler that answers it.  The functions of
    net/url, strconv, net/http, go-ical and go-vcard the code calls are the fields of
    [cd] (the TextMarshalers of internal/elements.go and the payload libraries) and [hd]
    (the direct calls of the header code).  Nothing is assumed about them except the
    visible premises: [obj_codec_ok], [coll_codec_ok], [path_ok], [hdr_meta_ok],
    [hdr_loc_ok] say that the codecs round-trip the values of THIS input (the oracle
    evaluates the same predicates on every case with the real functions' graphs). *)
From GW Require Import Href.
From GW Require Import Base ObjXml Objects ObjRfc ObjCheck ObjCodecs ObjectsProofs ObjectsE2E ObjectsReader ObjectsVariants ObjCodecsProofs.
From Coq Require Import Permutation.

Local Open Scope Z_scope.
Local Open Scope list_scope.

(** ** REPORT calendar-query / addressbook-query *)
Theorem C10_query : forall cd fl principal os,
  forallb (obj_codec_ok cd fl) os = true ->
  e2e_query cd fl principal os = COk (map report_view os).
Proof. exact query_roundtrip. Qed.
Print Assumptions C10_query.

(** ** REPORT calendar-multiget / addressbook-multiget *)
Theorem C10_multiget_client : forall cd fl principal backend hrefs,
  forallb (fun h => outcome_ok cd fl h (backend h)) hrefs = true ->
  e2e_multiget cd fl principal backend hrefs = spec_multiget_client backend hrefs.
Proof. exact multiget_roundtrip. Qed.
Print Assumptions C10_multiget_client.

Theorem C10_multiget_order : forall cd fl principal req backend hrefs,
  Forall2 (answers_href cd fl principal req backend) hrefs (multiget_loop cd fl principal req backend hrefs).
Proof. exact multiget_order. Qed.
Print Assumptions C10_multiget_order.

Theorem C10_multiget_hrefs : forall cd fl principal req backend hrefs,
  (forall h o, In h hrefs -> backend h = Found o -> o_path o = h) ->
  map r_hrefs (multiget_loop cd fl principal req backend hrefs) = map (fun h => [h]) hrefs.
Proof. exact multiget_hrefs. Qed.
Print Assumptions C10_multiget_hrefs.

(** ** Discovery *)
Theorem C10_find : forall cd fl principal home cs,
  forallb (coll_codec_ok cd) cs = true -> path_ok cd home = true ->
  e2e_find cd fl principal home cs = COk (map (coll_spec_view fl) cs).
Proof. exact find_roundtrip. Qed.
Print Assumptions C10_find.

(** ** GET *)
Theorem C10_get : forall cd hd fl reqpath o,
  obj_codec_ok cd fl o = true -> hdr_meta_ok cd hd o = true ->
  e2e_get cd hd fl reqpath (Found o) = COk (get_view reqpath o).
Proof. exact get_roundtrip. Qed.
Print Assumptions C10_get.

Theorem C10_get_failure : forall cd hd fl reqpath c d p,
  (Z.quot (fail_code c) 100 =? 2) = false ->
  e2e_get cd hd fl reqpath (Failed c d p) = CHttp (fail_code c).
Proof. exact get_failure. Qed.
Print Assumptions C10_get_failure.

(** ** PUT *)
Theorem C10_put : forall cd hd fl reqpath data o b,
  pay_enc cd fl data = Some b -> pay_dec cd fl b = Some data ->
  hdr_loc_ok hd o = true -> hdr_meta_ok cd hd o = true ->
  e2e_put cd hd fl reqpath data (Found o) = (COk (put_view reqpath o), Some data).
Proof. exact put_roundtrip. Qed.
Print Assumptions C10_put.

(** a history of PUTs at one request path: each is answered as a PUT of its own *)
Theorem C10_put_history : forall cd hd fl reqpath (steps : list (string * obj)),
  (forall data o, In (data, o) steps ->
     exists b, pay_enc cd fl data = Some b /\ pay_dec cd fl b = Some data
               /\ hdr_loc_ok hd o = true /\ hdr_meta_ok cd hd o = true) ->
  map (fun s => e2e_put cd hd fl reqpath (fst s) (Found (snd s))) steps
  = map (fun s => (COk (put_view reqpath (snd s)), Some (fst s))) steps.
Proof. exact put_history. Qed.
Print Assumptions C10_put_history.

Theorem C10_put_failure : forall cd hd fl reqpath data c d p b,
  pay_enc cd fl data = Some b -> pay_dec cd fl b = Some data ->
  (Z.quot (fail_code c) 100 =? 2) = false ->
  e2e_put cd hd fl reqpath data (Failed c d p) = (CHttp (fail_code c), Some data).
Proof. exact put_failure. Qed.
Print Assumptions C10_put_failure.

(** ** The servers' multi-status bodies under an independent RFC 4918 reader
    [rfc4918_read_multistatus] (ObjRfc.v) is written from RFC 4918 section 14, not from the
    Go code.  [chunks_ok P xs T]: the table [T] is one chunk of rows per element of [xs], in
    order, each chunk as [P] says; [object_rows] / [collection_rows]: a permutation of one
    row (href, property element, status) per requested name, with the value and status the
    RFCs prescribe ([spec_object_answer], [spec_collection_answer]).  [href_ok p]: the
    href written for [p] is not empty. *)
Theorem C10_independent_reader_query : forall cd fl principal req os,
  req <> [] -> (forall o, In o os -> href_ok cd (o_path o)) ->
  exists T, rfc4918_read_multistatus (server_query cd fl principal req os) = Some T
            /\ chunks_ok (object_rows cd fl principal req) os T.
Proof. exact reader_query. Qed.
Print Assumptions C10_independent_reader_query.

Theorem C10_independent_reader_multiget : forall cd fl principal req backend hrefs,
  req <> [] -> (forall h, In h hrefs -> multiget_href_ok cd backend h) ->
  exists T, rfc4918_read_multistatus (server_multiget cd fl principal req backend hrefs) = Some T
            /\ chunks_ok (multiget_rows cd fl principal req backend) hrefs T.
Proof. exact reader_multiget. Qed.
Print Assumptions C10_independent_reader_multiget.

Theorem C10_independent_reader_listing : forall cd fl principal req c os,
  req <> [] -> href_ok cd (c_path c) -> (forall o, In o os -> href_ok cd (o_path o)) ->
  exists T0 T, rfc4918_read_multistatus (server_propfind_collection cd fl principal req c os) = Some (T0 ++ T)
               /\ collection_rows cd fl principal req c T0 /\ chunks_ok (object_rows cd fl principal req) os T.
Proof. exact reader_propfind_collection. Qed.
Print Assumptions C10_independent_reader_listing.

Theorem C10_independent_reader_discovery : forall cd fl principal home req cs,
  req <> [] -> href_ok cd home -> (forall c, In c cs -> href_ok cd (c_path c)) ->
  exists T0 T, rfc4918_read_multistatus (server_propfind_homeset cd fl principal home req cs) = Some (T0 ++ T)
               /\ chunks_ok (collection_rows cd fl principal req) cs T.
Proof. exact reader_find. Qed.
Print Assumptions C10_independent_reader_discovery.

(** ** The clients read conformant documents of an independent writer, in every layout
    [rfc_write] (ObjRfc.v) writes a multi-status document from its content [d] with the
    layout freedoms of the quantifier: the properties of a resource split over any number
    of propstat elements in any order, unknown extra properties, comments / white space /
    extension elements between the known elements, status before prop, any reason phrase,
    any href spelling.  [wdoc_ok d]: status codes have three digits, properties are
    elements, and no extension element shares its LOCAL name with an element of the
    multi-status schema (the listed finding).  [ms_opt d]: the content of [d] as a
    [multistatus] value, [None] if an href does not parse. *)
Theorem C10_client_decodes_writer : forall cd d,
  wdoc_ok d = true -> dec_multistatus cd (rfc_write d) = ms_opt cd d.
Proof. exact dec_multistatus_wdoc. Qed.
Print Assumptions C10_client_decodes_writer.

Theorem C10_client_reads_content : forall cd fl c reqpath d,
  wdoc_ok d = true -> run_call cd fl c reqpath (rfc_write d) = content_call cd fl c reqpath d.
Proof. exact client_reads_content. Qed.
Print Assumptions C10_client_reads_content.

(** [same_content_b cd known d1 d2]: same resources in the same order (hrefs denoting the
    same paths), same response status codes, same sync token, and for every property name
    the call reads ([known_for]) the same sequence of (value, status code) answers. *)
Theorem C10_client_reads_variants_except_foreign_namesake : forall cd fl c reqpath d1 d2,
  foreign_namesake d1 d2 = false ->
  same_content_b cd (known_for fl c) d1 d2 = true ->
  run_call cd fl c reqpath (rfc_write d1) = run_call cd fl c reqpath (rfc_write d2).
Proof. exact client_reads_variants_kf. Qed.
Print Assumptions C10_client_reads_variants_except_foreign_namesake.

(** ** SyncCollection (the servers of this repository do not implement the report; the
    client is specified against the independent writer): for a sync-collection answer in
    canonical layout naming changed members (getlastmodified, getetag) and removed
    members (status 404), the client returns the token, the changed members with entity
    tag and instant, and the removed paths, in document order.  With the theorem above
    the same holds for every other layout of the same content. *)
Theorem C10_sync_collection : forall cd reqpath members token,
  (forall m, In m members -> member_ok cd reqpath m) ->
  sync_collection cd reqpath (rfc_write (sync_doc cd members token)) = COk (token, map sync_item_of members).
Proof. exact sync_reads_canonical. Qed.
Print Assumptions C10_sync_collection.

(** ** Known finding C10-foreign-namesake (known_findings.json) is real: two conformant
    layouts of one content (the second holds an extension element {urn:x}href, which RFC
    4918 section 17 tells a reader to ignore) are read differently by SyncCollection. *)
Theorem C10_foreign_namesake_refuted :
  foreign_namesake kf_doc_plain kf_doc_namesake = true
  /\ wdoc_rfc_ok kf_doc_plain = true /\ wdoc_rfc_ok kf_doc_namesake = true
  /\ same_content_b toy_codecs (known_for Card CallSync) kf_doc_plain kf_doc_namesake = true
  /\ run_call toy_codecs Card CallSync "/coll/" (rfc_write kf_doc_plain)
     = RSync (COk ("t1"%string, [], ["/a"%string]))
  /\ run_call toy_codecs Card CallSync "/coll/" (rfc_write kf_doc_namesake)
     = RSync (COk ("t1"%string, [], ["/b"%string; "/a"%string])).
Proof. exact foreign_namesake_refuted. Qed.
Print Assumptions C10_foreign_namesake_refuted.

(** ** The same on the codec models of property C16
    [modelled_cd ip pe pd st] / [modelled_hd ip pe pd st] (ObjCodecs.v) fill the record of
    external functions with C16's models of url.URL.String / url.Parse (Href.v),
    %q / strconv.Unquote / ETag.UnmarshalText (Quote.v) and Format(http.TimeFormat) /
    http.ParseTime (Civil.v).  The round-trip premises of the theorems above are discharged
    from C16's theorems; what remains are the domains C16 states — [href_in_domain p]: an
    absolute path whose first segment is not empty; [year_ok s]: the UTC year of the instant
    is 0..9999 ([meta_dom o]: that, or the zero time); entity tags: any byte string, no
    premise — and the parameters: [ip] strconv.IsPrint above U+00FF (any table), [pe]/[pd]
    the go-ical / go-vcard encoder / decoder with their round trip [pay_rt] on the payloads
    of the input, [st] http.StatusText (any function).
    [obj_dom fl o] = href_in_domain (o_path o) && meta_dom o && pay_rt fl (o_data o)
    && int64_ok (o_len o); [coll_dom c] = href_in_domain (c_path c) && int64_ok (c_max c). *)
Theorem C10_query_modelled_codecs : forall ip pe pd st fl principal os,
  forallb (obj_dom pe pd fl) os = true ->
  e2e_query (modelled_cd ip pe pd st) fl principal os = COk (map report_view os).
Proof. exact query_modelled. Qed.
Print Assumptions C10_query_modelled_codecs.

Theorem C10_multiget_client_modelled_codecs : forall ip pe pd st fl principal backend hrefs,
  forallb (fun h => outcome_dom pe pd fl h (backend h)) hrefs = true ->
  e2e_multiget (modelled_cd ip pe pd st) fl principal backend hrefs = spec_multiget_client backend hrefs.
Proof. exact multiget_modelled. Qed.
Print Assumptions C10_multiget_client_modelled_codecs.

Theorem C10_find_modelled_codecs : forall ip pe pd st fl principal home cs,
  forallb coll_dom cs = true -> href_in_domain home = true ->
  e2e_find (modelled_cd ip pe pd st) fl principal home cs = COk (map (coll_spec_view fl) cs).
Proof. exact find_modelled. Qed.
Print Assumptions C10_find_modelled_codecs.

Theorem C10_get_modelled_codecs : forall ip pe pd st fl reqpath o,
  obj_dom pe pd fl o = true ->
  e2e_get (modelled_cd ip pe pd st) (modelled_hd ip pe pd st) fl reqpath (Found o) = COk (get_view reqpath o).
Proof. exact get_modelled. Qed.
Print Assumptions C10_get_modelled_codecs.

Theorem C10_put_modelled_codecs : forall ip pe pd st fl reqpath data o,
  pay_rt pe pd fl data = true -> loc_dom o = true -> meta_dom o = true ->
  e2e_put (modelled_cd ip pe pd st) (modelled_hd ip pe pd st) fl reqpath data (Found o)
  = (COk (put_view reqpath o), Some data).
Proof. exact put_modelled. Qed.
Print Assumptions C10_put_modelled_codecs.

Theorem C10_put_failure_modelled_codecs : forall ip pe pd st fl reqpath data c d p,
  pay_rt pe pd fl data = true -> (Z.quot (fail_code c) 100 =? 2) = false ->
  e2e_put (modelled_cd ip pe pd st) (modelled_hd ip pe pd st) fl reqpath data (Failed c d p)
  = (CHttp (fail_code c), Some data).
Proof. exact put_failure_modelled. Qed.
Print Assumptions C10_put_failure_modelled_codecs.

Theorem C10_sync_collection_modelled_codecs : forall ip pe pd st reqpath members token,
  (forall m, In m members -> member_dom reqpath m) ->
  sync_collection (modelled_cd ip pe pd st) reqpath (rfc_write (sync_doc (modelled_cd ip pe pd st) members token))
  = COk (token, map sync_item_of members).
Proof. exact sync_modelled. Qed.
Print Assumptions C10_sync_collection_modelled_codecs.

Theorem C10_independent_reader_query_modelled_codecs : forall ip pe pd st fl principal req os,
  req <> [] -> (forall o, In o os -> href_in_domain (o_path o) = true) ->
  exists T, rfc4918_read_multistatus (server_query (modelled_cd ip pe pd st) fl principal req os) = Some T
            /\ chunks_ok (object_rows (modelled_cd ip pe pd st) fl principal req) os T.
Proof. exact reader_query_modelled. Qed.
Print Assumptions C10_independent_reader_query_modelled_codecs.

Theorem C10_independent_reader_multiget_modelled_codecs : forall ip pe pd st fl principal req backend hrefs,
  req <> [] -> (forall h, In h hrefs -> multiget_href_dom backend h) ->
  exists T, rfc4918_read_multistatus (server_multiget (modelled_cd ip pe pd st) fl principal req backend hrefs) = Some T
            /\ chunks_ok (multiget_rows (modelled_cd ip pe pd st) fl principal req backend) hrefs T.
Proof. exact reader_multiget_modelled. Qed.
Print Assumptions C10_independent_reader_multiget_modelled_codecs.

Theorem C10_independent_reader_listing_modelled_codecs : forall ip pe pd st fl principal req c os,
  req <> [] -> href_in_domain (c_path c) = true -> (forall o, In o os -> href_in_domain (o_path o) = true) ->
  exists T0 T, rfc4918_read_multistatus (server_propfind_collection (modelled_cd ip pe pd st) fl principal req c os) = Some (T0 ++ T)
               /\ collection_rows (modelled_cd ip pe pd st) fl principal req c T0
               /\ chunks_ok (object_rows (modelled_cd ip pe pd st) fl principal req) os T.
Proof. exact reader_listing_modelled. Qed.
Print Assumptions C10_independent_reader_listing_modelled_codecs.

Theorem C10_independent_reader_discovery_modelled_codecs : forall ip pe pd st fl principal home req cs,
  req <> [] -> href_in_domain home = true -> (forall c, In c cs -> href_in_domain (c_path c) = true) ->
  exists T0 T, rfc4918_read_multistatus (server_propfind_homeset (modelled_cd ip pe pd st) fl principal home req cs) = Some (T0 ++ T)
               /\ chunks_ok (collection_rows (modelled_cd ip pe pd st) fl principal req) cs T.
Proof. exact reader_discovery_modelled. Qed.
Print Assumptions C10_independent_reader_discovery_modelled_codecs.
