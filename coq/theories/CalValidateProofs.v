(** CalValidateProofs.v — the loop of ValidateCalendarObject computes the
    RFC 4791 section 4.1 acceptance predicate. *)
From GW Require Import Base CalValidate.

Definition spec_loop (cs : list (string * uidval)) (ety uid : string) : option (string * string) :=
  let ty := if String.eqb ety "" then hd "" (nontz cs) else ety in
  let u := if String.eqb uid "" then hd "" (uids cs) else uid in
  if negb (existsb bad_uid cs) && all_eq ty (nontz cs) && all_eq u (uids cs)
  then Some (ty, u) else None.

Lemma all_eq_spec x l : all_eq x l = true <-> (forall y, In y l -> y = x).
Proof.
  unfold all_eq. rewrite forallb_forall. split; intros H y Hy.
  - symmetry. apply String.eqb_eq. auto.
  - apply String.eqb_eq. symmetry. auto.
Qed.

Ltac seqb :=
  repeat match goal with
  | H : String.eqb ?a "" = true |- _ => apply String.eqb_eq in H; subst
  | H : String.eqb ?a ?b = true |- _ => is_var b; apply String.eqb_eq in H; subst
  end.

Ltac fin :=
  repeat first
    [ progress rewrite ?String.eqb_refl
    | progress cbn [negb andb orb app hd all_eq forallb map fst snd filter flat_map existsb bad_uid uid_of]
    | match goal with
      | H : _ = true |- _ => rewrite H
      | H : _ = false |- _ => rewrite H
      end ];
  rewrite ?Bool.andb_false_r; try reflexivity.

Lemma vloop_spec cs : forall ety uid,
  (forall x, In x cs -> fst x <> "") ->
  vloop cs ety uid = spec_loop cs ety uid.
Proof.
  induction cs as [|[name u] rest IH]; intros ety uid Hne.
  - unfold spec_loop; simpl.
    destruct (String.eqb ety "") eqn:E1; destruct (String.eqb uid "") eqn:E2; seqb; reflexivity.
  - assert (Hname : String.eqb name "" = false)
      by (apply String.eqb_neq; apply (Hne (name, u)); left; reflexivity).
    assert (Hrest : forall x, In x rest -> fst x <> "") by (intros x Hx; apply Hne; right; exact Hx).
    clear Hne. cbn [vloop].
    destruct (String.eqb name "VTIMEZONE") eqn:Htz;
    destruct (String.eqb ety "") eqn:He;
    try (destruct (String.eqb ety name) eqn:Hen);
    destruct u as [|s|]; cbn [uid_text];
    try (destruct (String.eqb s "") eqn:Hs);
    destruct (String.eqb uid "") eqn:Hu;
    try (destruct (String.eqb uid s) eqn:Hus);
    seqb; try solve [exfalso; rewrite String.eqb_refl in Hname; discriminate];
    fin; rewrite ?IH by exact Hrest;
    unfold spec_loop, nontz, uids, is_tz;
    cbn [filter flat_map fst snd existsb bad_uid uid_of map app negb orb]; fin.
Qed.

Lemma validate_spec c : names_nonempty c -> validate c = spec_validate c.
Proof.
  intros Hne. unfold validate, spec_validate.
  destruct (has_method c); [reflexivity|].
  rewrite vloop_spec by exact Hne. unfold spec_loop. cbn [negb andb String.eqb]. reflexivity.
Qed.

Lemma spec_validate_accepts c ty uid :
  spec_validate c = Some (ty, uid) <-> accepts c ty uid.
Proof.
  unfold spec_validate, accepts. split.
  - intros H.
    destruct (negb (has_method c) && negb (existsb bad_uid (comps c))
              && all_eq (hd "" (nontz (comps c))) (nontz (comps c))
              && all_eq (hd "" (uids (comps c))) (uids (comps c))) eqn:E; [|discriminate].
    inversion H; subst; clear H.
    repeat rewrite Bool.andb_true_iff in E. destruct E as [[[E1 E2] E3] E4].
    apply Bool.negb_true_iff in E1, E2.
    repeat split; try assumption; try reflexivity.
    + intros x Hx. destruct (bad_uid x) eqn:B; [|reflexivity].
      assert (existsb bad_uid (comps c) = true) by (apply existsb_exists; eauto). congruence.
    + apply all_eq_spec; exact E3.
    + apply all_eq_spec; exact E4.
  - intros (H1 & H2 & H3 & H4 & H5 & H6). subst ty uid.
    rewrite H1. cbn [negb andb].
    assert (E2 : existsb bad_uid (comps c) = false).
    { destruct (existsb bad_uid (comps c)) eqn:E; [|reflexivity].
      apply existsb_exists in E. destruct E as (x & Hx & Hb). rewrite (H2 x Hx) in Hb. discriminate. }
    rewrite E2. cbn [negb andb].
    apply all_eq_spec in H3. apply all_eq_spec in H5. rewrite H3, H5. reflexivity.
Qed.

(** The property. *)
Theorem validate_accept_iff c ty uid :
  names_nonempty c -> (validate c = Some (ty, uid) <-> accepts c ty uid).
Proof. intros H. rewrite validate_spec by exact H. apply spec_validate_accepts. Qed.

Theorem validate_reject c :
  names_nonempty c -> (~ exists ty uid, accepts c ty uid) -> validate c = None.
Proof.
  intros H Hn. destruct (validate c) as [[ty uid]|] eqn:E; [|reflexivity].
  exfalso. apply Hn. exists ty, uid. apply validate_accept_iff; assumption.
Qed.

(** The accepted pair is unique (so "that type and that UID" is well defined). *)
Theorem accepts_unique c ty uid ty' uid' :
  accepts c ty uid -> accepts c ty' uid' -> ty = ty' /\ uid = uid'.
Proof.
  intros (_ & _ & _ & H4 & _ & H6) (_ & _ & _ & H4' & _ & H6'). subst. split; reflexivity.
Qed.

(** What the correspondence check relies on: whenever the implementation
    agrees with the model, its observation meets the specification (the
    "empty results on error" clause is observed separately). *)
Theorem agree_implies_spec_ok c o :
  names_nonempty c -> model_agrees c o = true ->
  (o_result o = None -> o_empty_on_err o = true) -> spec_ok c o = true.
Proof.
  intros Hne Ha He. unfold model_agrees in Ha. unfold spec_ok.
  rewrite <- validate_spec by exact Hne. rewrite Ha. cbn [andb].
  destruct (o_result o); [reflexivity|]. apply He; reflexivity.
Qed.

(** Order-insensitivity corollaries the property calls out. *)
Corollary leading_timezone_ignored c :
  names_nonempty c ->
  validate {| has_method := has_method c; comps := ("VTIMEZONE", NoUid) :: comps c |} = validate c.
Proof.
  intros Hne. unfold validate; cbn [has_method comps].
  destruct (has_method c); [reflexivity|]. reflexivity.
Qed.

Corollary first_component_without_uid c name :
  name <> "" -> name <> "VTIMEZONE" -> names_nonempty c -> has_method c = false ->
  forall ty uid,
  validate {| has_method := false; comps := (name, NoUid) :: comps c |} = Some (ty, uid) ->
  ty = name /\ (forall u, In u (uids (comps c)) -> u = uid).
Proof.
  intros Hn Htz Hne Hm ty uid Hv.
  apply validate_accept_iff in Hv.
  - destruct Hv as (_ & _ & H3 & H4 & H5 & _). cbn [comps] in *. split.
    + unfold nontz, is_tz in H4; cbn [filter fst] in H4.
      apply String.eqb_neq in Htz. rewrite Htz in H4. cbn in H4. exact H4.
    + intros u Hu. apply H5. unfold uids; cbn [flat_map uid_of snd app]. exact Hu.
  - intros x [Hx|Hx]; [subst x; exact Hn | apply Hne; exact Hx].
Qed.

(** Non-vacuity: concrete calendars meeting (and failing) the hypotheses. *)
Example ex_accept :
  validate {| has_method := false;
              comps := [("VTIMEZONE", NoUid); ("VEVENT", NoUid); ("VEVENT", Uid "u1"); ("VEVENT", Uid "u1")] |}
  = Some ("VEVENT", "u1").
Proof. reflexivity. Qed.

Example ex_reject_types :
  validate {| has_method := false; comps := [("VEVENT", Uid "u1"); ("VTODO", Uid "u1")] |} = None.
Proof. reflexivity. Qed.

Example ex_reject_uids :
  validate {| has_method := false; comps := [("VEVENT", NoUid); ("VEVENT", Uid "u1"); ("VEVENT", Uid "u2")] |} = None.
Proof. reflexivity. Qed.

(** The hypothesis [names_nonempty] is needed: with an empty component name
    (which no iCalendar parser produces: "BEGIN:" needs a name) the loop
    forgets that a component was seen. *)
Example ex_empty_name_breaks :
  validate {| has_method := false; comps := [("", NoUid); ("VEVENT", NoUid)] |} = Some ("VEVENT", "")
  /\ spec_validate {| has_method := false; comps := [("", NoUid); ("VEVENT", NoUid)] |} = None.
Proof. split; reflexivity. Qed.
