(** DavServer.v — model of the WebDAV file server: fs_local.go (LocalFileSystem),
    server.go (backend adapter) and internal/server.go (Handler.ServeHTTP,
    handleOptions, handlePropfind, handleCopyMove, ServeError's status choice),
    as they stand after the repair commits listed in known_findings.json.

    The file system is the sandbox tree of Fs.v; the served directory is the
    subtree at host path [root].  What the Go code obtains from libraries that are
    not modelled enters as fields of the request (see [request]).
    No proofs here (extracted). *)
From GW Require Import Base GoPath Fs.
Local Open Scope list_scope.

(** * Numbers as text *)
Definition digit_char (n : N) : ascii :=
  match n with
  | 0 => "0" | 1 => "1" | 2 => "2" | 3 => "3" | 4 => "4" | 5 => "5" | 6 => "6" | 7 => "7"
  | 8 => "8" | 9 => "9" | 10 => "a" | 11 => "b" | 12 => "c" | 13 => "d" | 14 => "e" | _ => "f"
  end%N%char.

Fixpoint radix_aux (base : N) (fuel : nat) (n : N) (acc : string) : string :=
  match fuel with
  | O => acc
  | S f =>
    let acc' := String (digit_char (N.modulo n base)) acc in
    if N.eqb (N.div n base) 0 then acc' else radix_aux base f (N.div n base) acc'
  end.
Definition hex (n : N) : string := radix_aux 16 (S (N.to_nat (N.size n))) n "".
Definition dec (n : N) : string := radix_aux 10 (S (N.to_nat (N.size n))) n "".

Definition strlen (s : string) : N := N.of_nat (String.length s).

(** * Errors: the status ServeError will choose, and whether the error text that
    becomes the response body contains a host path. *)
Record gerr := { ecode : N; eleak : bool }.
Inductive gres (A : Type) := GOk (a : A) | GErr (e : gerr).
Arguments GOk {A} a.
Arguments GErr {A} e.
Definition herr {A} (c : N) : gres A := GErr {| ecode := c; eleak := false |}.

(** OS errors.  An *fs.PathError or *os.LinkError names the host path in its text;
    [strip_path] (fs_local.go stripPath) removes it; [err_from_os] (errFromOS)
    strips it and chooses the status (ENOENT and ENOTDIR: 404); [wrap_http]
    (NewHTTPError / &HTTPError{code, err}) keeps the inner text. *)
Inductive oserr := ENOENT | EEXIST.
Definition raw_os_error (e : oserr) : gerr := {| ecode := 500; eleak := true |}.
Definition strip_path (e : gerr) : gerr := {| ecode := ecode e; eleak := false |}.
Definition err_from_os (e : oserr) : gerr :=
  let s := strip_path (raw_os_error e) in
  {| ecode := match e with ENOENT => 404 | EEXIST => 500 end; eleak := eleak s |}.
Definition wrap_http (c : N) (inner : gerr) : gerr := {| ecode := c; eleak := eleak inner |}.

(** * Requests *)
Inductive dest_hdr :=
| DestAbsent            (* no Destination header *)
| DestBad               (* url.Parse failed *)
| DestPath (p : string) (* url.Parse(...).Path *).

Inductive pf_form :=
| PfAllProp   (* empty body without XML content type, or <allprop/> *)
| PfPropName  (* <propname/> *)
| PfNone      (* a propfind element naming none of the three forms *)
| PfBad       (* body not decodable / non-empty body without XML content type *).

Record request := {
  meth : string;
  rpath : string;                 (* r.URL.Path *)
  h_depth : string;
  h_overwrite : string;
  h_dest : dest_hdr;
  h_ctype : string;               (* Content-Type (MKCOL looks at it) *)
  h_if_match : string;
  h_if_none_match : string;
  d_if_match : option string;     (* ConditionalMatch(h).ETag(): the unquoted tag, None on error *)
  d_if_none_match : option string;
  body : string;
  body_fails : bool;              (* the body reader returns an error before EOF *)
  pf : pf_form;
  stamp : N;                      (* modification time the OS gives to files written now *)
  dir_tag : string;               (* entity tag fs.Stat computes for a collection (OS metadata) *)
  mime_tab : list (string * string); (* mime.TypeByExtension on the extensions in play: (extension, type) *)
  sniffed : string                (* http.DetectContentType of the addressed file's first 512 bytes *)
}.

(** * Responses (the projected observables) *)
Record ms_entry := {
  me_href : string;               (* Href.Path *)
  me_dir : bool;                  (* resourcetype contains DAV:collection *)
  me_clen : string;               (* getcontentlength text, "" if absent *)
  me_etag : string;               (* getetag, unquoted, "" if absent *)
  me_lastmod : bool;              (* getlastmodified present *)
  me_values : bool;               (* false for propname answers *)
  me_ctype : string               (* getcontenttype, "" if absent *)
}.

Record response := {
  status : N;
  r_allow : string;
  r_dav : string;
  r_body : option string;         (* entity body of GET; None when not applicable *)
  r_clen : string;                (* Content-Length of GET/HEAD *)
  r_etag : string;                (* ETag header, as sent (quoted) *)
  r_lastmod : bool;
  r_ms : list ms_entry;
  r_leak : bool;                  (* some header or the body contains a host path *)
  r_ctype : string                (* Content-Type of GET/HEAD *)
}.

Definition resp0 (st : N) : response :=
  {| status := st; r_allow := ""; r_dav := ""; r_body := None; r_clen := ""; r_etag := "";
     r_lastmod := false; r_ms := []; r_leak := false; r_ctype := "" |}.

Definition err_resp (e : gerr) : response :=
  {| status := ecode e; r_allow := ""; r_dav := ""; r_body := None; r_clen := ""; r_etag := "";
     r_lastmod := false; r_ms := []; r_leak := eleak e; r_ctype := "" |}.

(** path.Ext / filepath.Ext: the suffix of the last element from its last dot on *)
Fixpoint ext_scan (s cur : string) : string :=
  match s with
  | EmptyString => cur
  | String c r =>
    if Ascii.eqb c "/" then ext_scan r EmptyString
    else if Ascii.eqb c "." then ext_scan r (String c r)
    else ext_scan r cur
  end.
Definition ext_of (s : string) : string := ext_scan s EmptyString.

(** mime.TypeByExtension, as the table of the extensions in play ("" = not registered) *)
Fixpoint mime_of (tab : list (string * string)) (ext : string) : string :=
  match tab with
  | [] => ""%string
  | (e, t) :: r => if String.eqb e ext then t else mime_of r ext
  end.

(** * fs_local.go *)
Record finfo := { fi_dir : bool; fi_size : N; fi_mtime : N; fi_etag : string }.

Definition etag_of (mtime size : N) : string := (hex mtime ++ hex size)%string.

Definition fi_of (dirtag : string) (n : node) : finfo :=
  match n with
  | File c m => {| fi_dir := false; fi_size := strlen c; fi_mtime := m; fi_etag := etag_of m (strlen c) |}
  | Dir _ => {| fi_dir := true; fi_size := 0; fi_mtime := 0; fi_etag := dirtag |}
  end.

Definition quote_tag (t : string) : string := ("""" ++ t ++ """")%string.

Section Served.
  Variable root : path.           (* host path of the served directory, as segments *)

  Definition hp (segs : path) : path := root ++ segs.

  Definition segs_of (name : string) : gres path :=
    match local_segs name with
    | Ok s => GOk s
    | Err c => herr c
    | Panic => herr 500
    end.

  (** LocalFileSystem.Stat; errFromOS maps ENOENT and ENOTDIR to 404 and strips the path. *)
  Definition stat (sb : option node) (dirtag name : string) : gres (path * node) :=
    match segs_of name with
    | GErr e => GErr e
    | GOk segs =>
      match geto sb (hp segs) with
      | Some n => GOk (segs, n)
      | None => GErr (err_from_os ENOENT)
      end
    end.

  (** ConditionalMatch.MatchETag (webdav.go) *)
  Definition match_etag (v : string) (d : option string) (etag : string) : gres bool :=
    if String.eqb etag "" then GOk false
    else if String.eqb v "*" then GOk true
    else match d with
         | None => herr 400
         | Some t => GOk (String.eqb t etag)
         end.

  (** checkConditionalMatches (fs_local.go) *)
  Definition check_cond (etag im : string) (imd : option string) (inm : string) (inmd : option string) : option gerr :=
    let r1 :=
      if String.eqb im "" then None
      else match match_etag im imd etag with
           | GErr e => Some e
           | GOk false => Some {| ecode := 412; eleak := false |}
           | GOk true => None
           end in
    match r1 with
    | Some e => Some e
    | None =>
      if String.eqb inm "" then None
      else match match_etag inm inmd etag with
           | GErr e => Some e
           | GOk true => Some {| ecode := 412; eleak := false |}
           | GOk false => None
           end
    end.

  Definition req_cond (r : request) (etag : string) : option gerr :=
    check_cond etag (h_if_match r) (d_if_match r) (h_if_none_match r) (d_if_none_match r).

  (** LocalFileSystem.Create + backend.Put *)
  Definition do_put (sb : option node) (r : request) : option node * response :=
    match segs_of (rpath r) with
    | GErr e => (sb, err_resp e)
    | GOk segs =>
      let cur := geto sb (hp segs) in
      let etag := match cur with Some n => fi_etag (fi_of (dir_tag r) n) | None => "" end in
      match req_cond r etag with
      | Some e => (sb, err_resp e)
      | None =>
        if is_dir cur || match segs with [] => true | _ => false end then (sb, err_resp {| ecode := 405; eleak := false |})
        else if negb (is_dir (geto sb (hp (parent segs)))) then (sb, err_resp (wrap_http 409 (strip_path (raw_os_error ENOENT))))
        else if body_fails r then (sb, err_resp {| ecode := 500; eleak := false |})
        else
          match seto sb (hp segs) (File (body r) (stamp r)) with
          | None => (sb, err_resp {| ecode := 500; eleak := false |})
          | Some sb' =>
            (Some sb',
             {| status := if exists_ cur then 204 else 201;
                r_allow := ""; r_dav := ""; r_body := None; r_clen := "";
                r_etag := quote_tag (etag_of (stamp r) (strlen (body r)));
                r_lastmod := true; r_ms := []; r_leak := false; r_ctype := "" |})
          end
      end
    end.

  (** LocalFileSystem.RemoveAll + backend.Delete *)
  Definition do_delete (sb : option node) (r : request) : option node * response :=
    match stat sb (dir_tag r) (rpath r) with
    | GErr e => (sb, err_resp e)
    | GOk (segs, n) =>
      match req_cond r (fi_etag (fi_of (dir_tag r) n)) with
      | Some e => (sb, err_resp e)
      | None => (remo sb (hp segs), resp0 204)
      end
    end.

  (** LocalFileSystem.Mkdir + backend.Mkcol *)
  Definition do_mkcol (sb : option node) (r : request) : option node * response :=
    if negb (String.eqb (h_ctype r) "") then (sb, err_resp {| ecode := 415; eleak := false |})
    else
      match segs_of (rpath r) with
      | GErr e => (sb, err_resp e)
      | GOk segs =>
        if exists_ (geto sb (hp segs)) then (sb, err_resp (wrap_http 405 (strip_path (raw_os_error EEXIST))))
        else if negb (is_dir (geto sb (parent (hp segs)))) then (sb, err_resp (wrap_http 409 (err_from_os ENOENT)))
        else match seto sb (hp segs) (Dir []) with
             | Some sb' => (Some sb', resp0 201)
             | None => (sb, err_resp {| ecode := 500; eleak := false |})
             end
      end.

  (** checkCopyMove + the destination handling shared by Copy and Move.
      Yields (source segments, source node, destination segments, created). *)
  Definition copy_move_checks (sb : option node) (src dst : string) (overwrite : bool)
    : gres (path * node * path * bool) :=
    match segs_of src with
    | GErr e => GErr e
    | GOk ss =>
      match segs_of dst with
      | GErr e => GErr e
      | GOk ds =>
        if is_prefix ss ds || is_prefix ds ss then herr 403
        else match geto sb (hp ss) with
             | None => GErr (err_from_os ENOENT)
             | Some n =>
               if negb (is_dir (geto sb (hp (parent ds)))) then herr 409
               else if exists_ (geto sb (hp ds)) then
                      if overwrite then GOk (ss, n, ds, false) else herr 412
                    else GOk (ss, n, ds, true)
             end
      end
    end.

  Definition created_resp (created : bool) : response := resp0 (if created then 201 else 204).

  (** LocalFileSystem.Copy + backend.Copy *)
  Definition do_copy (sb : option node) (r : request) (dst : string) (recursive overwrite : bool)
    : option node * response :=
    match copy_move_checks sb (rpath r) dst overwrite with
    | GErr e => (sb, err_resp e)
    | GOk (ss, n, ds, created) =>
      let n' := if recursive then copy_tree (stamp r) n else copy_shallow (stamp r) n in
      match seto (remo sb (hp ds)) (hp ds) n' with
      | Some sb' => (Some sb', created_resp created)
      | None => (sb, err_resp {| ecode := 500; eleak := false |})
      end
    end.

  (** LocalFileSystem.Move + backend.Move *)
  Definition do_move (sb : option node) (r : request) (dst : string) (overwrite : bool)
    : option node * response :=
    match copy_move_checks sb (rpath r) dst overwrite with
    | GErr e => (sb, err_resp e)
    | GOk (ss, n, ds, created) =>
      match seto (remo (remo sb (hp ds)) (hp ss)) (hp ds) n with
      | Some sb' => (Some sb', created_resp created)
      | None => (sb, err_resp {| ecode := 500; eleak := false |})
      end
    end.

  (** internal/server.go handleCopyMove *)
  Definition do_copy_move (sb : option node) (r : request) : option node * response :=
    match h_dest r with
    | DestAbsent | DestBad => (sb, err_resp {| ecode := 400; eleak := false |})
    | DestPath dst =>
      let ow :=
        if String.eqb (h_overwrite r) "" then Some true
        else if String.eqb (h_overwrite r) "T" then Some true
        else if String.eqb (h_overwrite r) "F" then Some false
        else None in
      match ow with
      | None => (sb, err_resp {| ecode := 400; eleak := false |})
      | Some overwrite =>
        (* depth: 0 = zero, 1 = one, 2 = infinity *)
        let dp :=
          if String.eqb (h_depth r) "" then Some 2%N
          else if String.eqb (h_depth r) "0" then Some 0%N
          else if String.eqb (h_depth r) "1" then Some 1%N
          else if String.eqb (h_depth r) "infinity" then Some 2%N
          else None in
        match dp with
        | None => (sb, err_resp {| ecode := 400; eleak := false |})
        | Some d =>
          if String.eqb (meth r) "COPY" then
            if N.eqb d 1 then (sb, err_resp {| ecode := 400; eleak := false |})
            else do_copy sb r dst (N.eqb d 2) overwrite
          else
            if negb (N.eqb d 2) then (sb, err_resp {| ecode := 400; eleak := false |})
            else do_move sb r dst overwrite
        end
      end
    end.

  (** backend.Options + handleOptions *)
  Definition do_options (sb : option node) (r : request) : option node * response :=
    match segs_of (rpath r) with
    | GErr e => (sb, err_resp e)
    | GOk segs =>
      let allow :=
        match geto sb (hp segs) with
        | None => "OPTIONS, PUT, MKCOL"
        | Some (Dir _) => "OPTIONS, DELETE, PROPFIND, COPY, MOVE"
        | Some (File _ _) => "OPTIONS, DELETE, PROPFIND, COPY, MOVE, HEAD, GET, PUT"
        end%string in
      (sb, {| status := 204; r_allow := allow; r_dav := "1, 3"; r_body := None; r_clen := "";
              r_etag := ""; r_lastmod := false; r_ms := []; r_leak := false; r_ctype := "" |})
    end.

  Definition content_type (r : request) (segs : path) : string :=
    let m := mime_of (mime_tab r) (ext_of (external_path segs)) in
    if negb (String.eqb m "") then m
    else let m2 := mime_of (mime_tab r) (ext_of (rpath r)) in
         if negb (String.eqb m2 "") then m2 else sniffed r.

  (** backend.HeadGet *)
  Definition do_get (sb : option node) (r : request) (head : bool) : option node * response :=
    match stat sb (dir_tag r) (rpath r) with
    | GErr e => (sb, err_resp e)
    | GOk (_, Dir _) => (sb, err_resp {| ecode := 405; eleak := false |})
    | GOk (segs, File c m) =>
      (sb, {| status := 200; r_allow := ""; r_dav := "";
              r_body := if head then None else Some c;
              r_clen := dec (strlen c);
              r_etag := quote_tag (etag_of m (strlen c));
              r_lastmod := true; r_ms := []; r_leak := false;
              (* fileInfoFromOS: the type registered for the extension of the clean path; else
                 http.ServeContent: the type of the extension of the raw request path, else sniffed *)
              r_ctype := content_type r segs |})
    end.

  (** backend.propFindFile reduced to the observed properties *)
  Definition entry_of (tab : list (string * string)) (values : bool) (href : string) (n : node) : ms_entry :=
    match n with
    | Dir _ => {| me_href := href; me_dir := values; me_clen := ""; me_etag := ""; me_lastmod := true; me_values := values; me_ctype := "" |}
    | File c m =>
      {| me_href := href; me_dir := false;
         me_clen := if values then dec (strlen c) else "";
         me_etag := if values then etag_of m (strlen c) else "";
         me_lastmod := true; me_values := values;
         me_ctype := if values then mime_of tab (ext_of href) else "" |}
    end.

  (** handlePropfind + backend.PropFind + LocalFileSystem.ReadDir *)
  Definition do_propfind (sb : option node) (r : request) : option node * response :=
    match pf r with
    | PfBad | PfNone => (sb, err_resp {| ecode := 400; eleak := false |})  (* DecodePropFindRequest *)
    | form =>
      let dp :=
        if String.eqb (h_depth r) "" then Some 2%N
        else if String.eqb (h_depth r) "0" then Some 0%N
        else if String.eqb (h_depth r) "1" then Some 1%N
        else if String.eqb (h_depth r) "infinity" then Some 2%N
        else None in
      match dp with
      | None => (sb, err_resp {| ecode := 400; eleak := false |})
      | Some d =>
        match stat sb (dir_tag r) (rpath r) with
        | GErr e => (sb, err_resp e)
        | GOk (segs, n) =>
          let values := match form with PfPropName => false | _ => true end in
          let entries :=
            if negb (N.eqb d 0) && is_dir (Some n) then
              map (fun pn => entry_of (mime_tab r) values (external_path (segs ++ fst pn)) (snd pn))
                  (if N.eqb d 2 then walk n [] else walk1 n [])
            else [entry_of (mime_tab r) values (external_path segs) n] in
          (sb, {| status := 207; r_allow := ""; r_dav := ""; r_body := None; r_clen := "";
                  r_etag := ""; r_lastmod := false; r_ms := entries; r_leak := false; r_ctype := "" |})
        end
      end
    end.

  (** handleProppatch + backend.PropPatch: DecodeXMLRequest of the propertyupdate body
      ([pf r = PfBad] when it fails: not an XML media type, or not decodable), then
      "PROPPATCH is unsupported" *)
  Definition do_proppatch (sb : option node) (r : request) : option node * response :=
    match pf r with
    | PfBad => (sb, err_resp {| ecode := 400; eleak := false |})
    | _ => (sb, err_resp {| ecode := 403; eleak := false |})
    end.

  (** internal/server.go Handler.ServeHTTP *)
  Definition serve (sb : option node) (r : request) : option node * response :=
    let m := meth r in
    if String.eqb m "OPTIONS" then do_options sb r
    else if String.eqb m "GET" then do_get sb r false
    else if String.eqb m "HEAD" then do_get sb r true
    else if String.eqb m "PUT" then do_put sb r
    else if String.eqb m "DELETE" then do_delete sb r
    else if String.eqb m "PROPFIND" then do_propfind sb r
    else if String.eqb m "MKCOL" then do_mkcol sb r
    else if String.eqb m "COPY" || String.eqb m "MOVE" then do_copy_move sb r
    else if String.eqb m "PROPPATCH" then do_proppatch sb r
    else (sb, err_resp {| ecode := 405; eleak := false |}).

  (** A history: the state after each request feeds the next. *)
  Fixpoint run (sb : option node) (rs : list request) : option node * list response :=
    match rs with
    | [] => (sb, [])
    | r :: rest =>
      let '(sb1, resp) := serve sb r in
      let '(sb2, resps) := run sb1 rest in
      (sb2, resp :: resps)
    end.
End Served.
