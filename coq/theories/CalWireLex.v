(** CalWireLex.v — C08 proofs, part 1: general facts about lexical variants
    ([CalWire.lexvar]), attribute lists and child lists, used by both the
    server-side and the reader-side proofs. *)
From Coq Require Import Permutation.
From GW Require Import Base CalTime CalTimeProofs CalXml CalWire.

(** * Nested induction on filter trees and component requests *)
Section CFInd.
  Variable P : comp_filter -> Prop.
  Hypothesis H : forall name ind s e props comps,
      Forall P comps -> P (CompFilter name ind s e props comps).
  Fixpoint comp_filter_ind2 (f : comp_filter) : P f :=
    match f with
    | CompFilter name ind s e props comps =>
      H name ind s e props comps
        ((fix go (l : list comp_filter) : Forall P l :=
            match l with
            | [] => Forall_nil _
            | x :: r => Forall_cons x (comp_filter_ind2 x) (go r)
            end) comps)
    end.
End CFInd.

Section CRInd.
  Variable P : comp_request -> Prop.
  Hypothesis H : forall name ap ps ac comps e,
      Forall P comps -> P (CompReq name ap ps ac comps e).
  Fixpoint comp_request_ind2 (c : comp_request) : P c :=
    match c with
    | CompReq name ap ps ac comps e =>
      H name ap ps ac comps e
        ((fix go (l : list comp_request) : Forall P l :=
            match l with
            | [] => Forall_nil _
            | x :: r => Forall_cons x (comp_request_ind2 x) (go r)
            end) comps)
    end.
End CRInd.

(** * Names, strings *)
Lemma name_eqb_eq a b : name_eqb a b = true <-> a = b.
Proof.
  destruct a as [a1 a2], b as [b1 b2]. unfold name_eqb. cbn [fst snd].
  rewrite andb_true_iff, !String.eqb_eq. split; [intros [-> ->]; reflexivity | intros E; inversion E; auto].
Qed.

Lemma name_eqb_refl a : name_eqb a a = true.
Proof. apply name_eqb_eq. reflexivity. Qed.

Lemma app_assoc_s (a b c : string) : ((a ++ b) ++ c = a ++ (b ++ c))%string.
Proof. induction a; cbn; [reflexivity | now rewrite IHa]. Qed.

Lemma app_nil_r_s (a : string) : (a ++ "" = a)%string.
Proof. induction a; cbn; [reflexivity | now rewrite IHa]. Qed.

Lemma is_ws_app a b : is_ws (a ++ b) = is_ws a && is_ws b.
Proof. induction a; cbn; [reflexivity | rewrite IHa; now rewrite andb_assoc]. Qed.

Lemma text_of_text_kids s : text_of (text_kids s) = s.
Proof. unfold text_kids. destruct s; cbn; [reflexivity | now rewrite app_nil_r_s]. Qed.

Lemma no_elems_text_kids s : no_elems (text_kids s) = true.
Proof. unfold text_kids. destruct s; reflexivity. Qed.

(** * Time text *)
Lemma u_instant_fmt i : utc_ok i = true -> u_instant (fmt_utc (fst i)) = Ok i.
Proof.
  unfold utc_ok, u_instant. intros H. apply andb_true_iff in H. destruct H as [H0 Hr].
  rewrite (parse_fmt_utc _ Hr). apply Z.eqb_eq in H0. destruct i as [s o]. cbn in *. now subst.
Qed.

Lemma i_zero_eq i : utc_ok i = true -> i_zero i = true -> i = zero_instant.
Proof.
  unfold utc_ok, i_zero, zero_instant. intros H Hz. apply andb_true_iff in H. destruct H as [H0 _].
  apply Z.eqb_eq in H0, Hz. destruct i as [s o]. cbn in *. now subst.
Qed.

(** * The nesting limit *)
Lemma chk_lt {A} d (r : res A) : (d < MAXD)%N -> chk d r = r.
Proof. unfold chk. intros H. apply N.leb_gt in H. now rewrite H. Qed.

Lemma chk_ge {A} d (r : res A) : (MAXD <= d)%N -> chk d r = Err 400.
Proof. unfold chk. intros H. apply N.leb_le in H. now rewrite H. Qed.

Lemma maxl_in {A} (f : A -> N) l x : In x l -> (f x <= maxl f l)%N.
Proof.
  unfold maxl. induction l as [|y r IH]; cbn [In fold_right]; [tauto |]. intros [->|H]; [lia |].
  specialize (IH H). lia.
Qed.

Lemma maxl_forallb {A} (f : A -> N) l b : (maxl f l <= b)%N -> forall x, In x l -> (f x <= b)%N.
Proof. intros H x Hx. pose proof (maxl_in f l x Hx). lia. Qed.

(** * Lists *)
Lemma perm_filter {A} (f : A -> bool) l l' :
  Permutation l l' -> Permutation (filter f l) (filter f l').
Proof.
  induction 1; cbn.
  - constructor.
  - destruct (f x); [now constructor | assumption].
  - destruct (f x), (f y); try reflexivity. apply perm_swap.
  - eapply perm_trans; eassumption.
Qed.

Lemma filter_all {A} (f : A -> bool) l : Forall (fun x => f x = true) l -> filter f l = l.
Proof. induction 1; cbn; [reflexivity |]. rewrite H. now f_equal. Qed.

Lemma filter_none {A} (f : A -> bool) l : Forall (fun x => f x = false) l -> filter f l = [].
Proof. induction 1; cbn; [reflexivity |]. now rewrite H. Qed.

Lemma fold_res_app {S A} (f : S -> A -> res S) l1 l2 s :
  fold_res f (l1 ++ l2) s =
  match fold_res f l1 s with Ok s' => fold_res f l2 s' | Err c => Err c | Panic => Panic end.
Proof.
  revert s. induction l1 as [|x r IH]; intros s; cbn; [reflexivity |].
  destruct (f s x); auto.
Qed.

Lemma fold_res_elems {S} (f : S -> xtree -> res S) k w :
  (forall w t, is_elem t = false -> f w t = Ok w) -> fold_res f k w = fold_res f (elems k) w.
Proof.
  intros Hf. revert w. induction k as [|t r IH]; intros w; [reflexivity |].
  unfold elems. cbn [filter fold_res]. destruct (is_elem t) eqn:E.
  - cbn [fold_res]. destruct (f w t); auto.
  - rewrite (Hf w t E). apply IH.
Qed.

(** * Attributes *)
Lemma get_attr_some_in l a v : get_attr l a = Some v -> In (("", l), v) a.
Proof.
  unfold get_attr. match goal with |- context [find ?f a] => destruct (find f a) as [x|] eqn:F end; [|discriminate].
  intros E. inversion E; subst. apply find_some in F. destruct F as [Hin Hn].
  apply name_eqb_eq in Hn. destruct x as [nm v]. cbn in *. now subst.
Qed.

Lemma get_attr_none l a : (forall v, ~ In (("", l), v) a) -> get_attr l a = None.
Proof.
  intros H. unfold get_attr. match goal with |- context [find ?f a] => destruct (find f a) as [x|] eqn:F end; [|reflexivity].
  apply find_some in F. destruct F as [Hin Hn]. apply name_eqb_eq in Hn.
  destruct x as [nm v]. cbn in *. subst. exfalso. eapply H; eassumption.
Qed.

Lemma get_attr_in l a v : NoDup (map fst a) -> In (("", l), v) a -> get_attr l a = Some v.
Proof.
  intros Hnd Hin. destruct (get_attr l a) as [v'|] eqn:G.
  - apply get_attr_some_in in G. f_equal.
    revert Hnd Hin G. induction a as [|x r IH]; cbn; [tauto |].
    intros Hnd. apply NoDup_cons_iff in Hnd. destruct Hnd as [Hni Hnd].
    intros [E1|H1] [E2|H2].
    + congruence.
    + exfalso. apply Hni. subst x. apply in_map_iff. eexists. split; [|exact H2]. reflexivity.
    + exfalso. apply Hni. subst x. apply in_map_iff. eexists. split; [|exact H1]. reflexivity.
    + auto.
  - exfalso. unfold get_attr in G. match goal with H : context [find ?f a] |- _ => destruct (find f a) eqn:F end; [discriminate |].
    eapply find_none in F; [|exact Hin]. cbv beta in F. cbn [fst] in F. rewrite name_eqb_refl in F. discriminate.
Qed.

(** an un-namespaced attribute [l] can only be "extra" as a DTD default *)
Lemma extra_plain n a x l v :
  extra_ok n a x -> x = (("", l), v) -> l <> "xmlns" -> In x (default_attrs n) /\ ~ In (fst x) (map fst a).
Proof.
  intros [Hf|Hd] -> Hl; [|exact Hd]. exfalso.
  unfold foreign, is_decl, a_space, a_local in Hf. cbn in Hf.
  apply String.eqb_neq in Hl. now rewrite Hl in Hf.
Qed.

Lemma attrs_var_in n a a' l v :
  attrs_var n a a' -> l <> "xmlns" -> (forall x, In x (default_attrs n) -> fst x <> ("", l)) ->
  In (("", l), v) a' <-> In (("", l), v) a.
Proof.
  intros (extra & Hp & He & _) Hl Hd. split; intros Hin.
  - apply (Permutation_in _ (Permutation_sym Hp)) in Hin. apply in_app_or in Hin.
    destruct Hin as [?|Hin]; [assumption |]. exfalso.
    rewrite Forall_forall in He. specialize (He _ Hin).
    destruct (extra_plain _ _ _ _ _ He eq_refl Hl) as [Hdef _]. now apply (Hd _ Hdef).
  - apply (Permutation_in _ Hp). apply in_or_app. now left.
Qed.

Lemma attrs_var_get n a a' l :
  attrs_var n a a' -> l <> "xmlns" -> (forall x, In x (default_attrs n) -> fst x <> ("", l)) ->
  get_attr l a' = get_attr l a.
Proof.
  intros Hv Hl Hd. pose proof Hv as (_ & _ & _ & Hnd).
  destruct (get_attr l a) as [v|] eqn:G.
  - apply get_attr_in; [assumption |]. apply (attrs_var_in _ _ _ _ _ Hv Hl Hd). now apply get_attr_some_in.
  - apply get_attr_none. intros v Hin. apply (attrs_var_in _ _ _ _ _ Hv Hl Hd) in Hin.
    unfold get_attr in G. match goal with H : context [find ?f a] |- _ => destruct (find f a) eqn:F end; [discriminate |].
    eapply find_none in F; [|exact Hin]. cbv beta in F. cbn [fst] in F. rewrite name_eqb_refl in F. discriminate.
Qed.

(** What the attribute loop of the decoder sees: only the attributes in no
    namespace whose local name some field of the struct carries. *)
Definition actf (act : string -> bool) (x : xattr) : bool := str_empty (a_space x) && act (a_local x).

Lemma fold_attrs_filter {W} (set : string -> string -> W -> res W) (act : string -> bool) :
  (forall l v w, act l = false -> set l v w = Ok w) ->
  forall a w, fold_attrs set a w = fold_attrs set (filter (actf act) a) w.
Proof.
  intros Hs. unfold fold_attrs. induction a as [|x r IH]; intros w; [reflexivity |].
  cbn [filter]. destruct (actf act x) eqn:Eact; unfold actf in Eact.
  - apply andb_true_iff in Eact. destruct Eact as [E Ea]. cbn [fold_res]. rewrite E.
    destruct (set _ _ w); auto.
  - cbn [fold_res]. destruct (str_empty (a_space x)) eqn:E; cbn [andb] in Eact.
    + rewrite (Hs _ _ _ Eact). apply IH.
    + apply IH.
Qed.

Lemma attrs_var_filter n a a' act :
  attrs_var n a a' -> act "xmlns" = false ->
  (forall x, In x (default_attrs n) -> act (a_local x) = false) ->
  Forall (fun x => actf act x = true) a ->
  Permutation a (filter (actf act) a').
Proof.
  intros (extra & Hp & He & _) Hx Hd Ha.
  apply (perm_filter (actf act)) in Hp. rewrite filter_app in Hp.
  rewrite (filter_all _ _ Ha) in Hp. rewrite (filter_none _ extra) in Hp; [now rewrite app_nil_r in Hp |].
  rewrite Forall_forall in He |- *. intros x Hin. specialize (He _ Hin). unfold actf.
  destruct He as [Hf|[Hdef _]].
  - unfold foreign in Hf. destruct (str_empty (a_space x)) eqn:E; [|reflexivity]. cbn in Hf.
    unfold is_decl in Hf. apply str_empty_spec in E. rewrite E in Hf. cbn in Hf.
    apply String.eqb_eq in Hf. rewrite Hf. now rewrite Hx.
  - rewrite (Hd _ Hdef). apply andb_false_r.
Qed.

(** * Children *)
Lemma lexvar_elem_inv n a k t' :
  lexvar (Elem n a k) t' ->
  exists a' k', t' = Elem n a' k' /\ attrs_var n a a' /\ kids_var (negb (pcdata n)) k k'.
Proof. intros H. inversion H; subst. eauto. Qed.

Lemma kids_var_text b k k' : kids_var b k k' -> b = false -> text_of k' = text_of k.
Proof.
  induction 1; intros Hb; subst; cbn [text_of]; auto.
  - inversion H; subst; now rewrite IHkids_var.
  - discriminate.
  - rewrite IHkids_var by reflexivity. cbn [text_of]. now rewrite app_assoc_s.
Qed.

Lemma kids_var_no_elems b k k' : kids_var b k k' -> no_elems k' = no_elems k.
Proof.
  unfold no_elems. induction 1; cbn [forallb is_elem negb andb] in *; auto.
  inversion H; subst; cbn [forallb is_elem negb andb]; try rewrite IHkids_var; reflexivity.
Qed.

Lemma kids_var_content b k k' : kids_var b k k' -> content_ok k = true -> content_ok k' = true.
Proof.
  unfold content_ok. induction 1; cbn [forallb] in *; auto.
  - inversion H; subst; intros Hc; apply andb_true_iff in Hc; destruct Hc as [Hc1 Hc2];
      apply andb_true_iff; auto.
  - intros Hc. rewrite H. auto.
  - intros Hc. apply andb_true_iff in Hc. destruct Hc as [Hc1 Hc2].
    rewrite is_ws_app in Hc1. apply andb_true_iff in Hc1. destruct Hc1 as [Ha Hb].
    rewrite Ha. apply IHkids_var. now rewrite Hb.
Qed.

Lemma kids_var_elems b k k' : kids_var b k k' -> Forall2 lexvar (elems k) (elems k').
Proof.
  unfold elems. induction 1; cbn [filter is_elem] in *; auto.
  inversion H; subst; cbn [filter is_elem]; auto.
Qed.

Lemma all_elems_content k : forallb is_elem k = true -> content_ok k = true /\ elems k = k.
Proof.
  induction k as [|t r IH]; cbn; [auto |]. intros H. apply andb_true_iff in H. destruct H as [Ht Hr].
  destruct (IH Hr) as [Hc He]. unfold elems in *. cbn. rewrite Ht, He. destruct t; try discriminate. auto.
Qed.

(** children of an element with element content, all of them elements *)
Lemma kids_var_econtent k k' :
  kids_var true k k' -> forallb is_elem k = true ->
  content_ok k' = true /\ Forall2 lexvar k (elems k').
Proof.
  intros H Hk. destruct (all_elems_content _ Hk) as [Hc He]. split.
  - eapply kids_var_content; eassumption.
  - rewrite <- He at 1. eapply kids_var_elems; eassumption.
Qed.

(** * Reflexivity on trees without comments *)
Lemma attrs_var_refl n a : NoDup (map fst a) -> attrs_var n a a.
Proof. intros H. exists []. rewrite app_nil_r. auto. Qed.

Lemma kids_var_refl b k : Forall (fun t => lexvar t t) k -> kids_var b k k.
Proof. induction 1; constructor; auto. Qed.

Lemma lexvar_refl_elem n a k :
  NoDup (map fst a) -> Forall (fun t => lexvar t t) k -> lexvar (Elem n a k) (Elem n a k).
Proof. intros. constructor; [now apply attrs_var_refl | now apply kids_var_refl]. Qed.

Lemma lexvar_refl_text_kids b s : kids_var b (text_kids s) (text_kids s).
Proof. unfold text_kids. destruct (str_empty s); repeat constructor. Qed.

(** * Stripping declarations and foreign attributes keeps a variant a variant *)
Fixpoint plain_b (t : xtree) : bool :=
  match t with
  | Elem _ a k => forallb (fun x => negb (foreign x)) a && forallb plain_b k
  | _ => true
  end.

Definition strip (t : xtree) : xtree := strip_decls (strip_foreign t).

Scheme lexvar_mut := Induction for lexvar Sort Prop
  with kids_var_mut := Induction for kids_var Sort Prop.

Lemma strip_attrs n a a' :
  forallb (fun x => negb (foreign x)) a = true -> attrs_var n a a' ->
  attrs_var n a (drop_decls (drop_foreign a')).
Proof.
  intros Hpl (extra & Hp & He & Hnd).
  assert (E : drop_decls (drop_foreign a') = filter (fun x => negb (foreign x)) a').
  { unfold drop_decls, drop_foreign. clear. induction a' as [|x r IH]; cbn; [reflexivity |].
    unfold foreign at 1. destruct (str_empty (a_space x)) eqn:E1; cbn.
    - destruct (is_decl x); cbn; now rewrite IH.
    - exact IH. }
  rewrite E. exists (filter (fun x => negb (foreign x)) extra). repeat split.
  - apply (perm_filter (fun x => negb (foreign x))) in Hp. rewrite filter_app in Hp.
    rewrite filter_all in Hp; [exact Hp |]. apply Forall_forall. now apply forallb_forall.
  - rewrite Forall_forall in He |- *. intros x Hin. apply filter_In in Hin. now apply He.
  - clear - Hnd. induction a' as [|x r IH]; cbn; [constructor |]. cbn in Hnd. inversion Hnd; subst.
    destruct (negb (foreign x)); cbn; auto. constructor; auto.
    intros Hin. apply H1. apply in_map_iff in Hin. destruct Hin as (y & Hy & Hin).
    apply filter_In in Hin. apply in_map_iff. exists y. tauto.
Qed.

Lemma lexvar_strip t t' : lexvar t t' -> plain_b t = true -> lexvar t (strip t').
Proof.
  revert t t'.
  apply (lexvar_mut
           (fun t t' _ => plain_b t = true -> lexvar t (strip t'))
           (fun b k k' _ => forallb plain_b k = true -> kids_var b k (map strip k'))).
  - intros s _. constructor.
  - intros n a a' k k' Ha Hk IH Hpl. cbn in Hpl. apply andb_true_iff in Hpl. destruct Hpl as [Hpa Hpk].
    unfold strip. cbn [strip_foreign strip_decls]. rewrite map_map. constructor.
    + now apply strip_attrs.
    + apply IH. exact Hpk.
  - intros b _. constructor.
  - intros b t t' k k' Ht IHt Hk IHk Hpl. cbn in Hpl. apply andb_true_iff in Hpl.
    cbn [map]. constructor; tauto.
  - intros b c k k' Hk IH Hpl. cbn [map]. change (strip (Comment c)) with (Comment c). constructor. auto.
  - intros s k k' Hs Hk IH Hpl. cbn [map]. change (strip (Text s)) with (Text s). constructor; auto.
  - intros b k k' Hk IH Hpl. cbn [map]. change (strip (Text "")) with (Text ""). constructor. auto.
  - intros b s1 s2 k k' Hk IH Hpl. cbn [map]. change (strip (Text s1)) with (Text s1). apply KV_split.
    apply IH. exact Hpl.
Qed.
