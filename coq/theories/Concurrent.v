(** Concurrent.v — requests on disjoint subtrees commute (the disjointness half of C18).

    A minimal resource tree of its own (this file depends on no other model), the
    two primitives "read the subtree at p" / "rewrite the subtree at p", and CALLS
    ANCHORED AT A ROOT p: a call is a function of the subtree found at p, returning
    the new subtree and an outcome.  That is what "touches only paths under p"
    means here; the concrete WebDAV-like calls at the end of the file are instances.

    Definitions only (extracted: the comparison verdicts at the end); proofs are in
    ConcurrentProofs.v. *)
From GW Require Import Base.
Local Open Scope N_scope.

Definition name := string.
Definition path := list name.

Inductive node :=
| File (content : string)
| Dir (children : list (name * node)).

Fixpoint assoc (x : name) (ch : list (name * node)) : option node :=
  match ch with
  | [] => None
  | (k, v) :: r => if String.eqb k x then Some v else assoc x r
  end.

(** rewrite the first binding of [x] (nothing happens when there is none) *)
Fixpoint modify (x : name) (f : node -> node) (ch : list (name * node)) : list (name * node) :=
  match ch with
  | [] => []
  | (k, v) :: r => if String.eqb k x then (k, f v) :: r else (k, v) :: modify x f r
  end.

(** the subtree at [p] *)
Fixpoint sub (p : path) (n : node) : option node :=
  match p with
  | [] => Some n
  | x :: q =>
    match n with
    | Dir ch => match assoc x ch with Some m => sub q m | None => None end
    | File _ => None
    end
  end.

(** rewrite the subtree at [p] with [f] (nothing happens when [p] does not exist) *)
Fixpoint upd (p : path) (f : node -> node) (n : node) : node :=
  match p with
  | [] => f n
  | x :: q =>
    match n with
    | Dir ch => Dir (modify x (upd q f) ch)
    | File _ => n
    end
  end.

(** [is_prefix p q]: q lies in the subtree rooted at p (or is p). *)
Fixpoint is_prefix (p q : path) : bool :=
  match p, q with
  | [], _ => true
  | x :: p', y :: q' => String.eqb x y && is_prefix p' q'
  | _ :: _, [] => false
  end.

(** disjoint subtrees: neither root lies inside the other *)
Definition disjoint (p q : path) : bool := negb (is_prefix p q) && negb (is_prefix q p).

Inductive outc :=
| OStatus (code : N)
| OData (code : N) (body : string)
| ONames (code : N) (l : list string).

(** A call anchored at a root: a function of the subtree at the root. *)
Definition sem_t := node -> node * outc.
Definition call := (path * sem_t)%type.

(** Running a call on the whole tree.  [None]: the root does not exist (the tree
    is then unchanged). *)
Definition exec (c : call) (t : node) : node * option outc :=
  (upd (fst c) (fun m => fst (snd c m)) t,
   match sub (fst c) t with Some m => Some (snd (snd c m)) | None => None end).

(** Calls tagged with the number of the program (client goroutine) they belong to. *)
Definition tcall := (nat * call)%type.

Fixpoint runs (s : list tcall) (t : node) : node * list (nat * option outc) :=
  match s with
  | [] => (t, [])
  | (i, c) :: r =>
    let (t1, o) := exec c t in
    let (t2, os) := runs r t1 in
    (t2, (i, o) :: os)
  end.

(** the items of program [i], in order *)
Definition proj {A} (i : nat) (l : list (nat * A)) : list A :=
  map snd (filter (fun x => Nat.eqb (fst x) i) l).

(** calls of different programs have disjoint roots *)
Definition roots_disjoint (s : list tcall) : Prop :=
  forall i c j d, In (i, c) s -> In (j, d) s -> i <> j -> disjoint (fst c) (fst d) = true.

(** the sequential schedule: program after program *)
Definition seq_schedule (progs : list (nat * list call)) : list tcall :=
  flat_map (fun pr => map (fun c => (fst pr, c)) (snd pr)) progs.

Definition calls_of (i : nat) (progs : list (nat * list call)) : list call :=
  flat_map (fun pr => if Nat.eqb (fst pr) i then snd pr else []) progs.

(** [s] is an interleaving of the programs: it contains, for every program, exactly
    that program's calls in that program's order. *)
Definition is_interleaving (s : list tcall) (progs : list (nat * list call)) : Prop :=
  forall i, proj i s = calls_of i progs.

(** * Concrete calls (instances of [sem_t]): WebDAV-like operations on paths
    relative to the root. *)

Fixpoint remove_child (x : name) (ch : list (name * node)) : list (name * node) :=
  match ch with
  | [] => []
  | (k, v) :: r => if String.eqb k x then r else (k, v) :: remove_child x r
  end.

Definition set_child (x : name) (v : node) (ch : list (name * node)) : list (name * node) :=
  match assoc x ch with
  | Some _ => modify x (fun _ => v) ch
  | None => (ch ++ [(x, v)])%list
  end.

Fixpoint split_last (p : path) : option (path * name) :=
  match p with
  | [] => None
  | [x] => Some ([], x)
  | x :: q => match split_last q with Some (d, l) => Some (x :: d, l) | None => None end
  end.

Definition child_names (ch : list (name * node)) : list string := map fst ch.

Inductive fcall :=
| FGet (q : path)
| FList (q : path)
| FPut (q : path) (content : string)
| FMkcol (q : path)
| FDelete (q : path)
| FCopy (q q' : path)
| FMove (q q' : path).

(** put [v] at relative path [q] inside [m]: the parent must be a collection *)
Definition place (q : path) (v : node) (m : node) : option node :=
  match split_last q with
  | None => None
  | Some (d, l) =>
    match sub d m with
    | Some (Dir _) =>
      Some (upd d (fun n => match n with Dir ch => Dir (set_child l v ch) | File _ => n end) m)
    | _ => None
    end
  end.

Definition unplace (q : path) (m : node) : node :=
  match split_last q with
  | None => m
  | Some (d, l) =>
    upd d (fun n => match n with Dir ch => Dir (remove_child l ch) | File _ => n end) m
  end.

Definition sem (c : fcall) : sem_t := fun m =>
  match c with
  | FGet q =>
    match sub q m with
    | Some (File s) => (m, OData 200 s)
    | Some (Dir _) => (m, OStatus 405)
    | None => (m, OStatus 404)
    end
  | FList q =>
    match sub q m with
    | Some (File _) => (m, ONames 207 [])
    | Some (Dir ch) => (m, ONames 207 (child_names ch))
    | None => (m, OStatus 404)
    end
  | FPut q s =>
    match sub q m with
    | Some (Dir _) => (m, OStatus 405)
    | Some (File _) =>
      match place q (File s) m with Some m' => (m', OStatus 204) | None => (m, OStatus 409) end
    | None =>
      match place q (File s) m with Some m' => (m', OStatus 201) | None => (m, OStatus 409) end
    end
  | FMkcol q =>
    match sub q m with
    | Some _ => (m, OStatus 405)
    | None =>
      match place q (Dir []) m with Some m' => (m', OStatus 201) | None => (m, OStatus 409) end
    end
  | FDelete q =>
    match q, sub q m with
    | [], _ => (m, OStatus 403)
    | _, Some _ => (unplace q m, OStatus 204)
    | _, None => (m, OStatus 404)
    end
  | FCopy q q' =>
    match sub q m with
    | None => (m, OStatus 404)
    | Some v =>
      let existed := match sub q' m with Some _ => true | None => false end in
      match place q' v m with
      | Some m' => (m', OStatus (if existed then 204 else 201))
      | None => (m, OStatus 409)
      end
    end
  | FMove q q' =>
    match q, sub q m with
    | [], _ => (m, OStatus 403)
    | _, None => (m, OStatus 404)
    | _, Some v =>
      let existed := match sub q' m with Some _ => true | None => false end in
      match place q' v (unplace q m) with
      | Some m' => (m', OStatus (if existed then 204 else 201))
      | None => (m, OStatus 409)
      end
    end
  end.

Definition at_root (p : path) (c : fcall) : call := (p, sem c).

(** * Verdicts for the differential check (harness part b)

    For every client goroutine the harness reports what each of its operations
    answered and its final subtree, once while all goroutines ran concurrently on
    one handler and once when its program ran alone; [C18_alone] says these must be
    equal.  Both are lists of canonical items (status code, digest string). *)
Definition item := (N * string)%type.

Fixpoint items_eqb (a b : list item) : bool :=
  match a, b with
  | [], [] => true
  | (c1, s1) :: a', (c2, s2) :: b' => (c1 =? c2) && String.eqb s1 s2 && items_eqb a' b'
  | _, _ => false
  end.

Record conc_obs := {
  co_conc_resp : list item; co_conc_tree : list item;
  co_alone_resp : list item; co_alone_tree : list item;
  co_stray : bool }.     (* something appeared outside every client's subtree *)

Definition conc_agrees (o : conc_obs) : bool :=
  items_eqb (co_conc_resp o) (co_alone_resp o) &&
  items_eqb (co_conc_tree o) (co_alone_tree o) && negb (co_stray o).
