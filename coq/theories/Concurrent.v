(** Concurrent.v — requests on disjoint subtrees commute (the disjointness half of C18).

    A minimal resource tree of its own (this file depends on no other model), the
    two primitives "read the subtree at p" / "rewrite the subtree at p", and CALLS
    ANCHORED AT A ROOT p: a call is a function of the subtree found at p, returning
    the new subtree and an outcome.  That is what "touches only paths under p"
    means here; the concrete WebDAV-like calls at the end of the file are instances.

    Definitions only (extracted: the comparison verdicts at the end); proofs are in
    ConcurrentProofs.v. *)
From GW Require Import Base.
Local Open Scope N_scope.

Definition name := string.
Definition path := list name.

Inductive node :=
| File (content : string)
| Dir (children : list (name * node)).

Fixpoint assoc (x : name) (ch : list (name * node)) : option node :=
  match ch with
  | [] => None
  | (k, v) :: r => if String.eqb k x then Some v else assoc x r
  end.

(** rewrite the first binding of [x] (nothing happens when there is none) *)
Fixpoint modify (x : name) (f : node -> node) (ch : list (name * node)) : list (name * node) :=
  match ch with
  | [] => []
  | (k, v) :: r => if String.eqb k x then (k, f v) :: r else (k, v) :: modify x f r
  end.

(** the subtree at [p] *)
Fixpoint sub (p : path) (n : node) : option node :=
  match p with
  | [] => Some n
  | x :: q =>
    match n with
    | Dir ch => match assoc x ch with Some m => sub q m | None => None end
    | File _ => None
    end
  end.

(** rewrite the subtree at [p] with [f] (nothing happens when [p] does not exist) *)
Fixpoint upd (p : path) (f : node -> node) (n : node) : node :=
  match p with
  | [] => f n
  | x :: q =>
    match n with
    | Dir ch => Dir (modify x (upd q f) ch)
    | File _ => n
    end
  end.

(** [is_prefix p q]: q lies in the subtree rooted at p (or is p). *)
Fixpoint is_prefix (p q : path) : bool :=
  match p, q with
  | [], _ => true
  | x :: p', y :: q' => String.eqb x y && is_prefix p' q'
  | _ :: _, [] => false
  end.

(** disjoint subtrees: neither root lies inside the other *)
Definition disjoint (p q : path) : bool := negb (is_prefix p q) && negb (is_prefix q p).

Inductive outc :=
| OStatus (code : N)
| OData (code : N) (body : string)
| ONames (code : N) (l : list string)
| OStat (isdir : bool) (size : N).

(** A call anchored at a root: a function of the subtree at the root. *)
Definition sem_t := node -> node * outc.
Definition call := (path * sem_t)%type.

(** Running a call on the whole tree.  [None]: the root does not exist (the tree
    is then unchanged). *)
Definition exec (c : call) (t : node) : node * option outc :=
  (upd (fst c) (fun m => fst (snd c m)) t,
   match sub (fst c) t with Some m => Some (snd (snd c m)) | None => None end).

(** Calls tagged with the number of the program (client goroutine) they belong to. *)
Notation tcall := (nat * call)%type (only parsing).

Fixpoint runs (s : list tcall) (t : node) : node * list (nat * option outc) :=
  match s with
  | [] => (t, [])
  | (i, c) :: r =>
    let (t1, o) := exec c t in
    let (t2, os) := runs r t1 in
    (t2, (i, o) :: os)
  end.

(** the items of program [i], in order *)
Definition proj {A} (i : nat) (l : list (nat * A)) : list A :=
  map snd (filter (fun x => Nat.eqb (fst x) i) l).

(** calls of different programs have disjoint roots *)
Definition roots_disjoint (s : list tcall) : Prop :=
  forall i c j d, In (i, c) s -> In (j, d) s -> i <> j -> disjoint (fst c) (fst d) = true.

(** the sequential schedule: program after program *)
Definition seq_schedule (progs : list (nat * list call)) : list tcall :=
  flat_map (fun pr => map (fun c => (fst pr, c)) (snd pr)) progs.

Definition calls_of (i : nat) (progs : list (nat * list call)) : list call :=
  flat_map (fun pr => if Nat.eqb (fst pr) i then snd pr else []) progs.

(** [s] is an interleaving of the programs: it contains, for every program, exactly
    that program's calls in that program's order. *)
Definition is_interleaving (s : list tcall) (progs : list (nat * list call)) : Prop :=
  forall i, proj i s = calls_of i progs.

(** * Requests are not atomic: threads of adaptive programs

    One WebDAV request is several OS calls, and what it does next depends on what
    the earlier ones returned.  A THREAD is a root together with an adaptive program
    of primitive calls anchored at that root; the scheduler may switch threads
    between any two primitive calls.  [view] is what a thread can see of the whole
    state: its own continuation and the subtree at its root; [lstep] is one
    primitive call performed on that view alone.  ConcurrentProofs.threads_independent:
    under any schedule every thread's view evolves exactly as if it were alone. *)
Inductive prog (R : Type) : Type :=
| PRet (r : R)
| PCall (c : sem_t) (k : outc -> prog R).
Arguments PRet {R}.
Arguments PCall {R}.

Definition thread (R : Type) : Type := (path * prog R)%type.

Fixpoint set_nth {A} (n : nat) (x : A) (l : list A) : list A :=
  match l, n with
  | [], _ => []
  | _ :: r, O => x :: r
  | a :: r, S n' => a :: set_nth n' x r
  end.

(** thread [j] performs its next primitive call on the shared tree (nothing happens
    when it has finished, does not exist, or its root does not exist) *)
Definition gstep {R} (s : list (thread R) * node) (j : nat) : list (thread R) * node :=
  match nth_error (fst s) j with
  | Some (p, PCall c k) =>
    match sub p (snd s) with
    | Some m => (set_nth j (p, k (snd (c m))) (fst s), upd p (fun m' => fst (c m')) (snd s))
    | None => s
    end
  | _ => s
  end.

Definition grun {R} (s : list (thread R) * node) (sched : list nat) : list (thread R) * node :=
  fold_left gstep sched s.

Definition view {R} (s : list (thread R) * node) (i : nat) : option (prog R * option node) :=
  match nth_error (fst s) i with
  | Some (p, pr) => Some (pr, sub p (snd s))
  | None => None
  end.

Definition lstep {R} (v : prog R * option node) : prog R * option node :=
  match v with
  | (PCall c k, Some m) => (k (snd (c m)), Some (fst (c m)))
  | _ => v
  end.

Definition thread_roots_disjoint {R} (ths : list (thread R)) : Prop :=
  forall i j p q pr qr,
    nth_error ths i = Some (p, pr) -> nth_error ths j = Some (q, qr) -> i <> j ->
    disjoint p q = true.

(** * Concrete calls (instances of [sem_t]): the operations of webdav.Client on
    paths relative to the root, with the answers webdav.Handler{LocalFileSystem}
    gives (server.go, fs_local.go, internal/server.go), in the order in which the Go
    code makes its checks. *)

Fixpoint remove_child (x : name) (ch : list (name * node)) : list (name * node) :=
  match ch with
  | [] => []
  | (k, v) :: r => if String.eqb k x then r else (k, v) :: remove_child x r
  end.

Definition set_child (x : name) (v : node) (ch : list (name * node)) : list (name * node) :=
  match assoc x ch with
  | Some _ => modify x (fun _ => v) ch
  | None => (ch ++ [(x, v)])%list
  end.

Fixpoint split_last (p : path) : option (path * name) :=
  match p with
  | [] => None
  | [x] => Some ([], x)
  | x :: q => match split_last q with Some (d, l) => Some (x :: d, l) | None => None end
  end.

Definition child_names (ch : list (name * node)) : list string := map fst ch.

Inductive fcall :=
| FGet (q : path)                          (* Client.Open + read to EOF *)
| FList (q : path)                         (* Client.ReadDir(q, false) *)
| FStat (q : path)                         (* Client.Stat *)
| FPut (q : path) (content : string)       (* Client.Create, Write..., Close *)
| FMkcol (q : path)                        (* Client.Mkdir *)
| FDelete (q : path)                       (* Client.RemoveAll *)
| FCopy (q q' : path) (deep overwrite : bool)   (* Client.Copy *)
| FMove (q q' : path) (overwrite : bool).  (* Client.Move *)

(** put [v] at relative path [q] inside [m]: the parent must be a collection
    (fs_local.go: createTemp / checkCopyMove / Mkdir fail otherwise).  [q = []]
    replaces [m] itself. *)
Definition place (q : path) (v : node) (m : node) : option node :=
  match split_last q with
  | None => Some v
  | Some (d, l) =>
    match sub d m with
    | Some (Dir _) =>
      Some (upd d (fun n => match n with Dir ch => Dir (set_child l v ch) | File _ => n end) m)
    | _ => None
    end
  end.

Definition unplace (q : path) (m : node) : node :=
  match split_last q with
  | None => m
  | Some (d, l) =>
    upd d (fun n => match n with Dir ch => Dir (remove_child l ch) | File _ => n end) m
  end.

Definition exists_at (q : path) (m : node) : bool :=
  match sub q m with Some _ => true | None => false end.

(** Depth 0 copy of a collection copies the collection without its members *)
Definition shallow (v : node) : node := match v with Dir _ => Dir [] | File _ => v end.

Definition slen (s : string) : N := N.of_nat (String.length s).

(** the checks of fs_local.go checkCopyMove, then the Overwrite handling *)
Definition copy_move_checks (q q' : path) (overwrite : bool) (m : node) : option N :=
  if is_prefix q q' || is_prefix q' q then Some 403
  else if negb (exists_at q m) then Some 404
  else
    match split_last q' with
    | None => Some 403
    | Some (d, _) =>
      match sub d m with
      | Some (Dir _) => if exists_at q' m && negb overwrite then Some 412 else None
      | _ => Some 409
      end
    end.

Definition sem (c : fcall) : sem_t := fun m =>
  match c with
  | FGet q =>
    match sub q m with
    | Some (File s) => (m, OData 200 s)
    | Some (Dir _) => (m, OStatus 405)
    | None => (m, OStatus 404)
    end
  | FList q =>
    match sub q m with
    | Some (File _) => (m, ONames 207 [])
    | Some (Dir ch) => (m, ONames 207 (child_names ch))
    | None => (m, OStatus 404)
    end
  | FStat q =>
    match sub q m with
    | Some (File s) => (m, OStat false (slen s))
    | Some (Dir _) => (m, OStat true 0)
    | None => (m, OStatus 404)
    end
  | FPut q s =>
    match sub q m with
    | Some (Dir _) => (m, OStatus 405)
    | Some (File _) =>
      match place q (File s) m with Some m' => (m', OStatus 204) | None => (m, OStatus 409) end
    | None =>
      match place q (File s) m with Some m' => (m', OStatus 201) | None => (m, OStatus 409) end
    end
  | FMkcol q =>
    match sub q m with
    | Some _ => (m, OStatus 405)
    | None =>
      match place q (Dir []) m with Some m' => (m', OStatus 201) | None => (m, OStatus 409) end
    end
  | FDelete q =>
    match q, sub q m with
    | [], _ => (m, OStatus 403)   (* removing the anchor itself: outside the family, see [fcall_wf] *)
    | _, Some _ => (unplace q m, OStatus 204)
    | _, None => (m, OStatus 404)
    end
  | FCopy q q' deep ow =>
    match copy_move_checks q q' ow m, sub q m with
    | Some code, _ => (m, OStatus code)
    | None, None => (m, OStatus 404)
    | None, Some v =>
      match place q' (if deep then v else shallow v) m with
      | Some m' => (m', OStatus (if exists_at q' m then 204 else 201))
      | None => (m, OStatus 409)
      end
    end
  | FMove q q' ow =>
    match copy_move_checks q q' ow m, sub q m with
    | Some code, _ => (m, OStatus code)
    | None, None => (m, OStatus 404)
    | None, Some v =>
      match place q' v (unplace q m) with
      | Some m' => (m', OStatus (if exists_at q' m then 204 else 201))
      | None => (m, OStatus 409)
      end
    end
  end.

(** the one request the anchored form cannot express: deleting the anchor *)
Definition fcall_wf (c : fcall) : bool :=
  match c with FDelete [] => false | _ => true end.

Definition at_root (p : path) (c : fcall) : call := (p, sem c).

(** * The concurrent workload of the correspondence check (harness part "conc")

    Client goroutine number i works below the collection [cl_name] of the served
    root, which initially holds [cl_tree], and issues [cl_ops] one after another;
    all goroutines share one webdav.Client and one webdav.Handler. *)
Record client := { cl_name : name; cl_tree : node; cl_ops : list fcall }.

Definition init_tree (cs : list client) : node :=
  Dir (map (fun c => (cl_name c, cl_tree c)) cs).

Fixpoint number {A} (n : nat) (l : list A) : list (nat * A) :=
  match l with [] => [] | a :: r => (n, a) :: number (S n) r end.

Definition prog_of (c : client) : list call := map (at_root [cl_name c]) (cl_ops c).

Definition progs_of (cs : list client) : list (nat * list call) := number 0 (map prog_of cs).

(** what the model expects of ANY interleaving (ConcurrentProofs.expected_any_interleaving):
    the result of running the programs one after another *)
Definition expected (cs : list client) : node * list (nat * option outc) :=
  runs (seq_schedule (progs_of cs)) (init_tree cs).

(** ... and of one program run alone on the same initial tree *)
Definition expected_alone (cs : list client) (i : nat) (c : client) : node * list (nat * option outc) :=
  runs (map (fun x => (i, x)) (prog_of c)) (init_tree cs).

(** ** Canonical form: members sorted by name (byte order), listings too *)
Fixpoint insert_child (kv : name * node) (l : list (name * node)) : list (name * node) :=
  match l with
  | [] => [kv]
  | (k, v) :: r => if String.leb (fst kv) k then kv :: l else (k, v) :: insert_child kv r
  end.

Fixpoint canon (n : node) : node :=
  match n with
  | File s => File s
  | Dir ch =>
    Dir ((fix go (l : list (name * node)) : list (name * node) :=
            match l with
            | [] => []
            | (k, v) :: r => insert_child (k, canon v) (go r)
            end) ch)
  end.

Fixpoint insert_name (x : string) (l : list string) : list string :=
  match l with
  | [] => [x]
  | y :: r => if String.leb x y then x :: l else y :: insert_name x r
  end.

Definition sort_names (l : list string) : list string := fold_right insert_name [] l.

Definition canon_outc (o : outc) : outc :=
  match o with ONames c l => ONames c (sort_names l) | _ => o end.

Fixpoint names_eqb (a b : list string) : bool :=
  match a, b with
  | [], [] => true
  | x :: a', y :: b' => String.eqb x y && names_eqb a' b'
  | _, _ => false
  end.

Fixpoint node_eqb (a b : node) : bool :=
  match a, b with
  | File s, File t => String.eqb s t
  | Dir ca, Dir cb =>
    (fix go (l1 l2 : list (name * node)) : bool :=
       match l1, l2 with
       | [], [] => true
       | (k1, v1) :: r1, (k2, v2) :: r2 => String.eqb k1 k2 && node_eqb v1 v2 && go r1 r2
       | _, _ => false
       end) ca cb
  | _, _ => false
  end.

Definition outc_eqb (a b : outc) : bool :=
  match a, b with
  | OStatus x, OStatus y => x =? y
  | OData x s, OData y t => (x =? y) && String.eqb s t
  | ONames x l, ONames y k => (x =? y) && names_eqb l k
  | OStat d n, OStat e k => Bool.eqb d e && (n =? k)
  | _, _ => false
  end.

Definition opt_eqb {A} (f : A -> A -> bool) (a b : option A) : bool :=
  match a, b with
  | None, None => true
  | Some x, Some y => f x y
  | _, _ => false
  end.

Fixpoint list_eqb {A} (f : A -> A -> bool) (a b : list A) : bool :=
  match a, b with
  | [], [] => true
  | x :: a', y :: b' => f x y && list_eqb f a' b'
  | _, _ => false
  end.

(** What the harness reports per client goroutine (already in canonical form: the
    snapshot sorts members, listings are sorted): the answers its operations got
    and its final subtree, once while all goroutines ran at once on one handler
    through one client, once when its program ran alone from the same initial tree. *)
Record client_obs := {
  co_conc : list (option outc); co_conc_tree : option node;
  co_alone : list (option outc); co_alone_tree : option node }.

Record conc_obs := {
  co_clients : list client_obs;
  co_stray : bool;        (* something other than the clients' collections was left under the served root *)
  co_hang : bool;         (* watchdog fired *)
  co_race : bool }.       (* thorough tier only: the race detector reported a data race during the workload *)

Definition canon_outs (l : list (option outc)) : list (option outc) := map (option_map canon_outc) l.

Definition outs_eqb := list_eqb (opt_eqb outc_eqb).
Definition tree_eqb := opt_eqb node_eqb.

Fixpoint distinct (l : list name) : bool :=
  match l with
  | [] => true
  | x :: r => negb (existsb (String.eqb x) r) && distinct r
  end.

Definition conc_wf (cs : list client) : bool :=
  distinct (map cl_name cs) && forallb (fun c => forallb fcall_wf (cl_ops c)) cs.

Fixpoint clients_agree (cs : list client) (i : nat) (rest : list client) (obs : list client_obs) : bool :=
  match rest, obs with
  | [], [] => true
  | c :: rest', o :: obs' =>
    let e := expected cs in
    let a := expected_alone cs i c in
    outs_eqb (co_conc o) (canon_outs (proj i (snd e))) &&
    tree_eqb (co_conc_tree o) (option_map canon (sub [cl_name c] (fst e))) &&
    outs_eqb (co_alone o) (canon_outs (proj i (snd a))) &&
    tree_eqb (co_alone_tree o) (option_map canon (sub [cl_name c] (fst a))) &&
    clients_agree cs (S i) rest' obs'
  | _, _ => false
  end.

(** [conc_agrees]: the implementation did what the model says, concurrently and alone *)
Definition conc_agrees (cs : list client) (o : conc_obs) : bool :=
  negb (co_hang o) && negb (co_stray o) && negb (co_race o) && clients_agree cs 0 cs (co_clients o).

(** [conc_spec_ok]: the property itself — every goroutine got concurrently exactly
    the answers and the effect it gets alone, and nothing else was touched *)
Definition conc_spec_ok (o : conc_obs) : bool :=
  negb (co_hang o) && negb (co_stray o) && negb (co_race o) &&
  forallb (fun c => outs_eqb (co_conc c) (co_alone c) && tree_eqb (co_conc_tree c) (co_alone_tree c))
          (co_clients o).

(** Support only, no model: caldav.Handler / carddav.Handler over an in-memory backend
    of the harness, one shared client, goroutine i in its own collection.  The answers
    are opaque canonical strings; the verdict is the property's own predicate
    "concurrently = alone". *)
Definition dav_spec_ok (hang : bool) (cls : list (list string * list string)) : bool :=
  negb hang && forallb (fun c => names_eqb (fst c) (snd c)) cls.

(** * fs_local.go Create as a thread program

    [LocalFileSystem.Create] is not one step: Stat; createTemp in the parent directory;
    io.Copy of the body into the temporary file; Rename over the target.  Each is a
    primitive call on the subtree at the client's root (the temporary file lives in
    the target's own directory [d], so for a non-empty relative path everything
    stays below the root).  ConcurrentProofs.put_prog_refines: run alone, the program
    ends with the answer and the tree of the one-step [sem (FPut (d ++ [l]) s)]. *)
Definition tmp_create (d : path) (tmp : name) : sem_t := fun m =>
  match sub d m with
  | Some (Dir _) =>
    (upd d (fun n => match n with Dir ch => Dir (ch ++ [(tmp, File "")])%list | File _ => n end) m,
     OStatus 201)
  | _ => (m, OStatus 409)
  end.

Definition tmp_write (d : path) (tmp : name) (s : string) : sem_t := fun m =>
  (upd d (fun n => match n with Dir ch => Dir (modify tmp (fun _ => File s) ch) | File _ => n end) m,
   OStatus 200).

Definition tmp_rename (d : path) (tmp l : name) : sem_t := fun m =>
  (upd d (fun n => match n with
                   | Dir ch =>
                     match assoc tmp ch with
                     | Some v => Dir (set_child l v (remove_child tmp ch))
                     | None => n
                     end
                   | File _ => n
                   end) m,
   OStatus 200).

Definition put_prog (d : path) (l tmp : name) (s : string) : prog outc :=
  PCall (sem (FStat (d ++ [l])%list)) (fun o =>
    match o with
    | OStat true _ => PRet (OStatus 405)
    | _ =>
      let code := match o with OStat _ _ => 204 | _ => 201 end in
      PCall (tmp_create d tmp) (fun o2 =>
        if outc_eqb o2 (OStatus 201) then
          PCall (tmp_write d tmp s) (fun _ =>
            PCall (tmp_rename d tmp l) (fun _ => PRet (OStatus code)))
        else PRet (OStatus 409))
    end).

(** the temporary name is not taken in the target's directory *)
Definition tmp_fresh (d : path) (tmp : name) (m : node) : Prop :=
  match sub d m with Some (Dir ch) => assoc tmp ch = None | _ => True end.
