(** CopyTempProofs.v — LocalFileSystem.Copy through a temporary name (CopySteps.copy_via_temp):
    a write error at any entry of the walk leaves the very tree that was there (Leibniz), and a
    complete copy gives, at every path, what the single step of [DavServer.do_copy] gives. *)
From GW Require Import Base GoPath Fs DavServer Rfc4918 FsProofs DavRefine UploadSteps UploadStepsProofs
  CopySteps CopyStepsProofs RelocProofs.
Local Open Scope list_scope.

Lemma remo_absent p : forall on, geto on p = None -> remo on p = on.
Proof.
  induction p as [|s r IH]; intros on H.
  - cbn in H. subst on. reflexivity.
  - cbn [remo]. destruct on as [[c m|ch]|]; try reflexivity.
    cbn [geto] in H. destruct (assoc s ch) as [c0|] eqn:Ea; [|reflexivity].
    rewrite (IH (Some c0) H). rewrite set_back by exact Ea. reflexivity.
Qed.

(** Once the temporary name holds something, every later entry of the walk only changes what
    it holds. *)
Lemma entries_under s tmp st : forall es s0 T,
  seto s tmp T = Some s0 ->
  forall s', copy_entries (Some s0) tmp st es = Some s' -> exists T', seto s tmp T' = Some s'.
Proof.
  induction es as [|e r IH]; intros s0 T Hs0 s' H.
  - cbn in H. inversion H; subst. eauto.
  - cbn [copy_entries] in H. unfold copy_entry in H.
    pose proof (geto_seto_self tmp s T s0 Hs0) as Hg.
    rewrite (seto_app tmp (Some s0) T (fst e) (copy_shallow st (snd e)) Hg) in H.
    destruct (seto (Some T) (fst e) (copy_shallow st (snd e))) as [T1|]; [|discriminate].
    rewrite (seto_seto tmp s T T1 s0 Hs0) in H.
    destruct (seto s tmp T1) as [s1|] eqn:E1; [|discriminate].
    apply (IH s1 T1 E1 s' H).
Qed.

Lemma walk_entries_head n rec : exists rest, walk_entries n rec = ([], n) :: rest.
Proof. unfold walk_entries. destruct rec; [destruct n; cbn; eauto|eauto]. Qed.

(** C02 under write faults: whichever entry of the walk cannot be created, removing the
    temporary name leaves the tree that was there before the request — equal, not just alike. *)
Theorem copy_fault_restores s dstp tmpp st n rec k :
  tmpp <> [] -> geto s tmpp = None ->
  fst (copy_via_temp s dstp tmpp st n rec (Some k)) = s /\
  snd (copy_via_temp s dstp tmpp st n rec (Some k)) = false.
Proof.
  intros Hne Hfresh. unfold copy_via_temp.
  destruct (Nat.ltb k (List.length (walk_entries n rec))); [|split; reflexivity].
  unfold copy_entries_upto.
  destruct (walk_entries_head n rec) as [rest Hes]. rewrite Hes.
  destruct k as [|k'].
  - rewrite firstn_O. change (copy_entries s tmpp st []) with s.
    destruct s as [t|]; cbn [fst snd]; [|split; reflexivity].
    split; [apply remo_absent; exact Hfresh|reflexivity].
  - rewrite firstn_cons.
    change (copy_entries s tmpp st (([], n) :: firstn k' rest))
      with (match copy_entry s tmpp st ([], n) with
            | Some s' => copy_entries (Some s') tmpp st (firstn k' rest)
            | None => None
            end).
    assert (Hce : copy_entry s tmpp st ([], n) = seto s tmpp (copy_shallow st n))
      by (unfold copy_entry; cbn [fst snd]; rewrite app_nil_r; reflexivity).
    rewrite Hce.
    destruct (seto s tmpp (copy_shallow st n)) as [s0|] eqn:E0; [|split; reflexivity].
    remember (copy_entries (Some s0) tmpp st (firstn k' rest)) as res eqn:E1.
    destruct res as [s1|]; [|split; reflexivity].
    symmetry in E1.
    destruct (entries_under s tmpp st _ s0 _ E0 s1 E1) as [T' HT'].
    cbn [fst snd]. split; [|reflexivity].
    apply (remo_seto_fresh tmpp s T' s1 Hne Hfresh HT').
Qed.

(** A complete copy: at every path, names, kinds and bytes are those of the tree in which the
    copied source is mapped at the destination after the old destination was removed —
    the state [DavServer.do_copy] computes in one step. *)
Theorem copy_via_temp_is_do_copy (s : option node) (dstp tmpp : path) (st : N) (n : node) (rec : bool) :
  sorted_tree n = true ->
  dstp <> [] -> tmpp <> [] -> removelast tmpp = removelast dstp -> tmpp <> dstp ->
  geto s tmpp = None -> is_dir (geto s (removelast dstp)) = true ->
  let T := if rec then copy_tree st n else copy_shallow st n in
  exists (s2 e : node),
    copy_via_temp s dstp tmpp st n rec None = (Some s2, true) /\
    seto (remo s dstp) dstp T = Some e /\
    forall q, abs (Some s2) q = abs (Some e) q.
Proof.
  intros Hsorted Hdne Htne Hpar Hneq Hfresh Hdir T.
  assert (Hwalk : copy_entries s tmpp st (walk_entries n rec) = seto s tmpp T).
  { unfold T, walk_entries. destruct rec.
    - apply (copy_walk_is_copy_tree s tmpp st n Hsorted Htne Hfresh). rewrite Hpar. exact Hdir.
    - apply (copy_walk_shallow s tmpp st n). }
  destruct (seto_ok tmpp s T Htne) as [s1 Hs1]; [rewrite Hpar; exact Hdir|].
  (* the two names are siblings: neither is a prefix of the other *)
  assert (Hlen : List.length tmpp = List.length dstp).
  { rewrite (app_removelast_last ""%string Htne), (app_removelast_last ""%string Hdne), Hpar, !app_length. reflexivity. }
  assert (Hnp : forall a b : path, List.length a = List.length b -> a <> b -> is_prefix a b = false).
  { intros a b Hl Hab. destruct (is_prefix a b) eqn:E; [|reflexivity]. exfalso.
    apply is_prefix_spec in E. destruct E as [suf E]. subst b. rewrite app_length in Hl.
    destruct suf; [rewrite app_nil_r in Hab; congruence|cbn in Hl; lia]. }
  pose proof (Hnp tmpp dstp Hlen Hneq) as Htd.
  pose proof (Hnp dstp tmpp (eq_sym Hlen) (fun H => Hneq (eq_sym H))) as Hdt.
  (* the destination's parent is still a collection after the two removals *)
  assert (Hpd : is_dir (geto (remo (remo (Some s1) dstp) tmpp) (removelast dstp)) = true).
  { assert (H1 : is_prefix tmpp (removelast dstp) = false).
    { rewrite <- Hpar. apply (not_prefix_own_parent tmpp Htne). }
    assert (H2 : is_prefix dstp (removelast dstp) = false) by (apply (not_prefix_own_parent dstp Hdne)).
    rewrite (is_dir_remo_other _ _ _ H1), (is_dir_remo_other _ _ _ H2).
    rewrite is_dir_kind, (abs_seto _ _ _ _ Hs1 (removelast dstp)).
    rewrite strip_prefix_is_prefix in H1. destruct (strip_prefix tmpp (removelast dstp)); [discriminate|].
    rewrite <- is_dir_kind. exact Hdir. }
  destruct (seto_ok dstp (remo (remo (Some s1) dstp) tmpp) T Hdne Hpd) as [s2 Hs2].
  assert (Hpe : is_dir (geto (remo s dstp) (removelast dstp)) = true).
  { rewrite is_dir_remo_other by (apply (not_prefix_own_parent dstp Hdne)). exact Hdir. }
  destruct (seto_ok dstp (remo s dstp) T Hdne Hpe) as [e He].
  exists s2, e. split; [|split; [exact He|]].
  - unfold copy_via_temp. rewrite Hwalk, Hs1. rewrite (geto_seto_self tmpp s T s1 Hs1). rewrite Hs2. reflexivity.
  - intros q. unfold abs. rewrite (abs_seto _ _ _ _ Hs2 q), (abs_seto _ _ _ _ He q).
    destruct (strip_prefix dstp q) as [suf|] eqn:Es; [reflexivity|].
    rewrite !abs_remo.
    assert (Ed : is_prefix dstp q = false) by (rewrite strip_prefix_is_prefix, Es; reflexivity).
    rewrite Ed.
    destruct (is_prefix tmpp q) eqn:Et.
    + apply is_prefix_spec in Et. destruct Et as [suf ->].
      rewrite geto_app, Hfresh, geto_None. reflexivity.
    + rewrite (abs_seto _ _ _ _ Hs1 q). rewrite strip_prefix_is_prefix in Et.
      destruct (strip_prefix tmpp q); [discriminate|reflexivity].
Qed.

(** * The single step of [do_copy] is the copy through a temporary name *)
Theorem copy_is_copy_via_temp root sb r dst rec ow ss n ds cr tmp :
  copy_move_checks root sb (rpath r) dst ow = GOk (ss, n, ds, cr) ->
  sorted_tree n = true ->
  geto sb (hp root (parent ds) ++ [tmp]) = None -> tmp <> last ds ""%string ->
  let tmpp := hp root (parent ds) ++ [tmp] in
  exists s2,
    copy_via_temp sb (hp root ds) tmpp (stamp r) n rec None = (Some s2, true) /\
    forall q, abs (Some s2) q = abs (fst (do_copy root sb r dst rec ow)) q.
Proof.
  intros Hchk Hsorted Hfresh Hneq tmpp.
  assert (Hpar : is_dir (geto sb (hp root (parent ds))) = true /\ ds <> []).
  { unfold copy_move_checks in Hchk.
    destruct (segs_of (rpath r)) as [ss0|]; [|discriminate].
    destruct (segs_of dst) as [ds0|]; [|discriminate].
    destruct (is_prefix ss0 ds0 || is_prefix ds0 ss0) eqn:Epre; [discriminate|].
    destruct (geto sb (hp root ss0)); [|discriminate].
    destruct (is_dir (geto sb (hp root (parent ds0)))) eqn:Ed; cbn [negb] in Hchk; [|discriminate].
    assert (ds0 = ds) by (destruct (exists_ (geto sb (hp root ds0))); [destruct ow|]; inversion Hchk; reflexivity).
    subst ds0. split; [exact Ed|].
    intros ->. destruct ss0; cbn in Epre; discriminate. }
  destruct Hpar as [Hpar Hne].
  assert (Hd : hp root ds = hp root (parent ds) ++ [last ds ""%string]) by (apply hp_parent_last; exact Hne).
  assert (Hdne : hp root ds <> []) by (rewrite Hd; destruct (hp root (parent ds)); discriminate).
  assert (Htne : tmpp <> []) by (unfold tmpp; destruct (hp root (parent ds)); discriminate).
  assert (Hrl : removelast tmpp = removelast (hp root ds)).
  { unfold tmpp. rewrite Hd, !removelast_last. reflexivity. }
  assert (Hneqp : tmpp <> hp root ds).
  { unfold tmpp. rewrite Hd. intros E. apply app_inv_head in E. inversion E. congruence. }
  assert (Hdir : is_dir (geto sb (removelast (hp root ds))) = true).
  { rewrite Hd, removelast_last. exact Hpar. }
  destruct (copy_via_temp_is_do_copy sb (hp root ds) tmpp (stamp r) n rec Hsorted Hdne Htne Hrl Hneqp Hfresh Hdir)
    as (s2 & e & H1 & H2 & H3).
  exists s2. split; [exact H1|].
  intros q. rewrite H3. unfold do_copy. rewrite Hchk. rewrite H2. reflexivity.
Qed.

(** the hypotheses are satisfiable, and a fault is really undone *)
Example copy_via_temp_example :
  let src := Dir [("a", File "x" 1); ("d", Dir [("e", File "y" 2)])]%string in
  let sb := Some (Dir [("r", Dir [("old", File "keep" 3); ("s", src)])])%string in
  copy_via_temp sb ["r"; "old"]%string ["r"; ".tmp"]%string 9 src true None =
    (Some (Dir [("r", Dir [("old", Dir [("a", File "x" 9); ("d", Dir [("e", File "y" 9)])]); ("s", src)])])%string, true)
  /\ copy_via_temp sb ["r"; "old"]%string ["r"; ".tmp"]%string 9 src true (Some 3%nat) = (sb, false).
Proof. vm_compute. split; reflexivity. Qed.
