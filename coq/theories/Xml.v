(** Xml.v — namespace-expanded element trees, token streams, and the model of
    internal.RawXMLValue (/repo/internal/xml.go): capture (UnmarshalXML), the
    token reader (TokenReader / rawXMLValueReader.Token) as the state machine it
    is in Go, the EncodeToken calls of MarshalXML, and the selection of a raw
    value in a property container (internal/elements.go Prop.Get, Prop.Decode,
    Response.DecodeProp, valueXMLName).

    Two pieces of encoding/xml that sit between the raw value and its observers
    are modelled as far as the property needs them and are validated against
    the real package on every run:
      - [retrans]: what a Decoder built by xml.NewTokenDecoder does to the
        tokens it reads from a TokenReader (namespace translation, nesting);
      - [reread]: the namespace an element name comes back with after the
        Encoder has written a token sequence and a Decoder has read the bytes.
    Bytes <-> tokens (tokenising, escaping, the encoder's attribute prefixes)
    is not modelled.

    No proofs here: this file is extracted and must build even when a proof
    breaks.  Proofs are in XmlProofs.v, statements in Properties_C15.v. *)
From GW Require Import Base.
Local Open Scope list_scope.

(** * Names, attributes, tokens, trees *)

(** xml.Name: (Space, Local).  Space is the namespace *name* (URI) once the
    decoder has translated it. *)
Definition name := (string * string)%type.
Definition attr := (name * string)%type.

(** encoding/xml's Token, minus the nil interface (see [otoken]). *)
Inductive token : Type :=
| TStart (n : name) (a : list attr)
| TEnd (n : name)
| TText (s : string)                 (* xml.CharData *)
| TComment (s : string)
| TProcInst (target inst : string)
| TDirective (s : string).

(** A Go value of interface type xml.Token: [None] is the nil interface. *)
Definition otoken := option token.

(** Namespace-expanded trees: exactly the information the token stream carries. *)
Inductive xtree : Type :=
| Elem (n : name) (a : list attr) (cs : list xtree)
| Text (s : string)
| Comment (s : string)
| ProcInst (target inst : string)
| Directive (s : string).

Fixpoint tokens (t : xtree) : list token :=
  match t with
  | Elem n a cs => TStart n a :: flat_map tokens cs ++ [TEnd n]
  | Text s => [TText s]
  | Comment s => [TComment s]
  | ProcInst tg s => [TProcInst tg s]
  | Directive s => [TDirective s]
  end.

Definition forest_tokens (f : list xtree) : list token := flat_map tokens f.

(** Number of nodes. *)
Fixpoint xsize (t : xtree) : nat :=
  match t with
  | Elem _ _ cs => S (fold_right (fun c acc => xsize c + acc) 0 cs)
  | _ => 1
  end.

(** ** Boolean equalities *)

Definition name_eqb (a b : name) : bool :=
  String.eqb (fst a) (fst b) && String.eqb (snd a) (snd b).
Definition attr_eqb (a b : attr) : bool :=
  name_eqb (fst a) (fst b) && String.eqb (snd a) (snd b).

Fixpoint list_eqb {A : Type} (eq : A -> A -> bool) (l1 l2 : list A) : bool :=
  match l1, l2 with
  | [], [] => true
  | x :: r1, y :: r2 => eq x y && list_eqb eq r1 r2
  | _, _ => false
  end.

Definition token_eqb (a b : token) : bool :=
  match a, b with
  | TStart n1 a1, TStart n2 a2 => name_eqb n1 n2 && list_eqb attr_eqb a1 a2
  | TEnd n1, TEnd n2 => name_eqb n1 n2
  | TText s1, TText s2 => String.eqb s1 s2
  | TComment s1, TComment s2 => String.eqb s1 s2
  | TProcInst t1 s1, TProcInst t2 s2 => String.eqb t1 t2 && String.eqb s1 s2
  | TDirective s1, TDirective s2 => String.eqb s1 s2
  | _, _ => false
  end.

Definition option_eqb {A : Type} (eq : A -> A -> bool) (a b : option A) : bool :=
  match a, b with
  | None, None => true
  | Some x, Some y => eq x y
  | _, _ => false
  end.

Definition otoken_eqb : otoken -> otoken -> bool := option_eqb token_eqb.

(** The non-nil tokens of a stream. *)
Definition somes (l : list otoken) : list token :=
  flat_map (fun o => match o with Some t => [t] | None => [] end) l.

(** ** Namespace declarations *)

(** In the translated token stream a declaration is an attribute whose name is
    (xmlns, prefix) or ("", xmlns). *)
Definition is_decl (x : attr) : bool :=
  let '((sp, lo), _) := x in
  String.eqb sp "xmlns" || (str_empty sp && String.eqb lo "xmlns").

Definition strip_decls (a : list attr) : list attr :=
  filter (fun x => negb (is_decl x)) a.

Definition strip_token (t : token) : token :=
  match t with TStart n a => TStart n (strip_decls a) | x => x end.

Definition strip_stream (l : list token) : list token := map strip_token l.

(** The tree without its declaration attributes. *)
Fixpoint strip (t : xtree) : xtree :=
  match t with
  | Elem n a cs => Elem n (strip_decls a) (map strip cs)
  | x => x
  end.

(** * internal.RawXMLValue *)

(** struct { tok xml.Token; children []RawXMLValue; out interface{} }.
    [out] is a Go value of any type that MarshalXML hands to Encoder.Encode;
    the model keeps of it what Encode does with it: the tokens it writes, an
    error, or a panic.  [None] is the nil interface. *)
Inductive raw : Type :=
| Raw (tok : otoken) (children : list raw) (out : option (res (list token))).

Definition r_tok (v : raw) : otoken := let 'Raw t _ _ := v in t.
Definition r_children (v : raw) : list raw := let 'Raw _ c _ := v in c.
Definition r_out (v : raw) : option (res (list token)) := let 'Raw _ _ o := v in o.

(** Number of nodes. *)
Fixpoint rsize (v : raw) : nat :=
  match v with Raw _ cs _ => S (fold_right (fun c acc => rsize c + acc) 0 cs) end.

(** The raw value a tree is stored as (NewRawXMLElement for elements, what
    UnmarshalXML appends for the other nodes). *)
Fixpoint raw_of (t : xtree) : raw :=
  match t with
  | Elem n a cs => Raw (Some (TStart n a)) (map raw_of cs) None
  | Text s => Raw (Some (TText s)) [] None
  | Comment s => Raw (Some (TComment s)) [] None
  | ProcInst tg s => Raw (Some (TProcInst tg s)) [] None
  | Directive s => Raw (Some (TDirective s)) [] None
  end.

(** The tree a raw value denotes, when it denotes one: no marshal-only value,
    no nil token, no end element (children of a non-element token are never
    looked at by the Go code, and are ignored here too). *)
Fixpoint tree_of (v : raw) : option xtree :=
  match v with
  | Raw _ _ (Some _) => None
  | Raw None _ None => None
  | Raw (Some (TStart n a)) cs None =>
      match (fix go (l : list raw) : option (list xtree) :=
               match l with
               | [] => Some []
               | c :: r => match tree_of c, go r with
                           | Some t, Some ts => Some (t :: ts)
                           | _, _ => None
                           end
               end) cs with
      | Some ts => Some (Elem n a ts)
      | None => None
      end
  | Raw (Some (TEnd _)) _ None => None
  | Raw (Some (TText s)) _ None => Some (Text s)
  | Raw (Some (TComment s)) _ None => Some (Comment s)
  | Raw (Some (TProcInst tg s)) _ None => Some (ProcInst tg s)
  | Raw (Some (TDirective s)) _ None => Some (Directive s)
  end.

(** ** Capture: RawXMLValue.UnmarshalXML (xml.go:35-63)

    [ts] is what successive d.Token() calls return after the start element;
    the end of the list is d.Token() returning an error (io.EOF, or the syntax
    error "unexpected EOF" the decoder makes of it inside an element).
    [acc] is val.children.  The Go function recurses on a start element; Gallina
    wants a structural argument, so the recursion carries fuel; [None] = fuel
    exhausted (proved not to happen for fuel > List.length ts). *)
Fixpoint capture_f (fuel : nat) (n : name) (a : list attr) (acc : list raw) (ts : list token)
  : option (res (raw * list token)) :=
  match fuel with
  | 0 => None
  | S f =>
    match ts with
    | [] => Some (Err 400)                                  (* d.Token() failed *)
    | TStart cn ca :: rest =>
        match capture_f f cn (strip_decls ca) [] rest with  (* child.UnmarshalXML(d, tok) *)
        | None => None
        | Some (Ok (c, rest')) => capture_f f n a (acc ++ [c]) rest'
        | Some (Err e) => Some (Err e)
        | Some Panic => Some Panic
        end
    | TEnd _ :: rest => Some (Ok (Raw (Some (TStart n a)) acc None, rest))
    | t :: rest => capture_f f n a (acc ++ [Raw (Some t) [] None]) rest   (* xml.CopyToken(tok) *)
    end
  end.

(** The stream ends before the end element that closes depth [d]. *)
Fixpoint ends_early (d : nat) (ts : list token) : bool :=
  match ts with
  | [] => true
  | TStart _ _ :: r => ends_early (S d) r
  | TEnd _ :: r => match d with 0 => false | S d' => ends_early d' r end
  | _ :: r => ends_early d r
  end.

(** UnmarshalXML(d, start): withoutNamespaceDecls(start.Attr), then the loop. *)
Definition capture (n : name) (a : list attr) (ts : list token) : option (res (raw * list token)) :=
  capture_f (S (List.length ts)) n (strip_decls a) [] ts.

(** ** The token reader: TokenReader (xml.go:128-133) and rawXMLValueReader.Token (xml.go:142-174) *)

(** struct { val *RawXMLValue; start, end bool; child int; childReader xml.TokenReader } *)
Inductive reader : Type :=
| Reader (val : raw) (started ended : bool) (child : nat) (child_reader : option reader).

(** One call of Token(): a token with nil error (the token may be the nil
    interface), io.EOF, or a panic; with the state the reader is left in. *)
Inductive step : Type :=
| STok (t : otoken) (r : reader)
| SEof (r : reader)
| SPanic.

(** val.TokenReader(): panics on a marshal-only value. *)
Definition token_reader (v : raw) : res reader :=
  match r_out v with
  | Some _ => Panic
  | None => Ok (Reader v false false 0 None)
  end.

(** children[i].TokenReader() followed by the first Token() call on the new
    reader.  That call never reaches the loop (a new reader has not delivered
    its start element yet) and never returns io.EOF; [first_token_next] in
    XmlProofs.v shows this definition is [next] on [token_reader c]. *)
Inductive fstep : Type :=
| FTok (t : otoken) (c : reader)
| FPanic.

Definition first_token (c : raw) : fstep :=
  match r_out c with
  | Some _ => FPanic
  | None =>
    match r_tok c with
    | Some (TStart n a) => FTok (Some (TStart n a)) (Reader c true false 0 None)
    | t => FTok t (Reader c false true 0 None)
    end
  end.

(** The loop [for tr.child < len(tr.val.children)] entered with
    tr.childReader == nil and tr.child = ch. *)
Definition loop_fresh (v : raw) (n : name) (st : bool) (ch : nat) : step :=
  match nth_error (r_children v) ch with
  | None => STok (Some (TEnd n)) (Reader v st true ch None)     (* loop exit: tr.end = true; return start.End() *)
  | Some c =>
    match first_token c with
    | FPanic => SPanic
    | FTok t c' => STok t (Reader v st false ch (Some c'))
    end
  end.

Fixpoint next (r : reader) : step :=
  match r with
  | Reader v st en ch cr =>
    if en then SEof r                                            (* if tr.end { return nil, io.EOF } *)
    else
      match r_tok v with
      | Some (TStart n a) =>
        if negb st then STok (Some (TStart n a)) (Reader v true false ch cr)   (* tr.start = true; return start *)
        else
          match cr with
          | None => loop_fresh v n st ch
          | Some c =>
            if Nat.ltb ch (List.length (r_children v)) then
              match next c with                                   (* tr.childReader.Token() *)
              | STok t c' => STok t (Reader v st false ch (Some c'))
              | SPanic => SPanic
              | SEof _ => loop_fresh v n st (S ch)                (* childReader = nil; child++; next iteration *)
              end
            else STok (Some (TEnd n)) (Reader v st true ch cr)
          end
      | t => STok t (Reader v st true ch cr)                      (* tr.end = true; return tr.val.tok, nil *)
      end
  end.

(** Calling Token() until io.EOF, at most [fuel] times. *)
(** [DError]: Token() returned an error other than io.EOF.  The model never
    does (the Go code has no such path); it is an observation only. *)
Inductive outcome : Type := DEof | DPanic | DFuel | DError.

Fixpoint drain_f (fuel : nat) (r : reader) : list otoken * outcome * reader :=
  match fuel with
  | 0 => ([], DFuel, r)
  | S f =>
    match next r with
    | SEof r' => ([], DEof, r')
    | SPanic => ([], DPanic, r)
    | STok t r' => let '(l, o, rf) := drain_f f r' in (t :: l, o, rf)
    end
  end.

Definition drain_fuel (v : raw) : nat := 2 * rsize v + 2.

(** val.TokenReader() drained: the tokens delivered and how it ended. *)
Definition drain (v : raw) : list otoken * outcome :=
  match token_reader v with
  | Ok r => fst (drain_f (drain_fuel v) r)
  | _ => ([], DPanic)
  end.

(** [k] further calls all return io.EOF. *)
Fixpoint eof_forever (k : nat) (r : reader) : bool :=
  match k with
  | 0 => true
  | S k' => match next r with SEof r' => eof_forever k' r' | _ => false end
  end.

(** The state of a reader and of its chain of child readers, as the harness
    observes it: (start, end, child) per reader. *)
Definition frame := (bool * bool * nat)%type.
Fixpoint frames (r : reader) : list frame :=
  match r with
  | Reader _ st en ch cr => (st, en, ch) :: match cr with Some c => frames c | None => [] end
  end.

(** [drain_f] with the state after every call. *)
Fixpoint trace_f (fuel : nat) (r : reader) : list (otoken * list frame) * outcome * reader :=
  match fuel with
  | 0 => ([], DFuel, r)
  | S f =>
    match next r with
    | SEof r' => ([], DEof, r')
    | SPanic => ([], DPanic, r)
    | STok t r' => let '(l, o, rf) := trace_f f r' in ((t, frames r') :: l, o, rf)
    end
  end.

(** ** The functional reading of the reader *)

(** A finite sequence of tokens that either ends or panics. *)
Definition tr := (list otoken * bool)%type.       (* true = then panics *)
Definition tr_nil : tr := ([], false).
Definition tr_panic : tr := ([], true).
Definition tr_one (t : otoken) : tr := ([t], false).
Definition tr_app (a b : tr) : tr := if snd a then a else (fst a ++ fst b, snd b).

(** What reading a raw value delivers, by recursion on the value. *)
Fixpoint stream (v : raw) : tr :=
  match v with
  | Raw _ _ (Some _) => tr_panic
  | Raw (Some (TStart n a)) cs None =>
      tr_app (tr_one (Some (TStart n a)))
        (tr_app (fold_right (fun c acc => tr_app (stream c) acc) tr_nil cs)
                (tr_one (Some (TEnd n))))
  | Raw t _ None => tr_one t
  end.

Definition streams (cs : list raw) : tr := fold_right (fun c acc => tr_app (stream c) acc) tr_nil cs.

(** What a reader in state [r] still has to deliver (defined for every state,
    reachable or not). *)
Fixpoint remaining (r : reader) : tr :=
  match r with
  | Reader v st en ch cr =>
    if en then tr_nil
    else
      match r_tok v with
      | Some (TStart n a) =>
        let tail :=
          match cr with
          | None => tr_app (streams (skipn ch (r_children v))) (tr_one (Some (TEnd n)))
          | Some c =>
            if Nat.ltb ch (List.length (r_children v)) then
              tr_app (remaining c) (tr_app (streams (skipn (S ch) (r_children v))) (tr_one (Some (TEnd n))))
            else tr_one (Some (TEnd n))
          end in
        if st then tail else tr_app (tr_one (Some (TStart n a))) tail
      | t => tr_one t
      end
  end.

(** ** Well-nestedness of a token stream *)

(** Every end element closes the innermost open start element of the same name,
    the depth never drops below zero, and nothing is left open at the end. *)
Fixpoint wn (stack : list name) (ts : list token) : bool :=
  match ts with
  | [] => match stack with [] => true | _ => false end
  | TStart n _ :: r => wn (n :: stack) r
  | TEnd n :: r => match stack with m :: s => name_eqb m n && wn s r | [] => false end
  | _ :: r => wn stack r
  end.

Definition well_nested (ts : list token) : bool := wn [] ts.

(** The same without the requirement at the end (for a stream cut by a panic). *)
Fixpoint wn_prefix (stack : list name) (ts : list token) : bool :=
  match ts with
  | [] => true
  | TStart n _ :: r => wn_prefix (n :: stack) r
  | TEnd n :: r => match stack with m :: s => name_eqb m n && wn_prefix s r | [] => false end
  | _ :: r => wn_prefix stack r
  end.

(** Nesting depth after a sequence of tokens. *)
Fixpoint depth (ts : list token) : Z :=
  match ts with
  | [] => 0
  | TStart _ _ :: r => 1 + depth r
  | TEnd _ :: r => -1 + depth r
  | _ :: r => depth r
  end%Z.

(** The invariant the Go struct documents: "tok is guaranteed not to be
    xml.EndElement" (no exported function creates one). *)
Fixpoint no_end_tok (v : raw) : bool :=
  match v with
  | Raw (Some (TEnd _)) _ _ => false
  | Raw _ cs _ => forallb no_end_tok cs
  end.

(** ** MarshalXML (xml.go:77-113): the sequence of EncodeToken calls

    [dflt] is marshalXML's defaultSpace argument.  The result is what reaches
    the encoder when every call succeeds; the first failing call ends the
    function (xml.Marshal then returns the error and no bytes).  EncodeToken
    refuses the nil token; other refusals of the encoder (a comment holding
    "--", a second xml declaration, ...) concern token contents and are not
    modelled. *)
Definition xmlns_undecl : attr := (("", "xmlns"), "").

Fixpoint marshal_tokens (dflt : string) (v : raw) : res (list token) :=
  match v with
  | Raw _ _ (Some enc) => enc                                   (* return e.Encode(val.out) *)
  | Raw (Some (TStart n a)) cs None =>
      let a' := if str_empty (fst n) && negb (str_empty dflt) then a ++ [xmlns_undecl] else a in
      do l <- (fix go (l : list raw) : res (list token) :=
                 match l with
                 | [] => Ok []
                 | c :: r => do x <- marshal_tokens (fst n) c; do y <- go r; Ok (x ++ y)
                 end) cs;
      Ok (TStart n a' :: l ++ [TEnd n])
  | Raw (Some (TEnd _)) _ None => Panic                          (* panic("unexpected end element") *)
  | Raw (Some t) _ None => Ok [t]
  | Raw None _ None => Err 500                                   (* EncodeToken(nil): invalid token type *)
  end.

(** MarshalXML(e, start) = marshalXML(e, ""). *)
Definition marshal (v : raw) : res (list token) := marshal_tokens "" v.

(** The tree whose tokens MarshalXML sends to the encoder: xmlns="" is added to
    an element without namespace whose parent element has one. *)
Fixpoint undeclare (dflt : string) (t : xtree) : xtree :=
  match t with
  | Elem n a cs =>
      Elem n (if str_empty (fst n) && negb (str_empty dflt) then a ++ [xmlns_undecl] else a)
           (map (undeclare (fst n)) cs)
  | x => x
  end.

(** No declaration attribute anywhere (what [strip] establishes). *)
Fixpoint nodecl (t : xtree) : bool :=
  match t with
  | Elem _ a cs => forallb (fun x => negb (is_decl x)) a && forallb nodecl cs
  | _ => true
  end.

(** No marshal-only value anywhere. *)
Fixpoint no_out (v : raw) : bool :=
  match v with
  | Raw _ _ (Some _) => false
  | Raw _ cs None => forallb no_out cs
  end.

(** * encoding/xml between the raw value and its observers *)

(** ** A Decoder reading from a TokenReader (Decoder.Token, translate,
       pushElement/popElement of encoding/xml/xml.go) *)

Definition xml_url : string := "http://www.w3.org/XML/1998/namespace".

(** d.ns, most recent binding first; the key "" is the default namespace. *)
Definition env := list (string * string).

Fixpoint env_lookup (e : env) (k : string) : option string :=
  match e with
  | [] => None
  | (k', v) :: r => if String.eqb k k' then Some v else env_lookup r k
  end.

Definition declare (e : env) (a : list attr) : env :=
  fold_left (fun e x =>
    let '((sp, lo), v) := x in
    if String.eqb sp "xmlns" then (lo, v) :: e
    else if str_empty sp && String.eqb lo "xmlns" then ("", v) :: e
    else e) a e.

Definition translate (e : env) (is_elem : bool) (n : name) : name :=
  let '(sp, lo) := n in
  if String.eqb sp "xmlns" then n
  else if str_empty sp && negb is_elem then n
  else if str_empty sp && String.eqb lo "xmlns" then n
  else
    let sp1 := if String.eqb sp "xml" then xml_url else sp in
    match env_lookup e sp1 with
    | Some v => (v, lo)
    | None => (sp1, lo)                  (* DefaultSpace is "" *)
    end.

(** The tokens a consumer of xml.NewTokenDecoder(tr) gets for the tokens [ts]
    delivered by [tr]; [Err] = a syntax error (mismatched or missing end
    element).  [stk] holds the open elements with the environment to restore. *)
Fixpoint retrans_from (e : env) (stk : list (name * env)) (ts : list otoken) : res (list otoken) :=
  match ts with
  | [] => match stk with [] => Ok [] | _ => Err 400 end
  | None :: r => do l <- retrans_from e stk r; Ok (None :: l)
  | Some (TStart n a) :: r =>
      let e' := declare e a in
      do l <- retrans_from e' ((n, e) :: stk) r;
      Ok (Some (TStart (translate e' true n)
                       (map (fun x => (translate e' false (fst x), snd x)) a)) :: l)
  | Some (TEnd n) :: r =>
      match stk with
      | [] => Err 400
      | (m, e0) :: stk' =>
          if name_eqb m n
          then do l <- retrans_from e0 stk' r; Ok (Some (TEnd (translate e true n)) :: l)
          else Err 400
      end
  | Some t :: r => do l <- retrans_from e stk r; Ok (Some t :: l)
  end.

Definition retrans (ts : list otoken) : res (list otoken) := retrans_from [] [] ts.

(** Decoder.Token translates the attribute names in the slice it was handed,
    which is the slice the raw value holds: after a decoder has read a raw
    value, the value's attribute names are the translated ones.  Stated for
    values without declaration attributes (what capture produces), where the
    environment stays empty; children of a token that is not a start element
    are never read. *)
Fixpoint decoded_in_place (v : raw) : raw :=
  match v with
  | Raw (Some (TStart n a)) cs o =>
      Raw (Some (TStart n (map (fun x => (translate [] false (fst x), snd x)) a)))
          (map decoded_in_place cs) o
  | x => x
  end.

(** Namespace names the representation cannot carry through [retrans]: an
    element, or an attribute that is not a declaration, whose namespace name is
    literally "xml" (the decoder takes it for the reserved prefix).  This is
    the selector of known finding C15/xml-literal-namespace. *)
Fixpoint uses_xml_space (t : xtree) : bool :=
  match t with
  | Elem n a cs =>
      String.eqb (fst n) "xml"
      || existsb (fun x => negb (is_decl x) && String.eqb (fst (fst x)) "xml") a
      || existsb uses_xml_space cs
  | _ => false
  end.

(** ** Encoder then Decoder, for element names

    The Encoder writes an element name without prefix, followed by
    xmlns="Space" when Space is not empty, followed by the attributes in
    order (an attribute named xmlns is written as it is).  A Decoder reading
    that start tag resolves the element name against the last default
    namespace declaration on the tag, or else the one in scope.  Attribute
    names come back as they were (the encoder invents and declares a prefix
    for each namespace: not modelled); the declarations the encoder adds are
    attributes [is_decl] recognises, so they are left out here. *)
Fixpoint reread_from (stk : list string) (ts : list token) : list token :=
  match ts with
  | [] => []
  | TStart (sp, lo) a :: r =>
      let d0 := if str_empty sp then hd "" stk else sp in
      let d := fold_left (fun d x =>
                 let '((asp, alo), v) := x in
                 if str_empty asp && String.eqb alo "xmlns" then v else d) a d0 in
      TStart (d, lo) a :: reread_from (d :: stk) r
  | TEnd (sp, lo) :: r => TEnd (hd "" stk, lo) :: reread_from (tl stk) r
  | t :: r => t :: reread_from stk r
  end.

Definition reread (ts : list token) : list token := reread_from [] ts.

(** The same for tokens the Encoder writes inside a container element it has
    written itself (Prop, ResourceType, Include, ...: a field
    [Raw []RawXMLValue `xml:",any"`]): the container's start tag declares the
    container's namespace [ns] as the default namespace, and MarshalXML is not
    told (its [start] argument carries the Go type's name and no namespace). *)
Definition reread_in (ns : string) (ts : list token) : list token := reread_from [ns] ts.

(** The namespace of the library's containers. *)
Definition dav_ns : string := "DAV:".

(** * Trees from token streams, and the specification's "same element tree" *)

(** Inverse of [forest_tokens]; [stk] holds the open elements with the
    siblings already read (reversed), [cur] the current siblings (reversed). *)
Fixpoint parse_stk (stk : list (name * list attr * list xtree)) (cur : list xtree) (ts : list token)
  : option (list xtree) :=
  match ts with
  | [] => match stk with [] => Some (rev cur) | _ => None end
  | TStart n a :: r => parse_stk ((n, a, cur) :: stk) [] r
  | TEnd m :: r =>
      match stk with
      | (n, a, sib) :: stk' =>
          if name_eqb n m then parse_stk stk' (Elem n a (rev cur) :: sib) r else None
      | [] => None
      end
  | TText s :: r => parse_stk stk (Text s :: cur) r
  | TComment s :: r => parse_stk stk (Comment s :: cur) r
  | TProcInst tg s :: r => parse_stk stk (ProcInst tg s :: cur) r
  | TDirective s :: r => parse_stk stk (Directive s :: cur) r
  end.

Definition parse_forest (ts : list token) : option (list xtree) := parse_stk [] [] ts.

Definition parse_tree (ts : list token) : option xtree :=
  match parse_forest ts with
  | Some [Elem n a cs] => Some (Elem n a cs)
  | _ => None
  end.

(** Adjacent character data is one piece of character data, and an empty piece
    is none (CDATA sections and entity references split character data into
    several tokens; an encoder is free to join them).  Processing instructions
    and directives are not part of the element tree the property speaks of
    ("element and attribute names, attribute values, character data, comments
    and child order"): they are left out, before character data is merged. *)
Fixpoint merge_text (l : list xtree) : list xtree :=
  match l with
  | [] => []
  | Text s :: r =>
      match merge_text r with
      | Text s' :: r' => Text (s ++ s')%string :: r'
      | r' => if str_empty s then r' else Text s :: r'
      end
  | ProcInst _ _ :: r => merge_text r
  | Directive _ :: r => merge_text r
  | x :: r => x :: merge_text r
  end.

(** Normal form: no declaration attributes, character data merged. *)
Fixpoint norm (t : xtree) : xtree :=
  match t with
  | Elem n a cs => Elem n (strip_decls a) (merge_text (map norm cs))
  | x => x
  end.

Definition norm_forest (f : list xtree) : list xtree := merge_text (map norm f).

(** Same namespace-expanded element and attribute names, attribute values,
    character data, comments and child order. *)
Definition same_forest (f g : list xtree) : bool :=
  list_eqb token_eqb (forest_tokens (norm_forest f)) (forest_tokens (norm_forest g)).

Definition same_tree (a b : xtree) : bool := same_forest [a] [b].

(** The stream counterpart of [norm] (see [calls_ok] below): declaration
    attributes, processing instructions and directives dropped, then every
    maximal run of character data one token, empty runs none. *)
Fixpoint norm_stream (l : list token) : list token :=
  match l with
  | [] => []
  | TText s :: r =>
      match norm_stream r with
      | TText s' :: r' => TText (s ++ s')%string :: r'
      | r' => if str_empty s then r' else TText s :: r'
      end
  | TStart n a :: r => TStart n (strip_decls a) :: norm_stream r
  | TProcInst _ _ :: r => norm_stream r
  | TDirective _ :: r => norm_stream r
  | x :: r => x :: norm_stream r
  end.

(** [ts] is the token sequence of one element. *)
Definition input_wf (ts : list token) : bool :=
  match parse_tree ts with
  | Some t => list_eqb token_eqb (tokens t) ts
  | None => false
  end.

(** * The raw value as a property container (internal/elements.go) *)

(** RawXMLValue.XMLName *)
Definition raw_name (v : raw) : option name :=
  match r_tok v with Some (TStart n _) => Some n | _ => None end.

(** Prop.Get: the first raw value that is an element of that name. *)
Fixpoint prop_get (l : list raw) (n : name) : option raw :=
  match l with
  | [] => None
  | v :: r =>
      match raw_name v with
      | Some m => if name_eqb n m then Some v else prop_get r n
      | None => prop_get r n
      end
  end.

(** strings.Split(s, sep) for a one-byte separator. *)
Fixpoint split_on (c : ascii) (s : string) : list string :=
  match s with
  | EmptyString => [EmptyString]
  | String x r =>
      if Ascii.eqb x c then EmptyString :: split_on c r
      else match split_on c r with
           | h :: t => String x h :: t
           | [] => [String x EmptyString]
           end
  end.

(** valueXMLName (xml.go:178-203) on the struct tag of the XMLName field:
    [None] = the value is not a struct, has no XMLName field, or the field is
    not an xml.Name; [Some tag] = nameField.Tag.Get("xml"). *)
Definition value_xml_name (tag : option string) : res name :=
  match tag with
  | None => Err 500
  | Some tg =>
      if str_empty tg then Err 500
      else
        match split_on " " (hd "" (split_on "," tg)) with
        | [sp; lo] => Ok (sp, lo)
        | _ => Err 500
        end
  end.

(** resp.Err() == nil: no status element, or a 2xx code.  propstat.Status.Err()
    == nil: a 2xx code (after repair 0cc51a3; before it only 200). *)
Definition resp_err_nil (code : option N) : bool :=
  match code with None => true | Some c => N.eqb (N.div c 100) 2 end.
Definition status_err_nil (code : N) : bool := N.eqb (N.div code 100) 2.

(** Response.DecodeProp(v) up to the call of raw.Decode(v): which raw value is
    decoded.  [resp_code] is the code of the response's status element, if
    any; a propstat is (status code, the raw values of its prop).  [Err c] with
    a status code c is the HTTPError made of a status that is not a success
    (IsNotFound holds for c = 404, which is also what a missing property
    yields); [Err 500] from [value_xml_name] is not an HTTPError. *)
Fixpoint select_propstat (ps : list (N * list raw)) (n : name) : res raw :=
  match ps with
  | [] => Err 404
  | (code, l) :: r =>
      match prop_get l n with
      | None => select_propstat r n
      | Some v => if status_err_nil code then Ok v else Err code
      end
  end.

Definition decode_prop_select (tag : option string) (resp_code : option N) (ps : list (N * list raw)) : res raw :=
  do n <- value_xml_name tag;
  if resp_err_nil resp_code then select_propstat ps n
  else Err (match resp_code with Some c => c | None => 500%N end).

(** Prop.Decode(v) up to the call of raw.Decode(v). *)
Definition prop_decode_select (tag : option string) (l : list raw) : res raw :=
  do n <- value_xml_name tag;
  match prop_get l n with
  | None => Err 404
  | Some v => Ok v
  end.

(** The first child element of that name, in document order. *)
Fixpoint first_elem (f : list xtree) (n : name) : option xtree :=
  match f with
  | [] => None
  | Elem m a cs :: r => if name_eqb n m then Some (Elem m a cs) else first_elem r n
  | _ :: r => first_elem r n
  end.

(** * Correspondence verdicts

    The oracle (oracle/c15/main.ml) only parses case lines into these records
    and calls the functions below. *)

Inductive status : Type := StOk | StErr | StPanic.

Definition status_eqb (a b : status) : bool :=
  match a, b with StOk, StOk | StErr, StErr | StPanic, StPanic => true | _, _ => false end.

Definition outcome_eqb (a b : outcome) : bool :=
  match a, b with DEof, DEof | DPanic, DPanic | DFuel, DFuel | DError, DError => true | _, _ => false end.

(** Error codes and texts are never compared. *)
Definition res_eqb {A : Type} (eq : A -> A -> bool) (a b : res A) : bool :=
  match a, b with
  | Ok x, Ok y => eq x y
  | Err _, Err _ => true
  | Panic, Panic => true
  | _, _ => false
  end.

Fixpoint raw_eqb (a b : raw) : bool :=
  match a, b with
  | Raw t1 c1 o1, Raw t2 c2 o2 =>
      otoken_eqb t1 t2
      && (fix go (l1 l2 : list raw) : bool :=
            match l1, l2 with
            | [], [] => true
            | x :: r1, y :: r2 => raw_eqb x y && go r1 r2
            | _, _ => false
            end) c1 c2
      && option_eqb (res_eqb (list_eqb token_eqb)) o1 o2
  end.

Definition frame_eqb (a b : frame) : bool :=
  let '(s1, e1, c1) := a in let '(s2, e2, c2) := b in
  Bool.eqb s1 s2 && Bool.eqb e1 e2 && Nat.eqb c1 c2.

Definition rstep_eqb (a b : otoken * list frame) : bool :=
  otoken_eqb (fst a) (fst b) && list_eqb frame_eqb (snd a) (snd b).

(** Two token sequences denote the same forest. *)
Definition same_stream (l m : list token) : bool :=
  match parse_forest l, parse_forest m with
  | Some f, Some g => same_forest f g
  | _, _ => false
  end.

(** ** Draining a reader *)

Record read_obs : Type := {
  ro_steps : list (otoken * list frame);   (* per Token() call: the token, the reader states after it *)
  ro_outcome : outcome;                    (* DEof: io.EOF came; DPanic; DFuel: the step bound was reached *)
  ro_eof_again : bool                      (* after io.EOF, three more calls returned io.EOF *)
}.

Definition drained (o : read_obs) : list otoken := map fst (ro_steps o).

Definition read_agrees (v : raw) (o : read_obs) : bool :=
  match token_reader v with
  | Ok r =>
      let '(l, oc, rf) := trace_f (drain_fuel v) r in
      list_eqb rstep_eqb (ro_steps o) l && outcome_eqb (ro_outcome o) oc
      && match oc with DEof => Bool.eqb (ro_eof_again o) (eof_forever 3 rf) | _ => true end
  | _ =>
      match ro_steps o with [] => outcome_eqb (ro_outcome o) DPanic | _ => false end
  end.

Definition marshal_agrees (v : raw) (m : res (list token)) : bool :=
  match marshal v, m with
  | Ok l, Ok m' => same_stream (reread l) m'
  | Err _, Err _ => true
  | Panic, Panic => true
  | _, _ => false
  end.

Definition marshal_in_agrees (ns : string) (v : raw) (m : res (list token)) : bool :=
  match marshal v, m with
  | Ok l, Ok m' => same_stream (reread_in ns l) m'
  | Err _, Err _ => true
  | Panic, Panic => true
  | _, _ => false
  end.

(** ** A document captured with xml.Unmarshal *)

Record doc_obs : Type := {
  do_status : status;                 (* xml.Unmarshal(doc, &raw) *)
  do_raw : raw;                       (* the fields of raw (when the status is ok) *)
  do_read : read_obs;                 (* raw.TokenReader() drained *)
  do_dec : res (list otoken);         (* xml.NewTokenDecoder(raw.TokenReader()) read to io.EOF *)
  do_read2 : list otoken * outcome;   (* another raw.TokenReader() drained after that *)
  do_mar : res (list token);          (* then xml.Marshal(&raw), read with a new xml.Decoder *)
  do_mar_in : res (list token)        (* then xml.Marshal(&Prop{Raw: {raw}}), read with a new xml.Decoder:
                                         what stands inside the prop element *)
}.

(** [ts]: the tokens encoding/xml's decoder yields for the document, from the
    first start element on. *)
Definition doc_agrees (ts : list token) (o : doc_obs) : bool :=
  match ts with
  | TStart n a :: body =>
      match capture n a body with
      | Some (Ok (v, _)) =>
          status_eqb (do_status o) StOk
          && raw_eqb (do_raw o) v
          && read_agrees v (do_read o)
          && res_eqb (list_eqb otoken_eqb) (do_dec o) (retrans (fst (drain v)))
          && list_eqb otoken_eqb (fst (do_read2 o)) (fst (drain (decoded_in_place v)))
          && outcome_eqb (snd (do_read2 o)) (snd (drain (decoded_in_place v)))
          && marshal_agrees (decoded_in_place v) (do_mar o)
          && marshal_in_agrees dav_ns (decoded_in_place v) (do_mar_in o)
      | Some (Err _) => status_eqb (do_status o) StErr
      | Some Panic => status_eqb (do_status o) StPanic
      | None => false
      end
  | _ => status_eqb (do_status o) StErr        (* no element at all *)
  end.

(** The property, on the observation alone: the stream is finite, balanced,
    well nested; the stream, what a decoder makes of it and what xml.Marshal
    writes all denote the tree of the document. *)
Definition doc_spec_main (ts : list token) (o : doc_obs) : bool :=
  status_eqb (do_status o) StOk
  && outcome_eqb (ro_outcome (do_read o)) DEof
  && ro_eof_again (do_read o)
  && well_nested (somes (drained (do_read o)))
  && same_stream (somes (drained (do_read o))) ts
  && list_eqb otoken_eqb (fst (do_read2 o)) (drained (do_read o))
  && outcome_eqb (snd (do_read2 o)) DEof
  && match do_dec o with Ok l => same_stream (somes l) ts | _ => false end
  && match do_mar o with Ok m => same_stream m ts | _ => false end.

(** ... also when the value is written out inside one of the library's
    containers. *)
Definition doc_spec_in (ts : list token) (o : doc_obs) : bool :=
  match do_mar_in o with Ok m => same_stream m ts | _ => false end.

Definition doc_spec_ok (ts : list token) (o : doc_obs) : bool :=
  doc_spec_main ts o && doc_spec_in ts o.

(** Agreement with the model up to the cutting of character data (and the
    internal structure of the value): the streams in normal form.  Used to
    attribute a failure of the specification to a known finding — the recorded
    wrong behaviour is a wrong TREE, which a change in the cutting of character
    data does not alter; [doc_agrees] itself stays exact. *)
Definition norm_otokens (l : list otoken) : list token := norm_stream (somes l).

Definition doc_agrees_mod (ts : list token) (o : doc_obs) : bool :=
  match ts with
  | TStart n a :: body =>
      match capture n a body with
      | Some (Ok (v, _)) =>
          let v' := decoded_in_place v in
          status_eqb (do_status o) StOk
          && outcome_eqb (ro_outcome (do_read o)) (snd (drain v))
          && list_eqb token_eqb (norm_otokens (drained (do_read o))) (norm_otokens (fst (drain v)))
          && match do_dec o, retrans (fst (drain v)) with
             | Ok l, Ok m => list_eqb token_eqb (norm_otokens l) (norm_otokens m)
             | Err _, Err _ | Panic, Panic => true
             | _, _ => false
             end
          && list_eqb token_eqb (norm_otokens (fst (do_read2 o))) (norm_otokens (fst (drain v')))
          && outcome_eqb (snd (do_read2 o)) (snd (drain v'))
          && marshal_agrees v' (do_mar o)
          && marshal_in_agrees dav_ns v' (do_mar_in o)
      | _ => false
      end
  | _ => false
  end.

(** Selector of known finding C15/xml-literal-namespace on a document. *)
Definition doc_kf (ts : list token) : bool :=
  match parse_tree ts with Some t => uses_xml_space t | None => false end.

(** Selector of known finding C15/embedded-no-namespace: the captured element
    itself is in no namespace (written inside a container it inherits the
    container's default namespace, and so do its descendants in no namespace). *)
Definition doc_kf_in (ts : list token) : bool :=
  match ts with TStart n _ :: _ => str_empty (fst n) | _ => false end.

(** ** A malformed document: only the outcome of the capture is compared. *)
Definition bad_agrees (ts : list token) (st : status) : bool :=
  match ts with
  | TStart n a :: body =>
      match capture n a body with
      | Some (Ok _) => status_eqb st StOk
      | Some (Err _) => status_eqb st StErr
      | Some Panic => status_eqb st StPanic
      | None => false
      end
  | _ => status_eqb st StErr
  end.

(** ** Several readers of one captured value, advanced in any order

    Every call of val.TokenReader() makes a reader of its own: in the model a
    reader is a value, so the readers of one raw value cannot influence each
    other.  The harness drives several readers of ONE captured value by a
    schedule and the oracle compares with the product of independent machines
    ([run_product_projects] in XmlProofs.v: the product run projects to each
    single run).  A Decode in between (its own TokenReader()) does not touch
    them either. *)

(** One call of Token() as the caller sees it.  (After a panic the state is
    left as it was: not observed, the captured values used here never panic.) *)
Inductive ocall : Type := CTok (t : otoken) | CEof | CPanic.

Definition call (r : reader) : ocall * reader :=
  match next r with
  | STok t r' => (CTok t, r')
  | SEof r' => (CEof, r')
  | SPanic => (CPanic, r)
  end.

(** [k] calls on one reader. *)
Fixpoint run1 (k : nat) (r : reader) : list ocall :=
  match k with
  | 0 => []
  | S k' => let '(c, r') := call r in c :: run1 k' r'
  end.

Fixpoint set_nth {A : Type} (i : nat) (x : A) (l : list A) : list A :=
  match l, i with
  | [], _ => []
  | _ :: r, 0 => x :: r
  | y :: r, S i' => y :: set_nth i' x r
  end.

(** The readers [rs] advanced by the schedule [sched] (which reader makes the
    next call): the calls in the order they are made. *)
Fixpoint run_product (rs : list reader) (sched : list nat) : list (nat * ocall) :=
  match sched with
  | [] => []
  | i :: s =>
      match nth_error rs i with
      | Some r => let '(c, r') := call r in (i, c) :: run_product (set_nth i r' rs) s
      | None => run_product rs s
      end
  end.

Definition ocall_eqb (a b : ocall) : bool :=
  match a, b with
  | CTok x, CTok y => otoken_eqb x y
  | CEof, CEof | CPanic, CPanic => true
  | _, _ => false
  end.

(** An action of the harness: reader [i] makes a call, or the value is read
    through the decoder Decode builds (to the end). *)
Inductive iact : Type := IRead (i : nat) | IDecode.
Inductive iobs : Type := IOCall (c : ocall) | IODec (d : res (list otoken)).

Definition sched_of (acts : list iact) : list nat :=
  flat_map (fun a => match a with IRead i => [i] | IDecode => [] end) acts.
Definition calls_of (obs : list iobs) : list ocall :=
  flat_map (fun o => match o with IOCall c => [c] | IODec _ => [] end) obs.
Definition decs_of (obs : list iobs) : list (res (list otoken)) :=
  flat_map (fun o => match o with IODec d => [d] | IOCall _ => [] end) obs.

Fixpoint same_shape (acts : list iact) (obs : list iobs) : bool :=
  match acts, obs with
  | [], [] => true
  | IRead _ :: a, IOCall _ :: o => same_shape a o
  | IDecode :: a, IODec _ :: o => same_shape a o
  | _, _ => false
  end.

(** [n] readers of the value captured from [ts]. *)
Definition inter_agrees (ts : list token) (n : nat) (acts : list iact) (obs : list iobs) : bool :=
  match ts with
  | TStart nm a :: body =>
      match capture nm a body with
      | Some (Ok (v, _)) =>
          match token_reader v with
          | Ok r0 =>
              same_shape acts obs
              && list_eqb (fun x y => Nat.eqb (fst x) (fst y) && ocall_eqb (snd x) (snd y))
                          (run_product (repeat r0 n) (sched_of acts))
                          (combine (sched_of acts) (calls_of obs))
              && forallb (fun d => res_eqb (list_eqb otoken_eqb) d (retrans (fst (drain v)))) (decs_of obs)
          | _ => false
          end
      | _ => false
      end
  | _ => false
  end.

(** The property on the observation alone, without the reader model: what each
    reader delivers is the token stream of the document — a prefix of it as
    long as it has not ended, all of it when io.EOF comes, and io.EOF from then
    on; every decoder view denotes the document's tree.

    "The token stream of the document" is taken modulo what is not part of the
    element tree: namespace declaration attributes, and where the boundaries
    between adjacent pieces of character data fall (text, CDATA section,
    entity: encoding/xml delivers them as separate tokens, a raw value is free
    to keep them apart or to join them).  [norm_stream] is the normal form:
    declarations dropped, every maximal run of character data one token, empty
    runs none — the stream counterpart of [norm] on trees. *)
(** [a] is a beginning of [b], both in normal form: token by token, except that
    the last token of [a], when it is character data, may be a beginning of the
    corresponding run of [b] (the reader has not delivered the rest yet). *)
Fixpoint tprefix (a b : list token) : bool :=
  match a with
  | [] => true
  | x :: a' =>
      match b with
      | [] => false
      | y :: b' =>
          match x, y, a' with
          | TText s, TText s', [] => String.prefix s s'
          | _, _, _ => token_eqb x y && tprefix a' b'
          end
      end
  end.

(** The tokens a reader delivered before its first call that is not a (non-nil) token. *)
Fixpoint split_calls (cs : list ocall) : list token * list ocall :=
  match cs with
  | CTok (Some t) :: r => let '(l, rest) := split_calls r in (t :: l, rest)
  | _ => ([], cs)
  end.

Definition calls_ok (expect : list token) (cs : list ocall) : bool :=
  let '(toks, rest) := split_calls cs in
  match rest with
  | [] => tprefix (norm_stream toks) (norm_stream expect)
  | CEof :: r =>
      list_eqb token_eqb (norm_stream toks) (norm_stream expect) && forallb (ocall_eqb CEof) r
  | _ => false                        (* a nil token, a panic *)
  end.

Definition calls_of_reader (i : nat) (acts : list iact) (obs : list iobs) : list ocall :=
  flat_map (fun p => if Nat.eqb (fst p) i then [snd p] else []) (combine (sched_of acts) (calls_of obs)).

Definition inter_spec_ok (ts : list token) (n : nat) (acts : list iact) (obs : list iobs) : bool :=
  same_shape acts obs
  && forallb (fun i => calls_ok ts (calls_of_reader i acts obs)) (seq 0 n)
  && forallb (fun d => match d with Ok l => same_stream (somes l) ts | _ => false end) (decs_of obs).

(** ** Documents captured one after the other into ONE variable, with a copy of
       the value kept after each capture; every copy observed at the end

    Values are immutable in the model: a kept copy is the value of its own
    document whatever was captured into the variable afterwards.  Each element
    is (tokens of document i, observation of kept copy i). *)
Definition seq_agrees (l : list (list token * doc_obs)) : bool :=
  forallb (fun p => doc_agrees (fst p) (snd p)) l.
Definition seq_spec_ok (l : list (list token * doc_obs)) : bool :=
  forallb (fun p => doc_spec_ok (fst p) (snd p)) l.

(** ** A typed value decoded from the captured raw value and from the document *)

Record typed_obs : Type := {
  to_status : status;       (* xml.Unmarshal(doc, &raw) *)
  to_err_raw : bool;        (* raw.Decode(&v1) failed *)
  to_err_doc : bool;        (* xml.Unmarshal(doc, &v2) failed *)
  to_equal : bool           (* reflect.DeepEqual(v1, v2) *)
}.

Definition typed_spec_ok (o : typed_obs) : bool :=
  status_eqb (to_status o) StOk && Bool.eqb (to_err_raw o) (to_err_doc o) && to_equal o.

(** Outside the finding the model predicts equality; inside it predicts nothing. *)
Definition typed_agrees (ts : list token) (o : typed_obs) : bool :=
  if doc_kf ts then status_eqb (to_status o) StOk else typed_spec_ok o.

(** ** A raw value built field by field *)

Record raw_obs : Type := {
  wo_read : read_obs;                 (* v.TokenReader() drained *)
  wo_mar : res (list token);          (* then xml.Marshal(&v), read with a new xml.Decoder *)
  wo_dec : res (list otoken)          (* then xml.NewTokenDecoder(v.TokenReader()) read to io.EOF *)
}.

Definition raw_agrees (v : raw) (o : raw_obs) : bool :=
  read_agrees v (wo_read o)
  && match drain v with
     | (l, DEof) => res_eqb (list_eqb otoken_eqb) (wo_dec o) (retrans l)
     | _ => match wo_dec o with Ok _ => false | _ => true end
     end
  && marshal_agrees v (wo_mar o).

(** The statement is about captured values.  A marshal-only value (made for
    writing, never captured) has no tokens: when the reading of a value reaches
    such a part ([snd (stream v)]), neither a panic nor an error is
    constrained, but the reading must stop there, one way or the other, having
    delivered what stands before that part: it may neither go on as if the part
    were not there nor hang. *)
Definition raw_spec_ok (v : raw) (o : raw_obs) : bool :=
  negb (outcome_eqb (ro_outcome (wo_read o)) DFuel)
  && (negb (snd (stream v))
      || ((outcome_eqb (ro_outcome (wo_read o)) DPanic || outcome_eqb (ro_outcome (wo_read o)) DError)
          && list_eqb token_eqb (norm_otokens (drained (wo_read o))) (norm_otokens (fst (stream v)))))
  && (negb (no_end_tok v)
      || (wn_prefix [] (somes (drained (wo_read o)))
          && match ro_outcome (wo_read o) with
             | DEof => ro_eof_again (wo_read o) && well_nested (somes (drained (wo_read o)))
             | _ => true
             end)).

(** ** Prop.Decode / Response.DecodeProp on a value whose XMLName tag is [tag]
       and that keeps the attribute "id" of the element it was decoded from *)

Fixpoint attr_value (a : list attr) (n : name) : option string :=
  match a with
  | [] => None
  | (m, v) :: r => if name_eqb n m then Some v else attr_value r n
  end.

(** raw.Decode(v) for such a value: the id, or the panic of TokenReader. *)
Definition decode_id (v : raw) : res string :=
  match token_reader v with
  | Ok _ =>
      match r_tok v with
      | Some (TStart _ a) => Ok (match attr_value a ("", "id") with Some s => s | None => "" end)
      | _ => Err 500
      end
  | _ => Panic
  end.

Definition decode_prop (tag : option string) (resp_code : option N) (ps : list (N * list raw)) : res string :=
  do v <- decode_prop_select tag resp_code ps; decode_id v.

Definition prop_decode (tag : option string) (l : list raw) : res string :=
  do v <- prop_decode_select tag l; decode_id v.

(** Response.DecodeProp(v1, ..., vk) (elements.go:180-217, after repair
    f543abd): every value in turn, each with its own name, the status of the
    response, the search over the propstats and raw.Decode; the first failure
    ends the call.  (raw.Decode rewrites attribute names of the stored value in
    place, see [decoded_in_place], never element names: the selection of a later
    value is not affected by the decoding of an earlier one.) *)
Fixpoint decode_prop_all (tags : list (option string)) (resp_code : option N) (ps : list (N * list raw))
  : res (list string) :=
  match tags with
  | [] => Ok []
  | t :: r =>
      do s <- decode_prop t resp_code ps;
      do l <- decode_prop_all r resp_code ps;
      Ok (s :: l)
  end.

(** Which of several propstats that carry the same property name decides is
    not part of C15's statement (it is about raw values).  The other reasonable
    reading: propstats with a failing status are passed over, the first
    successful one that has the property gives the value, and the first failing
    status is reported only when no successful propstat has it.  The
    specification verdict accepts either reading (the value must be the one
    decoded from the element chosen); model agreement is with [decode_prop]. *)
Fixpoint select_propstat_alt (ps : list (N * list raw)) (n : name) (failed : option N) : res raw :=
  match ps with
  | [] => Err (match failed with Some c => c | None => 404%N end)
  | (code, l) :: r =>
      match prop_get l n with
      | None => select_propstat_alt r n failed
      | Some v =>
          if status_err_nil code then Ok v
          else select_propstat_alt r n (match failed with None => Some code | f => f end)
      end
  end.

Definition decode_prop_alt (tag : option string) (resp_code : option N) (ps : list (N * list raw)) : res string :=
  do n <- value_xml_name tag;
  if resp_err_nil resp_code then (do v <- select_propstat_alt ps n None; decode_id v)
  else Err (match resp_code with Some c => c | None => 500%N end).

Fixpoint decode_prop_all_alt (tags : list (option string)) (resp_code : option N) (ps : list (N * list raw))
  : res (list string) :=
  match tags with
  | [] => Ok []
  | t :: r =>
      do s <- decode_prop_alt t resp_code ps;
      do l <- decode_prop_all_alt r resp_code ps;
      Ok (s :: l)
  end.

(** Observation: decoded (with the id), error with IsNotFound, other error, panic. *)
Inductive prop_obs : Type := PSel (id : string) | PNotFound | POther | PPanic.

Definition prop_obs_agrees (m : res string) (o : prop_obs) : bool :=
  match m, o with
  | Ok s, PSel s' => String.eqb s s'
  | Err c, PNotFound => N.eqb c 404
  | Err c, POther => negb (N.eqb c 404)
  | Panic, PPanic => true
  | _, _ => false
  end.

(** Specification: the model's answer; where the selected value is marshal-only
    (the model panics, as TokenReader does), a panic or an error other than
    "not found" — the statement does not constrain which. *)
Definition prop_obs_spec_ok (m : res string) (o : prop_obs) : bool :=
  match m, o with
  | Panic, (PPanic | POther) => true
  | _, _ => prop_obs_agrees m o
  end.

(** The same for several values: the ids in the order of the arguments. *)
Inductive propm_obs : Type := PMSel (ids : list string) | PMNotFound | PMOther | PMPanic.

Definition propm_obs_agrees (m : res (list string)) (o : propm_obs) : bool :=
  match m, o with
  | Ok l, PMSel l' => list_eqb String.eqb l l'
  | Err c, PMNotFound => N.eqb c 404
  | Err c, PMOther => negb (N.eqb c 404)
  | Panic, PMPanic => true
  | _, _ => false
  end.

Definition propm_obs_spec_ok (m : res (list string)) (o : propm_obs) : bool :=
  match m, o with
  | Panic, (PMPanic | PMOther) => true
  | _, _ => propm_obs_agrees m o
  end.

(** ** valueXMLName *)
Definition name_agrees (tag : option string) (o : res name) : bool :=
  res_eqb name_eqb (value_xml_name tag) o.
