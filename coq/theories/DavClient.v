(** DavClient.v — C05: what webdav.Client (client.go, internal/client.go,
    internal/elements.go) makes of the answers of webdav.Handler (server.go,
    internal/server.go) over an arbitrary FileSystem backend, and over the model of
    LocalFileSystem (fs_local.go Stat/ReadDir/Open) on the tree of Fs.v.

    Layers, function by function after the Go source:
      client   ResolveHref, NewRequest target, PropFind/PropFindFlat, DoMultiStatus, Do,
               fileInfoFromResponse, Response.Path/Err/DecodeProp, Stat, ReadDir, Open,
               Create, RemoveAll, Mkdir, Copy, Move (header construction)
      server   Handler.ServeHTTP dispatch, handlePropfind, handleCopyMove, ServeError's
               status choice, backend.PropFind/propFindFile/HeadGet/Put/Delete/Mkcol/
               Copy/Move, NewPropFindResponse (prop form), Response.EncodeProp
      backend  an arbitrary FileSystem (record [filesystem]: its answers are functions),
               and [local_fs]: LocalFileSystem.Stat/ReadDir/Open on a tree

    Library code that is not modelled enters as the record [ext] of functions
    (net/url, strconv.Quote/Unquote, time formatting, encoding/xml character data,
    mime.TypeByExtension); the correspondence check fills it with tables computed by
    the real functions, the theorems take the round-trip laws of these codecs (the
    subject of property C16) as visible hypotheses.

    No proofs here (extracted). *)
From GW Require Import Base GoPath Fs DavServer.
Local Open Scope list_scope.

(** * Values *)

(** An instant: seconds since the Unix epoch and nanoseconds within the second.
    Go's zero time.Time is 0001-01-01T00:00:00Z. *)
Record instant := { t_sec : Z; t_ns : N }.
Definition zero_sec : Z := (-62135596800)%Z.
Definition zero_time : instant := {| t_sec := zero_sec; t_ns := 0 |}.
Definition is_zero (t : instant) : bool := Z.eqb (t_sec t) zero_sec && N.eqb (t_ns t) 0.
Definition to_second (t : instant) : instant := {| t_sec := t_sec t; t_ns := 0 |}.
Definition instant_eqb (a b : instant) : bool := Z.eqb (t_sec a) (t_sec b) && N.eqb (t_ns a) (t_ns b).

(** webdav.FileInfo *)
Record info := {
  i_path : string; i_size : Z; i_mod : instant; i_dir : bool; i_mime : string; i_etag : string }.

Definition info_eqb (a b : info) : bool :=
  String.eqb (i_path a) (i_path b) && Z.eqb (i_size a) (i_size b) && instant_eqb (i_mod a) (i_mod b) &&
  Bool.eqb (i_dir a) (i_dir b) && String.eqb (i_mime a) (i_mime b) && String.eqb (i_etag a) (i_etag b).

Fixpoint infos_eqb (a b : list info) : bool :=
  match a, b with
  | [], [] => true
  | x :: a', y :: b' => info_eqb x y && infos_eqb a' b'
  | _, _ => false
  end.

(** strconv.FormatInt(n, 10): what xml.Marshal writes for an int64 field *)
Definition dec_z (z : Z) : string :=
  if Z.ltb z 0 then String "-"%char (dec (Z.to_N (- z))) else dec (Z.to_N z).

(** * Library functions that are inputs *)
Record ext := {
  x_href_enc : string -> string;           (* (&url.URL{Path: p}).String()        Href.MarshalText *)
  x_href_dec : string -> option string;    (* url.Parse(s), then .Path            Href.UnmarshalText, Response.Path *)
  x_quote : string -> string;              (* fmt.Sprintf("%q", s)                ETag.String *)
  x_unquote : string -> option string;     (* strconv.Unquote(s)                  ETag.UnmarshalText *)
  x_time_fmt : instant -> string;          (* t.UTC().Format(http.TimeFormat)     Time.MarshalText *)
  x_time_parse : string -> option instant; (* http.ParseTime(s)                   Time.UnmarshalText *)
  x_text : string -> string;               (* character data written and read back by encoding/xml *)
  x_mime_ext : string -> string            (* mime.TypeByExtension(path.Ext(p))   fileInfoFromOS *)
}.

(** * The backend: any FileSystem *)

(** What ServeError / os.IsExist can tell apart in a backend error. *)
Inductive fserr := EHttp (c : N) | EExist | EOther.
Inductive fsres (A : Type) := FOk (a : A) | FErr (e : fserr).
Arguments FOk {A} a.
Arguments FErr {A} e.

(** internal/server.go ServeError: the status of an error *)
Definition status_of (e : fserr) : N := match e with EHttp c => c | _ => 500 end.

(** internal.IsNotFound *)
Definition is_not_found (e : fserr) : bool := match e with EHttp c => N.eqb c 404 | _ => false end.

Record filesystem := {
  fs_stat : string -> fsres info;
  fs_readdir : string -> bool -> fsres (list info);
  fs_open : string -> fsres string;
  fs_create : string -> string -> fsres bool;              (* name, bytes of the body; created *)
  fs_remove_all : string -> fsres unit;
  fs_mkdir : string -> fsres unit;
  fs_copy : string -> string -> bool -> bool -> fsres bool; (* name, dest, NoRecursive, NoOverwrite *)
  fs_move : string -> string -> bool -> fsres bool          (* name, dest, NoOverwrite *)
}.

(** The calls a recording FileSystem sees, with their arguments. *)
Inductive fscall :=
| CStat (name : string)
| CReadDir (name : string) (recursive : bool)
| COpen (name : string)
| CCreate (name body if_match if_none_match : string)
| CRemoveAll (name if_match if_none_match : string)
| CMkdir (name : string)
| CCopy (name dest : string) (no_recursive no_overwrite : bool)
| CMove (name dest : string) (no_overwrite : bool).

(** * Wire primitives of internal/internal.go *)
Inductive depth := D0 | D1 | DInf.
Definition depth_eqb (a b : depth) : bool :=
  match a, b with D0, D0 | D1, D1 | DInf, DInf => true | _, _ => false end.
Definition depth_string (d : depth) : string :=
  match d with D0 => "0" | D1 => "1" | DInf => "infinity" end.
Definition parse_depth (s : string) : option depth :=
  if String.eqb s "0" then Some D0 else if String.eqb s "1" then Some D1
  else if String.eqb s "infinity" then Some DInf else None.
Definition format_overwrite (b : bool) : string := if b then "T" else "F".
Definition parse_overwrite (s : string) : option bool :=
  if String.eqb s "T" then Some true else if String.eqb s "F" then Some false else None.

(** * The multistatus document (internal/elements.go), as encoding/xml maps it *)
Inductive pname := RT | CLEN | LMOD | CTYPE | ETAG.   (* the five names of fileInfoPropFind *)
Definition pname_eqb (a b : pname) : bool :=
  match a, b with RT, RT | CLEN, CLEN | LMOD, LMOD | CTYPE, CTYPE | ETAG, ETAG => true | _, _ => false end.

Inductive pvalue :=
| PResType (collection : bool)   (* <resourcetype> with or without <collection/> *)
| PText (s : string)             (* character data of the property element *)
| PEmpty.                        (* the empty element of a 404 propstat *)

Record propstat := { ps_code : N; ps_props : list (pname * pvalue) }.
Record wresp := { wr_hrefs : list string; wr_status : option N; wr_propstats : list propstat }.

(** The HTTP response, as far as the client looks at it. *)
Record hresp := { h_status : N; h_body : string; h_ms : list wresp }.
Definition status_resp (c : N) : hresp := {| h_status := c; h_body := ""; h_ms := [] |}.
Definition err_resp (e : fserr) : hresp := status_resp (status_of e).

(** * Server side *)
Section Server.
  Variable X : ext.
  Variable fs : filesystem.

  (** Response.EncodeProp: append to the propstat of that status, or open a new one. *)
  Fixpoint encode_prop (pss : list propstat) (code : N) (pv : pname * pvalue) : list propstat :=
    match pss with
    | [] => [{| ps_code := code; ps_props := [pv] |}]
    | ps :: rest =>
      if N.eqb (ps_code ps) code then {| ps_code := code; ps_props := ps_props ps ++ [pv] |} :: rest
      else ps :: encode_prop rest code pv
    end.

  (** server.go propFindFile: the properties a FileInfo has. *)
  Definition fi_props (fi : info) : list (pname * pvalue) :=
    [(RT, PResType (i_dir fi))]
    ++ (if is_zero (i_mod fi) then [] else [(LMOD, PText (x_time_fmt X (i_mod fi)))])
    ++ (if i_dir fi then []
        else [(CLEN, PText (dec_z (i_size fi)))]
             ++ (if String.eqb (i_mime fi) "" then [] else [(CTYPE, PText (i_mime fi))])
             ++ (if String.eqb (i_etag fi) "" then [] else [(ETAG, PText (x_quote X (i_etag fi)))])).

  Fixpoint lookup_prop (n : pname) (l : list (pname * pvalue)) : option pvalue :=
    match l with
    | [] => None
    | (k, v) :: r => if pname_eqb k n then Some v else lookup_prop n r
    end.

  (** internal/server.go NewPropFindResponse, <prop> form: every requested name once,
      200 with its value or 404 with an empty element. *)
  Fixpoint answer_props (props : list (pname * pvalue)) (req : list pname) (seen : list pname)
           (pss : list propstat) : list propstat :=
    match req with
    | [] => pss
    | n :: rest =>
      if existsb (pname_eqb n) seen then answer_props props rest seen pss
      else
        let pss' := match lookup_prop n props with
                    | Some v => encode_prop pss 200 (n, v)
                    | None => encode_prop pss 404 (n, PEmpty)
                    end in
        answer_props props rest (n :: seen) pss'
    end.

  Definition prop_find_file (req : list pname) (fi : info) : wresp :=
    {| wr_hrefs := [x_href_enc X (i_path fi)]; wr_status := None;
       wr_propstats := answer_props (fi_props fi) req [] [] |}.

  Definition ms_resp (l : list wresp) : hresp := {| h_status := 207; h_body := ""; h_ms := l |}.

  (** handlePropfind + backend.PropFind.  An absent Depth header means infinity. *)
  Definition srv_propfind (p depth_hdr : string) (req : list pname) : list fscall * hresp :=
    match (if String.eqb depth_hdr "" then Some DInf else parse_depth depth_hdr) with
    | None => ([], status_resp 400)
    | Some d =>
      match fs_stat fs p with
      | FErr e => ([CStat p], err_resp e)
      | FOk fi =>
        if negb (depth_eqb d D0) && i_dir fi then
          let rec := depth_eqb d DInf in
          match fs_readdir fs p rec with
          | FErr e => ([CStat p; CReadDir p rec], err_resp e)
          | FOk l => ([CStat p; CReadDir p rec], ms_resp (map (prop_find_file req) l))
          end
        else ([CStat p], ms_resp [prop_find_file req fi])
      end
    end.

  (** backend.HeadGet for GET *)
  Definition srv_get (p : string) : list fscall * hresp :=
    match fs_stat fs p with
    | FErr e => ([CStat p], err_resp e)
    | FOk fi =>
      if i_dir fi then ([CStat p], status_resp 405)
      else match fs_open fs p with
           | FErr e => ([CStat p; COpen p], err_resp e)
           | FOk bytes => ([CStat p; COpen p], {| h_status := 200; h_body := bytes; h_ms := [] |})
           end
    end.

  (** backend.Put: the conditional headers become the options *)
  Definition srv_put (p body im inm : string) : list fscall * hresp :=
    ([CCreate p body im inm],
     match fs_create fs p body with
     | FErr e => err_resp e
     | FOk created => status_resp (if created then 201 else 204)
     end).

  (** backend.Delete *)
  Definition srv_delete (p im inm : string) : list fscall * hresp :=
    ([CRemoveAll p im inm],
     match fs_remove_all fs p with FErr e => err_resp e | FOk _ => status_resp 204 end).

  (** backend.Mkcol *)
  Definition srv_mkcol (p ctype : string) : list fscall * hresp :=
    if negb (String.eqb ctype "") then ([], status_resp 415)
    else ([CMkdir p],
          match fs_mkdir fs p with
          | FErr e => if is_not_found e then status_resp 409 else err_resp e
          | FOk _ => status_resp 201
          end).

  Definition created_resp (r : fsres bool) : hresp :=
    match r with
    | FErr EExist => status_resp 412          (* os.IsExist(err) *)
    | FErr e => err_resp e
    | FOk created => status_resp (if created then 201 else 204)
    end.

  (** handleCopyMove + backend.Copy / backend.Move.  [dest] is what url.Parse makes
      of the Destination header ([None]: header absent or unparsable). *)
  Definition srv_copy_move (is_copy : bool) (p : string) (dest : option string) (ow_hdr depth_hdr : string)
    : list fscall * hresp :=
    match dest with
    | None => ([], status_resp 400)
    | Some d =>
      match (if String.eqb ow_hdr "" then Some true else parse_overwrite ow_hdr) with
      | None => ([], status_resp 400)
      | Some overwrite =>
        match (if String.eqb depth_hdr "" then Some DInf else parse_depth depth_hdr) with
        | None => ([], status_resp 400)
        | Some dp =>
          if is_copy then
            match dp with
            | D1 => ([], status_resp 400)
            | _ =>
              let recursive := depth_eqb dp DInf in
              ([CCopy p d (negb recursive) (negb overwrite)],
               created_resp (fs_copy fs p d (negb recursive) (negb overwrite)))
            end
          else
            if negb (depth_eqb dp DInf) then ([], status_resp 400)
            else ([CMove p d (negb overwrite)], created_resp (fs_move fs p d (negb overwrite)))
        end
      end
    end.
End Server.

(** * Client side *)

(** path.Join of two elements *)
Definition join2 (a b : string) : string :=
  if String.eqb a "" then (if String.eqb b "" then "" else clean b)
  else clean (a ++ "/" ++ b).

(** internal.NewClient: an endpoint URL without a path means "/" *)
Definition endpoint_path (url_path : string) : string :=
  if String.eqb url_path "" then "/" else url_path.

(** internal/client.go ResolveHref: the Path of the URL a name denotes.  The request
    target and the Destination header are this URL written and parsed again by
    net/url and net/http; the model lets the path through unchanged. *)
Definition resolve_href (ep name : string) : string :=
  if is_abs name then name else join2 ep name.

Definition file_info_propfind : list pname := [RT; CLEN; LMOD; CTYPE; ETAG].

(** What a client call comes to. *)
Inductive outcome :=
| OInfo (i : info) | OList (l : list info) | OBytes (b : string) | ODone
| OErr (code : N).   (* the code of an HTTPError; 0 for any other error *)

Section Client.
  Variable X : ext.

  (** Status.Err / Response.Err: anything but 2xx is an error *)
  Definition code_err (c : N) : option N := if N.eqb (N.div c 100) 2 then None else Some c.

  (** The multistatus as xml.Decode delivers it: hrefs parsed (a href that url.Parse
      refuses fails the whole document). *)
  Record dresp := { dr_paths : list string; dr_status : option N; dr_propstats : list propstat }.

  Fixpoint decode_hrefs (l : list string) : option (list string) :=
    match l with
    | [] => Some []
    | h :: r =>
      match x_href_dec X (x_text X h), decode_hrefs r with
      | Some p, Some ps => Some (p :: ps)
      | _, _ => None
      end
    end.

  Fixpoint decode_ms (l : list wresp) : option (list dresp) :=
    match l with
    | [] => Some []
    | w :: r =>
      match decode_hrefs (wr_hrefs w), decode_ms r with
      | Some ps, Some ds => Some ({| dr_paths := ps; dr_status := wr_status w; dr_propstats := wr_propstats w |} :: ds)
      | _, _ => None
      end
    end.

  Definition resp_err (r : dresp) : option N :=
    match dr_status r with None => None | Some c => code_err c end.

  (** Response.Path *)
  Definition resp_path (r : dresp) : res string :=
    match resp_err r, dr_paths r with
    | Some c, _ => Err c
    | None, [p] => Ok p
    | None, _ => Err 0
    end.

  (** Response.DecodeProp up to raw.Decode: the raw value of the first propstat
      that has the property; a missing property is a 404 error. *)
  Fixpoint find_prop (n : pname) (pss : list propstat) : res pvalue :=
    match pss with
    | [] => Err 404
    | ps :: rest =>
      match (fix get (l : list (pname * pvalue)) : option pvalue :=
               match l with
               | [] => None
               | (k, v) :: r => if pname_eqb k n then Some v else get r
               end) (ps_props ps) with
      | None => find_prop n rest
      | Some v => match code_err (ps_code ps) with Some c => Err c | None => Ok v end
      end
    end.

  Definition decode_prop (r : dresp) (n : pname) : res pvalue :=
    match resp_err r with
    | Some c => Err c
    | None => find_prop n (dr_propstats r)
    end.

  (** "err != nil && !IsNotFound(err)" *)
  Definition tolerate_404 {A} (r : res A) (dflt : A) : res A :=
    match r with
    | Err c => if N.eqb c 404 then Ok dflt else Err c
    | _ => r
    end.

  (** int64 character data (GetContentLength.Length, `xml:",chardata"`), after
      encoding/xml copyValue: empty data sets the field to 0; otherwise
      strconv.ParseInt(strings.TrimSpace(data), 10, 64). *)

  (** one white-space rune (unicode.IsSpace) at the head of the bytes: the ASCII
      ones, U+0085, U+00A0, U+1680, U+2000..U+200A, U+2028, U+2029, U+202F, U+205F,
      U+3000 in UTF-8 *)
  Definition space_prefix (s : string) : option string :=
    match s with
    | EmptyString => None
    | String a r =>
      let k := N_of_ascii a in
      if (N.leb 9 k && N.leb k 13) || N.eqb k 32 then Some r
      else match r with
           | EmptyString => None
           | String b r1 =>
             let k1 := N_of_ascii b in
             if N.eqb k 194 then (if N.eqb k1 133 || N.eqb k1 160 then Some r1 else None)
             else match r1 with
                  | EmptyString => None
                  | String c r2 =>
                    let k2 := N_of_ascii c in
                    if N.eqb k 225 then (if N.eqb k1 154 && N.eqb k2 128 then Some r2 else None)
                    else if N.eqb k 226 then
                      (if (N.eqb k1 128 && ((N.leb 128 k2 && N.leb k2 138) || N.eqb k2 168 || N.eqb k2 169 || N.eqb k2 175))
                          || (N.eqb k1 129 && N.eqb k2 159) then Some r2 else None)
                    else if N.eqb k 227 then (if N.eqb k1 128 && N.eqb k2 128 then Some r2 else None)
                    else None
                  end
           end
    end.

  (** the same at the tail, on the reversed bytes *)
  Definition space_suffix_rev (s : string) : option string :=
    match s with
    | EmptyString => None
    | String a r =>
      let k := N_of_ascii a in
      if (N.leb 9 k && N.leb k 13) || N.eqb k 32 then Some r
      else match r with
           | EmptyString => None
           | String b r1 =>
             let k1 := N_of_ascii b in
             if N.eqb k1 194 && (N.eqb k 133 || N.eqb k 160) then Some r1
             else match r1 with
                  | EmptyString => None
                  | String c r2 =>
                    let k2 := N_of_ascii c in
                    if (N.eqb k2 225 && N.eqb k1 154 && N.eqb k 128)
                       || (N.eqb k2 226 && ((N.eqb k1 128 && ((N.leb 128 k && N.leb k 138) || N.eqb k 168 || N.eqb k 169 || N.eqb k 175))
                                            || (N.eqb k1 129 && N.eqb k 159)))
                       || (N.eqb k2 227 && N.eqb k1 128 && N.eqb k 128)
                    then Some r2 else None
                  end
           end
    end.

  Fixpoint srev_aux (s acc : string) : string :=
    match s with EmptyString => acc | String a r => srev_aux r (String a acc) end.
  Definition srev (s : string) : string := srev_aux s EmptyString.

  Fixpoint trim_with (f : string -> option string) (fuel : nat) (s : string) : string :=
    match fuel with
    | O => s
    | S n => match f s with Some r => trim_with f n r | None => s end
    end.

  (** strings.TrimSpace *)
  Definition trim_space (s : string) : string :=
    let l := trim_with space_prefix (String.length s) s in
    srev (trim_with space_suffix_rev (String.length l) (srev l)).

  Fixpoint parse_digits (s : string) (acc : N) : option N :=
    match s with
    | EmptyString => Some acc
    | String c r =>
      let k := N_of_ascii c in
      if N.leb 48 k && N.leb k 57 then parse_digits r (acc * 10 + (k - 48)) else None
    end.

  (** strconv.ParseInt(s, 10, 64): optional sign, at least one digit, digits only
      (underscores only count in base 0), value within int64 *)
  Definition parse_int64 (s : string) : option Z :=
    match s with
    | EmptyString => None
    | String c r =>
      let '(neg, digits) :=
        if Ascii.eqb c "+"%char then (false, r) else if Ascii.eqb c "-"%char then (true, r) else (false, s) in
      match digits with
      | EmptyString => None
      | _ => match parse_digits digits 0 with
             | None => None
             | Some un =>
               if neg then (if N.leb un 9223372036854775808 then Some (- Z.of_N un)%Z else None)
               else (if N.ltb un 9223372036854775808 then Some (Z.of_N un) else None)
             end
      end
    end.

  Definition parse_size (s : string) : option Z :=
    match s with
    | EmptyString => Some 0%Z
    | _ => parse_int64 (trim_space s)
    end.

  (** ETag.UnmarshalText: only double-quoted strings *)
  Definition unmarshal_etag (s : string) : option string :=
    match s with
    | String c _ => if Ascii.eqb c """"%char then x_unquote X s else None
    | EmptyString => None
    end.

  Definition text_of (v : pvalue) : string :=
    match v with PText s => x_text X s | _ => "" end.

  Definition opt_res {A} (o : option A) : res A := match o with Some a => Ok a | None => Err 0 end.

  (** client.go fileInfoFromResponse *)
  Definition file_info_from_response (r : dresp) : res info :=
    do path <- resp_path r;
    do rt <- decode_prop r RT;
    let is_coll := match rt with PResType b => b | _ => false end in
    do szte <-
      (if is_coll then Ok (0%Z, "", "")
       else
         do lenv <- decode_prop r CLEN;
         do len <- opt_res (parse_size (text_of lenv));
         do ty <- tolerate_404 (do v <- decode_prop r CTYPE; Ok (text_of v)) "";
         do tag <- tolerate_404 (do v <- decode_prop r ETAG; opt_res (unmarshal_etag (text_of v))) "";
         Ok (len, ty, tag));
    let '(len, ty, tag) := szte in
    do md <- tolerate_404 (do v <- decode_prop r LMOD; opt_res (x_time_parse X (text_of v))) zero_time;
    Ok {| i_path := path; i_size := len; i_mod := md; i_dir := is_coll; i_mime := ty; i_etag := tag |}.

  (** Client.Do: a status outside 2xx is an HTTPError with that status *)
  Definition client_do (r : hresp) : res hresp :=
    if N.eqb (N.div (h_status r) 100) 2 then Ok r else Err (h_status r).

  (** Client.DoMultiStatus *)
  Definition do_multistatus (r : hresp) : res (list dresp) :=
    do r' <- client_do r;
    if negb (N.eqb (h_status r') 207) then Err (h_status r')
    else opt_res (decode_ms (h_ms r')).

  Definition out_of {A} (f : A -> outcome) (r : res A) : outcome :=
    match r with Ok a => f a | Err c => OErr c | Panic => OErr 0 end.

  Variable fs : filesystem.
  Variable ep : string.   (* the endpoint's path, after NewClient *)

  (** Client.Stat = PropFindFlat + fileInfoFromResponse *)
  Definition client_stat (name : string) : list fscall * outcome :=
    let '(calls, resp) := srv_propfind X fs (resolve_href ep name) (depth_string D0) file_info_propfind in
    (calls,
     out_of OInfo
       (do ms <- do_multistatus resp;
        match ms with
        | [r] => file_info_from_response r
        | _ => Err 0
        end)).

  Fixpoint infos_of (l : list dresp) : res (list info) :=
    match l with
    | [] => Ok []
    | r :: rest =>
      do fi <- file_info_from_response r;
      do fis <- infos_of rest;
      Ok (fi :: fis)
    end.

  (** Client.ReadDir *)
  Definition client_readdir (name : string) (recursive : bool) : list fscall * outcome :=
    let d := if recursive then DInf else D1 in
    let '(calls, resp) := srv_propfind X fs (resolve_href ep name) (depth_string d) file_info_propfind in
    (calls, out_of OList (do ms <- do_multistatus resp; infos_of ms)).

  (** Client.Open: the body of a successful GET *)
  Definition client_open (name : string) : list fscall * outcome :=
    let '(calls, resp) := srv_get fs (resolve_href ep name) in
    (calls, out_of (fun r => OBytes (h_body r)) (client_do resp)).

  (** Client.Create + fileWriter: the chunks written reach the server as one body *)
  Definition client_create (name : string) (chunks : list string) : list fscall * outcome :=
    let '(calls, resp) := srv_put fs (resolve_href ep name) (String.concat "" chunks) "" "" in
    (calls, out_of (fun _ => ODone) (client_do resp)).

  Definition client_remove_all (name : string) : list fscall * outcome :=
    let '(calls, resp) := srv_delete fs (resolve_href ep name) "" "" in
    (calls, out_of (fun _ => ODone) (client_do resp)).

  Definition client_mkdir (name : string) : list fscall * outcome :=
    let '(calls, resp) := srv_mkcol fs (resolve_href ep name) "" in
    (calls, out_of (fun _ => ODone) (client_do resp)).

  (** Client.Copy: Destination, Overwrite and Depth headers *)
  Definition client_copy (name dest : string) (no_recursive no_overwrite : bool) : list fscall * outcome :=
    let depth := if no_recursive then D0 else DInf in
    let '(calls, resp) :=
      srv_copy_move fs true (resolve_href ep name) (Some (resolve_href ep dest))
                    (format_overwrite (negb no_overwrite)) (depth_string depth) in
    (calls, out_of (fun _ => ODone) (client_do resp)).

  (** Client.Move: no Depth header *)
  Definition client_move (name dest : string) (no_overwrite : bool) : list fscall * outcome :=
    let '(calls, resp) :=
      srv_copy_move fs false (resolve_href ep name) (Some (resolve_href ep dest))
                    (format_overwrite (negb no_overwrite)) "" in
    (calls, out_of (fun _ => ODone) (client_do resp)).
End Client.

(** * The client half alone: what Stat and ReadDir make of an HTTP answer (used to
    exercise the client model on answers of servers other than this library's) *)
Definition read_stat (X : ext) (resp : hresp) : outcome :=
  out_of OInfo
    (do ms <- do_multistatus X resp;
     match ms with
     | [r] => file_info_from_response X r
     | _ => Err 0
     end).
Definition read_list (X : ext) (resp : hresp) : outcome :=
  out_of OList (do ms <- do_multistatus X resp; infos_of X ms).

(** * One client call *)
Inductive op :=
| OpStat (name : string)
| OpReadDir (name : string) (recursive : bool)
| OpOpen (name : string)
| OpCreate (name : string) (chunks : list string)
| OpRemoveAll (name : string)
| OpMkdir (name : string)
| OpCopy (name dest : string) (no_recursive no_overwrite : bool)
| OpMove (name dest : string) (no_overwrite : bool).

Definition run_op (X : ext) (fs : filesystem) (ep : string) (o : op) : list fscall * outcome :=
  match o with
  | OpStat n => client_stat X fs ep n
  | OpReadDir n r => client_readdir X fs ep n r
  | OpOpen n => client_open fs ep n
  | OpCreate n ch => client_create fs ep n ch
  | OpRemoveAll n => client_remove_all fs ep n
  | OpMkdir n => client_mkdir fs ep n
  | OpCopy n d nr no => client_copy fs ep n d nr no
  | OpMove n d no => client_move fs ep n d no
  end.

(** * LocalFileSystem on a tree (fs_local.go Stat, ReadDir, Open, fileInfoFromOS) *)
Section Local.
  Variable X : ext.
  (** size and modification time (ns) the OS reports for the directory at a path *)
  Variable dmeta : list string -> N * N.
  Variable t : option node.

  Definition giga : N := 1000000000.
  Definition instant_of_ns (m : N) : instant :=
    {| t_sec := Z.of_N (N.div m giga); t_ns := N.modulo m giga |}.

  (** fileInfoFromOS *)
  Definition fi_of_node (segs : list string) (n : node) : info :=
    let p := external_path segs in
    let '(size, mtime) := match n with File c m => (strlen c, m) | Dir _ => dmeta segs end in
    {| i_path := p; i_size := Z.of_N size; i_mod := instant_of_ns mtime;
       i_dir := match n with Dir _ => true | File _ _ => false end;
       i_mime := x_mime_ext X p; i_etag := etag_of mtime size |}.

  Definition local_err {A} (c : N) : fsres A := FErr (EHttp c).

  (** LocalFileSystem.Stat: path.Clean(name) is the path reported *)
  Definition local_stat (name : string) : fsres info :=
    match local_segs name with
    | Ok segs =>
      match geto t segs with
      | Some n => FOk (fi_of_node segs n)
      | None => local_err 404
      end
    | _ => local_err 400
    end.

  (** LocalFileSystem.ReadDir: filepath.Walk, externalPath of every entry *)
  Definition local_readdir (name : string) (recursive : bool) : fsres (list info) :=
    match local_segs name with
    | Ok segs =>
      match geto t segs with
      | Some n =>
        FOk (map (fun pn => fi_of_node (segs ++ fst pn) (snd pn))
                 (if recursive then walk n [] else walk1 n []))
      | None => local_err 404
      end
    | _ => local_err 400
    end.

  (** LocalFileSystem.Open (the server only opens what Stat called a file) *)
  Definition local_open (name : string) : fsres string :=
    match local_segs name with
    | Ok segs =>
      match geto t segs with
      | Some (File c _) => FOk c
      | Some (Dir _) => FOk ""
      | None => local_err 404
      end
    | _ => local_err 400
    end.

  (** The reading half of LocalFileSystem; the writing half is the subject of
      C01/C02 (DavServer.v) and answers here as the recording backend saw it. *)
  Definition local_fs (writes : filesystem) : filesystem :=
    {| fs_stat := local_stat; fs_readdir := local_readdir; fs_open := local_open;
       fs_create := fs_create writes; fs_remove_all := fs_remove_all writes; fs_mkdir := fs_mkdir writes;
       fs_copy := fs_copy writes; fs_move := fs_move writes |}.
End Local.

(** * Specification (written from the property text, independently of the model) *)

(** "relative names being resolved against the endpoint path" *)
Definition spec_target (ep name : string) : string :=
  if is_abs name then name else clean (ep ++ "/" ++ name).

(** What the client must report for a backend FileInfo: path, kind and modification
    time to the second; for a file also size, content type and entity tag (a
    collection has no entity: the protocol carries none of the three for it). *)
Definition view (fi : info) : info :=
  if i_dir fi then
    {| i_path := i_path fi; i_size := 0%Z; i_mod := to_second (i_mod fi); i_dir := true; i_mime := ""; i_etag := "" |}
  else
    {| i_path := i_path fi; i_size := i_size fi; i_mod := to_second (i_mod fi); i_dir := false;
       i_mime := i_mime fi; i_etag := i_etag fi |}.

(** The domain of metadata values the property ranges over. *)
Definition starts_with_2slash (s : string) : bool :=
  match s with String a (String b _) => Ascii.eqb a slash && Ascii.eqb b slash | _ => false end.
Definition wf_path (p : string) : bool := is_abs p && negb (starts_with_2slash p).
(** years 0..9999 (what an HTTP-date can say), or Go's zero time *)
Definition wf_time (t : instant) : bool :=
  is_zero t || (Z.leb (-62167219200) (t_sec t) && Z.ltb (t_sec t) 253402300800 && N.ltb (t_ns t) 1000000000).
Definition wf_info (X : ext) (fi : info) : bool :=
  wf_path (i_path fi) && wf_time (i_mod fi) && Z.leb (-9223372036854775808) (i_size fi) && Z.ltb (i_size fi) 9223372036854775808 &&
  (i_dir fi || String.eqb (x_text X (i_mime fi)) (i_mime fi)).   (* text XML can carry *)

(** a value an HTTP header field can carry (net/http refuses control bytes other
    than tab in header values): the content type of a GET answer *)
Fixpoint header_safe (s : string) : bool :=
  match s with
  | EmptyString => true
  | String c r => let k := N_of_ascii c in (N.leb 32 k || N.eqb k 9) && negb (N.eqb k 127) && header_safe r
  end.

Definition wf_code (e : fserr) : bool :=
  match e with EHttp c => N.leb 400 c && N.leb c 599 | _ => true end.

Definition out_is_err (o : outcome) : bool := match o with OErr _ => true | _ => false end.

Definition call_eqb (a b : fscall) : bool :=
  match a, b with
  | CStat n, CStat n' => String.eqb n n'
  | CReadDir n r, CReadDir n' r' => String.eqb n n' && Bool.eqb r r'
  | COpen n, COpen n' => String.eqb n n'
  | CCreate n b i j, CCreate n' b' i' j' => String.eqb n n' && String.eqb b b' && String.eqb i i' && String.eqb j j'
  | CRemoveAll n i j, CRemoveAll n' i' j' => String.eqb n n' && String.eqb i i' && String.eqb j j'
  | CMkdir n, CMkdir n' => String.eqb n n'
  | CCopy n d r o, CCopy n' d' r' o' => String.eqb n n' && String.eqb d d' && Bool.eqb r r' && Bool.eqb o o'
  | CMove n d o, CMove n' d' o' => String.eqb n n' && String.eqb d d' && Bool.eqb o o'
  | _, _ => false
  end.
Fixpoint calls_eqb (a b : list fscall) : bool :=
  match a, b with
  | [], [] => true
  | x :: a', y :: b' => call_eqb x y && calls_eqb a' b'
  | _, _ => false
  end.

Definition outcome_eqb (a b : outcome) : bool :=
  match a, b with
  | OInfo x, OInfo y => info_eqb x y
  | OList x, OList y => infos_eqb x y
  | OBytes x, OBytes y => String.eqb x y
  | ODone, ODone => true
  | OErr x, OErr y => N.eqb x y
  | _, _ => false
  end.

(** Does the answer of a mutating backend call show in the client's result?
    success <-> the client reports success. *)
Definition done_matches {A} (r : fsres A) (o : outcome) : bool :=
  match r, o with
  | FOk _, ODone => true
  | FErr _, OErr _ => true
  | _, _ => false
  end.

(** [spec_exact]: the strict reading — the backend sees exactly the calls the
    present code makes and nothing else.  Kept because it is what the model
    produces ([model_meets_spec_exact]); the property itself is [spec_ok] below. *)
Definition spec_exact (X : ext) (fs : filesystem) (ep : string) (o : op) (calls : list fscall) (out : outcome) : bool :=
  match o with
  | OpStat n =>
    let p := spec_target ep n in
    match fs_stat fs p with
    | FOk fi => if wf_info X fi then outcome_eqb out (OInfo (view fi)) else true
    | FErr e => if wf_code e then out_is_err out else true
    end
  | OpReadDir n r =>
    let p := spec_target ep n in
    match fs_stat fs p with
    | FOk fi =>
      if i_dir fi then
        match fs_readdir fs p r with
        | FOk l => if forallb (wf_info X) l then outcome_eqb out (OList (map view l)) && calls_eqb calls [CStat p; CReadDir p r] else true
        | FErr e => if wf_code e then out_is_err out else true
        end
      else if wf_info X fi then outcome_eqb out (OList [view fi]) else true
    | FErr e => if wf_code e then out_is_err out else true
    end
  | OpOpen n =>
    let p := spec_target ep n in
    match fs_stat fs p with
    | FOk fi =>
      if i_dir fi then out_is_err out
      else match fs_open fs p with
           | FOk b => if Z.eqb (i_size fi) (Z.of_N (strlen b)) && header_safe (i_mime fi) then outcome_eqb out (OBytes b) else true
           | FErr e => if wf_code e then out_is_err out else true
           end
    | FErr e => if wf_code e then out_is_err out else true
    end
  | OpCreate n chunks =>
    let p := spec_target ep n in
    let body := String.concat "" chunks in
    calls_eqb calls [CCreate p body "" ""] &&
    match fs_create fs p body with FErr e => if wf_code e then out_is_err out else true | r => done_matches r out end
  | OpRemoveAll n =>
    let p := spec_target ep n in
    calls_eqb calls [CRemoveAll p "" ""] &&
    match fs_remove_all fs p with FErr e => if wf_code e then out_is_err out else true | r => done_matches r out end
  | OpMkdir n =>
    let p := spec_target ep n in
    calls_eqb calls [CMkdir p] &&
    match fs_mkdir fs p with FErr e => if wf_code e then out_is_err out else true | r => done_matches r out end
  | OpCopy n d nr no =>
    let p := spec_target ep n in let q := spec_target ep d in
    calls_eqb calls [CCopy p q nr no] &&
    match fs_copy fs p q nr no with FErr e => if wf_code e then out_is_err out else true | r => done_matches r out end
  | OpMove n d no =>
    let p := spec_target ep n in let q := spec_target ep d in
    calls_eqb calls [CMove p q no] &&
    match fs_move fs p q no with FErr e => if wf_code e then out_is_err out else true | r => done_matches r out end
  end.

(** * The specification

    The property is about names, metadata and content agreeing between client and
    backend, and about the mutating calls reaching the backend addressed exactly.  It
    does not fix which read-only calls (Stat, ReadDir, Open — calls that cannot change
    the backend) a request makes: any number of them may appear anywhere among the
    calls, provided each names a resource the request refers to (its own resource, or
    the destination of a Copy / Move), decoded exactly like the other arguments.  The
    mutating calls (Create, RemoveAll, Mkdir, Copy, Move) must be exactly the expected
    ones, in order, with exactly the expected arguments. *)
Definition is_mutating (c : fscall) : bool :=
  match c with CStat _ | CReadDir _ _ | COpen _ => false | _ => true end.
Definition read_name (c : fscall) : string :=
  match c with CStat n | CReadDir n _ | COpen n => n | _ => "" end.
Fixpoint name_in (s : string) (l : list string) : bool :=
  match l with [] => false | x :: r => String.eqb x s || name_in s r end.

Definition calls_ok (names : list string) (expected : list fscall) (calls : list fscall) : bool :=
  calls_eqb (filter is_mutating calls) expected &&
  forallb (fun c => is_mutating c || name_in (read_name c) names) calls.

(** the resources a call refers to, and the mutating calls it must make *)
Definition referred_names (ep : string) (o : op) : list string :=
  match o with
  | OpCopy n d _ _ | OpMove n d _ => [spec_target ep n; spec_target ep d]
  | OpStat n | OpReadDir n _ | OpOpen n | OpCreate n _ | OpRemoveAll n | OpMkdir n => [spec_target ep n]
  end.
Definition expected_mutations (ep : string) (o : op) : list fscall :=
  match o with
  | OpStat _ | OpReadDir _ _ | OpOpen _ => []
  | OpCreate n chunks => [CCreate (spec_target ep n) (String.concat "" chunks) "" ""]
  | OpRemoveAll n => [CRemoveAll (spec_target ep n) "" ""]
  | OpMkdir n => [CMkdir (spec_target ep n)]
  | OpCopy n d nr no => [CCopy (spec_target ep n) (spec_target ep d) nr no]
  | OpMove n d no => [CMove (spec_target ep n) (spec_target ep d) no]
  end.

(** what the client returns, given the backend's answers (no constraint on calls) *)
Definition outcome_ok (X : ext) (fs : filesystem) (ep : string) (o : op) (out : outcome) : bool :=
  match o with
  | OpStat n =>
    let p := spec_target ep n in
    match fs_stat fs p with
    | FOk fi => if wf_info X fi then outcome_eqb out (OInfo (view fi)) else true
    | FErr e => if wf_code e then out_is_err out else true
    end
  | OpReadDir n r =>
    let p := spec_target ep n in
    match fs_stat fs p with
    | FOk fi =>
      if i_dir fi then
        match fs_readdir fs p r with
        | FOk l => if forallb (wf_info X) l then outcome_eqb out (OList (map view l)) else true
        | FErr e => if wf_code e then out_is_err out else true
        end
      else if wf_info X fi then outcome_eqb out (OList [view fi]) else true
    | FErr e => if wf_code e then out_is_err out else true
    end
  | OpOpen n =>
    let p := spec_target ep n in
    match fs_stat fs p with
    | FOk fi =>
      if i_dir fi then out_is_err out
      else match fs_open fs p with
           | FOk b => if Z.eqb (i_size fi) (Z.of_N (strlen b)) && header_safe (i_mime fi) then outcome_eqb out (OBytes b) else true
           | FErr e => if wf_code e then out_is_err out else true
           end
    | FErr e => if wf_code e then out_is_err out else true
    end
  | OpCreate n chunks =>
    let p := spec_target ep n in
    let body := String.concat "" chunks in
    match fs_create fs p body with FErr e => if wf_code e then out_is_err out else true | r => done_matches r out end
  | OpRemoveAll n =>
    let p := spec_target ep n in
    match fs_remove_all fs p with FErr e => if wf_code e then out_is_err out else true | r => done_matches r out end
  | OpMkdir n =>
    let p := spec_target ep n in
    match fs_mkdir fs p with FErr e => if wf_code e then out_is_err out else true | r => done_matches r out end
  | OpCopy n d nr no =>
    let p := spec_target ep n in let q := spec_target ep d in
    match fs_copy fs p q nr no with FErr e => if wf_code e then out_is_err out else true | r => done_matches r out end
  | OpMove n d no =>
    let p := spec_target ep n in let q := spec_target ep d in
    match fs_move fs p q no with FErr e => if wf_code e then out_is_err out else true | r => done_matches r out end
  end.


(** [spec_ok X fs ep o calls out]: the observation (calls the backend received, what
    the client returned) is what the property demands, for a backend whose answers
    are [fs].  Inputs outside the stated domain are not constrained. *)
Definition spec_ok (X : ext) (fs : filesystem) (ep : string) (o : op) (calls : list fscall) (out : outcome) : bool :=
  calls_ok (referred_names ep o) (expected_mutations ep o) calls && outcome_ok X fs ep o out.

(** * Verdicts of the correspondence check *)
Definition model_agrees (X : ext) (fs : filesystem) (ep : string) (o : op) (calls : list fscall) (out : outcome) : bool :=
  let '(mc, mo) := run_op X fs ep o in
  calls_eqb mc calls && outcome_eqb mo out.

(** ** ReadDir over a tree: scope, uniqueness, addressability *)
Fixpoint mem_str (s : string) (l : list string) : bool :=
  match l with [] => false | x :: r => String.eqb x s || mem_str s r end.
Fixpoint nodup_str (l : list string) : bool :=
  match l with [] => true | x :: r => negb (mem_str x r) && nodup_str r end.

Fixpoint list_eqb (a b : list string) : bool :=
  match a, b with
  | [], [] => true
  | x :: a', y :: b' => String.eqb x y && list_eqb a' b'
  | _, _ => false
  end.

(** the paths mapped at or below [segs] that ReadDir must list *)
Definition in_scope (recursive : bool) (segs q : list string) : bool :=
  if recursive then is_prefix segs q
  else list_eqb q segs || (list_eqb (removelast q) segs && negb (list_eqb q segs) && is_prefix segs q).

(** [tree_spec_ok t ep name recursive l]: for a collection at the target, the
    listing [l] names exactly the mapped paths in scope, each once, every entry
    under a path that leads back to the node it describes, with the right kind
    (and size, for a file). *)
Definition entry_ok (t : option node) (e : info) : bool :=
  match local_segs (i_path e) with
  | Ok q =>
    String.eqb (i_path e) (external_path q) &&
    match geto t q with
    | Some (Dir _) => i_dir e
    | Some (File c _) => negb (i_dir e) && Z.eqb (i_size e) (Z.of_N (strlen c))
    | None => false
    end
  | _ => false
  end.

Definition tree_spec_ok (t : option node) (ep name : string) (recursive : bool) (out : outcome) : bool :=
  match local_segs (spec_target ep name) with
  | Ok segs =>
    match geto t segs with
    | Some (Dir ch) =>
      match out with
      | OList l =>
        let paths := map i_path l in
        nodup_str paths && forallb (entry_ok t) l &&
        (* everything listed is in scope *)
        forallb (fun e => match local_segs (i_path e) with Ok q => in_scope recursive segs q | _ => false end) l &&
        (* everything in scope is listed *)
        forallb (fun q => negb (in_scope recursive segs q) || mem_str (external_path q) paths)
                (map (fun rel => segs ++ rel) (all_paths (Some (Dir ch))))
      | _ => false
      end
    | _ => true
    end
  | _ => true
  end.

(** the backend answers recorded from the real LocalFileSystem are those of the model *)
Definition fsres_info_eqb (a b : fsres info) : bool :=
  match a, b with
  | FOk x, FOk y => info_eqb x y
  | FErr (EHttp c), FErr (EHttp d) => N.eqb c d
  | FErr EExist, FErr EExist | FErr EOther, FErr EOther => true
  | _, _ => false
  end.
Definition fsres_infos_eqb (a b : fsres (list info)) : bool :=
  match a, b with
  | FOk x, FOk y => infos_eqb x y
  | FErr (EHttp c), FErr (EHttp d) => N.eqb c d
  | FErr EExist, FErr EExist | FErr EOther, FErr EOther => true
  | _, _ => false
  end.
Definition fsres_str_eqb (a b : fsres string) : bool :=
  match a, b with
  | FOk x, FOk y => String.eqb x y
  | FErr (EHttp c), FErr (EHttp d) => N.eqb c d
  | FErr EExist, FErr EExist | FErr EOther, FErr EOther => true
  | _, _ => false
  end.

(** * Building the inputs from tables (used by the oracle only) *)
Fixpoint lookup_ss (k : string) (l : list (string * string)) (dflt : string) : string :=
  match l with [] => dflt | (a, b) :: r => if String.eqb a k then b else lookup_ss k r dflt end.
Fixpoint lookup_so (k : string) (l : list (string * option string)) : option string :=
  match l with [] => None | (a, b) :: r => if String.eqb a k then b else lookup_so k r end.
Fixpoint lookup_ts (k : instant) (l : list (instant * string)) : string :=
  match l with [] => "?" | (a, b) :: r => if instant_eqb a k then b else lookup_ts k r end.
Fixpoint lookup_st (k : string) (l : list (string * option instant)) : option instant :=
  match l with [] => None | (a, b) :: r => if String.eqb a k then b else lookup_st k r end.

Record tables := {
  tb_href_enc : list (string * string);
  tb_href_dec : list (string * option string);
  tb_quote : list (string * string);
  tb_unquote : list (string * option string);
  tb_time_fmt : list (instant * string);
  tb_time_parse : list (string * option instant);
  tb_text : list (string * string);
  tb_mime : list (string * string)
}.

Definition ext_of_tables (T : tables) : ext :=
  {| x_href_enc := fun p => lookup_ss p (tb_href_enc T) "?";
     x_href_dec := fun s => lookup_so s (tb_href_dec T);
     x_quote := fun s => lookup_ss s (tb_quote T) "?";
     x_unquote := fun s => lookup_so s (tb_unquote T);
     x_time_fmt := fun t => lookup_ts t (tb_time_fmt T);
     x_time_parse := fun s => lookup_st s (tb_time_parse T);
     x_text := fun s => lookup_ss s (tb_text T) "?";
     x_mime_ext := fun p => lookup_ss p (tb_mime T) "?" |}.

(** a recorded backend: the answers it gave, by call *)
Inductive answer :=
| AStat (name : string) (r : fsres info)
| AReadDir (name : string) (recursive : bool) (r : fsres (list info))
| AOpen (name : string) (r : fsres string)
| ACreate (name : string) (r : fsres bool)
| ARemoveAll (name : string) (r : fsres unit)
| AMkdir (name : string) (r : fsres unit)
| ACopy (name dest : string) (nr no : bool) (r : fsres bool)
| AMove (name dest : string) (no : bool) (r : fsres bool).

Definition unscripted {A} : fsres A := FErr (EHttp 599).

Section Script.
  Variable script : list answer.
  Fixpoint s_stat (l : list answer) (n : string) : fsres info :=
    match l with
    | AStat n' r :: rest => if String.eqb n' n then r else s_stat rest n
    | _ :: rest => s_stat rest n
    | [] => unscripted
    end.
  Fixpoint s_readdir (l : list answer) (n : string) (rc : bool) : fsres (list info) :=
    match l with
    | AReadDir n' rc' r :: rest => if String.eqb n' n && Bool.eqb rc' rc then r else s_readdir rest n rc
    | _ :: rest => s_readdir rest n rc
    | [] => unscripted
    end.
  Fixpoint s_open (l : list answer) (n : string) : fsres string :=
    match l with
    | AOpen n' r :: rest => if String.eqb n' n then r else s_open rest n
    | _ :: rest => s_open rest n
    | [] => unscripted
    end.
  Fixpoint s_create (l : list answer) (n : string) : fsres bool :=
    match l with
    | ACreate n' r :: rest => if String.eqb n' n then r else s_create rest n
    | _ :: rest => s_create rest n
    | [] => unscripted
    end.
  Fixpoint s_remove_all (l : list answer) (n : string) : fsres unit :=
    match l with
    | ARemoveAll n' r :: rest => if String.eqb n' n then r else s_remove_all rest n
    | _ :: rest => s_remove_all rest n
    | [] => unscripted
    end.
  Fixpoint s_mkdir (l : list answer) (n : string) : fsres unit :=
    match l with
    | AMkdir n' r :: rest => if String.eqb n' n then r else s_mkdir rest n
    | _ :: rest => s_mkdir rest n
    | [] => unscripted
    end.
  Fixpoint s_copy (l : list answer) (n d : string) (nr no : bool) : fsres bool :=
    match l with
    | ACopy n' d' nr' no' r :: rest =>
      if String.eqb n' n && String.eqb d' d && Bool.eqb nr' nr && Bool.eqb no' no then r else s_copy rest n d nr no
    | _ :: rest => s_copy rest n d nr no
    | [] => unscripted
    end.
  Fixpoint s_move (l : list answer) (n d : string) (no : bool) : fsres bool :=
    match l with
    | AMove n' d' no' r :: rest =>
      if String.eqb n' n && String.eqb d' d && Bool.eqb no' no then r else s_move rest n d no
    | _ :: rest => s_move rest n d no
    | [] => unscripted
    end.

  Definition fs_of_script : filesystem :=
    {| fs_stat := s_stat script; fs_readdir := s_readdir script; fs_open := s_open script;
       fs_create := fun n _ => s_create script n; fs_remove_all := s_remove_all script;
       fs_mkdir := s_mkdir script; fs_copy := s_copy script; fs_move := s_move script |}.
End Script.

(** every recorded answer of the reading calls is the tree model's *)
Definition local_answers_agree (X : ext) (dmeta : list string -> N * N) (t : option node) (script : list answer) : bool :=
  forallb (fun a =>
    match a with
    | AStat n r => fsres_info_eqb (local_stat X dmeta t n) r
    | AReadDir n rc r => fsres_infos_eqb (local_readdir X dmeta t n rc) r
    | AOpen n r => fsres_str_eqb (local_open t n) r
    | _ => true
    end) script.

Fixpoint lookup_dmeta (k : list string) (l : list (list string * (N * N))) : N * N :=
  match l with [] => (0, 0)%N | (a, b) :: r => if list_eqb a k then b else lookup_dmeta k r end.

(** "what is written through Create is stored byte for byte": the content found at
    the target after a successful Create (read back from the disk for the local
    backend) is the concatenation of the chunks written. *)
Definition stored_ok (o : op) (stored : option string) : bool :=
  match o, stored with
  | OpCreate _ chunks, Some b => String.eqb b (String.concat "" chunks)
  | _, _ => true
  end.

(** the reading of a scripted ("foreign") answer agrees with what the client returned *)
Definition foreign_agrees (X : ext) (list_op : bool) (resp : hresp) (out : outcome) : bool :=
  outcome_eqb (if list_op then read_list X resp else read_stat X resp) out.

(** an answer that is no multistatus document (any status, any body): what each call
    makes of it *)
Definition read_plain (X : ext) (o : op) (status : N) (body : string) : outcome :=
  let resp := {| h_status := status; h_body := body; h_ms := [] |} in
  match o with
  | OpStat _ => read_stat X resp
  | OpReadDir _ _ => read_list X resp
  | OpOpen _ => out_of (fun r => OBytes (h_body r)) (client_do resp)
  | _ => out_of (fun _ => ODone) (client_do resp)
  end.
