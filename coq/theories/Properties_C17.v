(** Properties_C17.v — C17: responses never disclose where the served directory
    lives on the host.  Statements only.  In the model every error value carries a
    bit saying whether its text contains a host path (OS errors do until stripPath /
    errFromOS has been applied, as in fs_local.go); ServeError copies the text to the
    response body. *)
From GW Require Import Base GoPath Fs DavServer Rfc4918 FsProofs DavRefine DavCorollaries.
Local Open Scope list_scope.

Theorem C17_no_leak : forall root sb r, r_leak (snd (serve root sb r)) = false.
Proof. exact no_host_path_disclosed. Qed.
Print Assumptions C17_no_leak.

(** What clients see instead: hrefs are external paths, i.e. "/" followed by the
    segments below the root ([external_path]); by C03 those segments are proper. *)
Theorem C17_hrefs_relative : forall name segs,
  local_segs name = Ok segs -> Forall (fun x => proper_seg x = true) segs.
Proof. exact local_segs_proper. Qed.
Print Assumptions C17_hrefs_relative.
