(** Properties_C17.v — C17: responses never disclose where the served directory
    lives on the host.  Statements only.  In the model every error value carries a
    bit saying whether its text contains a host path (OS errors do until stripPath /
    errFromOS has been applied, as in fs_local.go); ServeError copies the text to the
    response body. *)
From GW Require Import Base GoPath Fs DavServer Rfc4918 FsProofs DavRefine DavCorollaries RelocProofs.
Local Open Scope list_scope.

Theorem C17_no_leak : forall root sb r, r_leak (snd (serve root sb r)) = false.
Proof. exact no_host_path_disclosed. Qed.
Print Assumptions C17_no_leak.

(** What clients see instead: hrefs are external paths, i.e. "/" followed by the
    segments below the root ([external_path]); by C03 those segments are proper. *)
Theorem C17_hrefs_relative : forall name segs,
  local_segs name = Ok segs -> Forall (fun x => proper_seg x = true) segs.
Proof. exact local_segs_proper. Qed.
Print Assumptions C17_hrefs_relative.

(** Non-disclosure as non-interference: the same served subtree, served from two
    different directories of two different hosts' trees, gives the *same response* —
    every projected observable: status, headers, body, multi-status entries — and the
    same subtree afterwards.  The location of the served directory and everything
    around it therefore cannot flow into any response.  (Premise: the served directory
    exists; a missing one is reported by the 404/409 of C01 without its name.) *)
Theorem C17_response_independent_of_root : forall root1 root2 sb1 sb2 n0 r,
  geto sb1 root1 = Some n0 -> geto sb2 root2 = Some n0 ->
  snd (serve root1 sb1 r) = snd (serve root2 sb2 r) /\
  geto (fst (serve root1 sb1 r)) root1 = geto (fst (serve root2 sb2 r)) root2.
Proof. exact serve_two_roots. Qed.
Print Assumptions C17_response_independent_of_root.

(** ... along every history, for as long as the served directory exists. *)
Theorem C17_history_independent_of_root : forall root1 root2 rs sb1 sb2,
  geto sb1 root1 = geto sb2 root2 -> exists_ (geto sb1 root1) = true ->
  agree_while_served root1 root2 sb1 sb2 rs.
Proof. exact history_two_roots. Qed.
Print Assumptions C17_history_independent_of_root.

(** Every response of a history is free of host paths. *)
Theorem C17_history_no_leak : forall root rs sb,
  Forall (fun resp => r_leak resp = false) (snd (run root sb rs)).
Proof. exact history_no_leak. Qed.
Print Assumptions C17_history_no_leak.
