(** CardMatch.v - model of carddav/match.go (Match, matchPropFilter, matchField,
    matchTextMatch, Filter, filterProperties) and the RFC 6352 section 10.5
    specification it is proved against.
    No proofs here: this file is extracted and must build even when a proof breaks.

    Modelled code: /repo/carddav/match.go after the commit
    "fix: carddav: test every instance of a property in a prop-filter"
    ([match_prop_filter_first] below keeps the behaviour before that commit, for the
    recorded witness only). *)
From GW Require Import Base.

(** * Data *)

(** A vCard field ([*vcard.Field]).  Only [Value] is inspected by the code;
    group and parameters travel as one opaque canonical string so that
    "same field lists" can be stated for the projection. *)
Record field := { f_value : string; f_rest : string }.

(** [vcard.Card] is [map[string][]*Field].  The model is an association list;
    [card_fields] is Go's [c[k]] (nil for a missing key), [card_set] is [c[k] = v],
    [len(c) == 0] is [is_nil].  Every operation reads the first binding of a key,
    so no uniqueness hypothesis is needed. *)
Definition card := list (string * list field).

Record object := {
  o_path : string; o_etag : string; o_mtime : Z; o_len : Z; o_card : card }.

Record text_match := { tm_text : string; tm_negate : bool; tm_type : string }.
Record prop_filter := {
  pf_name : string; pf_test : string; pf_not_defined : bool; pf_texts : list text_match }.
Record data_request := { dr_props : list string; dr_allprop : bool }.
Record query := {
  q_data : data_request; q_filters : list prop_filter; q_test : string; q_limit : Z }.

Definition is_nil {A} (l : list A) : bool := match l with [] => true | _ => false end.

Fixpoint card_assoc (k : string) (c : card) : option (list field) :=
  match c with
  | [] => None
  | (k', v) :: r => if String.eqb k' k then Some v else card_assoc k r
  end.

Definition card_fields (k : string) (c : card) : list field :=
  match card_assoc k c with Some l => l | None => [] end.

Fixpoint card_set (k : string) (v : list field) (c : card) : card :=
  match c with
  | [] => [(k, v)]
  | (k', v') :: r => if String.eqb k' k then (k, v) :: r else (k', v') :: card_set k v r
  end.

(** * The three string tests (strings.HasPrefix / HasSuffix / Contains) *)

Fixpoint has_prefix (s p : string) {struct p} : bool :=
  match p with
  | EmptyString => true
  | String c p' =>
    match s with
    | EmptyString => false
    | String d s' => Ascii.eqb c d && has_prefix s' p'
    end
  end.

Fixpoint has_suffix (s t : string) : bool :=
  String.eqb s t ||
  match s with EmptyString => false | String _ s' => has_suffix s' t end.

Fixpoint contains (s t : string) : bool :=
  has_prefix s t ||
  match s with EmptyString => false | String _ s' => contains s' t end.

(** * Model of carddav/match.go *)

(** [fmt.Errorf(...)]: a plain Go error. *)
Definition go_err {A} : res A := Err 500.

(** [for _, x := range l { ok, err := f(x); if err != nil { return false, err };
     if ok { return true, nil } }; return false, nil] *)
Fixpoint loop_any {A} (f : A -> res bool) (l : list A) : res bool :=
  match l with
  | [] => Ok false
  | x :: r =>
    match f x with
    | Ok true => Ok true
    | Ok false => loop_any f r
    | Err e => Err e
    | Panic => Panic
    end
  end.

(** the same loop with [if !ok { return false, nil }] and [return true, nil] *)
Fixpoint loop_all {A} (f : A -> res bool) (l : list A) : res bool :=
  match l with
  | [] => Ok true
  | x :: r =>
    match f x with
    | Ok false => Ok false
    | Ok true => loop_all f r
    | Err e => Err e
    | Panic => Panic
    end
  end.

(** [switch test { default: error; case FilterAnyOf, "": any-loop; case FilterAllOf: all-loop }] *)
Definition by_test {A} (test : string) (f : A -> res bool) (l : list A) : res bool :=
  if String.eqb test "anyof" || String.eqb test "" then loop_any f l
  else if String.eqb test "allof" then loop_all f l
  else go_err.

(** matchTextMatch *)
Definition match_text_match (tm : text_match) (f : field) : res bool :=
  let t := tm_type tm in
  let v := f_value f in
  let fin (ok : bool) : res bool := Ok (if tm_negate tm then negb ok else ok) in
  if String.eqb t "equals" then fin (String.eqb (tm_text tm) v)
  else if String.eqb t "contains" || String.eqb t "" then fin (contains v (tm_text tm))
  else if String.eqb t "starts-with" then fin (has_prefix v (tm_text tm))
  else if String.eqb t "ends-with" then fin (has_suffix v (tm_text tm))
  else go_err.

(** matchField: the prop-filter's text-matches against one instance of the property *)
Definition match_field (pf : prop_filter) (f : field) : res bool :=
  by_test (pf_test pf) (fun tm => match_text_match tm f) (pf_texts pf).

(** matchPropFilter.  [ao] is a pointer: dereferencing nil panics. *)
Definition match_prop_filter (pf : prop_filter) (ao : option object) : res bool :=
  match ao with
  | None => Panic
  | Some o =>
    let fields := card_fields (pf_name pf) (o_card o) in
    if is_nil fields then Ok (pf_not_defined pf)
    else if pf_not_defined pf then Ok false
    else if is_nil (pf_texts pf) then Ok true
    else loop_any (match_field pf) fields
  end.

(** Match *)
Definition match_query (q : option query) (ao : option object) : res bool :=
  match q with
  | None => Ok true
  | Some q => by_test (q_test q) (fun pf => match_prop_filter pf ao) (q_filters q)
  end.

Definition version_key : string := "VERSION".

Definition dr_whole (r : data_request) : bool := dr_allprop r || is_nil (dr_props r).

(** the card built by filterProperties: VERSION first, then every requested name
    that is a key of the source *)
Definition project_card (props : list string) (c : card) : card :=
  fold_left (fun acc p => match card_assoc p c with Some v => card_set p v acc | None => acc end)
            props [(version_key, card_fields version_key c)].

(** the object filterProperties returns when it does not panic
    (ContentLength is not copied into the reduced object) *)
Definition project (r : data_request) (o : object) : object :=
  if dr_whole r then o
  else {| o_path := o_path o; o_etag := o_etag o; o_mtime := o_mtime o; o_len := 0%Z;
          o_card := project_card (dr_props r) (o_card o) |}.

(** filterProperties, with its explicit panic *)
Definition filter_properties (r : data_request) (o : object) : res object :=
  if dr_whole r then Ok o
  else if is_nil (o_card o) then Panic
  else Ok (project r o).

(** the loop of Filter; [out] is the slice being appended to *)
Fixpoint filter_loop (q : query) (n : Z) (aos : list object) (out : list object) : res (list object) :=
  match aos with
  | [] => Ok out
  | ao :: rest =>
    match match_query (Some q) (Some ao) with
    | Err e => Err e
    | Panic => Panic
    | Ok false => filter_loop q n rest out
    | Ok true =>
      match filter_properties (q_data q) ao with
      | Err e => Err e
      | Panic => Panic
      | Ok p =>
        let out' := (out ++ [p])%list in
        if (n <=? Z.of_nat (List.length out'))%Z then Ok out' else filter_loop q n rest out'
      end
    end
  end.

(** Filter *)
Definition filter_objs (q : option query) (aos : list object) : res (list object) :=
  match q with
  | None => Ok aos
  | Some q =>
    let len := Z.of_nat (List.length aos) in
    let n := if (q_limit q <=? 0)%Z || (len <? q_limit q)%Z then len else q_limit q in
    filter_loop q n aos []
  end.

(** The code before the fix: only the first field of the property was tested
    ([ao.Card.Get]).  Kept for the recorded witness, not part of the model. *)
Definition match_prop_filter_first (pf : prop_filter) (o : object) : res bool :=
  match card_fields (pf_name pf) (o_card o) with
  | [] => Ok (pf_not_defined pf)
  | f :: _ =>
    if pf_not_defined pf then Ok false
    else if is_nil (pf_texts pf) then Ok true
    else match_field pf f
  end.

(** * Specification: RFC 6352 section 10.5, three-valued *)

(** Kleene's strong connectives; [None] is "undefined". *)
Definition kor (a b : option bool) : option bool :=
  match a, b with
  | Some true, _ => Some true
  | _, Some true => Some true
  | Some false, Some false => Some false
  | _, _ => None
  end.
Definition kand (a b : option bool) : option bool :=
  match a, b with
  | Some false, _ => Some false
  | _, Some false => Some false
  | Some true, Some true => Some true
  | _, _ => None
  end.
Definition kany (l : list (option bool)) : option bool := fold_right kor (Some false) l.
Definition kall (l : list (option bool)) : option bool := fold_right kand (Some true) l.

(** [test] attribute of filter and prop-filter: (anyof | allof), default anyof;
    anything else has no meaning. *)
Definition is_anyof (t : string) : bool := String.eqb t "anyof" || String.eqb t "".
Definition is_allof (t : string) : bool := String.eqb t "allof".
Definition known_test (t : string) : bool := is_anyof t || is_allof t.

Definition combine (test : string) (l : list (option bool)) : option bool :=
  if is_anyof test then kany l else if is_allof test then kall l else None.

(** [match-type] attribute of text-match: (equals | contains | starts-with |
    ends-with), default contains. *)
Definition known_type (t : string) : bool :=
  String.eqb t "" || String.eqb t "equals" || String.eqb t "contains" ||
  String.eqb t "starts-with" || String.eqb t "ends-with".

Definition rfc_base (ty t v : string) : option bool :=
  if String.eqb ty "equals" then Some (String.eqb v t)
  else if String.eqb ty "starts-with" then Some (has_prefix v t)
  else if String.eqb ty "ends-with" then Some (has_suffix v t)
  else if String.eqb ty "contains" || String.eqb ty "" then Some (contains v t)
  else None.

(** negate-condition inverts a defined verdict *)
Definition rfc_text (tm : text_match) (v : string) : option bool :=
  match rfc_base (tm_type tm) (tm_text tm) v with
  | Some b => Some (xorb (tm_negate tm) b)
  | None => None
  end.

(** A prop-filter matches if a property of that name exists and the filter is
    empty or that property matches the text-matches combined by [test]; or no
    such property exists and is-not-defined is given (section 10.5.1). *)
Definition rfc_prop (pf : prop_filter) (c : card) : option bool :=
  let insts := card_fields (pf_name pf) c in
  if pf_not_defined pf then Some (is_nil insts)
  else if is_nil (pf_texts pf) then Some (negb (is_nil insts))
  else kany (map (fun f => combine (pf_test pf)
                             (map (fun tm => rfc_text tm (f_value f)) (pf_texts pf))) insts).

Definition rfc6352_query (q : query) (c : card) : option bool :=
  combine (q_test q) (map (fun pf => rfc_prop pf c) (q_filters q)).

(** Every test and match type of the query is one the RFC defines. *)
Definition all_known_b (q : query) : bool :=
  known_test (q_test q) &&
  forallb (fun pf => known_test (pf_test pf) &&
                     forallb (fun tm => known_type (tm_type tm)) (pf_texts pf)) (q_filters q).
Definition all_known (q : query) : Prop := all_known_b q = true.

(** the two-valued verdict (meaningful when the three-valued one is defined) *)
Definition sem_query (q : query) (c : card) : bool :=
  match rfc6352_query q c with Some b => b | None => false end.

(** ** The same semantics, declaratively (for queries without unknown attributes) *)

Definition base_sat (ty t v : string) : Prop :=
  if String.eqb ty "equals" then v = t
  else if String.eqb ty "starts-with" then exists b, v = t ++ b
  else if String.eqb ty "ends-with" then exists a, v = a ++ t
  else exists a b, v = a ++ t ++ b.

Definition text_sat (tm : text_match) (v : string) : Prop :=
  if tm_negate tm then ~ base_sat (tm_type tm) (tm_text tm) v
  else base_sat (tm_type tm) (tm_text tm) v.

Definition test_sat {A} (test : string) (P : A -> Prop) (l : list A) : Prop :=
  if is_anyof test then Exists P l else Forall P l.

Definition prop_sat (pf : prop_filter) (c : card) : Prop :=
  let insts := card_fields (pf_name pf) c in
  if pf_not_defined pf then insts = []
  else insts <> [] /\
       (pf_texts pf = [] \/
        Exists (fun f => test_sat (pf_test pf) (fun tm => text_sat tm (f_value f)) (pf_texts pf)) insts).

Definition query_sat (q : query) (c : card) : Prop :=
  test_sat (q_test q) (fun pf => prop_sat pf c) (q_filters q).

(** ** Limit and order *)

(** [Limit <= 0] means unlimited. *)
Definition firstn' {A} (n : Z) (l : list A) : list A :=
  if (n <=? 0)%Z then l else firstn (Z.to_nat n) l.

(** The first [k] matches in input order, projected - lazily: the verdict of an
    object is needed only while fewer than [k] matches have been found, and the
    result is undefined if a needed verdict is. *)
Fixpoint spec_take (q : query) (k : nat) (os : list object) : option (list object) :=
  match k with
  | O => Some []
  | S k' =>
    match os with
    | [] => Some []
    | o :: rest =>
      match rfc6352_query q (o_card o) with
      | None => None
      | Some false => spec_take q k rest
      | Some true =>
        match spec_take q k' rest with
        | Some l => Some (project (q_data q) o :: l)
        | None => None
        end
      end
    end
  end.

(** no more than [length os] objects can match, so that bound is "no limit"
    (and a limit is never worth more than it) *)
Definition spec_filter (q : query) (os : list object) : option (list object) :=
  let len := List.length os in
  spec_take q (if (q_limit q <=? 0)%Z then len else Z.to_nat (Z.min (q_limit q) (Z.of_nat len))) os.

Definition no_empty_card (os : list object) : Prop := Forall (fun o => o_card o <> []) os.
Definition no_empty_card_b (os : list object) : bool := forallb (fun o => negb (is_nil (o_card o))) os.

(** filterProperties is only defined on non-empty cards; the whole-card request never reaches it *)
Definition safe_request (q : query) (os : list object) : Prop :=
  dr_whole (q_data q) = true \/ no_empty_card os.
Definition safe_request_b (q : query) (os : list object) : bool :=
  dr_whole (q_data q) || no_empty_card_b os.

(** * Correspondence verdicts *)

(** observations of the Go calls: [MOther]/[FOther] is anything no model output
    equals (an argument was modified by the call, or the decoded-from-text copy of
    the card gave a different answer) *)
Inductive mobs := MOk (b : bool) | MErr | MPanic | MOther.
Inductive fobs := FOk (l : list object) | FErr | FPanic | FOther.

Definition field_eqb (a b : field) : bool :=
  String.eqb (f_value a) (f_value b) && String.eqb (f_rest a) (f_rest b).

Fixpoint list_eqb {A} (eqb : A -> A -> bool) (a b : list A) : bool :=
  match a, b with
  | [], [] => true
  | x :: a', y :: b' => eqb x y && list_eqb eqb a' b'
  | _, _ => false
  end.

Definition opt_fields_eqb (a b : option (list field)) : bool :=
  match a, b with
  | None, None => true
  | Some x, Some y => list_eqb field_eqb x y
  | _, _ => false
  end.

(** cards are compared as maps: the same binding (or none) under every key *)
Definition card_eqb (a b : card) : bool :=
  forallb (fun k => opt_fields_eqb (card_assoc k a) (card_assoc k b)) ((map fst a ++ map fst b)%list).

(** ContentLength ([o_len]) is carried by the model (filterProperties leaves it 0
    in a reduced object) but not compared: the property does not constrain it. *)
Definition object_eqb (a b : object) : bool :=
  String.eqb (o_path a) (o_path b) && String.eqb (o_etag a) (o_etag b) &&
  Z.eqb (o_mtime a) (o_mtime b) && card_eqb (o_card a) (o_card b).

Definition objs_eqb : list object -> list object -> bool := list_eqb object_eqb.

(** ** What a returned object may look like (specification side)

    "Reduced to VERSION plus the requested properties": for a card that has no
    VERSION property - no binding of the key, or a binding to no field - the
    reduced card denotes the same thing whether it binds VERSION to no field or
    does not bind it.  [vnorm] identifies the two in the VERSION slot only; a
    VERSION with values must be there with exactly those values, and every
    other key is compared exactly. *)
Definition vnorm (k : string) (v : option (list field)) : option (list field) :=
  if String.eqb k version_key then match v with Some [] => None | _ => v end else v.

Definition card_sim (a b : card) : bool :=
  forallb (fun k => opt_fields_eqb (vnorm k (card_assoc k a)) (vnorm k (card_assoc k b)))
          ((map fst a ++ map fst b)%list).

Definition object_sim (a b : object) : bool :=
  String.eqb (o_path a) (o_path b) && String.eqb (o_etag a) (o_etag b) &&
  Z.eqb (o_mtime a) (o_mtime b) && card_sim (o_card a) (o_card b).

(** a whole card is returned as it is; a reduced one up to the VERSION slot *)
Definition result_eqb (r : data_request) : object -> object -> bool :=
  if dr_whole r then object_eqb else object_sim.
Definition results_eqb (r : data_request) : list object -> list object -> bool :=
  list_eqb (result_eqb r).

Definition obs_of_match (r : res bool) : mobs :=
  match r with Ok b => MOk b | Err _ => MErr | Panic => MPanic end.
Definition obs_of_filter (r : res (list object)) : fobs :=
  match r with Ok l => FOk l | Err _ => FErr | Panic => FPanic end.

Definition mobs_eqb (a b : mobs) : bool :=
  match a, b with
  | MOk x, MOk y => Bool.eqb x y
  | MErr, MErr => true
  | MPanic, MPanic => true
  | _, _ => false
  end.
Definition fobs_eqb (a b : fobs) : bool :=
  match a, b with
  | FOk x, FOk y => objs_eqb x y
  | FErr, FErr => true
  | FPanic, FPanic => true
  | _, _ => false
  end.

(** [model_agrees_*]: the implementation did what the model says. *)
Definition model_agrees_match (q : option query) (ao : option object) (ob : mobs) : bool :=
  mobs_eqb (obs_of_match (match_query q ao)) ob.
Definition model_agrees_filter (q : option query) (os : list object) (ob : fobs) : bool :=
  fobs_eqb (obs_of_filter (filter_objs q os)) ob.

Definition opt_bool_eqb (a b : option bool) : bool :=
  match a, b with
  | None, None => true
  | Some x, Some y => Bool.eqb x y
  | _, _ => false
  end.

(** [spec_ok_*]: the implementation's observation meets the specification:
    a verdict only where the three-valued semantics is defined (it can be computed
    without consulting an unknown test or match type), and then that one;
    an error only - and always acceptably - for a query carrying an unknown test
    or match type anywhere, reached by the evaluation or not ("reported as an
    error, never guessed": the statement never demands a verdict for such a query);
    never a panic, never a modified argument. *)
Definition spec_ok_match (q : option query) (o : object) (ob : mobs) : bool :=
  match q with
  | None => mobs_eqb (MOk true) ob
  | Some q =>
    match ob with
    | MOk b => opt_bool_eqb (rfc6352_query q (o_card o)) (Some b)
    | MErr => negb (all_known_b q)
    | MPanic | MOther => false
    end
  end.

(** Filter: the list the lazy three-valued reading defines, each object compared
    by [result_eqb] (whole card: exactly; reduced card: up to the VERSION slot of
    a card without VERSION); or an error for a query carrying an unknown
    attribute.  Defined for every object list, empty cards included (their
    reduction binds nothing, or VERSION to no field). *)
Definition spec_ok_filter (q : option query) (os : list object) (ob : fobs) : bool :=
  match q with
  | None => fobs_eqb (FOk os) ob
  | Some q =>
    match ob with
    | FOk l => match spec_filter q os with Some e => results_eqb (q_data q) e l | None => false end
    | FErr => negb (all_known_b q)
    | FPanic | FOther => false
    end
  end.

(** Match on a nil object: the statement speaks about address objects, so no
    verdict is specified; reporting the unknown test or match type of the query
    is acceptable there too. *)
Definition spec_ok_match_nil (q : option query) (ob : mobs) : bool :=
  match q, ob with
  | Some q, MErr => negb (all_known_b q)
  | _, _ => false
  end.

(** the inputs on which the unchanged code is proved to meet the specification
    without a panic: an address object (not a nil pointer); for Filter, the whole
    card requested or no empty card (filterProperties panics on an empty card) *)
Definition in_domain_match (ao : option object) : bool :=
  match ao with Some _ => true | None => false end.
Definition in_domain_filter (q : option query) (os : list object) : bool :=
  match q with None => true | Some q => safe_request_b q os end.

(** what the oracle reports as "spec": the specification on every input; outside
    the domain above, where the unchanged code may panic, also the model's own
    behaviour (the panic is pinned, and the correct non-panicking result is
    accepted as well) *)
Definition spec_verdict_match (q : option query) (ao : option object) (ob : mobs) : bool :=
  match ao with
  | Some o => spec_ok_match q o ob
  | None => spec_ok_match_nil q ob || model_agrees_match q ao ob
  end.
Definition spec_verdict_filter (q : option query) (os : list object) (ob : fobs) : bool :=
  spec_ok_filter q os ob || (negb (in_domain_filter q os) && model_agrees_filter q os ob).
