(** CardMatchProofs.v - the model of carddav/match.go refines the three-valued
    RFC 6352 section 10.5 semantics; limit, order, projection, absence of panics;
    soundness of the oracle's verdict functions. *)
From GW Require Import Base CardMatch.

(** * The string tests mean what their names say *)

Lemma has_prefix_spec s p : has_prefix s p = true <-> exists b, s = p ++ b.
Proof.
  revert s. induction p as [|c p IH]; intros s; cbn [has_prefix].
  - split; [intros _; exists s; reflexivity | reflexivity].
  - destruct s as [|d s].
    + split; [discriminate | intros [b Hb]; discriminate].
    + rewrite Bool.andb_true_iff, Ascii.eqb_eq, IH. split.
      * intros [Hc [b Hb]]. subst. exists b. reflexivity.
      * intros [b Hb]. cbn [append] in Hb. inversion Hb; subst.
        split; [reflexivity | exists b; reflexivity].
Qed.

Lemma has_suffix_spec s t : has_suffix s t = true <-> exists a, s = a ++ t.
Proof.
  induction s as [|c s IH]; cbn [has_suffix].
  - rewrite Bool.orb_false_r, String.eqb_eq. split.
    + intros Hs. subst. exists "". reflexivity.
    + intros [a Ha]. destruct a as [|d a]; cbn [append] in Ha; [exact Ha | discriminate].
  - rewrite Bool.orb_true_iff, String.eqb_eq, IH. split.
    + intros [Hs | [a Ha]].
      * subst. exists "". reflexivity.
      * subst. exists (String c a). reflexivity.
    + intros [a Ha]. destruct a as [|d a]; cbn [append] in Ha.
      * left. exact Ha.
      * right. inversion Ha; subst. exists a. reflexivity.
Qed.

Lemma contains_spec s t : contains s t = true <-> exists a b, s = a ++ t ++ b.
Proof.
  induction s as [|c s IH]; cbn [contains].
  - rewrite Bool.orb_false_r, has_prefix_spec. split.
    + intros [b Hb]. exists "", b. exact Hb.
    + intros [a [b Hab]]. destruct a as [|d a]; cbn [append] in Hab; [|discriminate].
      exists b. exact Hab.
  - rewrite Bool.orb_true_iff, has_prefix_spec, IH. split.
    + intros [[b Hb] | [a [b Hab]]].
      * exists "", b. exact Hb.
      * subst. exists (String c a), b. reflexivity.
    + intros [a [b Hab]]. destruct a as [|d a]; cbn [append] in Hab.
      * left. exists b. exact Hab.
      * right. inversion Hab; subst. exists a, b. reflexivity.
Qed.

(** * Refinement: the sequential loops refine Kleene's connectives *)

(** A Go result refines a three-valued verdict: no panic, and a returned
    verdict is the defined one.  (So an undefined verdict forces an error.) *)
Definition refines (r : res bool) (k : option bool) : Prop :=
  match r with Ok b => k = Some b | Err _ => True | Panic => False end.

Lemma kor_false_l k : kor (Some false) k = k.
Proof. destruct k as [[|]|]; reflexivity. Qed.
Lemma kand_true_l k : kand (Some true) k = k.
Proof. destruct k as [[|]|]; reflexivity. Qed.

Lemma loop_any_refines {A} (f : A -> res bool) (g : A -> option bool) l :
  (forall x, In x l -> refines (f x) (g x)) ->
  refines (loop_any f l) (kany (map g l)).
Proof.
  induction l as [|a l IH]; intros H; cbn [loop_any map kany fold_right].
  - reflexivity.
  - pose proof (H a (or_introl eq_refl)) as Ha.
    assert (IH' : refines (loop_any f l) (kany (map g l)))
      by (apply IH; intros x Hx; apply H; right; exact Hx).
    destruct (f a) as [[|]|e|]; cbn [refines] in Ha |- *.
    + rewrite Ha. reflexivity.
    + rewrite Ha. fold (kany (map g l)). rewrite kor_false_l. exact IH'.
    + exact I.
    + exact Ha.
Qed.

Lemma loop_all_refines {A} (f : A -> res bool) (g : A -> option bool) l :
  (forall x, In x l -> refines (f x) (g x)) ->
  refines (loop_all f l) (kall (map g l)).
Proof.
  induction l as [|a l IH]; intros H; cbn [loop_all map kall fold_right].
  - reflexivity.
  - pose proof (H a (or_introl eq_refl)) as Ha.
    assert (IH' : refines (loop_all f l) (kall (map g l)))
      by (apply IH; intros x Hx; apply H; right; exact Hx).
    destruct (f a) as [[|]|e|]; cbn [refines] in Ha |- *.
    + rewrite Ha. fold (kall (map g l)). rewrite kand_true_l. exact IH'.
    + rewrite Ha. reflexivity.
    + exact I.
    + exact Ha.
Qed.

Lemma by_test_refines {A} t (f : A -> res bool) (g : A -> option bool) l :
  (forall x, In x l -> refines (f x) (g x)) ->
  refines (by_test t f l) (combine t (map g l)).
Proof.
  intros H. unfold by_test, combine, is_anyof, is_allof.
  destruct (String.eqb t "anyof" || String.eqb t "") eqn:Eany.
  - apply loop_any_refines; exact H.
  - destruct (String.eqb t "allof") eqn:Eall.
    + apply loop_all_refines; exact H.
    + exact I.
Qed.

Lemma match_text_refines tm f :
  refines (match_text_match tm f) (rfc_text tm (f_value f)).
Proof.
  destruct tm as [text neg ty]. destruct f as [v rest].
  unfold match_text_match, rfc_text, rfc_base. cbn [tm_type tm_text tm_negate f_value].
  rewrite (String.eqb_sym text v).
  destruct (String.eqb ty "equals") eqn:E1.
  { destruct neg, (String.eqb v text); reflexivity. }
  destruct (String.eqb ty "contains" || String.eqb ty "") eqn:E2.
  { apply Bool.orb_true_iff in E2.
    destruct E2 as [E2|E2]; apply String.eqb_eq in E2; subst ty; cbn;
      destruct neg, (contains v text); reflexivity. }
  destruct (String.eqb ty "starts-with") eqn:E3.
  { destruct neg, (has_prefix v text); reflexivity. }
  destruct (String.eqb ty "ends-with") eqn:E4.
  { destruct neg, (has_suffix v text); reflexivity. }
  exact I.
Qed.

Lemma match_field_refines pf f :
  refines (match_field pf f)
          (combine (pf_test pf) (map (fun tm => rfc_text tm (f_value f)) (pf_texts pf))).
Proof.
  unfold match_field. apply by_test_refines. intros tm _. apply match_text_refines.
Qed.

Lemma is_nil_true {A} (l : list A) : is_nil l = true <-> l = [].
Proof. destruct l; cbn; split; congruence. Qed.
Lemma is_nil_false {A} (l : list A) : is_nil l = false <-> l <> [].
Proof. destruct l; cbn; split; congruence. Qed.

Lemma match_prop_filter_refines pf o :
  refines (match_prop_filter pf (Some o)) (rfc_prop pf (o_card o)).
Proof.
  unfold match_prop_filter, rfc_prop.
  destruct (is_nil (card_fields (pf_name pf) (o_card o))) eqn:Enil.
  - apply is_nil_true in Enil. rewrite Enil.
    destruct (pf_not_defined pf); [reflexivity|].
    destruct (is_nil (pf_texts pf)); reflexivity.
  - destruct (pf_not_defined pf); [reflexivity|].
    destruct (is_nil (pf_texts pf)) eqn:Etx; [reflexivity|].
    apply loop_any_refines. intros f _. apply match_field_refines.
Qed.

Lemma match_query_refines q o :
  refines (match_query (Some q) (Some o)) (rfc6352_query q (o_card o)).
Proof.
  unfold match_query, rfc6352_query. apply by_test_refines.
  intros pf _. apply match_prop_filter_refines.
Qed.

Lemma match_sound q o b :
  match_query (Some q) (Some o) = Ok b -> rfc6352_query q (o_card o) = Some b.
Proof.
  intros H. pose proof (match_query_refines q o) as R. rewrite H in R. exact R.
Qed.

Lemma match_reports q o :
  rfc6352_query q (o_card o) = None -> exists e, match_query (Some q) (Some o) = Err e.
Proof.
  intros H. pose proof (match_query_refines q o) as R.
  destruct (match_query (Some q) (Some o)) as [b|e|]; cbn [refines] in R.
  - congruence.
  - exists e. reflexivity.
  - contradiction.
Qed.

Lemma match_nil_query ao : match_query None ao = Ok true.
Proof. reflexivity. Qed.

(** * Totality on queries without unknown attributes *)

Lemma loop_any_total {A} (f : A -> res bool) l :
  (forall x, In x l -> exists b, f x = Ok b) -> exists b, loop_any f l = Ok b.
Proof.
  induction l as [|a l IH]; intros H; cbn [loop_any].
  - exists false. reflexivity.
  - destruct (H a (or_introl eq_refl)) as [b Hb]. rewrite Hb.
    destruct b; [exists true; reflexivity|].
    apply IH. intros x Hx. apply H. right. exact Hx.
Qed.

Lemma loop_all_total {A} (f : A -> res bool) l :
  (forall x, In x l -> exists b, f x = Ok b) -> exists b, loop_all f l = Ok b.
Proof.
  induction l as [|a l IH]; intros H; cbn [loop_all].
  - exists true. reflexivity.
  - destruct (H a (or_introl eq_refl)) as [b Hb]. rewrite Hb.
    destruct b; [|exists false; reflexivity].
    apply IH. intros x Hx. apply H. right. exact Hx.
Qed.

Lemma by_test_total {A} t (f : A -> res bool) l :
  known_test t = true ->
  (forall x, In x l -> exists b, f x = Ok b) -> exists b, by_test t f l = Ok b.
Proof.
  unfold known_test, is_anyof, is_allof, by_test. intros Hk H.
  destruct (String.eqb t "anyof" || String.eqb t "") eqn:Eany.
  - apply loop_any_total; exact H.
  - cbn [orb] in Hk. rewrite Hk. apply loop_all_total; exact H.
Qed.

Lemma match_text_total tm f :
  known_type (tm_type tm) = true -> exists b, match_text_match tm f = Ok b.
Proof.
  destruct tm as [text neg ty]. cbn [tm_type]. unfold known_type. intros H.
  repeat rewrite Bool.orb_true_iff in H.
  destruct H as [[[[H|H]|H]|H]|H]; apply String.eqb_eq in H; subst ty;
    eexists; reflexivity.
Qed.

Lemma all_known_parts q :
  all_known q ->
  known_test (q_test q) = true /\
  forall pf, In pf (q_filters q) ->
    known_test (pf_test pf) = true /\
    forall tm, In tm (pf_texts pf) -> known_type (tm_type tm) = true.
Proof.
  unfold all_known, all_known_b. intros H.
  apply Bool.andb_true_iff in H. destruct H as [Ht Hf]. split; [exact Ht|].
  intros pf Hpf. rewrite forallb_forall in Hf. specialize (Hf pf Hpf).
  apply Bool.andb_true_iff in Hf. destruct Hf as [Hpt Htm]. split; [exact Hpt|].
  intros tm Htmi. rewrite forallb_forall in Htm. apply Htm. exact Htmi.
Qed.

Lemma match_prop_filter_total pf o :
  known_test (pf_test pf) = true ->
  (forall tm, In tm (pf_texts pf) -> known_type (tm_type tm) = true) ->
  exists b, match_prop_filter pf (Some o) = Ok b.
Proof.
  intros Hk Htm. unfold match_prop_filter.
  destruct (is_nil (card_fields (pf_name pf) (o_card o))); [eexists; reflexivity|].
  destruct (pf_not_defined pf); [eexists; reflexivity|].
  destruct (is_nil (pf_texts pf)); [eexists; reflexivity|].
  apply loop_any_total. intros f _. unfold match_field.
  apply by_test_total; [exact Hk|]. intros tm Hin. apply match_text_total. apply Htm. exact Hin.
Qed.

Lemma match_total_ex q o : all_known q -> exists b, match_query (Some q) (Some o) = Ok b.
Proof.
  intros H. destruct (all_known_parts q H) as [Ht Hf]. unfold match_query.
  apply by_test_total; [exact Ht|]. intros pf Hpf. destruct (Hf pf Hpf) as [Hpt Htm].
  apply match_prop_filter_total; assumption.
Qed.

Lemma match_total q o :
  all_known q -> match_query (Some q) (Some o) = Ok (sem_query q (o_card o)).
Proof.
  intros H. destruct (match_total_ex q o H) as [b Hb]. rewrite Hb.
  unfold sem_query. rewrite (match_sound q o b Hb). reflexivity.
Qed.

Lemma match_err_unknown q o e :
  match_query (Some q) (Some o) = Err e -> all_known_b q = false.
Proof.
  intros H. destruct (all_known_b q) eqn:E; [|reflexivity].
  destruct (match_total_ex q o E) as [b Hb]. congruence.
Qed.

Lemma all_known_defined q c : all_known q -> exists b, rfc6352_query q c = Some b.
Proof.
  intros H. pose (o := {| o_path := ""; o_etag := ""; o_mtime := 0; o_len := 0; o_card := c |}).
  destruct (match_total_ex q o H) as [b Hb]. exists b. apply (match_sound q o b Hb).
Qed.

(** * The three-valued semantics is the declarative one where it is defined *)

Definition reflects (k : option bool) (P : Prop) : Prop :=
  exists b, k = Some b /\ (b = true <-> P).

Lemma reflects_some b P : (b = true <-> P) -> reflects (Some b) P.
Proof. intros H. exists b. split; [reflexivity | exact H]. Qed.

Lemma kany_reflects {A} (g : A -> option bool) (P : A -> Prop) l :
  (forall x, In x l -> reflects (g x) (P x)) ->
  reflects (kany (map g l)) (Exists P l).
Proof.
  induction l as [|a l IH]; intros H; cbn [map kany fold_right].
  - apply reflects_some. split; [discriminate | intros HE; inversion HE].
  - destruct (H a (or_introl eq_refl)) as [b [Hg Hb]].
    destruct IH as [b' [Hk Hb']]; [intros x Hx; apply H; right; exact Hx|].
    fold (kany (map g l)). rewrite Hg, Hk. exists (b || b'). split.
    + destruct b, b'; reflexivity.
    + rewrite Bool.orb_true_iff, Exists_cons, Hb, Hb'. reflexivity.
Qed.

Lemma kall_reflects {A} (g : A -> option bool) (P : A -> Prop) l :
  (forall x, In x l -> reflects (g x) (P x)) ->
  reflects (kall (map g l)) (Forall P l).
Proof.
  induction l as [|a l IH]; intros H; cbn [map kall fold_right].
  - apply reflects_some. split; [intros _; constructor | reflexivity].
  - destruct (H a (or_introl eq_refl)) as [b [Hg Hb]].
    destruct IH as [b' [Hk Hb']]; [intros x Hx; apply H; right; exact Hx|].
    fold (kall (map g l)). rewrite Hg, Hk. exists (b && b'). split.
    + destruct b, b'; reflexivity.
    + rewrite Bool.andb_true_iff, Forall_cons_iff, Hb, Hb'. reflexivity.
Qed.

Lemma combine_reflects {A} t (g : A -> option bool) (P : A -> Prop) l :
  known_test t = true ->
  (forall x, In x l -> reflects (g x) (P x)) ->
  reflects (combine t (map g l)) (test_sat t P l).
Proof.
  unfold known_test, combine, test_sat. intros Hk H.
  destruct (is_anyof t).
  - apply kany_reflects; exact H.
  - cbn [orb] in Hk. rewrite Hk. apply kall_reflects; exact H.
Qed.

Lemma rfc_base_reflects ty t v :
  known_type ty = true -> reflects (rfc_base ty t v) (base_sat ty t v).
Proof.
  unfold known_type. intros H. repeat rewrite Bool.orb_true_iff in H.
  destruct H as [[[[H|H]|H]|H]|H]; apply String.eqb_eq in H; subst ty;
    unfold rfc_base, base_sat; cbn [String.eqb Ascii.eqb Bool.eqb orb andb];
    apply reflects_some.
  - apply contains_spec.
  - apply String.eqb_eq.
  - apply contains_spec.
  - apply has_prefix_spec.
  - apply has_suffix_spec.
Qed.

Lemma rfc_text_reflects tm v :
  known_type (tm_type tm) = true -> reflects (rfc_text tm v) (text_sat tm v).
Proof.
  intros H. destruct (rfc_base_reflects (tm_type tm) (tm_text tm) v H) as [b [Hb Hiff]].
  unfold rfc_text, text_sat. rewrite Hb. apply reflects_some.
  destruct (tm_negate tm); cbn [xorb].
  - destruct b; split; intros H1.
    + discriminate.
    + exfalso. apply H1. apply Hiff. reflexivity.
    + intros H2. apply Hiff in H2. discriminate.
    + reflexivity.
  - destruct b; exact Hiff.
Qed.

Lemma rfc_prop_reflects pf c :
  known_test (pf_test pf) = true ->
  (forall tm, In tm (pf_texts pf) -> known_type (tm_type tm) = true) ->
  reflects (rfc_prop pf c) (prop_sat pf c).
Proof.
  intros Hk Htm. unfold rfc_prop, prop_sat.
  destruct (pf_not_defined pf).
  - apply reflects_some. apply is_nil_true.
  - destruct (is_nil (pf_texts pf)) eqn:Etx.
    + apply is_nil_true in Etx. apply reflects_some. rewrite Bool.negb_true_iff, is_nil_false.
      split; [intros H; split; [exact H | left; exact Etx] | intros [H _]; exact H].
    + apply is_nil_false in Etx.
      destruct (kany_reflects
                  (fun f => combine (pf_test pf) (map (fun tm => rfc_text tm (f_value f)) (pf_texts pf)))
                  (fun f => test_sat (pf_test pf) (fun tm => text_sat tm (f_value f)) (pf_texts pf))
                  (card_fields (pf_name pf) c)) as [b [Hb Hiff]].
      { intros f _. apply combine_reflects; [exact Hk|].
        intros tm Hin. apply rfc_text_reflects. apply Htm. exact Hin. }
      exists b. split; [exact Hb|]. rewrite Hiff. split.
      * intros HE. split; [|right; exact HE].
        intros Hnil. rewrite Hnil in HE. inversion HE.
      * intros [_ [Hno | HE]]; [contradiction | exact HE].
Qed.

Lemma rfc_query_reflects q c :
  all_known q -> reflects (rfc6352_query q c) (query_sat q c).
Proof.
  intros H. destruct (all_known_parts q H) as [Ht Hf].
  unfold rfc6352_query, query_sat. apply combine_reflects; [exact Ht|].
  intros pf Hpf. destruct (Hf pf Hpf) as [Hpt Htm]. apply rfc_prop_reflects; assumption.
Qed.

Lemma sem_query_sat q c : all_known q -> (sem_query q c = true <-> query_sat q c).
Proof.
  intros H. destruct (rfc_query_reflects q c H) as [b [Hb Hiff]].
  unfold sem_query. rewrite Hb. exact Hiff.
Qed.

(** Match decides the declarative semantics on every query without unknown attributes. *)
Lemma match_total_sat q o :
  all_known q ->
  exists b, match_query (Some q) (Some o) = Ok b /\ (b = true <-> query_sat q (o_card o)).
Proof.
  intros H. exists (sem_query q (o_card o)). split.
  - apply match_total; exact H.
  - apply sem_query_sat; exact H.
Qed.

(** * Projection *)

Lemma card_assoc_set k k' v c :
  card_assoc k (card_set k' v c) = if String.eqb k' k then Some v else card_assoc k c.
Proof.
  induction c as [|[k0 v0] r IH]; cbn [card_set card_assoc].
  - reflexivity.
  - destruct (String.eqb k0 k') eqn:E0; cbn [card_assoc].
    + apply String.eqb_eq in E0. subst k0. destruct (String.eqb k' k); reflexivity.
    + rewrite IH. destruct (String.eqb k0 k) eqn:E1; [|reflexivity].
      apply String.eqb_eq in E1. subst k0. rewrite (String.eqb_sym k' k), E0. reflexivity.
Qed.

Definition proj_step (c : card) (acc : card) (p : string) : card :=
  match card_assoc p c with Some v => card_set p v acc | None => acc end.

Lemma proj_step_assoc c acc p k :
  card_assoc k (proj_step c acc p) =
  if String.eqb k p
  then match card_assoc k c with Some v => Some v | None => card_assoc k acc end
  else card_assoc k acc.
Proof.
  unfold proj_step. destruct (String.eqb k p) eqn:Ekp.
  - apply String.eqb_eq in Ekp. subst p.
    destruct (card_assoc k c) as [v|]; [|reflexivity].
    rewrite card_assoc_set, String.eqb_refl. reflexivity.
  - destruct (card_assoc p c) as [v|]; [|reflexivity].
    rewrite card_assoc_set, (String.eqb_sym p k), Ekp. reflexivity.
Qed.

Lemma proj_fold_assoc c k props : forall acc,
  card_assoc k (fold_left (proj_step c) props acc) =
  if existsb (String.eqb k) props
  then match card_assoc k c with Some v => Some v | None => card_assoc k acc end
  else card_assoc k acc.
Proof.
  induction props as [|p ps IH]; intros acc; cbn [fold_left existsb].
  - reflexivity.
  - rewrite IH, proj_step_assoc.
    destruct (String.eqb k p), (existsb (String.eqb k) ps), (card_assoc k c); reflexivity.
Qed.

(** what the reduced card binds: VERSION always (to the source's VERSION fields,
    none if it has none), a requested name iff the source binds it, to the same
    field list; nothing else *)
Lemma project_card_assoc props c k :
  card_assoc k (project_card props c) =
  if String.eqb k version_key then Some (card_fields version_key c)
  else if existsb (String.eqb k) props then card_assoc k c else None.
Proof.
  unfold project_card. change (fun acc p => match card_assoc p c with Some v => card_set p v acc | None => acc end)
    with (proj_step c).
  rewrite proj_fold_assoc. cbn [card_assoc].
  rewrite (String.eqb_sym version_key k).
  destruct (String.eqb k version_key) eqn:Ev.
  - apply String.eqb_eq in Ev. subst k. unfold card_fields.
    destruct (existsb (String.eqb version_key) props); [|reflexivity].
    destruct (card_assoc version_key c); reflexivity.
  - destruct (existsb (String.eqb k) props); [|reflexivity].
    destruct (card_assoc k c); reflexivity.
Qed.

Lemma project_whole r o : dr_whole r = true -> project r o = o.
Proof. intros H. unfold project. rewrite H. reflexivity. Qed.

Lemma project_reduced r o :
  dr_whole r = false ->
  o_path (project r o) = o_path o /\ o_etag (project r o) = o_etag o /\
  o_mtime (project r o) = o_mtime o /\
  forall k, card_assoc k (o_card (project r o)) =
            if String.eqb k version_key then Some (card_fields version_key (o_card o))
            else if existsb (String.eqb k) (dr_props r) then card_assoc k (o_card o) else None.
Proof.
  intros H. unfold project. rewrite H. cbn [o_path o_etag o_mtime o_card].
  repeat split. intros k. apply project_card_assoc.
Qed.

Lemma filter_properties_ok r o :
  dr_whole r = true \/ o_card o <> [] -> filter_properties r o = Ok (project r o).
Proof.
  intros H. unfold filter_properties, project.
  destruct (dr_whole r) eqn:Ew; [reflexivity|].
  destruct H as [H|H]; [discriminate|].
  destruct (o_card o); [contradiction | reflexivity].
Qed.

Lemma filter_properties_panics r o :
  filter_properties r o = Panic <-> dr_whole r = false /\ o_card o = [].
Proof.
  unfold filter_properties. destruct (dr_whole r); [split; [discriminate | intros [H _]; discriminate]|].
  destruct (o_card o); cbn [is_nil]; split; try discriminate; auto.
  intros [_ H]. discriminate.
Qed.

(** * Filter: order, limit, projection *)

Definition safe_objs (q : query) (os : list object) : Prop :=
  forall o, In o os -> dr_whole (q_data q) = true \/ o_card o <> [].

Lemma safe_request_objs q os : safe_request q os -> safe_objs q os.
Proof.
  intros [H|H] o Ho; [left; exact H | right].
  unfold no_empty_card in H. rewrite Forall_forall in H. apply H. exact Ho.
Qed.

Lemma safe_objs_tail q a os : safe_objs q (a :: os) -> safe_objs q os.
Proof. intros H o Ho. apply H. right. exact Ho. Qed.

(** the loop, when every verdict is available *)
Lemma filter_loop_known q (m : object -> bool) : forall os out k n,
  n = Z.of_nat (List.length out + S k) ->
  (forall o, In o os -> match_query (Some q) (Some o) = Ok (m o)) ->
  safe_objs q os ->
  filter_loop q n os out =
  Ok (out ++ firstn (S k) (map (project (q_data q)) (filter m os)))%list.
Proof.
  induction os as [|a os IH]; intros out k n Hn Hm Hs.
  - cbn [filter_loop filter map firstn]. rewrite app_nil_r. reflexivity.
  - cbn [filter_loop]. rewrite (Hm a (or_introl eq_refl)).
    assert (Hm' : forall o, In o os -> match_query (Some q) (Some o) = Ok (m o))
      by (intros o Ho; apply Hm; right; exact Ho).
    pose proof (safe_objs_tail q a os Hs) as Hs'.
    cbn [filter]. destruct (m a) eqn:Ema.
    + rewrite (filter_properties_ok (q_data q) a (Hs a (or_introl eq_refl))).
      cbv zeta. rewrite app_length. cbn [List.length map].
      destruct k as [|k'].
      * replace (n <=? Z.of_nat (List.length out + 1))%Z with true
          by (symmetry; apply Z.leb_le; lia).
        cbn [firstn]. reflexivity.
      * replace (n <=? Z.of_nat (List.length out + 1))%Z with false
          by (symmetry; apply Z.leb_gt; lia).
        rewrite (IH (out ++ [project (q_data q) a])%list k' n); try assumption.
        -- rewrite <- app_assoc. reflexivity.
        -- rewrite app_length. cbn [List.length]. lia.
    + apply IH; assumption.
Qed.

Lemma firstn_all_le {A} (l : list A) n : (List.length l <= n)%nat -> firstn n l = l.
Proof. intros H. apply firstn_all2. exact H. Qed.

Lemma filter_map_length_le {A B} (f : A -> B) (p : A -> bool) l :
  (List.length (map f (filter p l)) <= List.length l)%nat.
Proof.
  rewrite map_length. induction l as [|a l IH]; cbn [filter List.length]; [lia|].
  destruct (p a); cbn [List.length]; lia.
Qed.

Lemma filter_known q (m : object -> bool) os :
  (forall o, In o os -> match_query (Some q) (Some o) = Ok (m o)) ->
  safe_objs q os ->
  filter_objs (Some q) os =
  Ok (firstn' (q_limit q) (map (project (q_data q)) (filter m os))).
Proof.
  intros Hm Hs. unfold filter_objs. cbv zeta.
  destruct os as [|a os'] eqn:Eos.
  { cbn [filter_loop filter map]. unfold firstn'. destruct (q_limit q <=? 0)%Z; [reflexivity|].
    rewrite firstn_nil. reflexivity. }
  rewrite <- Eos in *. 
  assert (Hlen : (1 <= List.length os)%nat) by (rewrite Eos; cbn [List.length]; lia).
  pose proof (filter_map_length_le (project (q_data q)) m os) as HL.
  set (L := map (project (q_data q)) (filter m os)) in *.
  unfold firstn'.
  destruct (q_limit q <=? 0)%Z eqn:E0; cbn [orb].
  - rewrite (filter_loop_known q m os [] (List.length os - 1) (Z.of_nat (List.length os)));
      try assumption; [|cbn [List.length]; lia].
    cbn [app]. fold L. replace (S (List.length os - 1)) with (List.length os) by lia.
    rewrite firstn_all_le by exact HL. reflexivity.
  - apply Z.leb_gt in E0.
    destruct (Z.of_nat (List.length os) <? q_limit q)%Z eqn:E1.
    + apply Z.ltb_lt in E1.
      rewrite (filter_loop_known q m os [] (List.length os - 1) (Z.of_nat (List.length os)));
        try assumption; [|cbn [List.length]; lia].
      cbn [app]. fold L. replace (S (List.length os - 1)) with (List.length os) by lia.
      rewrite firstn_all_le by exact HL.
      rewrite firstn_all_le by lia. reflexivity.
    + apply Z.ltb_ge in E1.
      rewrite (filter_loop_known q m os [] (Z.to_nat (q_limit q) - 1) (q_limit q));
        try assumption; [|cbn [List.length]; lia].
      cbn [app]. fold L. replace (S (Z.to_nat (q_limit q) - 1)) with (Z.to_nat (q_limit q)) by lia.
      reflexivity.
Qed.

(** Filter on a query without unknown attributes: the matching objects, in
    input order, projected, cut to the first Limit when Limit is positive. *)
Lemma filter_spec q os :
  all_known q -> safe_request q os ->
  filter_objs (Some q) os =
  Ok (firstn' (q_limit q)
        (map (project (q_data q)) (filter (fun o => sem_query q (o_card o)) os))).
Proof.
  intros Hk Hs. apply filter_known.
  - intros o _. apply match_total. exact Hk.
  - apply safe_request_objs. exact Hs.
Qed.

Lemma filter_nil_query os : filter_objs None os = Ok os.
Proof. reflexivity. Qed.

Lemma spec_take_0 q os : spec_take q 0 os = Some [].
Proof. destruct os; reflexivity. Qed.

(** the loop in general: it refines the lazy three-valued reading *)
Lemma filter_loop_refines q : forall os out k n,
  n = Z.of_nat (List.length out + S k) ->
  safe_objs q os ->
  match filter_loop q n os out with
  | Ok l => exists e, spec_take q (S k) os = Some e /\ l = (out ++ e)%list
  | Err _ => True
  | Panic => False
  end.
Proof.
  induction os as [|a os IH]; intros out k n Hn Hs.
  - cbn [filter_loop spec_take]. exists []. split; [reflexivity | rewrite app_nil_r; reflexivity].
  - cbn [filter_loop]. pose proof (match_query_refines q a) as R.
    pose proof (safe_objs_tail q a os Hs) as Hs'.
    destruct (match_query (Some q) (Some a)) as [[|]|e|]; cbn [refines] in R.
    + rewrite (filter_properties_ok (q_data q) a (Hs a (or_introl eq_refl))).
      cbv zeta. rewrite app_length. cbn [List.length].
      destruct k as [|k'].
      * replace (n <=? Z.of_nat (List.length out + 1))%Z with true
          by (symmetry; apply Z.leb_le; lia).
        exists [project (q_data q) a]. split; [|reflexivity].
        cbn [spec_take]. rewrite R, spec_take_0. reflexivity.
      * replace (n <=? Z.of_nat (List.length out + 1))%Z with false
          by (symmetry; apply Z.leb_gt; lia).
        assert (Hn' : n = Z.of_nat (List.length (out ++ [project (q_data q) a])%list + S k'))
          by (rewrite app_length; cbn [List.length]; lia).
        specialize (IH (out ++ [project (q_data q) a])%list k' n Hn' Hs').
        destruct (filter_loop q n os (out ++ [project (q_data q) a])%list) as [l|e|];
          [|exact I|exact IH].
        destruct IH as [e [He Hl]]. exists (project (q_data q) a :: e). split.
        -- change (spec_take q (S (S k')) (a :: os)) with
             (match rfc6352_query q (o_card a) with
              | None => None
              | Some false => spec_take q (S (S k')) os
              | Some true => match spec_take q (S k') os with
                             | Some l => Some (project (q_data q) a :: l) | None => None end
              end).
           rewrite R, He. reflexivity.
        -- rewrite Hl, <- app_assoc. reflexivity.
    + specialize (IH out k n Hn Hs').
      destruct (filter_loop q n os out) as [l|e|]; [|exact I|exact IH].
      destruct IH as [e [He Hl]]. exists e. split; [|exact Hl].
      cbn [spec_take]. rewrite R. exact He.
    + exact I.
    + exact R.
Qed.

Lemma spec_take_nil q k : spec_take q k [] = Some [].
Proof. destruct k; reflexivity. Qed.

(** a bound of at least the number of objects is no bound *)
Lemma spec_take_ge q : forall os k k',
  (List.length os <= k)%nat -> (List.length os <= k')%nat -> spec_take q k os = spec_take q k' os.
Proof.
  induction os as [|a os IH]; intros k k' H H'.
  - rewrite !spec_take_nil. reflexivity.
  - cbn [List.length] in H, H'. destruct k as [|k]; [lia|]. destruct k' as [|k']; [lia|].
    cbn [spec_take]. destruct (rfc6352_query q (o_card a)) as [[|]|]; [| |reflexivity].
    + rewrite (IH k k') by lia. reflexivity.
    + apply IH; lia.
Qed.

(** the lazy reading is [firstn] of the projected matches when every verdict is defined *)
Lemma spec_take_defined q : forall os k,
  (forall o, In o os -> exists b, rfc6352_query q (o_card o) = Some b) ->
  spec_take q k os =
  Some (firstn k (map (project (q_data q)) (filter (fun o => sem_query q (o_card o)) os))).
Proof.
  induction os as [|a os IH]; intros k H.
  - rewrite spec_take_nil. cbn [filter map]. rewrite firstn_nil. reflexivity.
  - destruct k as [|k]; [reflexivity|].
    assert (H' : forall o, In o os -> exists b, rfc6352_query q (o_card o) = Some b)
      by (intros o Ho; apply H; right; exact Ho).
    destruct (H a (or_introl eq_refl)) as [b Hb].
    cbn [spec_take filter]. unfold sem_query at 1. rewrite Hb.
    destruct b.
    + cbn [map firstn]. rewrite (IH k H'). reflexivity.
    + apply IH. exact H'.
Qed.

Lemma spec_filter_defined q os :
  all_known q ->
  spec_filter q os =
  Some (firstn' (q_limit q)
          (map (project (q_data q)) (filter (fun o => sem_query q (o_card o)) os))).
Proof.
  intros Hk. unfold spec_filter, firstn'. cbv zeta.
  rewrite spec_take_defined by (intros o _; apply all_known_defined; exact Hk).
  pose proof (filter_map_length_le (project (q_data q)) (fun o => sem_query q (o_card o)) os) as HL.
  destruct (q_limit q <=? 0)%Z eqn:E0.
  - rewrite firstn_all_le by exact HL. reflexivity.
  - apply Z.leb_gt in E0.
    destruct (Z.of_nat (List.length os) <? q_limit q)%Z eqn:E1.
    + apply Z.ltb_lt in E1. rewrite !firstn_all_le by lia. reflexivity.
    + apply Z.ltb_ge in E1. rewrite Z.min_l by lia. reflexivity.
Qed.

Lemma filter_refines q os :
  safe_request q os ->
  match filter_objs (Some q) os with
  | Ok l => spec_filter q os = Some l
  | Err _ => all_known_b q = false
  | Panic => False
  end.
Proof.
  intros Hs. pose proof (safe_request_objs q os Hs) as Hso.
  destruct (all_known_b q) eqn:Ek.
  { rewrite (filter_spec q os Ek Hs). rewrite (spec_filter_defined q os Ek). reflexivity. }
  unfold filter_objs, spec_filter. cbv zeta.
  destruct os as [|a os'] eqn:Eos.
  { cbn [filter_loop]. rewrite spec_take_nil. reflexivity. }
  rewrite <- Eos in *.
  assert (Hlen : (1 <= List.length os)%nat) by (rewrite Eos; cbn [List.length]; lia).
  destruct (q_limit q <=? 0)%Z eqn:E0; cbn [orb].
  - pose proof (filter_loop_refines q os [] (List.length os - 1) (Z.of_nat (List.length os))) as R.
    destruct (filter_loop q (Z.of_nat (List.length os)) os []) as [l|e|].
    + destruct R as [e [He Hl]]; [cbn [List.length]; lia | exact Hso |].
      cbn [app] in Hl. subst l. rewrite <- He. f_equal. lia.
    + reflexivity.
    + apply R; [cbn [List.length]; lia | exact Hso].
  - apply Z.leb_gt in E0.
    destruct (Z.of_nat (List.length os) <? q_limit q)%Z eqn:E1.
    + apply Z.ltb_lt in E1.
      pose proof (filter_loop_refines q os [] (List.length os - 1) (Z.of_nat (List.length os))) as R.
      destruct (filter_loop q (Z.of_nat (List.length os)) os []) as [l|e|].
      * destruct R as [e [He Hl]]; [cbn [List.length]; lia | exact Hso |].
        cbn [app] in Hl. subst l. rewrite <- He. apply spec_take_ge; lia.
      * reflexivity.
      * apply R; [cbn [List.length]; lia | exact Hso].
    + apply Z.ltb_ge in E1.
      pose proof (filter_loop_refines q os [] (Z.to_nat (q_limit q) - 1) (q_limit q)) as R.
      destruct (filter_loop q (q_limit q) os []) as [l|e|].
      * destruct R as [e [He Hl]]; [cbn [List.length]; lia | exact Hso |].
        cbn [app] in Hl. subst l. rewrite <- He. f_equal. lia.
      * reflexivity.
      * apply R; [cbn [List.length]; lia | exact Hso].
Qed.

(** * No panics *)

Lemma match_no_panic q o : match_query q (Some o) <> Panic.
Proof.
  destruct q as [q|]; [|discriminate].
  pose proof (match_query_refines q o) as R. intros H. rewrite H in R. exact R.
Qed.

Lemma filter_no_panic q os :
  match q with Some q' => safe_request q' os | None => True end ->
  filter_objs q os <> Panic.
Proof.
  destruct q as [q|]; [|discriminate].
  intros Hs H. pose proof (filter_refines q os Hs) as R. rewrite H in R. exact R.
Qed.

(** * The comparison functions of the oracle *)

Lemma field_eqb_eq a b : field_eqb a b = true <-> a = b.
Proof.
  destruct a as [v1 r1], b as [v2 r2]. unfold field_eqb. cbn [f_value f_rest].
  rewrite Bool.andb_true_iff, !String.eqb_eq. split.
  - intros [H1 H2]. subst. reflexivity.
  - intros H. inversion H. split; reflexivity.
Qed.

Lemma list_eqb_eq {A} (eqb : A -> A -> bool) :
  (forall x y, eqb x y = true <-> x = y) ->
  forall a b, list_eqb eqb a b = true <-> a = b.
Proof.
  intros He. induction a as [|x a IH]; intros [|y b]; cbn [list_eqb];
    try (split; [discriminate | intros H; discriminate]).
  - split; reflexivity.
  - rewrite Bool.andb_true_iff, He, IH. split.
    + intros [H1 H2]. subst. reflexivity.
    + intros H. inversion H. split; reflexivity.
Qed.

Lemma opt_fields_eqb_eq a b : opt_fields_eqb a b = true <-> a = b.
Proof.
  destruct a as [x|], b as [y|]; cbn [opt_fields_eqb];
    try (split; [discriminate | intros H; discriminate]).
  - rewrite (list_eqb_eq field_eqb field_eqb_eq). split; [intros H; subst; reflexivity | intros H; inversion H; reflexivity].
  - split; reflexivity.
Qed.

Lemma card_assoc_in k c v : card_assoc k c = Some v -> In k (map fst c).
Proof.
  induction c as [|[k0 v0] r IH]; cbn [card_assoc map fst]; [discriminate|].
  destruct (String.eqb k0 k) eqn:E; intros H.
  - left. apply String.eqb_eq. exact E.
  - right. apply IH. exact H.
Qed.

(** cards compare equal iff they are the same map *)
Lemma card_eqb_spec a b : card_eqb a b = true <-> forall k, card_assoc k a = card_assoc k b.
Proof.
  unfold card_eqb. rewrite forallb_forall. split.
  - intros H k.
    destruct (card_assoc k a) as [x|] eqn:Ea.
    + rewrite <- Ea. apply opt_fields_eqb_eq. apply H. apply in_or_app. left.
      apply (card_assoc_in k a x Ea).
    + destruct (card_assoc k b) as [y|] eqn:Eb; [|reflexivity].
      rewrite <- Ea, <- Eb. apply opt_fields_eqb_eq. apply H. apply in_or_app. right.
      apply (card_assoc_in k b y Eb).
  - intros H k _. apply opt_fields_eqb_eq. apply H.
Qed.

Lemma card_eqb_refl a : card_eqb a a = true.
Proof. apply card_eqb_spec. reflexivity. Qed.

Lemma card_eqb_trans a b c : card_eqb a b = true -> card_eqb b c = true -> card_eqb a c = true.
Proof.
  rewrite !card_eqb_spec. intros H1 H2 k. rewrite H1. apply H2.
Qed.

Lemma object_eqb_refl a : object_eqb a a = true.
Proof.
  unfold object_eqb. rewrite !String.eqb_refl, !Z.eqb_refl, card_eqb_refl. reflexivity.
Qed.

Lemma object_eqb_trans a b c :
  object_eqb a b = true -> object_eqb b c = true -> object_eqb a c = true.
Proof.
  unfold object_eqb. rewrite !Bool.andb_true_iff, !String.eqb_eq, !Z.eqb_eq.
  intros [[[P1 E1] M1] C1] [[[P2 E2] M2] C2].
  repeat split; try congruence. apply (card_eqb_trans _ _ _ C1 C2).
Qed.

Lemma objs_eqb_refl l : objs_eqb l l = true.
Proof.
  unfold objs_eqb. induction l as [|a l IH]; cbn [list_eqb]; [reflexivity|].
  rewrite object_eqb_refl, IH. reflexivity.
Qed.

Lemma objs_eqb_trans : forall a b c,
  objs_eqb a b = true -> objs_eqb b c = true -> objs_eqb a c = true.
Proof.
  unfold objs_eqb. induction a as [|x a IH]; intros [|y b] [|z c]; cbn [list_eqb];
    try discriminate; try reflexivity.
  rewrite !Bool.andb_true_iff. intros [H1 H2] [H3 H4]. split.
  - apply (object_eqb_trans _ _ _ H1 H3).
  - apply (IH _ _ H2 H4).
Qed.

(** ** The specification's comparison of reduced cards *)

Lemma vnorm_other k v : String.eqb k version_key = false -> vnorm k v = v.
Proof. intros H. unfold vnorm. rewrite H. reflexivity. Qed.

Lemma vnorm_none k : vnorm k None = None.
Proof. unfold vnorm. destruct (String.eqb k version_key); reflexivity. Qed.

Lemma vnorm_some_in k c v : vnorm k (card_assoc k c) = Some v -> In k (map fst c).
Proof.
  destruct (card_assoc k c) as [x|] eqn:E.
  - intros _. apply (card_assoc_in k c x E).
  - rewrite vnorm_none. discriminate.
Qed.

(** reduced cards compare equal iff they are the same map up to the VERSION slot *)
Lemma card_sim_spec a b :
  card_sim a b = true <-> forall k, vnorm k (card_assoc k a) = vnorm k (card_assoc k b).
Proof.
  unfold card_sim. rewrite forallb_forall. split.
  - intros H k.
    destruct (vnorm k (card_assoc k a)) as [x|] eqn:Ea.
    + rewrite <- Ea. apply opt_fields_eqb_eq. apply H. apply in_or_app. left.
      apply (vnorm_some_in k a x Ea).
    + destruct (vnorm k (card_assoc k b)) as [y|] eqn:Eb; [|reflexivity].
      rewrite <- Ea, <- Eb. apply opt_fields_eqb_eq. apply H. apply in_or_app. right.
      apply (vnorm_some_in k b y Eb).
  - intros H k _. apply opt_fields_eqb_eq. apply H.
Qed.

Lemma card_sim_refl a : card_sim a a = true.
Proof. apply card_sim_spec. reflexivity. Qed.

Lemma card_sim_trans a b c : card_sim a b = true -> card_sim b c = true -> card_sim a c = true.
Proof. rewrite !card_sim_spec. intros H1 H2 k. rewrite H1. apply H2. Qed.

(** equal cards are in particular similar *)
Lemma card_eqb_sim a b : card_eqb a b = true -> card_sim a b = true.
Proof. rewrite card_eqb_spec, card_sim_spec. intros H k. rewrite H. reflexivity. Qed.

Lemma object_sim_refl a : object_sim a a = true.
Proof.
  unfold object_sim. rewrite !String.eqb_refl, !Z.eqb_refl, card_sim_refl. reflexivity.
Qed.

Lemma object_eqb_sim a b : object_eqb a b = true -> object_sim a b = true.
Proof.
  unfold object_eqb, object_sim. rewrite !Bool.andb_true_iff.
  intros [[[P E] M] C]. repeat split; try assumption. apply card_eqb_sim. exact C.
Qed.

Lemma object_sim_trans a b c :
  object_sim a b = true -> object_sim b c = true -> object_sim a c = true.
Proof.
  unfold object_sim. rewrite !Bool.andb_true_iff, !String.eqb_eq, !Z.eqb_eq.
  intros [[[P1 E1] M1] C1] [[[P2 E2] M2] C2].
  repeat split; try congruence. apply (card_sim_trans _ _ _ C1 C2).
Qed.

Lemma result_eqb_refl r a : result_eqb r a a = true.
Proof. unfold result_eqb. destruct (dr_whole r); [apply object_eqb_refl | apply object_sim_refl]. Qed.

(** an accepted object stays accepted when replaced by an equal one *)
Lemma result_eqb_trans_eq r a b c :
  result_eqb r a b = true -> object_eqb b c = true -> result_eqb r a c = true.
Proof.
  unfold result_eqb. destruct (dr_whole r); intros H1 H2.
  - apply (object_eqb_trans _ _ _ H1 H2).
  - apply (object_sim_trans _ _ _ H1 (object_eqb_sim _ _ H2)).
Qed.

Lemma results_eqb_refl r l : results_eqb r l l = true.
Proof.
  unfold results_eqb. induction l as [|a l IH]; cbn [list_eqb]; [reflexivity|].
  rewrite result_eqb_refl, IH. reflexivity.
Qed.

Lemma results_eqb_trans_eq r : forall a b c,
  results_eqb r a b = true -> objs_eqb b c = true -> results_eqb r a c = true.
Proof.
  unfold results_eqb, objs_eqb. induction a as [|x a IH]; intros [|y b] [|z c]; cbn [list_eqb];
    try discriminate; try reflexivity.
  rewrite !Bool.andb_true_iff. intros [H1 H2] [H3 H4]. split.
  - apply (result_eqb_trans_eq _ _ _ _ H1 H3).
  - apply (IH _ _ H2 H4).
Qed.

(** exact equality of the returned list is in particular accepted *)
Lemma objs_eqb_results r a b : objs_eqb a b = true -> results_eqb r a b = true.
Proof. intros H. apply (results_eqb_trans_eq r a a b (results_eqb_refl r a) H). Qed.

(** What the specification accepts as the reduction of [o]: the same path, entity
    tag and modification time, every requested name the source binds bound to
    the same field list, nothing else - and VERSION bound to the source's
    VERSION fields, where a source without VERSION fields may also leave the
    key unbound. *)
Lemma object_sim_project r o p :
  dr_whole r = false ->
  (object_sim (project r o) p = true <->
   o_path p = o_path o /\ o_etag p = o_etag o /\ o_mtime p = o_mtime o /\
   forall k,
     if String.eqb k version_key
     then card_assoc k (o_card p) = Some (card_fields version_key (o_card o)) \/
          (card_fields version_key (o_card o) = [] /\ card_assoc k (o_card p) = None)
     else card_assoc k (o_card p) =
          if existsb (String.eqb k) (dr_props r) then card_assoc k (o_card o) else None).
Proof.
  intros Hw. unfold object_sim, project. rewrite Hw. cbn [o_path o_etag o_mtime o_card].
  rewrite !Bool.andb_true_iff, !String.eqb_eq, Z.eqb_eq, card_sim_spec.
  split.
  - intros [[[P E] M] C]. repeat split; try (symmetry; assumption).
    intros k. specialize (C k). rewrite project_card_assoc in C.
    destruct (String.eqb k version_key) eqn:Ev.
    + unfold vnorm in C. rewrite Ev in C.
      destruct (card_fields version_key (o_card o)) as [|f fs].
      * destruct (card_assoc k (o_card p)) as [[|g gs]|]; try discriminate.
        -- left. reflexivity.
        -- right. split; reflexivity.
      * destruct (card_assoc k (o_card p)) as [[|g gs]|]; try discriminate.
        left. symmetry. exact C.
    + rewrite !vnorm_other in C by exact Ev. symmetry. exact C.
  - intros [P [E [M C]]]. repeat split; try (symmetry; assumption).
    intros k. specialize (C k). rewrite project_card_assoc.
    destruct (String.eqb k version_key) eqn:Ev.
    + unfold vnorm. rewrite Ev. destruct C as [C | [C1 C2]].
      * rewrite C. reflexivity.
      * rewrite C1, C2. reflexivity.
    + rewrite !vnorm_other by exact Ev. symmetry. exact C.
Qed.

Lemma mobs_eqb_eq a b : mobs_eqb a b = true -> a = b.
Proof.
  destruct a as [x| | |], b as [y| | |]; cbn [mobs_eqb]; try discriminate; try reflexivity.
  intros H. apply Bool.eqb_prop in H. subst. reflexivity.
Qed.

(** * The oracle's verdicts are sound for the model *)

(** what the model does meets the specification: on every query and object ... *)
Lemma spec_ok_match_model q o :
  spec_ok_match q o (obs_of_match (match_query q (Some o))) = true.
Proof.
  destruct q as [q|]; [|reflexivity].
  cbn [spec_ok_match]. pose proof (match_query_refines q o) as R.
  destruct (match_query (Some q) (Some o)) as [b|e|] eqn:E; cbn [obs_of_match refines] in *.
  - rewrite R. cbn [opt_bool_eqb]. apply Bool.eqb_reflx.
  - rewrite (match_err_unknown q o e E). reflexivity.
  - contradiction.
Qed.

Lemma in_domain_safe q os : in_domain_filter (Some q) os = true -> safe_request q os.
Proof.
  cbn [in_domain_filter]. unfold safe_request_b. intros Hd.
  apply Bool.orb_true_iff in Hd. destruct Hd as [Hd|Hd].
  - left. exact Hd.
  - right. unfold no_empty_card, no_empty_card_b in *. rewrite forallb_forall in Hd.
    apply Forall_forall. intros o Ho. specialize (Hd o Ho).
    apply Bool.negb_true_iff in Hd. apply is_nil_false. exact Hd.
Qed.

(** ... and on every query and object list filterProperties is defined on. *)
Lemma spec_ok_filter_model q os :
  in_domain_filter q os = true ->
  spec_ok_filter q os (obs_of_filter (filter_objs q os)) = true.
Proof.
  destruct q as [q|]; cbn [spec_ok_filter].
  - intros Hd. pose proof (filter_refines q os (in_domain_safe q os Hd)) as R.
    destruct (filter_objs (Some q) os) as [l|e|]; cbn [obs_of_filter].
    + rewrite R. apply results_eqb_refl.
    + rewrite R. reflexivity.
    + contradiction.
  - intros _. cbn [filter_objs obs_of_filter fobs_eqb]. apply objs_eqb_refl.
Qed.

(** Agreement of the implementation with the model entails the specification. *)
Lemma agree_implies_spec_ok_match q o ob :
  model_agrees_match q (Some o) ob = true -> spec_ok_match q o ob = true.
Proof.
  unfold model_agrees_match. intros H. apply mobs_eqb_eq in H. subst ob.
  apply spec_ok_match_model.
Qed.

Lemma agree_implies_spec_ok_filter q os ob :
  in_domain_filter q os = true ->
  model_agrees_filter q os ob = true -> spec_ok_filter q os ob = true.
Proof.
  intros Hd H. pose proof (spec_ok_filter_model q os Hd) as M.
  unfold model_agrees_filter in H.
  destruct (obs_of_filter (filter_objs q os)) as [x| | |], ob as [y| | |];
    cbn [fobs_eqb] in H; try discriminate; try exact M.
  destruct q as [q|]; cbn [spec_ok_filter fobs_eqb] in *.
  - destruct (spec_filter q os) as [e|]; [|discriminate].
    apply (results_eqb_trans_eq _ _ _ _ M H).
  - apply (objs_eqb_trans _ _ _ M H).
Qed.

(** ** The verdicts the oracle reports, on every input *)

(** agreement with the model entails the reported verdict, inside the domain and outside *)
Lemma agree_implies_spec_verdict_match q ao ob :
  model_agrees_match q ao ob = true -> spec_verdict_match q ao ob = true.
Proof.
  intros H. destruct ao as [o|]; cbn [spec_verdict_match].
  - apply agree_implies_spec_ok_match. exact H.
  - rewrite H. apply Bool.orb_true_r.
Qed.

Lemma agree_implies_spec_verdict_filter q os ob :
  model_agrees_filter q os ob = true -> spec_verdict_filter q os ob = true.
Proof.
  intros H. unfold spec_verdict_filter.
  destruct (in_domain_filter q os) eqn:Hd.
  - rewrite (agree_implies_spec_ok_filter q os ob Hd H). reflexivity.
  - rewrite H. cbn [negb andb]. apply Bool.orb_true_r.
Qed.

Lemma model_agrees_match_model q ao :
  model_agrees_match q ao (obs_of_match (match_query q ao)) = true.
Proof.
  unfold model_agrees_match. destruct (match_query q ao) as [[|]|e|]; reflexivity.
Qed.

Lemma model_agrees_filter_model q os :
  model_agrees_filter q os (obs_of_filter (filter_objs q os)) = true.
Proof.
  unfold model_agrees_filter. destruct (filter_objs q os) as [l|e|];
    cbn [obs_of_filter fobs_eqb]; try reflexivity. apply objs_eqb_refl.
Qed.

(** the unchanged code (its model) meets the relaxed specification on every input:
    nil objects, empty cards and unknown attributes included *)
Lemma spec_verdict_match_model q ao :
  spec_verdict_match q ao (obs_of_match (match_query q ao)) = true.
Proof. apply agree_implies_spec_verdict_match. apply model_agrees_match_model. Qed.

Lemma spec_verdict_filter_model q os :
  spec_verdict_filter q os (obs_of_filter (filter_objs q os)) = true.
Proof. apply agree_implies_spec_verdict_filter. apply model_agrees_filter_model. Qed.

(** inside the domain the reported verdict is the specification alone: nothing is
    accepted there merely because the model does it *)
Lemma spec_verdict_match_in_domain q o ob :
  spec_verdict_match q (Some o) ob = spec_ok_match q o ob.
Proof. reflexivity. Qed.

Lemma spec_verdict_filter_in_domain q os ob :
  in_domain_filter q os = true -> spec_verdict_filter q os ob = spec_ok_filter q os ob.
Proof.
  intros Hd. unfold spec_verdict_filter. rewrite Hd. cbn [negb andb]. apply Bool.orb_false_r.
Qed.

(** An error is accepted for every query carrying an unknown test or match type
    anywhere, whether a lazy evaluation would reach it or not, whatever the
    object(s) - also a nil object or an empty card. *)
Lemma unknown_error_accepted q :
  all_known_b q = false ->
  (forall ao, spec_verdict_match (Some q) ao MErr = true) /\
  (forall os, spec_verdict_filter (Some q) os FErr = true).
Proof.
  intros H. split.
  - intros [o|]; cbn [spec_verdict_match spec_ok_match spec_ok_match_nil]; rewrite H; reflexivity.
  - intros os. unfold spec_verdict_filter. cbn [spec_ok_filter]. rewrite H. reflexivity.
Qed.

(** ... and for no other query: a query of known attributes only must be answered
    (a panic or an error on it is accepted nowhere but where the model panics). *)
Lemma known_error_rejected q o os :
  all_known_b q = true ->
  spec_verdict_match (Some q) (Some o) MErr = false /\
  (in_domain_filter (Some q) os = true -> spec_verdict_filter (Some q) os FErr = false).
Proof.
  intros H. split.
  - cbn [spec_verdict_match spec_ok_match]. rewrite H. reflexivity.
  - intros Hd. rewrite (spec_verdict_filter_in_domain _ _ _ Hd). cbn [spec_ok_filter].
    rewrite H. reflexivity.
Qed.

(** A verdict is accepted only if it is the one the three-valued semantics
    defines, on every query - with unknown attributes or not. *)
Lemma verdict_accepted_iff q o b :
  spec_verdict_match (Some q) (Some o) (MOk b) = true <-> rfc6352_query q (o_card o) = Some b.
Proof.
  cbn [spec_verdict_match spec_ok_match].
  destruct (rfc6352_query q (o_card o)) as [x|]; cbn [opt_bool_eqb].
  - split.
    + intros H. apply Bool.eqb_prop in H. subst. reflexivity.
    + intros H. inversion H. apply Bool.eqb_reflx.
  - split; discriminate.
Qed.

(** * Witnesses *)

Definition mkobj (c : card) : object :=
  {| o_path := "/p"; o_etag := "e"; o_mtime := 0; o_len := 0; o_card := c |}.
Definition fld (v : string) : field := {| f_value := v; f_rest := "" |}.

(** The code before the fix tested only the first instance of a property: a card
    with EMAIL a@x and EMAIL b@y did not match "EMAIL contains b@y", which the
    RFC semantics (and the repaired code) match. *)
Definition w_pf : prop_filter :=
  {| pf_name := "EMAIL"; pf_test := ""; pf_not_defined := false;
     pf_texts := [ {| tm_text := "b@y"; tm_negate := false; tm_type := "" |} ] |}.
Definition w_obj : object :=
  mkobj [("VERSION", [fld "4.0"]); ("EMAIL", [fld "a@x"; fld "b@y"])].

Lemma first_field_only_refuted :
  match_prop_filter_first w_pf w_obj = Ok false /\
  rfc_prop w_pf (o_card w_obj) = Some true /\
  match_prop_filter w_pf (Some w_obj) = Ok true.
Proof. vm_compute. repeat split. Qed.

(** on cards whose properties occur at most once, old and new code agree *)
Lemma first_field_same_when_single pf o :
  (List.length (card_fields (pf_name pf) (o_card o)) <= 1)%nat ->
  match_prop_filter_first pf o = match_prop_filter pf (Some o).
Proof.
  unfold match_prop_filter_first, match_prop_filter. intros H.
  destruct (card_fields (pf_name pf) (o_card o)) as [|f [|g r]]; cbn [is_nil List.length] in *.
  - reflexivity.
  - destruct (pf_not_defined pf); [reflexivity|].
    destruct (is_nil (pf_texts pf)); [reflexivity|].
    cbn [loop_any]. destruct (match_field pf f) as [[|]|e|]; reflexivity.
  - lia.
Qed.

(** the hypotheses of the no-panic theorem are needed *)
Definition w_q_notdef : query :=
  {| q_data := {| dr_props := ["FN"]; dr_allprop := false |};
     q_filters := [ {| pf_name := "X"; pf_test := ""; pf_not_defined := true; pf_texts := [] |} ];
     q_test := ""; q_limit := 0 |}.

Lemma filter_panics_on_empty_card : filter_objs (Some w_q_notdef) [mkobj []] = Panic.
Proof. vm_compute. reflexivity. Qed.

Lemma match_panics_on_nil_object : match_query (Some w_q_notdef) None = Panic.
Proof. vm_compute. reflexivity. Qed.

(** an unknown attribute that is not reached is not reported (the code is lazy),
    and the three-valued semantics agrees that the verdict is defined *)
Definition w_q_lazy : query :=
  {| q_data := {| dr_props := []; dr_allprop := true |};
     q_filters := [ {| pf_name := "FN"; pf_test := ""; pf_not_defined := false;
                       pf_texts := [ {| tm_text := "a"; tm_negate := false; tm_type := "" |};
                                     {| tm_text := "a"; tm_negate := false; tm_type := "bogus" |} ] |} ];
     q_test := ""; q_limit := 0 |}.

Lemma lazy_unknown_not_reported :
  all_known_b w_q_lazy = false /\
  match_query (Some w_q_lazy) (Some (mkobj [("FN", [fld "a"])])) = Ok true /\
  rfc6352_query w_q_lazy [("FN", [fld "a"])] = Some true /\
  match_query (Some w_q_lazy) (Some (mkobj [("FN", [fld "b"])])) = Err 500 /\
  rfc6352_query w_q_lazy [("FN", [fld "b"])] = None.
Proof. vm_compute. repeat split. Qed.

(** the two property-preserving variants of the code that the exact-agreement
    reading rejected are accepted by the specification, and the corresponding
    wrong behaviours are not *)
Definition w_q_inner_unknown : query :=
  {| q_data := {| dr_props := ["X"]; dr_allprop := false |};
     q_filters := [ {| pf_name := "X"; pf_test := "all"; pf_not_defined := false; pf_texts := [] |} ];
     q_test := "allof"; q_limit := 0 |}.
Definition w_obj_nover : object := mkobj [("FN", [fld "a"])].
Definition w_q_fn_notdef_x : query :=
  {| q_data := {| dr_props := ["FN"]; dr_allprop := false |};
     q_filters := [ {| pf_name := "X"; pf_test := ""; pf_not_defined := true; pf_texts := [] |} ];
     q_test := ""; q_limit := 0 |}.

Lemma relaxed_witnesses :
  (* eager validation: an error for an unknown inner test that lazy evaluation
     does not reach (nil object: the model panics; object: the model answers) *)
  match_query (Some w_q_inner_unknown) None = Panic /\
  spec_verdict_match (Some w_q_inner_unknown) None MErr = true /\
  spec_verdict_match (Some w_q_inner_unknown) None MPanic = true /\
  spec_verdict_match (Some w_q_inner_unknown) None (MOk false) = false /\
  match_query (Some w_q_inner_unknown) (Some w_obj_nover) = Ok false /\
  spec_verdict_match (Some w_q_inner_unknown) (Some w_obj_nover) MErr = true /\
  spec_verdict_match (Some w_q_inner_unknown) (Some w_obj_nover) (MOk false) = true /\
  spec_verdict_match (Some w_q_inner_unknown) (Some w_obj_nover) (MOk true) = false /\
  (* a card without VERSION: reduced with or without the VERSION key *)
  spec_verdict_filter (Some w_q_fn_notdef_x) [w_obj_nover] (FOk [mkobj [("VERSION", []); ("FN", [fld "a"])]]) = true /\
  spec_verdict_filter (Some w_q_fn_notdef_x) [w_obj_nover] (FOk [mkobj [("FN", [fld "a"])]]) = true /\
  spec_verdict_filter (Some w_q_fn_notdef_x) [w_obj_nover] (FOk [mkobj [("VERSION", [fld "3.0"]); ("FN", [fld "a"])]]) = false /\
  spec_verdict_filter (Some w_q_fn_notdef_x) [w_obj_nover] (FOk [mkobj []]) = false /\
  (* a card with VERSION: it must be there, with its values *)
  spec_verdict_filter (Some w_q_fn_notdef_x) [w_obj] (FOk [mkobj [("VERSION", [fld "4.0"])]]) = true /\
  spec_verdict_filter (Some w_q_fn_notdef_x) [w_obj] (FOk [mkobj []]) = false /\
  spec_verdict_filter (Some w_q_fn_notdef_x) [w_obj] (FOk [mkobj [("VERSION", [])]]) = false /\
  (* a matching empty card: the model panics; the empty reduction is accepted too *)
  filter_objs (Some w_q_fn_notdef_x) [mkobj []] = Panic /\
  spec_verdict_filter (Some w_q_fn_notdef_x) [mkobj []] FPanic = true /\
  spec_verdict_filter (Some w_q_fn_notdef_x) [mkobj []] (FOk [mkobj []]) = true /\
  spec_verdict_filter (Some w_q_fn_notdef_x) [mkobj []] (FOk [mkobj [("VERSION", [])]]) = true /\
  spec_verdict_filter (Some w_q_fn_notdef_x) [mkobj []] (FOk []) = false /\
  spec_verdict_filter (Some w_q_fn_notdef_x) [mkobj []] FErr = false /\
  (* where the model does not panic, a panic is never accepted *)
  spec_verdict_filter (Some w_q_fn_notdef_x) [w_obj_nover] FPanic = false.
Proof. vm_compute. repeat split. Qed.

Lemma string_tests_spec s t :
  (has_prefix s t = true <-> exists b, s = t ++ b) /\
  (has_suffix s t = true <-> exists a, s = a ++ t) /\
  (contains s t = true <-> exists a b, s = a ++ t ++ b).
Proof. exact (conj (has_prefix_spec s t) (conj (has_suffix_spec s t) (contains_spec s t))). Qed.

Lemma panic_witnesses :
  filter_objs (Some w_q_notdef) [mkobj []] = Panic /\
  match_query (Some w_q_notdef) None = Panic.
Proof. exact (conj filter_panics_on_empty_card match_panics_on_nil_object). Qed.
