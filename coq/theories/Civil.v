(** Civil.v — C16, part 3: instants on the wire.

    - the proleptic Gregorian calendar as Go's package time computes it
      ([abs_date] after time.absDate, [date_to_days] after time.Date/daysSinceEpoch),
      with an independent closed-form day count [spec_days] as specification;
    - time.Format for the two layouts the library uses
      (http.TimeFormat "Mon, 02 Jan 2006 15:04:05 GMT", "20060102T150405Z");
    - time.Parse as a chunk interpreter (after time.parse), instantiated for the four
      layouts reached from the library: http.ParseTime tries TimeFormat, RFC850, ANSIC;
      caldav uses "20060102T150405Z";
    - the codecs internal.Time and caldav.dateWithUTCTime, strict grammars with their
      denotation, and the verdict functions the oracle extracts.

    An instant is (unix seconds, zone offset in seconds); both encoders convert to
    UTC first, so the offset does not reach the text.  Zones other than fixed offsets
    (the zone database, time.Local) are out of scope: the harness runs with
    time.Local = UTC, under which a zone abbreviation read by the RFC 850 layout
    never changes the instant.  NO proofs here (see CivilProofs.v). *)
From GW Require Import Base Wire.
Local Open Scope Z_scope.

(** * Calendar arithmetic *)

(** time.isLeap *)
Definition is_leap (y : Z) : bool :=
  (y mod 4 =? 0) && (negb (y mod 100 =? 0) || (y mod 400 =? 0)).

(** time.daysBefore[m], m = 0..12: days of a non-leap year before month m+1 begins *)
Definition days_before (m : Z) : Z :=
  nth (Z.to_nat m) [0; 31; 59; 90; 120; 151; 181; 212; 243; 273; 304; 334; 365] 0.

(** time.daysIn *)
Definition days_in (m y : Z) : Z :=
  if (m =? 2) && is_leap y then 29 else days_before m - days_before (m - 1).

(** time.daysSinceEpoch, counted from 0001-01-01 (Go counts from the year
    -292277022399, which is congruent to 1 modulo 400, with unsigned arithmetic;
    floor division on Z gives the same cycles for every year) *)
Definition days_since_epoch (year : Z) : Z :=
  let y := year - 1 in
  let n := y / 400 in let y := y - 400 * n in let d := 146097 * n in
  let n := y / 100 in let y := y - 100 * n in let d := d + 36524 * n in
  let n := y / 4 in let y := y - 4 * n in let d := d + 1461 * n in
  d + 365 * y.

(** the day count of time.Date for in-range fields: days since 0001-01-01 *)
Definition date_to_days (y m d : Z) : Z :=
  days_since_epoch y + days_before (m - 1)
  + (if is_leap y && (3 <=? m) then 1 else 0) + (d - 1).

(** time.absDate: days since 0001-01-01 -> (year, month, day) *)
Definition abs_date (d0 : Z) : Z * Z * Z :=
  let n := d0 / 146097 in let y := 400 * n in let d := d0 - 146097 * n in
  let n := d / 36524 in let n := n - n / 4 in
  let y := y + 100 * n in let d := d - 36524 * n in
  let n := d / 1461 in let y := y + 4 * n in let d := d - 1461 * n in
  let n := d / 365 in let n := n - n / 4 in
  let y := y + n in let d := d - 365 * n in
  let year := y + 1 in
  let yday := d in
  if is_leap year && (yday =? 59) then (year, 2, 29)
  else
    let day := if is_leap year && (59 <? yday) then yday - 1 else yday in
    let month := day / 31 in
    let endm := days_before (month + 1) in
    if endm <=? day then (year, month + 2, day - endm + 1)
    else (year, month + 1, day - days_before month + 1).

(** time.absWeekday: 0001-01-01 was a Monday; 0 = Sunday *)
Definition weekday (days : Z) : Z := (days + 1) mod 7.

(** Specification of the day count, written from the calendar rules: 365 days per
    year, one more for every 4th year, one less for every 100th, one more for every
    400th, plus the days of the elapsed months of this year. *)
Definition month_lengths (leap : bool) : list Z :=
  [31; if leap then 29 else 28; 31; 30; 31; 30; 31; 31; 30; 31; 30; 31].
Definition spec_leap (y : Z) : bool :=
  if y mod 400 =? 0 then true else if y mod 100 =? 0 then false else y mod 4 =? 0.
Definition spec_days (y m d : Z) : Z :=
  let p := y - 1 in
  365 * p + p / 4 - p / 100 + p / 400
  + fold_right Z.add 0 (firstn (Z.to_nat (m - 1)) (month_lengths (spec_leap y)))
  + (d - 1).
Definition spec_days_in (m y : Z) : Z := nth (Z.to_nat (m - 1)) (month_lengths (spec_leap y)) 0.

Definition unix_epoch_days : Z := 719162.   (* 1970-01-01, counted from 0001-01-01 *)

(** * Clock fields of an instant *)
Record civil := { c_year : Z; c_month : Z; c_day : Z; c_hour : Z; c_min : Z; c_sec : Z; c_wday : Z }.

Definition civil_of_unix (secs : Z) : civil :=
  let a := secs + unix_epoch_days * 86400 in
  let days := a / 86400 in let sod := a mod 86400 in
  let '(y, m, d) := abs_date days in
  {| c_year := y; c_month := m; c_day := d;
     c_hour := sod / 3600; c_min := (sod mod 3600) / 60; c_sec := sod mod 60;
     c_wday := weekday days |}.

Definition unix_of_fields (y m d h mi s : Z) : Z :=
  (date_to_days y m d - unix_epoch_days) * 86400 + h * 3600 + mi * 60 + s.

Definition spec_unix_of_fields (y m d h mi s : Z) : Z :=
  (spec_days y m d - unix_epoch_days) * 86400 + h * 3600 + mi * 60 + s.

Definition year_of_unix (secs : Z) : Z := c_year (civil_of_unix secs).

(** * time.Format for the two layouts *)

Definition fmt2 (n : Z) : string :=
  String (digit_chr (n / 10)) (String (digit_chr (n mod 10)) EmptyString).
Definition fmt4 (n : Z) : string :=
  String (digit_chr (n / 1000)) (String (digit_chr (n / 100 mod 10))
    (String (digit_chr (n / 10 mod 10)) (String (digit_chr (n mod 10)) EmptyString))).
(** time.appendInt(b, year, 4): zero-padded to four digits, longer if needed, "-" first *)
Definition pad4 (n : Z) : string := if n <? 10000 then fmt4 n else fmt_dec n.
Definition fmt_year (y : Z) : string := if y <? 0 then String "-" (pad4 (- y)) else pad4 y.

Definition short_day_names : list string := ["Sun"; "Mon"; "Tue"; "Wed"; "Thu"; "Fri"; "Sat"]%string.
Definition long_day_names : list string :=
  ["Sunday"; "Monday"; "Tuesday"; "Wednesday"; "Thursday"; "Friday"; "Saturday"]%string.
Definition short_month_names : list string :=
  ["Jan"; "Feb"; "Mar"; "Apr"; "May"; "Jun"; "Jul"; "Aug"; "Sep"; "Oct"; "Nov"; "Dec"]%string.
Definition nth_name (l : list string) (i : Z) : string := nth (Z.to_nat i) l EmptyString.

(** t.Format(http.TimeFormat) of a UTC time *)
Definition format_http (secs : Z) : string :=
  let c := civil_of_unix secs in
  (nth_name short_day_names (c_wday c) ++ ", " ++ fmt2 (c_day c) ++ " "
   ++ nth_name short_month_names (c_month c - 1) ++ " " ++ fmt_year (c_year c) ++ " "
   ++ fmt2 (c_hour c) ++ ":" ++ fmt2 (c_min c) ++ ":" ++ fmt2 (c_sec c) ++ " GMT")%string.

(** t.Format("20060102T150405Z") of a UTC time *)
Definition format_ical (secs : Z) : string :=
  let c := civil_of_unix secs in
  (fmt_year (c_year c) ++ fmt2 (c_month c) ++ fmt2 (c_day c) ++ "T"
   ++ fmt2 (c_hour c) ++ fmt2 (c_min c) ++ fmt2 (c_sec c) ++ "Z")%string.

(** * time.Parse *)

Inductive std : Type :=
| StdYear | StdLongYear | StdMonth | StdZeroMonth | StdWeekDay | StdLongWeekDay
| StdZeroDay | StdUnderDay | StdHour | StdZeroMinute | StdZeroSecond | StdTZ.

(** the fields time.parse accumulates *)
Record pt := { p_year : Z; p_month : Z; p_day : Z; p_hour : Z; p_min : Z; p_sec : Z; p_nsec : Z }.
Definition pt0 : pt :=
  {| p_year := 0; p_month := -1; p_day := -1; p_hour := 0; p_min := 0; p_sec := 0; p_nsec := 0 |}.

Fixpoint cutspace (s : string) : string :=
  match s with String c r => if Ascii.eqb c " " then cutspace r else s | EmptyString => s end.

(** time.skip: the literal text of the layout must be present; a space in the layout
    stands for any run of spaces (even none at the end of the value) *)
Fixpoint skip_fuel (fuel : nat) (value prefix : string) : option string :=
  match fuel with
  | O => None
  | S f =>
    match prefix with
    | EmptyString => Some value
    | String c p' =>
      if Ascii.eqb c " " then
        match value with
        | String v _ => if Ascii.eqb v " " then skip_fuel f (cutspace value) (cutspace prefix) else None
        | EmptyString => skip_fuel f (cutspace value) (cutspace prefix)
        end
      else
        match value with
        | String v r => if Ascii.eqb v c then skip_fuel f r p' else None
        | EmptyString => None
        end
    end
  end.
Definition skip (value prefix : string) : option string := skip_fuel (S (String.length prefix)) value prefix.

(** time.match: ASCII case-insensitive comparison of letters *)
Definition lower (c : ascii) : N := N.lor (byte c) 32.
Definition match_ci (c1 c2 : ascii) : bool :=
  if Ascii.eqb c1 c2 then true
  else ((lower c1 =? lower c2) && (97 <=? lower c1) && (lower c1 <=? 122))%N.
Fixpoint match_name (value name : string) {struct name} : option string :=
  match name with
  | EmptyString => Some value
  | String n name' => match value with
                      | String v value' => if match_ci v n then match_name value' name' else None
                      | EmptyString => None
                      end
  end.
(** time.lookup: index of the first name the value starts with *)
Fixpoint lookup (tab : list string) (value : string) (i : Z) : option (Z * string) :=
  match tab with
  | [] => None
  | name :: tab' => match match_name value name with
                    | Some rest => Some (i, rest)
                    | None => lookup tab' value (i + 1)
                    end
  end.

(** time.getnum *)
Definition getnum (s : string) (fixed : bool) : option (Z * string) :=
  match s with
  | String a r =>
    if is_digit a then
      match r with
      | String b r' => if is_digit b then Some (digit_val a * 10 + digit_val b, r')
                       else if fixed then None else Some (digit_val a, r)
      | EmptyString => if fixed then None else Some (digit_val a, r)
      end
    else None
  | EmptyString => None
  end.

(** time.atoi on a short field: optional sign, then digits only *)
Definition atoi_time (s : string) : option Z :=
  match s with
  | String "+" r => if all_digits r then Some (dec_value r) else None
  | String "-" r => if all_digits r then Some (- dec_value r) else None
  | _ => if all_digits s then Some (dec_value s) else None
  end.

Fixpoint take (n : nat) (s : string) : option (string * string) :=
  match n with
  | O => Some (EmptyString, s)
  | S n' => match s with
            | String c r => match take n' r with Some (a, b) => Some (String c a, b) | None => None end
            | EmptyString => None
            end
  end.

(** leading decimal digits: (value, number of digits, rest) *)
Fixpoint leading_digits (s : string) (acc : Z) (n : nat) : Z * nat * string :=
  match s with
  | String c r => if is_digit c then leading_digits r (acc * 10 + digit_val c) (S n) else (acc, n, s)
  | EmptyString => (acc, n, s)
  end.

(** the fraction time.parse accepts after the seconds although no layout here has
    one: "." or "," and digits; nanoseconds from the first nine digits *)
Fixpoint frac_digits (s : string) (k : nat) (acc : Z) : Z * string :=
  match s with
  | String c r => if is_digit c then
                    match k with
                    | O => frac_digits r O acc                       (* beyond nine digits: dropped *)
                    | S k' => frac_digits r k' (acc * 10 + digit_val c)
                    end
                  else (acc * 10 ^ Z.of_nat k, s)
  | EmptyString => (acc * 10 ^ Z.of_nat k, s)
  end.
Definition parse_frac (value : string) : Z * string :=
  match value with
  | String c (String d r) =>
      if (Ascii.eqb c "." || Ascii.eqb c ",") && is_digit d then frac_digits (String d r) 9 0
      else (0, value)
  | _ => (0, value)
  end.

(** time.parseSignedOffset: length of "+"/"-" digits with value <= 23, 0 if none *)
Definition parse_signed_offset (value : string) : nat :=
  match value with
  | String sign r =>
      if Ascii.eqb sign "-" || Ascii.eqb sign "+" then
        let '(x, n, _) := leading_digits r 0 O in
        match n with O => O | _ => if 23 <? x then O else S n end
      else O
  | EmptyString => O
  end.

Definition is_upper (c : ascii) : bool := ((65 <=? byte c) && (byte c <=? 90))%N.
Fixpoint count_upper (s : string) (k : nat) : nat :=
  match k with
  | O => O
  | S k' => match s with
            | String c r => if is_upper c then S (count_upper r k') else O
            | EmptyString => O
            end
  end.
Definition nth_char (s : string) (n : nat) : ascii :=
  match String.get n s with Some c => c | None => zero end.

(** time.parseTimeZone: length of the zone abbreviation at the start of value *)
Definition parse_time_zone (value : string) : option nat :=
  if (String.length value <? 3)%nat then None
  else match strip_prefix "ChST" value, strip_prefix "MeST" value with
  | Some _, _ | _, Some _ => Some 4%nat
  | None, None =>
    match strip_prefix "GMT" value with
    | Some r => match r with
                | EmptyString => Some 3%nat
                | _ => Some (3 + parse_signed_offset r)%nat
                end
    | None =>
      if Ascii.eqb (nth_char value 0) "+" || Ascii.eqb (nth_char value 0) "-" then
        match parse_signed_offset value with O => None | n => Some n end
      else
        match count_upper value 6 with
        | 3%nat => Some 3%nat
        | 4%nat => if Ascii.eqb (nth_char value 3) "T" then Some 4%nat
                   else match strip_prefix "WITA" value with Some _ => Some 4%nat | None => None end
        | 5%nat => if Ascii.eqb (nth_char value 4) "T" then Some 5%nat else None
        | _ => None
        end
    end
  end.

(** one std chunk of time.parse; [None] is any parse or range error *)
Definition parse_std (k : std) (value : string) (t : pt) : option (string * pt) :=
  match k with
  | StdYear =>
      match take 2 value with
      | Some (p, rest) => match atoi_time p with
                          | Some y => let y := if 69 <=? y then y + 1900 else y + 2000 in
                                      Some (rest, {| p_year := y; p_month := p_month t; p_day := p_day t; p_hour := p_hour t; p_min := p_min t; p_sec := p_sec t; p_nsec := p_nsec t |})
                          | None => None
                          end
      | None => None
      end
  | StdLongYear =>
      match take 4 value with
      | Some (String c0 p', rest) =>
          if is_digit c0 then
            match atoi_time (String c0 p') with
            | Some y => Some (rest, {| p_year := y; p_month := p_month t; p_day := p_day t; p_hour := p_hour t; p_min := p_min t; p_sec := p_sec t; p_nsec := p_nsec t |})
            | None => None
            end
          else None
      | _ => None
      end
  | StdMonth =>
      match lookup short_month_names value 0 with
      | Some (i, rest) => Some (rest, {| p_year := p_year t; p_month := i + 1; p_day := p_day t; p_hour := p_hour t; p_min := p_min t; p_sec := p_sec t; p_nsec := p_nsec t |})
      | None => None
      end
  | StdZeroMonth =>
      match getnum value true with
      | Some (m, rest) => if (m <=? 0) || (12 <? m) then None
                          else Some (rest, {| p_year := p_year t; p_month := m; p_day := p_day t; p_hour := p_hour t; p_min := p_min t; p_sec := p_sec t; p_nsec := p_nsec t |})
      | None => None
      end
  | StdWeekDay =>
      match lookup short_day_names value 0 with Some (_, rest) => Some (rest, t) | None => None end
  | StdLongWeekDay =>
      match lookup long_day_names value 0 with Some (_, rest) => Some (rest, t) | None => None end
  | StdZeroDay | StdUnderDay =>
      let value := match k, value with
                   | StdUnderDay, String c r => if Ascii.eqb c " " then r else value
                   | _, _ => value
                   end in
      match getnum value (match k with StdZeroDay => true | _ => false end) with
      | Some (d, rest) => Some (rest, {| p_year := p_year t; p_month := p_month t; p_day := d; p_hour := p_hour t; p_min := p_min t; p_sec := p_sec t; p_nsec := p_nsec t |})
      | None => None
      end
  | StdHour =>
      match getnum value false with
      | Some (h, rest) => if 24 <=? h then None
                          else Some (rest, {| p_year := p_year t; p_month := p_month t; p_day := p_day t; p_hour := h; p_min := p_min t; p_sec := p_sec t; p_nsec := p_nsec t |})
      | None => None
      end
  | StdZeroMinute =>
      match getnum value true with
      | Some (m, rest) => if 60 <=? m then None
                          else Some (rest, {| p_year := p_year t; p_month := p_month t; p_day := p_day t; p_hour := p_hour t; p_min := m; p_sec := p_sec t; p_nsec := p_nsec t |})
      | None => None
      end
  | StdZeroSecond =>
      match getnum value true with
      | Some (s, rest) => if 60 <=? s then None
                          else let '(ns, rest') := parse_frac rest in
                               Some (rest', {| p_year := p_year t; p_month := p_month t; p_day := p_day t; p_hour := p_hour t; p_min := p_min t; p_sec := s; p_nsec := ns |})
      | None => None
      end
  | StdTZ =>
      match strip_prefix "UTC" value with
      | Some rest => Some (rest, t)
      | None => match parse_time_zone value with
                | Some n => Some (drop n value, t)     (* time.Local = UTC: the name does not move the instant *)
                | None => None
                end
      end
  end.

(** the loop of time.parse over a layout already cut into (literal prefix, std)
    chunks (what time.nextStdChunk returns), then the literal tail *)
Fixpoint parse_chunks (chunks : list (string * std)) (tail value : string) (t : pt) : option pt :=
  match chunks with
  | [] => match skip value tail with
          | Some EmptyString => Some t
          | _ => None                               (* "extra text" *)
          end
  | (prefix, k) :: chunks' =>
      match skip value prefix with
      | Some value' => match parse_std k value' t with
                       | Some (value'', t') => parse_chunks chunks' tail value'' t'
                       | None => None
                       end
      | None => None
      end
  end.

(** the end of time.parse: defaults, day-of-month validation, time.Date in UTC;
    result (unix seconds, nanoseconds) *)
Definition finish (t : pt) : option (Z * Z) :=
  let month := if p_month t <? 0 then 1 else p_month t in
  let day := if p_day t <? 0 then 1 else p_day t in
  if (day <? 1) || (days_in month (p_year t) <? day) then None
  else Some (unix_of_fields (p_year t) month day (p_hour t) (p_min t) (p_sec t), p_nsec t).

Definition time_parse (chunks : list (string * std)) (tail value : string) : option (Z * Z) :=
  match parse_chunks chunks tail value pt0 with Some t => finish t | None => None end.

(** the four layouts, as time.nextStdChunk cuts them *)
Definition layout_http : list (string * std) * string :=
  ([(""%string, StdWeekDay); (", "%string, StdZeroDay); (" "%string, StdMonth); (" "%string, StdLongYear);
    (" "%string, StdHour); (":"%string, StdZeroMinute); (":"%string, StdZeroSecond)], " GMT"%string).
Definition layout_rfc850 : list (string * std) * string :=
  ([(""%string, StdLongWeekDay); (", "%string, StdZeroDay); ("-"%string, StdMonth); ("-"%string, StdYear);
    (" "%string, StdHour); (":"%string, StdZeroMinute); (":"%string, StdZeroSecond); (" "%string, StdTZ)], ""%string).
Definition layout_ansic : list (string * std) * string :=
  ([(""%string, StdWeekDay); (" "%string, StdMonth); (" "%string, StdUnderDay); (" "%string, StdHour);
    (":"%string, StdZeroMinute); (":"%string, StdZeroSecond); (" "%string, StdLongYear)], ""%string).
Definition layout_ical : list (string * std) * string :=
  ([(""%string, StdLongYear); (""%string, StdZeroMonth); (""%string, StdZeroDay); ("T"%string, StdHour);
    (""%string, StdZeroMinute); (""%string, StdZeroSecond)], "Z"%string).

Definition parse_with (l : list (string * std) * string) (value : string) : option (Z * Z) :=
  time_parse (fst l) (snd l) value.

(** net/http.ParseTime *)
Definition http_parse_time (text : string) : option (Z * Z) :=
  match parse_with layout_http text with
  | Some r => Some r
  | None => match parse_with layout_rfc850 text with
            | Some r => Some r
            | None => parse_with layout_ansic text
            end
  end.

(** * The codecs *)

Definition instant : Type := (Z * Z)%type.   (* unix seconds, zone offset in seconds *)

(** internal.Time.MarshalText: t.UTC().Format(http.TimeFormat) *)
Definition time_marshal (i : instant) : string := format_http (fst i).
(** internal.Time.UnmarshalText: http.ParseTime; the value is (seconds, nanoseconds) *)
Definition time_unmarshal (b : string) : res (Z * Z) :=
  match http_parse_time b with Some r => Ok r | None => plain_err end.

(** caldav.dateWithUTCTime.MarshalText: t.UTC().Format(layout) *)
Definition icaldate_marshal (i : instant) : string := format_ical (fst i).
(** caldav.dateWithUTCTime.UnmarshalText: the layout's length, then time.Parse *)
Definition icaldate_unmarshal (b : string) : res (Z * Z) :=
  if negb (String.length b =? 16)%nat then plain_err
  else match parse_with layout_ical b with Some r => Ok r | None => plain_err end.

(** * Specification: the grammars with their denotation *)

Definition two_digits (a b : ascii) : option Z :=
  if is_digit a && is_digit b then Some (10 * digit_val a + digit_val b) else None.
Definition four_digits (a b c d : ascii) : option Z :=
  if is_digit a && is_digit b && is_digit c && is_digit d
  then Some (1000 * digit_val a + 100 * digit_val b + 10 * digit_val c + digit_val d) else None.

Definition valid_fields (y m d h mi s : Z) : bool :=
  (1 <=? m) && (m <=? 12) && (1 <=? d) && (d <=? spec_days_in m y)
  && (h <=? 23) && (mi <=? 59) && (s <=? 59).

Definition den_fields (y m d h mi s : option Z) : option Z :=
  match y, m, d, h, mi, s with
  | Some y, Some m, Some d, Some h, Some mi, Some s =>
      if valid_fields y m d h mi s then Some (spec_unix_of_fields y m d h mi s) else None
  | _, _, _, _, _, _ => None
  end.

(** RFC 5545 3.3.5 form 2, "date with UTC time":  4DIGIT 2DIGIT 2DIGIT "T" 2DIGIT 2DIGIT 2DIGIT "Z"
    (a leap second "60" has no Unix instant and is left out) *)
Definition ical_den (s : string) : option Z :=
  match s with
  | String y1 (String y2 (String y3 (String y4 (String m1 (String m2 (String d1 (String d2
    (String t (String h1 (String h2 (String n1 (String n2 (String s1 (String s2 (String z EmptyString))))))))))))))) =>
      if Ascii.eqb t "T" && Ascii.eqb z "Z" then
        den_fields (four_digits y1 y2 y3 y4) (two_digits m1 m2) (two_digits d1 d2)
                   (two_digits h1 h2) (two_digits n1 n2) (two_digits s1 s2)
      else None
  | _ => None
  end.

(** exact (case-sensitive) name at the start of the text *)
Fixpoint exact_name (tab : list string) (value : string) (i : Z) : option (Z * string) :=
  match tab with
  | [] => None
  | name :: tab' => match strip_prefix name value with
                    | Some rest => Some (i, rest)
                    | None => exact_name tab' value (i + 1)
                    end
  end.

(** time-of-day SP? ... : 2DIGIT ":" 2DIGIT ":" 2DIGIT, returns the three numbers and the rest *)
Definition den_time_of_day (s : string) : option (option Z * option Z * option Z * string) :=
  match s with
  | String h1 (String h2 (String c1 (String n1 (String n2 (String c2 (String s1 (String s2 rest))))))) =>
      if Ascii.eqb c1 ":" && Ascii.eqb c2 ":" then
        Some (two_digits h1 h2, two_digits n1 n2, two_digits s1 s2, rest) else None
  | _ => None
  end.

(** RFC 7231 7.1.1.1  IMF-fixdate = day-name "," SP 2DIGIT SP month SP 4DIGIT SP time-of-day SP GMT *)
Definition den_imf (s : string) : option Z :=
  match exact_name short_day_names s 0 with
  | Some (_, String c (String sp1 (String d1 (String d2 (String sp2 r1))))) =>
      if Ascii.eqb c "," && Ascii.eqb sp1 " " && Ascii.eqb sp2 " " then
        match exact_name short_month_names r1 0 with
        | Some (mi, String sp3 (String y1 (String y2 (String y3 (String y4 (String sp4 r2)))))) =>
            if Ascii.eqb sp3 " " && Ascii.eqb sp4 " " then
              match den_time_of_day r2 with
              | Some (h, n, sec, rest) =>
                  if String.eqb rest " GMT" then
                    den_fields (four_digits y1 y2 y3 y4) (Some (mi + 1)) (two_digits d1 d2) h n sec
                  else None
              | None => None
              end
            else None
        | _ => None
        end
      else None
  | _ => None
  end.

(** rfc850-date = day-name-l "," SP 2DIGIT "-" month "-" 2DIGIT SP time-of-day SP GMT;
    the two-digit year is read with the fixed pivot Go uses (69..99 -> 19xx, 00..68 -> 20xx) *)
Definition den_rfc850 (s : string) : option Z :=
  match exact_name long_day_names s 0 with
  | Some (_, String c (String sp1 (String d1 (String d2 (String da1 r1))))) =>
      if Ascii.eqb c "," && Ascii.eqb sp1 " " && Ascii.eqb da1 "-" then
        match exact_name short_month_names r1 0 with
        | Some (mi, String da2 (String y1 (String y2 (String sp2 r2)))) =>
            if Ascii.eqb da2 "-" && Ascii.eqb sp2 " " then
              match den_time_of_day r2 with
              | Some (h, n, sec, rest) =>
                  if String.eqb rest " GMT" then
                    let y := match two_digits y1 y2 with
                             | Some y => Some (if 69 <=? y then y + 1900 else y + 2000)
                             | None => None
                             end in
                    den_fields y (Some (mi + 1)) (two_digits d1 d2) h n sec
                  else None
              | None => None
              end
            else None
        | _ => None
        end
      else None
  | _ => None
  end.

(** asctime-date = day-name SP month SP ( 2DIGIT / ( SP 1DIGIT )) SP time-of-day SP 4DIGIT *)
Definition den_asctime (s : string) : option Z :=
  match exact_name short_day_names s 0 with
  | Some (_, String sp1 r0) =>
      if Ascii.eqb sp1 " " then
        match exact_name short_month_names r0 0 with
        | Some (mi, String sp2 (String d1 (String d2 (String sp3 r2)))) =>
            if Ascii.eqb sp2 " " && Ascii.eqb sp3 " " then
              let day := if Ascii.eqb d1 " " then (if is_digit d2 then Some (digit_val d2) else None)
                         else two_digits d1 d2 in
              match den_time_of_day r2 with
              | Some (h, n, sec, String sp4 (String y1 (String y2 (String y3 (String y4 EmptyString))))) =>
                  if Ascii.eqb sp4 " " then
                    den_fields (four_digits y1 y2 y3 y4) (Some (mi + 1)) day h n sec
                  else None
              | _ => None
              end
            else None
        | _ => None
        end
      else None
  | _ => None
  end.

(** HTTP-date = IMF-fixdate / rfc850-date / asctime-date *)
Definition http_den (s : string) : option Z :=
  match den_imf s with
  | Some t => Some t
  | None => match den_rfc850 s with Some t => Some t | None => den_asctime s end
  end.

(** * Verdicts *)

Definition zz_eqb (a b : Z * Z) : bool := (fst a =? fst b) && (snd a =? snd b).

(** the domain of the round-trip clause: instants whose UTC year is 0..9999 *)
Definition instant_in_domain (i : instant) : bool :=
  let y := year_of_unix (fst i) in (0 <=? y) && (y <=? 9999).

(** a decoded value (seconds, nanoseconds) against the denotation of the text *)
Definition den_pair (d : option Z) : option (Z * Z) := match d with Some t => Some (t, 0) | None => None end.

(** (time-rt secs off): Time.MarshalText of the instant in the zone, then UnmarshalText *)
Definition time_rt_agrees (i : instant) (omar : string) (oun : obs (Z * Z)) : bool :=
  String.eqb (time_marshal i) omar && obs_eqb zz_eqb (obs_of (time_unmarshal omar)) oun.
Definition time_rt_spec_ok (i : instant) (omar : string) (oun : obs (Z * Z)) : bool :=
  if instant_in_domain i then
    opt_eqb Z.eqb (den_imf omar) (Some (fst i)) && obs_eqb zz_eqb oun (ObsOk (fst i, 0))
  else true.
Definition time_dec_agrees (b : string) (o : obs (Z * Z)) : bool := obs_eqb zz_eqb (obs_of (time_unmarshal b)) o.
Definition time_dec_spec_ok (b : string) (o : obs (Z * Z)) : bool := dec_spec_ok zz_eqb (den_pair (http_den b)) o.
(** known finding C16-httpdate-lenient: http.ParseTime accepts texts that are not an
    HTTP-date of RFC 7231 (names in any case, one-digit hours, runs of spaces, a
    fraction after the seconds, any zone abbreviation or a signed year in the
    RFC 850 form, a one-digit day after a single space in the asctime form) *)
Definition kf_httpdate_lenient (b : string) (o : obs (Z * Z)) : bool :=
  match o, http_den b with ObsOk _, None => true | _, _ => false end.

Definition icaldate_rt_agrees (i : instant) (omar : string) (oun : obs (Z * Z)) : bool :=
  String.eqb (icaldate_marshal i) omar && obs_eqb zz_eqb (obs_of (icaldate_unmarshal omar)) oun.
Definition icaldate_rt_spec_ok (i : instant) (omar : string) (oun : obs (Z * Z)) : bool :=
  if instant_in_domain i then
    opt_eqb Z.eqb (ical_den omar) (Some (fst i)) && obs_eqb zz_eqb oun (ObsOk (fst i, 0))
  else true.
Definition icaldate_dec_agrees (b : string) (o : obs (Z * Z)) : bool := obs_eqb zz_eqb (obs_of (icaldate_unmarshal b)) o.
Definition icaldate_dec_spec_ok (b : string) (o : obs (Z * Z)) : bool := dec_spec_ok zz_eqb (den_pair (ical_den b)) o.

(** cross-check of the calendar arithmetic against package time:
    (civil secs) -> year month day hour min sec weekday *)
Definition civil_agrees (secs : Z) (y m d h mi s wd : Z) : bool :=
  let c := civil_of_unix secs in
  (c_year c =? y) && (c_month c =? m) && (c_day c =? d) && (c_hour c =? h) && (c_min c =? mi)
  && (c_sec c =? s) && (c_wday c =? wd) && (unix_of_fields y m d h mi s =? secs)
  && (spec_unix_of_fields y m d h mi s =? secs).
