(** CalWireAgree.v — the two Coq models of the CalDAV server's REPORT decoding
    describe the same function: C08's [CalWire.handle_report] (which request
    value reaches the backend) and C13's [ServerTotal.cal_handle_report]
    (which status is answered / whether the backend is reached).

    Both are hand-written after caldav/elements.go + caldav/server.go and each
    is tied to the Go code by its own correspondence check; this file relates
    them for EVERY report body tree, up to the one point where they differ:
    ServerTotal models encoding/xml's nesting limit (errUnmarshalDepth at
    10000), CalWire does not ([models_differ_beyond_depth_limit]). *)
From Coq Require Import Permutation.
From GW Require Import Base CalTime CalTimeProofs CalXml CalWire CalWireLex CalWireServer.
From GW Require ServerTotal.
Module ST := ServerTotal.

(** * The date-time text: [ST.parse_utc_ok] accepts what [CalTime.parse_utc] parses *)
Lemma dval_of_digit_val c :
  match ST.digit_val c with
  | Some v => dval c = Some (Z.of_N v) /\ (v <= 9)%N
  | None => dval c = None
  end.
Proof.
  unfold ST.digit_val, dval. cbv zeta.
  set (n := N_of_ascii c).
  replace ((48 <=? Z.of_N n)%Z) with ((48 <=? n)%N).
  2:{ destruct (48 <=? n)%N eqn:E; symmetry; [apply N.leb_le in E; apply Z.leb_le; lia | apply N.leb_gt in E; apply Z.leb_gt; lia]. }
  replace ((Z.of_N n <=? 57)%Z) with ((n <=? 57)%N).
  2:{ destruct (n <=? 57)%N eqn:E; symmetry; [apply N.leb_le in E; apply Z.leb_le; lia | apply N.leb_gt in E; apply Z.leb_gt; lia]. }
  destruct (48 <=? n)%N eqn:E1; cbn [andb]; [|reflexivity].
  destruct (n <=? 57)%N eqn:E2; [|reflexivity].
  apply N.leb_le in E1, E2. split; [f_equal; lia | lia].
Qed.

Lemma leb_NZ a b : (a <=? b)%N = (Z.of_N a <=? Z.of_N b)%Z.
Proof. destruct (a <=? b)%N eqn:E; symmetry; [apply N.leb_le in E; apply Z.leb_le; lia | apply N.leb_gt in E; apply Z.leb_gt; lia]. Qed.
Lemma ltb_NZ a b : (a <? b)%N = (Z.of_N a <? Z.of_N b)%Z.
Proof. destruct (a <? b)%N eqn:E; symmetry; [apply N.ltb_lt in E; apply Z.ltb_lt; lia | apply N.ltb_ge in E; apply Z.ltb_ge; lia]. Qed.
Lemma eqb_NZ a b : (a =? b)%N = (Z.of_N a =? Z.of_N b)%Z.
Proof. destruct (a =? b)%N eqn:E; symmetry; [apply N.eqb_eq in E; apply Z.eqb_eq; lia | apply N.eqb_neq in E; apply Z.eqb_neq; lia]. Qed.

Lemma leap_NZ y : ST.leap y = is_leap (Z.of_N y).
Proof.
  unfold ST.leap, is_leap. rewrite !eqb_NZ, !N2Z.inj_mod. reflexivity.
Qed.

Lemma days_in_NZ m y : Z.of_N (ST.days_in m y) = days_in_month (Z.of_N y) (Z.of_N m).
Proof.
  unfold ST.days_in, days_in_month. rewrite !eqb_NZ, leap_NZ. cbn [Z.of_N].
  repeat match goal with |- context [if ?c then _ else _] => destruct c end; reflexivity.
Qed.

Lemma two_NZ v w : Z.of_N ((0 * 10 + v) * 10 + w) = (10 * Z.of_N v + Z.of_N w)%Z.
Proof. lia. Qed.
Lemma four_NZ a b c d :
  Z.of_N ((((0 * 10 + a) * 10 + b) * 10 + c) * 10 + d)
  = (100 * (10 * Z.of_N a + Z.of_N b) + (10 * Z.of_N c + Z.of_N d))%Z.
Proof. lia. Qed.

Definition some_b {A} (o : option A) : bool := match o with Some _ => true | None => false end.

Ltac short_case :=
  cbv beta iota;
  repeat match goal with |- context [ST.digit_val ?c] => destruct (ST.digit_val c) end;
  reflexivity.

Ltac digit c :=
  let H := fresh "H" in
  pose proof (dval_of_digit_val c) as H;
  destruct (ST.digit_val c);
  [destruct H as [H ?]; rewrite H; cbv beta iota
  |rewrite H; cbv beta iota; try reflexivity].

Lemma parse_ok_iff s : ST.parse_utc_ok s = some_b (parse_utc s).
Proof.
  unfold ST.parse_utc_ok, parse_utc, some_b.
  do 16 (destruct s as [|? s]; cbn [list_ascii_of_string ST.take_digits]; [short_case |]).
  destruct s as [|? s]; cbn [list_ascii_of_string ST.take_digits]; [|short_case].
  unfold num4, num2.
  destruct (Ascii.eqb a7 "T") eqn:ET; destruct (Ascii.eqb a14 "Z") eqn:EZ; cbn [andb];
    try (cbv beta iota;
         repeat (match goal with |- context [ST.digit_val ?c] => destruct (ST.digit_val c) end; cbv beta iota);
         rewrite ?ET, ?EZ; cbn [andb]; reflexivity).
  digit a. digit a0. digit a1. digit a2. digit a3. digit a4. digit a5. digit a6.
  digit a8. digit a9. digit a10. digit a11. digit a12. digit a13.
  rewrite ET, EZ. cbn [andb]. rewrite !leb_NZ, !ltb_NZ, days_in_NZ, !four_NZ, !two_NZ. cbn [Z.of_N].
  match goal with |- _ = match (if ?C then _ else _) with _ => _ end => destruct C end; reflexivity.
Qed.

Lemma parse_ok_true s : ST.parse_utc_ok s = true -> exists z, parse_utc s = Some z.
Proof. rewrite parse_ok_iff. destruct (parse_utc s); [eauto | discriminate]. Qed.
Lemma parse_ok_false s : ST.parse_utc_ok s = false -> parse_utc s = None.
Proof. rewrite parse_ok_iff. destruct (parse_utc s); [discriminate | reflexivity]. Qed.

(** * Translating trees *)
Definition tra (a : ST.xattr) : xattr := ((ST.a_ns a, ST.a_local a), ST.a_val a).

Fixpoint tr (t : ST.xtree) : xtree :=
  match t with
  | ST.XElem ns l attrs kids => Elem (ns, l) (map tra attrs) (map tr kids)
  | ST.XText s => Text s
  | ST.XOther => Comment ""
  end.

(** [E T t]: the CalWire tree [T] is the ServerTotal tree [t], up to attributes
    that belong to a namespace (which [t] no longer has). *)
Definition E (T : xtree) (t : ST.xtree) : Prop := strip_foreign T = tr t.

Lemma map_eq_Forall2 {A B C} (f : A -> C) (g : B -> C) l l' :
  map f l = map g l' -> Forall2 (fun a b => f a = g b) l l'.
Proof.
  revert l'. induction l as [|a l IH]; intros [|b l'] H; try discriminate; constructor; inversion H; auto.
Qed.

Lemma E_elem_inv T ns l attrs kids :
  E T (ST.XElem ns l attrs kids) ->
  exists a k, T = Elem (ns, l) a k /\ drop_foreign a = map tra attrs /\ Forall2 E k kids.
Proof.
  unfold E. destruct T as [n a k| |]; cbn; try discriminate. intros H. inversion H; subst.
  exists a, k. repeat split; auto. now apply map_eq_Forall2.
Qed.
Lemma E_text_inv T s : E T (ST.XText s) -> T = Text s.
Proof. unfold E. destruct T; cbn; try discriminate. intros H. now inversion H. Qed.
Lemma E_other_inv T : E T ST.XOther -> T = Comment "".
Proof. unfold E. destruct T; cbn; try discriminate. intros H. now inversion H. Qed.

Lemma E_chardata k kids : Forall2 E k kids -> text_of k = ST.chardata kids.
Proof.
  induction 1 as [|T t k kids HE _ IH]; [reflexivity |].
  destruct t as [ns l attrs kk | s |].
  - apply E_elem_inv in HE. destruct HE as (a & k0 & -> & _). exact IH.
  - apply E_text_inv in HE. subst. cbn. now rewrite IH.
  - apply E_other_inv in HE. subst. exact IH.
Qed.

(** * Heights and the nesting limit *)
Fixpoint height (t : ST.xtree) : N :=
  match t with
  | ST.XElem _ _ _ kids => 1 + fold_right (fun k m => N.max (height k) m) 0%N kids
  | _ => 0
  end.

Definition fits (d : N) (t : ST.xtree) : Prop := (d + 2 * height t <= ST.MAXD)%N.

Lemma height_kid ns l attrs kids k : In k kids -> (height k + 1 <= height (ST.XElem ns l attrs kids))%N.
Proof.
  cbn [height]. induction kids as [|x r IH]; cbn [In fold_right]; [tauto |]. intros [->|H]; [lia |].
  specialize (IH H). lia.
Qed.

Lemma fits_kid d ns l attrs kids k :
  fits d (ST.XElem ns l attrs kids) -> In k kids -> fits (d + 2) k.
Proof. unfold fits. intros H Hin. pose proof (height_kid ns l attrs kids k Hin). lia. Qed.

Lemma fits_lt d ns l attrs kids : fits d (ST.XElem ns l attrs kids) -> (d + 2 <= ST.MAXD)%N.
Proof. unfold fits. cbn [height]. lia. Qed.

Lemma fits_mono d d' t : fits d t -> (d' <= d)%N -> fits d' t.
Proof. unfold fits. lia. Qed.

Lemma chk_ok {A} d (x : option A) : (d < ST.MAXD)%N -> ST.chk d x = x.
Proof. unfold ST.chk. intros H. apply N.leb_gt in H. now rewrite H. Qed.

(** * Simulation *)
Definition sim {A B} (R : A -> B -> Prop) (o : option A) (r : res B) : Prop :=
  match o, r with
  | Some x, Ok y => R x y
  | None, Err c => c = 400%N
  | _, _ => False
  end.

Lemma sim_attrs {A B} (R : A -> B -> Prop) (fa : A -> ST.xattr -> option A)
      (set : string -> string -> B -> res B) :
  (forall acc acc' x, R acc acc' -> sim R (fa acc x) (set (ST.a_local x) (ST.a_val x) acc')) ->
  forall a attrs acc acc', drop_foreign a = map tra attrs -> R acc acc' ->
  sim R (ST.fold_opt fa attrs acc) (fold_attrs set a acc').
Proof.
  intros Hstep. unfold fold_attrs. induction a as [|x a IH]; intros attrs acc acc' Hd HR.
  - destruct attrs; [|discriminate]. exact HR.
  - cbn [fold_res]. unfold drop_foreign in Hd. cbn [filter] in Hd.
    destruct (str_empty (a_space x)) eqn:Ex.
    + destruct attrs as [|y attrs]; [discriminate |]. cbn [map] in Hd. inversion Hd; subst.
      cbn [ST.fold_opt]. specialize (Hstep acc acc' y HR).
      change (a_local (tra y)) with (ST.a_local y). change (a_value (tra y)) with (ST.a_val y).
      destruct (fa acc y) as [acc1|], (set (ST.a_local y) (ST.a_val y) acc') as [acc1'| |]; cbn in Hstep; try contradiction.
      * now apply IH.
      * exact Hstep.
    + now apply IH.
Qed.

Lemma sim_kids {A B} (R : A -> B -> Prop) (fk : A -> ST.xtree -> option A) (kid : B -> xtree -> res B) kids :
  (forall acc acc' T t, In t kids -> E T t -> R acc acc' -> sim R (fk acc t) (kid acc' T)) ->
  forall k acc acc', Forall2 E k kids -> R acc acc' ->
  sim R (ST.fold_opt fk kids acc) (fold_res kid k acc').
Proof.
  induction kids as [|t kids IH]; intros Hstep k acc acc' Hf HR; inversion Hf; subst.
  - exact HR.
  - cbn [ST.fold_opt fold_res].
    match goal with HE : E ?T t |- _ => pose proof (Hstep acc acc' T t (or_introl eq_refl) HE HR) as Hs end.
    destruct (fk acc t), (kid acc' x); cbn in Hs; try contradiction.
    + apply IH; auto. intros. apply Hstep; auto. now right.
    + exact Hs.
Qed.

Lemma fold_opt_const {A} (acc : A) (kids : list ST.xtree) : ST.fold_opt (fun acc _ => Some acc) kids acc = Some acc.
Proof. induction kids; cbn; auto. Qed.

Lemma name_ok_eq NS L ns l :
  str_empty NS = false -> ST.name_ok (Some (NS, L)) ns l = name_eqb (ns, l) (NS, L).
Proof.
  intros H. unfold ST.name_ok, name_eqb. cbn [fst snd]. rewrite H. cbn [orb].
  rewrite (String.eqb_sym L l), (String.eqb_sym NS ns). apply andb_comm.
Qed.

(** * Relations between the wire structures of the two models *)
Definition R_io (o : option string) (o' : option instant) : Prop :=
  match o, o' with
  | None, None => True
  | Some s, Some i => u_instant s = Ok i
  | _, _ => False
  end.
Definition R_tr (x : ST.timeRangeW) (y : w_time_range) : Prop :=
  R_io (ST.tr_start x) (wtr_start y) /\ R_io (ST.tr_end x) (wtr_end y).
Definition R_bound (o : option string) (i : instant) : Prop :=
  match o with None => i = zero_instant | Some s => u_instant s = Ok i end.
Definition R_ex (x : ST.timeRangeW) (y : w_expand) : Prop :=
  R_bound (ST.tr_start x) (wex_start y) /\ R_bound (ST.tr_end x) (wex_end y).
Definition R_tm (x : ST.textMatchW) (y : w_text_match) : Prop :=
  ST.tm_text x = wtm_text y /\ ST.tm_collation x = wtm_collation y /\ ST.tm_negate x = wtm_negate y.
Definition R_opt {A B} (R : A -> B -> Prop) (o : option A) (o' : option B) : Prop :=
  match o, o' with None, None => True | Some a, Some b => R a b | _, _ => False end.
Definition R_paf (x : ST.paramFilterW) (y : w_param_filter) : Prop :=
  ST.paf_name x = wpaf_name y /\ ST.paf_ind x = wpaf_ind y /\ R_opt R_tm (ST.paf_tm x) (wpaf_tm y).
Definition R_pf (x : ST.cpropFilterW) (y : w_prop_filter) : Prop :=
  ST.cpf_name x = wpf_name y /\ ST.cpf_ind x = wpf_ind y /\ R_opt R_tr (ST.cpf_tr x) (wpf_tr y)
  /\ R_opt R_tm (ST.cpf_tm x) (wpf_tm y) /\ Forall2 R_paf (ST.cpf_params x) (wpf_params y).
Inductive R_cf : ST.compFilterW -> w_comp_filter -> Prop :=
| R_cf_intro n i tr tr' pfs pfs' cfs cfs' :
    R_opt R_tr tr tr' -> Forall2 R_pf pfs pfs' -> Forall2 R_cf cfs cfs' ->
    R_cf (ST.CompFilterW n i tr pfs cfs) (WCF n i tr' pfs' cfs').
Inductive R_comp : ST.compW -> w_comp -> Prop :=
| R_comp_intro n ap ps ac cs cs' :
    Forall2 R_comp cs cs' -> R_comp (ST.CompW n ap ps ac cs) (WComp n ap ps ac cs').
Definition R_cd (x : ST.calDataW) (y : w_cal_data_req) : Prop :=
  R_opt R_comp (ST.cd_comp x) (wcd_comp y) /\ R_opt R_ex (ST.cd_expand x) (wcd_expand y).

Lemma u_instant_of_ok s : ST.parse_utc_ok s = true -> exists i, u_instant s = Ok i.
Proof. intros H. apply parse_ok_true in H. destruct H as (z & H). unfold u_instant. rewrite H. eauto. Qed.
Lemma u_instant_of_bad s : ST.parse_utc_ok s = false -> u_instant s = Err 400.
Proof. intros H. apply parse_ok_false in H. unfold u_instant. now rewrite H. Qed.

Ltac elem_case t HE :=
  destruct t as [ns l attrs kids | s |];
  [ apply E_elem_inv in HE; destruct HE as (a & k & -> & Hd & Hk)
  | apply E_text_inv in HE; subst; reflexivity
  | apply E_other_inv in HE; subst; reflexivity ].

(** time-range *)
Lemma sim_tr d acc acc' T t :
  E T t -> fits d t -> R_tr acc acc' -> sim R_tr (ST.um_time_range d acc t) (u_time_range acc' T).
Proof.
  intros HE Hfit HR. elem_case t HE.
  unfold ST.um_time_range, ST.um_struct, u_time_range.
  rewrite chk_ok by (apply fits_lt in Hfit; lia). rewrite name_ok_eq by reflexivity.
  change (ST.NS_CAL, "time-range") with (cn "time-range").
  destruct (name_eqb (ns, l) (cn "time-range")); cbn [negb]; [|reflexivity].
  match goal with |- context [ST.fold_opt ?fa attrs acc] =>
    pose proof (sim_attrs R_tr fa tr_set) as Ha end.
  specialize (Ha ltac:(
    intros x y z [H1 H2]; unfold tr_set; cbv beta;
    destruct (String.eqb (ST.a_local z) "start");
    [ destruct (ST.parse_utc_ok (ST.a_val z)) eqn:Ep;
      [ destruct (u_instant_of_ok _ Ep) as (i & Hi); rewrite Hi; split; [exact Hi | exact H2]
      | rewrite (u_instant_of_bad _ Ep); reflexivity ]
    | destruct (String.eqb (ST.a_local z) "end");
      [ destruct (ST.parse_utc_ok (ST.a_val z)) eqn:Ep;
        [ destruct (u_instant_of_ok _ Ep) as (i & Hi); rewrite Hi; split; [exact H1 | exact Hi]
        | rewrite (u_instant_of_bad _ Ep); reflexivity ]
      | split; assumption ] ]) a attrs acc acc' Hd HR).
  destruct (ST.fold_opt _ attrs acc) as [a1|], (fold_attrs tr_set a acc') as [a1'| |]; cbn in Ha; try contradiction.
  - rewrite fold_opt_const. exact Ha.
  - exact Ha.
Qed.

(** expand *)
Lemma sim_ex d acc acc' T t :
  E T t -> fits d t -> R_ex acc acc' -> sim R_ex (ST.um_expand d acc t) (u_expand acc' T).
Proof.
  intros HE Hfit HR. elem_case t HE.
  unfold ST.um_expand, ST.um_struct, u_expand.
  rewrite chk_ok by (apply fits_lt in Hfit; lia). rewrite name_ok_eq by reflexivity.
  change (ST.NS_CAL, "expand") with (cn "expand").
  destruct (name_eqb (ns, l) (cn "expand")); cbn [negb]; [|reflexivity].
  match goal with |- context [ST.fold_opt ?fa attrs acc] =>
    pose proof (sim_attrs R_ex fa ex_set) as Ha end.
  specialize (Ha ltac:(
    intros x y z [H1 H2]; unfold ex_set; cbv beta;
    destruct (String.eqb (ST.a_local z) "start");
    [ destruct (ST.parse_utc_ok (ST.a_val z)) eqn:Ep;
      [ destruct (u_instant_of_ok _ Ep) as (i & Hi); rewrite Hi; split; [exact Hi | exact H2]
      | rewrite (u_instant_of_bad _ Ep); reflexivity ]
    | destruct (String.eqb (ST.a_local z) "end");
      [ destruct (ST.parse_utc_ok (ST.a_val z)) eqn:Ep;
        [ destruct (u_instant_of_ok _ Ep) as (i & Hi); rewrite Hi; split; [exact H1 | exact Hi]
        | rewrite (u_instant_of_bad _ Ep); reflexivity ]
      | split; assumption ] ]) a attrs acc acc' Hd HR).
  destruct (ST.fold_opt _ attrs acc) as [a1|], (fold_attrs ex_set a acc') as [a1'| |]; cbn in Ha; try contradiction.
  - rewrite fold_opt_const. exact Ha.
  - exact Ha.
Qed.

(** text-match (CalDAV: no match-type attribute) *)
Lemma sim_tm d acc acc' T t :
  E T t -> fits d t -> R_tm acc acc' ->
  sim R_tm (ST.um_text_match false ST.NS_CAL d acc t) (u_text_match acc' T).
Proof.
  intros HE Hfit HR. elem_case t HE.
  unfold ST.um_text_match, ST.um_struct, u_text_match.
  rewrite chk_ok by (apply fits_lt in Hfit; lia). rewrite name_ok_eq by reflexivity.
  change (ST.NS_CAL, "text-match") with (cn "text-match").
  destruct (name_eqb (ns, l) (cn "text-match")); cbn [negb]; [|reflexivity].
  match goal with |- context [ST.fold_opt ?fa attrs acc] =>
    pose proof (sim_attrs R_tm fa tm_set) as Ha end.
  specialize (Ha ltac:(
    intros x y z (H1 & H2 & H3); unfold tm_set, ST.parse_yes_no; cbv beta; cbn [andb];
    destruct (String.eqb (ST.a_local z) "collation");
    [ repeat split; assumption
    | destruct (String.eqb (ST.a_local z) "negate-condition");
      [ destruct (String.eqb (ST.a_val z) "yes");
        [ repeat split; assumption
        | destruct (String.eqb (ST.a_val z) "no"); [repeat split; assumption | reflexivity] ]
      | repeat split; assumption ] ]) a attrs acc acc' Hd HR).
  destruct (ST.fold_opt _ attrs acc) as [a1|], (fold_attrs tm_set a acc') as [a1'| |]; cbn in Ha; try contradiction.
  - rewrite fold_opt_const. destruct Ha as (H1 & H2 & H3). repeat split; cbn; auto.
    symmetry. now apply E_chardata.
  - exact Ha.
Qed.

Lemma R_opt_default {A B} (R : A -> B -> Prop) z z' o o' :
  R z z' -> R_opt R o o' -> R (match o with Some u => u | None => z end) (opt_default z' o').
Proof. intros Hz Ho. destruct o, o'; cbn in *; try contradiction; auto. Qed.

Lemma R_tm_zero : R_tm ST.text_match_zero zero_wtm.
Proof. repeat split. Qed.
Lemma R_tr_zero : R_tr ST.time_range_zero zero_wtr.
Proof. split; exact I. Qed.
Lemma R_ex_zero : R_ex ST.time_range_zero zero_wex.
Proof. split; reflexivity. Qed.

Ltac kid_case t HE :=
  destruct t as [ns' l' attrs' kids' | s' |];
  [ pose proof HE as HE0; apply E_elem_inv in HE0; destruct HE0 as (a' & k' & -> & _ & _)
  | apply E_text_inv in HE; subst; cbn; try assumption
  | apply E_other_inv in HE; subst; cbn; try assumption ].

(** param-filter *)
Lemma sim_paf d acc acc' T t :
  E T t -> fits d t -> R_paf acc acc' ->
  sim R_paf (ST.um_param_filter false ST.NS_CAL d acc t) (u_param_filter acc' T).
Proof.
  intros HE Hfit HR. elem_case t HE.
  unfold ST.um_param_filter, ST.um_struct, u_param_filter.
  pose proof (fits_lt _ _ _ _ _ Hfit) as Hlt.
  rewrite chk_ok by lia. rewrite name_ok_eq by reflexivity.
  change (ST.NS_CAL, "param-filter") with (cn "param-filter").
  destruct (name_eqb (ns, l) (cn "param-filter")); cbn [negb]; [|reflexivity].
  match goal with |- context [ST.fold_opt ?fa attrs acc] =>
    pose proof (sim_attrs R_paf fa paf_set) as Ha end.
  specialize (Ha ltac:(
    intros x y z (H1 & H2 & H3); unfold paf_set; cbv beta;
    destruct (String.eqb (ST.a_local z) "name"); repeat split; assumption) a attrs acc acc' Hd HR).
  destruct (ST.fold_opt _ attrs acc) as [a1|], (fold_attrs paf_set a acc') as [a1'| |]; cbn in Ha; try contradiction;
    [|exact Ha].
  match goal with |- context [ST.fold_opt ?fk kids a1] =>
    pose proof (sim_kids R_paf fk paf_kid kids) as Hks end.
  assert (Hstep : forall acc acc' T t, In t kids -> E T t -> R_paf acc acc' ->
            sim R_paf ((fun acc0 k0 =>
              if ST.kid_local k0 "is-not-defined" then
                match ST.into_flag d with
                | Some v => Some {| ST.paf_name := ST.paf_name acc0; ST.paf_ind := v; ST.paf_tm := ST.paf_tm acc0 |}
                | None => None end
              else if ST.kid_local k0 "text-match" then
                match ST.into_ptr (ST.um_text_match false ST.NS_CAL) ST.text_match_zero d (ST.paf_tm acc0) k0 with
                | Some v => Some {| ST.paf_name := ST.paf_name acc0; ST.paf_ind := ST.paf_ind acc0; ST.paf_tm := v |}
                | None => None end
              else Some acc0) acc t) (paf_kid acc' T)).
  { clear - Hfit Hlt. intros acc acc' T t Hin HE (H1 & H2 & H3). cbv beta.
    pose proof (fits_kid _ _ _ _ _ _ Hfit Hin) as Hfk.
    kid_case t HE; try (repeat split; assumption).
    cbn [ST.kid_local paf_kid]. change (local_is (ns', l') ?x) with (String.eqb l' x).
    destruct (String.eqb l' "is-not-defined").
    { unfold ST.into_flag. rewrite chk_ok by lia. repeat split; assumption. }
    destruct (String.eqb l' "text-match"); [|repeat split; assumption].
    unfold ST.into_ptr.
    pose proof (sim_tm (d + 1) _ _ _ _ HE (fits_mono (d + 2) (d + 1) _ Hfk ltac:(lia))
                       (R_opt_default R_tm _ _ _ _ R_tm_zero H3)) as Hs.
    destruct (ST.um_text_match _ _ _ _ _), (u_text_match _ _); cbn in Hs; try contradiction.
    - split; [assumption | split; [assumption | exact Hs]].
    - exact Hs. }
  specialize (Hks Hstep k a1 a1' Hk Ha).
  destruct (ST.fold_opt _ kids a1), (fold_res paf_kid k a1'); cbn in Hks; try contradiction; exact Hks.
Qed.

Lemma R_paf_zero : R_paf ST.param_filter_zero zero_wpaf.
Proof. repeat split. Qed.

Lemma Forall2_snoc {A B} (R : A -> B -> Prop) l l' x y : Forall2 R l l' -> R x y -> Forall2 R (l ++ [x]) (l' ++ [y]).
Proof. intros. apply Forall2_app; auto. Qed.

(** prop-filter *)
Lemma sim_pf d acc acc' T t :
  E T t -> fits d t -> R_pf acc acc' ->
  sim R_pf (ST.um_cprop_filter d acc t) (u_prop_filter acc' T).
Proof.
  intros HE Hfit HR. elem_case t HE.
  unfold ST.um_cprop_filter, ST.um_struct, u_prop_filter.
  pose proof (fits_lt _ _ _ _ _ Hfit) as Hlt.
  rewrite chk_ok by lia. rewrite name_ok_eq by reflexivity.
  change (ST.NS_CAL, "prop-filter") with (cn "prop-filter").
  destruct (name_eqb (ns, l) (cn "prop-filter")); cbn [negb]; [|reflexivity].
  match goal with |- context [ST.fold_opt ?fa attrs acc] =>
    pose proof (sim_attrs R_pf fa pf_set) as Ha end.
  specialize (Ha ltac:(
    intros x y z (H1 & H2 & H3 & H4 & H5); unfold pf_set; cbv beta;
    destruct (String.eqb (ST.a_local z) "name"); repeat split; assumption) a attrs acc acc' Hd HR).
  destruct (ST.fold_opt _ attrs acc) as [a1|], (fold_attrs pf_set a acc') as [a1'| |]; cbn in Ha; try contradiction;
    [|exact Ha].
  match goal with |- context [ST.fold_opt ?fk kids a1] =>
    pose proof (sim_kids R_pf fk pf_kid kids) as Hks;
    assert (Hstep : forall acc acc' T t, In t kids -> E T t -> R_pf acc acc' ->
                                         sim R_pf (fk acc t) (pf_kid acc' T)) end.
  { clear - Hfit Hlt. intros acc acc' T t Hin HE (H1 & H2 & H3 & H4 & H5). cbv beta.
    pose proof (fits_kid _ _ _ _ _ _ Hfit Hin) as Hfk.
    kid_case t HE; try (repeat split; assumption).
    cbn [ST.kid_local pf_kid]. change (local_is (ns', l') ?x) with (String.eqb l' x).
    destruct (String.eqb l' "is-not-defined").
    { unfold ST.into_flag. rewrite chk_ok by lia. repeat split; assumption. }
    destruct (String.eqb l' "time-range").
    { unfold ST.into_ptr.
      pose proof (sim_tr (d + 1) _ _ _ _ HE (fits_mono (d + 2) (d + 1) _ Hfk ltac:(lia))
                         (R_opt_default R_tr _ _ _ _ R_tr_zero H3)) as Hs.
      destruct (ST.um_time_range _ _ _), (u_time_range _ _); cbn in Hs; try contradiction; [|exact Hs].
      split; [assumption | split; [assumption | split; [exact Hs | split; assumption]]]. }
    destruct (String.eqb l' "text-match").
    { unfold ST.into_ptr.
      pose proof (sim_tm (d + 1) _ _ _ _ HE (fits_mono (d + 2) (d + 1) _ Hfk ltac:(lia))
                         (R_opt_default R_tm _ _ _ _ R_tm_zero H4)) as Hs.
      destruct (ST.um_text_match _ _ _ _ _), (u_text_match _ _); cbn in Hs; try contradiction; [|exact Hs].
      split; [assumption | split; [assumption | split; [assumption | split; [exact Hs | assumption]]]]. }
    destruct (String.eqb l' "param-filter"); [|repeat split; assumption].
    unfold ST.into_slice. rewrite chk_ok by lia.
    pose proof (sim_paf (d + 2) _ _ _ _ HE Hfk R_paf_zero) as Hs.
    destruct (ST.um_param_filter _ _ _ _ _), (u_param_filter _ _); cbn in Hs; try contradiction; [|exact Hs].
    split; [assumption | split; [assumption | split; [assumption | split; [assumption |]]]].
    cbn. now apply Forall2_snoc. }
  specialize (Hks Hstep k a1 a1' Hk Ha).
  destruct (ST.fold_opt _ kids a1), (fold_res pf_kid k a1'); cbn in Hks; try contradiction; exact Hks.
Qed.

(** * Nested induction on ServerTotal's trees *)
Section STInd.
  Variable P : ST.xtree -> Prop.
  Hypothesis HE : forall ns l attrs kids, Forall P kids -> P (ST.XElem ns l attrs kids).
  Hypothesis HT : forall s, P (ST.XText s).
  Hypothesis HO : P ST.XOther.
  Fixpoint stree_ind2 (t : ST.xtree) : P t :=
    match t with
    | ST.XElem ns l attrs kids =>
      HE ns l attrs kids ((fix go (ks : list ST.xtree) : Forall P ks :=
                             match ks with
                             | [] => Forall_nil _
                             | x :: r => Forall_cons x (stree_ind2 x) (go r)
                             end) kids)
    | ST.XText s => HT s
    | ST.XOther => HO
    end.
End STInd.

Lemma R_cf_zero : R_cf ST.comp_filter_zero zero_wcf.
Proof. constructor; [exact I | constructor | constructor]. Qed.

(** comp-filter *)
Lemma sim_cf t : forall d acc acc' T,
  E T t -> fits d t -> R_cf acc acc' ->
  sim R_cf (ST.um_comp_filter d acc t) (u_comp_filter acc' T).
Proof.
  induction t as [ns l attrs kids IH | s |] using stree_ind2; intros d acc acc' T HE Hfit HR;
    [ apply E_elem_inv in HE; destruct HE as (a & k & -> & Hd & Hk)
    | apply E_text_inv in HE; subst; reflexivity
    | apply E_other_inv in HE; subst; reflexivity ].
  rewrite u_comp_filter_eq. cbn [ST.um_comp_filter]. unfold ST.um_struct.
  pose proof (fits_lt _ _ _ _ _ Hfit) as Hlt.
  rewrite chk_ok by lia. rewrite name_ok_eq by reflexivity.
  change (ST.NS_CAL, "comp-filter") with (cn "comp-filter").
  destruct (name_eqb (ns, l) (cn "comp-filter")); cbn [negb]; [|reflexivity].
  match goal with |- context [ST.fold_opt ?fa attrs acc] =>
    pose proof (sim_attrs R_cf fa wcf_set) as Ha end.
  specialize (Ha ltac:(
    intros x y z H; inversion H; subst; unfold wcf_set; cbv beta;
    destruct (String.eqb (ST.a_local z) "name"); cbn; constructor; assumption) a attrs acc acc' Hd HR).
  destruct (ST.fold_opt _ attrs acc) as [a1|], (fold_attrs wcf_set a acc') as [a1'| |]; cbn in Ha; try contradiction;
    [|exact Ha].
  match goal with |- context [ST.fold_opt ?fk kids a1] =>
    pose proof (sim_kids R_cf fk cf_kid kids) as Hks;
    assert (Hstep : forall acc acc' T t, In t kids -> E T t -> R_cf acc acc' ->
                                         sim R_cf (fk acc t) (cf_kid acc' T)) end.
  { clear - Hfit Hlt IH. intros acc acc' T t Hin HE HR. inversion HR as [n i tr tr' pfs pfs' cfs cfs' H3 H4 H5]; subst.
    cbv beta.
    pose proof (fits_kid _ _ _ _ _ _ Hfit Hin) as Hfk.
    kid_case t HE; try (constructor; assumption).
    cbn [ST.kid_local cf_kid]. change (local_is (ns', l') ?x) with (String.eqb l' x).
    destruct (String.eqb l' "is-not-defined").
    { unfold ST.into_flag. rewrite chk_ok by lia. constructor; assumption. }
    destruct (String.eqb l' "time-range").
    { unfold ST.into_ptr.
      pose proof (sim_tr (d + 1) _ _ _ _ HE (fits_mono (d + 2) (d + 1) _ Hfk ltac:(lia))
                         (R_opt_default R_tr _ _ _ _ R_tr_zero H3)) as Hs.
      destruct (ST.um_time_range _ _ _), (u_time_range _ _); cbn in Hs; try contradiction; [|exact Hs].
      constructor; assumption. }
    destruct (String.eqb l' "prop-filter").
    { unfold ST.into_slice. rewrite chk_ok by lia.
      pose proof (sim_pf (d + 2) ST.cprop_filter_zero zero_wpf _ _ HE Hfk ltac:(repeat split; constructor)) as Hs.
      destruct (ST.um_cprop_filter _ _ _), (u_prop_filter _ _); cbn in Hs; try contradiction; [|exact Hs].
      constructor; [assumption | now apply Forall2_snoc | assumption]. }
    destruct (String.eqb l' "comp-filter"); [|constructor; assumption].
    rewrite chk_ok by lia.
    rewrite Forall_forall in IH.
    pose proof (IH _ Hin (d + 2)%N _ _ _ HE Hfk R_cf_zero) as Hs.
    destruct (ST.um_comp_filter _ _ _), (u_comp_filter _ _); cbn in Hs; try contradiction; [|exact Hs].
    constructor; [assumption | assumption | now apply Forall2_snoc]. }
  specialize (Hks Hstep k a1 a1' Hk Ha).
  destruct (ST.fold_opt _ kids a1), (fold_res cf_kid k a1'); cbn in Hks; try contradiction; exact Hks.
Qed.
