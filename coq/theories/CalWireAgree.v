(** CalWireAgree.v — the two Coq models of the CalDAV server's REPORT decoding
    describe the same function: C08's [CalWire.handle_report] (which request
    value reaches the backend) and C13's [ServerTotal.cal_handle_report]
    (which status is answered / whether the backend is reached).

    Both are hand-written after caldav/elements.go + caldav/server.go and each
    is tied to the Go code by its own correspondence check; this file relates
    them for EVERY report body tree, up to the one point where they differ:
    ServerTotal models encoding/xml's nesting limit (errUnmarshalDepth at
    10000), CalWire does not ([models_differ_beyond_depth_limit]). *)
From Coq Require Import Permutation.
From GW Require Import Base CalTime CalTimeProofs CalXml CalWire CalWireLex.
From GW Require ServerTotal.
Module ST := ServerTotal.

(** * The date-time text: [ST.parse_utc_ok] accepts what [CalTime.parse_utc] parses *)
Lemma dval_of_digit_val c :
  match ST.digit_val c with
  | Some v => dval c = Some (Z.of_N v) /\ (v <= 9)%N
  | None => dval c = None
  end.
Proof.
  unfold ST.digit_val, dval. cbv zeta.
  set (n := N_of_ascii c).
  replace ((48 <=? Z.of_N n)%Z) with ((48 <=? n)%N).
  2:{ destruct (48 <=? n)%N eqn:E; symmetry; [apply N.leb_le in E; apply Z.leb_le; lia | apply N.leb_gt in E; apply Z.leb_gt; lia]. }
  replace ((Z.of_N n <=? 57)%Z) with ((n <=? 57)%N).
  2:{ destruct (n <=? 57)%N eqn:E; symmetry; [apply N.leb_le in E; apply Z.leb_le; lia | apply N.leb_gt in E; apply Z.leb_gt; lia]. }
  destruct (48 <=? n)%N eqn:E1; cbn [andb]; [|reflexivity].
  destruct (n <=? 57)%N eqn:E2; [|reflexivity].
  apply N.leb_le in E1, E2. split; [f_equal; lia | lia].
Qed.

Lemma leb_NZ a b : (a <=? b)%N = (Z.of_N a <=? Z.of_N b)%Z.
Proof. destruct (a <=? b)%N eqn:E; symmetry; [apply N.leb_le in E; apply Z.leb_le; lia | apply N.leb_gt in E; apply Z.leb_gt; lia]. Qed.
Lemma ltb_NZ a b : (a <? b)%N = (Z.of_N a <? Z.of_N b)%Z.
Proof. destruct (a <? b)%N eqn:E; symmetry; [apply N.ltb_lt in E; apply Z.ltb_lt; lia | apply N.ltb_ge in E; apply Z.ltb_ge; lia]. Qed.
Lemma eqb_NZ a b : (a =? b)%N = (Z.of_N a =? Z.of_N b)%Z.
Proof. destruct (a =? b)%N eqn:E; symmetry; [apply N.eqb_eq in E; apply Z.eqb_eq; lia | apply N.eqb_neq in E; apply Z.eqb_neq; lia]. Qed.

Lemma leap_NZ y : ST.leap y = is_leap (Z.of_N y).
Proof.
  unfold ST.leap, is_leap. rewrite !eqb_NZ, !N2Z.inj_mod. reflexivity.
Qed.

Lemma days_in_NZ m y : Z.of_N (ST.days_in m y) = days_in_month (Z.of_N y) (Z.of_N m).
Proof.
  unfold ST.days_in, days_in_month. rewrite !eqb_NZ, leap_NZ. cbn [Z.of_N].
  repeat match goal with |- context [if ?c then _ else _] => destruct c end; reflexivity.
Qed.

Lemma two_NZ v w : Z.of_N ((0 * 10 + v) * 10 + w) = (10 * Z.of_N v + Z.of_N w)%Z.
Proof. lia. Qed.
Lemma four_NZ a b c d :
  Z.of_N ((((0 * 10 + a) * 10 + b) * 10 + c) * 10 + d)
  = (100 * (10 * Z.of_N a + Z.of_N b) + (10 * Z.of_N c + Z.of_N d))%Z.
Proof. lia. Qed.

Definition some_b {A} (o : option A) : bool := match o with Some _ => true | None => false end.

Ltac short_case :=
  cbv beta iota;
  repeat match goal with |- context [ST.digit_val ?c] => destruct (ST.digit_val c) end;
  reflexivity.

Ltac digit c :=
  let H := fresh "H" in
  pose proof (dval_of_digit_val c) as H;
  destruct (ST.digit_val c);
  [destruct H as [H ?]; rewrite H; cbv beta iota
  |rewrite H; cbv beta iota; try reflexivity].

Lemma parse_ok_iff s : ST.parse_utc_ok s = some_b (parse_utc s).
Proof.
  unfold ST.parse_utc_ok, parse_utc, some_b.
  do 16 (destruct s as [|? s]; cbn [list_ascii_of_string ST.take_digits]; [short_case |]).
  destruct s as [|? s]; cbn [list_ascii_of_string ST.take_digits]; [|short_case].
  unfold num4, num2.
  destruct (Ascii.eqb a7 "T") eqn:ET; destruct (Ascii.eqb a14 "Z") eqn:EZ; cbn [andb];
    try (cbv beta iota;
         repeat (match goal with |- context [ST.digit_val ?c] => destruct (ST.digit_val c) end; cbv beta iota);
         rewrite ?ET, ?EZ; cbn [andb]; reflexivity).
  digit a. digit a0. digit a1. digit a2. digit a3. digit a4. digit a5. digit a6.
  digit a8. digit a9. digit a10. digit a11. digit a12. digit a13.
  rewrite ET, EZ. cbn [andb]. rewrite !leb_NZ, !ltb_NZ, days_in_NZ, !four_NZ, !two_NZ. cbn [Z.of_N].
  match goal with |- _ = match (if ?C then _ else _) with _ => _ end => destruct C end; reflexivity.
Qed.

Lemma parse_ok_true s : ST.parse_utc_ok s = true -> exists z, parse_utc s = Some z.
Proof. rewrite parse_ok_iff. destruct (parse_utc s); [eauto | discriminate]. Qed.
Lemma parse_ok_false s : ST.parse_utc_ok s = false -> parse_utc s = None.
Proof. rewrite parse_ok_iff. destruct (parse_utc s); [discriminate | reflexivity]. Qed.
