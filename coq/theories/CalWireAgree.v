(** CalWireAgree.v — the two Coq models of the CalDAV server's REPORT decoding
    describe the same function: C08's [CalWire.handle_report] (which request
    value reaches the backend) and C13's [ServerTotal.cal_handle_report]
    (which status is answered / whether the backend is reached).

    Both are hand-written after caldav/elements.go + caldav/server.go and each
    is tied to the Go code by its own correspondence check; this file relates
    them for EVERY report body tree, encoding/xml's nesting limit
    (errUnmarshalDepth at 10000) included: both models charge the same depth
    at the same places. *)
From Coq Require Import Permutation.
From GW Require Import Base CalTime CalTimeProofs CalXml CalWire CalWireLex CalWireServer.
From GW Require ServerTotal CalWireVariant.
Module ST := ServerTotal.

(** * The date-time text: [ST.parse_utc_ok] accepts what [CalTime.parse_utc] parses *)
Lemma dval_of_digit_val c :
  match ST.digit_val c with
  | Some v => dval c = Some (Z.of_N v) /\ (v <= 9)%N
  | None => dval c = None
  end.
Proof.
  unfold ST.digit_val, dval. cbv zeta.
  set (n := N_of_ascii c).
  replace ((48 <=? Z.of_N n)%Z) with ((48 <=? n)%N).
  2:{ destruct (48 <=? n)%N eqn:E; symmetry; [apply N.leb_le in E; apply Z.leb_le; lia | apply N.leb_gt in E; apply Z.leb_gt; lia]. }
  replace ((Z.of_N n <=? 57)%Z) with ((n <=? 57)%N).
  2:{ destruct (n <=? 57)%N eqn:E; symmetry; [apply N.leb_le in E; apply Z.leb_le; lia | apply N.leb_gt in E; apply Z.leb_gt; lia]. }
  destruct (48 <=? n)%N eqn:E1; cbn [andb]; [|reflexivity].
  destruct (n <=? 57)%N eqn:E2; [|reflexivity].
  apply N.leb_le in E1, E2. split; [f_equal; lia | lia].
Qed.

Lemma leb_NZ a b : (a <=? b)%N = (Z.of_N a <=? Z.of_N b)%Z.
Proof. destruct (a <=? b)%N eqn:E; symmetry; [apply N.leb_le in E; apply Z.leb_le; lia | apply N.leb_gt in E; apply Z.leb_gt; lia]. Qed.
Lemma ltb_NZ a b : (a <? b)%N = (Z.of_N a <? Z.of_N b)%Z.
Proof. destruct (a <? b)%N eqn:E; symmetry; [apply N.ltb_lt in E; apply Z.ltb_lt; lia | apply N.ltb_ge in E; apply Z.ltb_ge; lia]. Qed.
Lemma eqb_NZ a b : (a =? b)%N = (Z.of_N a =? Z.of_N b)%Z.
Proof. destruct (a =? b)%N eqn:E; symmetry; [apply N.eqb_eq in E; apply Z.eqb_eq; lia | apply N.eqb_neq in E; apply Z.eqb_neq; lia]. Qed.

Lemma leap_NZ y : ST.leap y = is_leap (Z.of_N y).
Proof.
  unfold ST.leap, is_leap. rewrite !eqb_NZ, !N2Z.inj_mod. reflexivity.
Qed.

Lemma days_in_NZ m y : Z.of_N (ST.days_in m y) = days_in_month (Z.of_N y) (Z.of_N m).
Proof.
  unfold ST.days_in, days_in_month. rewrite !eqb_NZ, leap_NZ. cbn [Z.of_N].
  repeat match goal with |- context [if ?c then _ else _] => destruct c end; reflexivity.
Qed.

Lemma two_NZ v w : Z.of_N ((0 * 10 + v) * 10 + w) = (10 * Z.of_N v + Z.of_N w)%Z.
Proof. lia. Qed.
Lemma four_NZ a b c d :
  Z.of_N ((((0 * 10 + a) * 10 + b) * 10 + c) * 10 + d)
  = (100 * (10 * Z.of_N a + Z.of_N b) + (10 * Z.of_N c + Z.of_N d))%Z.
Proof. lia. Qed.

Definition some_b {A} (o : option A) : bool := match o with Some _ => true | None => false end.

Ltac short_case :=
  cbv beta iota;
  repeat match goal with |- context [ST.digit_val ?c] => destruct (ST.digit_val c) end;
  reflexivity.

Ltac digit c :=
  let H := fresh "H" in
  pose proof (dval_of_digit_val c) as H;
  destruct (ST.digit_val c);
  [destruct H as [H ?]; rewrite H; cbv beta iota
  |rewrite H; cbv beta iota; try reflexivity].

Lemma parse_ok_iff s : ST.parse_utc_ok s = some_b (parse_utc s).
Proof.
  unfold ST.parse_utc_ok, parse_utc, some_b.
  do 16 (destruct s as [|? s]; cbn [list_ascii_of_string ST.take_digits]; [short_case |]).
  destruct s as [|? s]; cbn [list_ascii_of_string ST.take_digits]; [|short_case].
  unfold num4, num2.
  destruct (Ascii.eqb a7 "T") eqn:ET; destruct (Ascii.eqb a14 "Z") eqn:EZ; cbn [andb];
    try (cbv beta iota;
         repeat (match goal with |- context [ST.digit_val ?c] => destruct (ST.digit_val c) end; cbv beta iota);
         rewrite ?ET, ?EZ; cbn [andb]; reflexivity).
  digit a. digit a0. digit a1. digit a2. digit a3. digit a4. digit a5. digit a6.
  digit a8. digit a9. digit a10. digit a11. digit a12. digit a13.
  rewrite ET, EZ. cbn [andb]. rewrite !leb_NZ, !ltb_NZ, days_in_NZ, !four_NZ, !two_NZ. cbn [Z.of_N].
  match goal with |- _ = match (if ?C then _ else _) with _ => _ end => destruct C end; reflexivity.
Qed.

Lemma parse_ok_true s : ST.parse_utc_ok s = true -> exists z, parse_utc s = Some z.
Proof. rewrite parse_ok_iff. destruct (parse_utc s); [eauto | discriminate]. Qed.
Lemma parse_ok_false s : ST.parse_utc_ok s = false -> parse_utc s = None.
Proof. rewrite parse_ok_iff. destruct (parse_utc s); [discriminate | reflexivity]. Qed.

(** * Translating trees *)
Definition tra (a : ST.xattr) : xattr := ((ST.a_ns a, ST.a_local a), ST.a_val a).

Fixpoint tr (t : ST.xtree) : xtree :=
  match t with
  | ST.XElem ns l attrs kids => Elem (ns, l) (map tra attrs) (map tr kids)
  | ST.XText s => Text s
  | ST.XOther => Comment ""
  end.

(** [E T t]: the CalWire tree [T] is the ServerTotal tree [t], up to attributes
    that belong to a namespace (which [t] no longer has). *)
Definition E (T : xtree) (t : ST.xtree) : Prop := strip_foreign T = tr t.

Lemma map_eq_Forall2 {A B C} (f : A -> C) (g : B -> C) l l' :
  map f l = map g l' -> Forall2 (fun a b => f a = g b) l l'.
Proof.
  revert l'. induction l as [|a l IH]; intros [|b l'] H; try discriminate; constructor; inversion H; auto.
Qed.

Lemma E_elem_inv T ns l attrs kids :
  E T (ST.XElem ns l attrs kids) ->
  exists a k, T = Elem (ns, l) a k /\ drop_foreign a = map tra attrs /\ Forall2 E k kids.
Proof.
  unfold E. destruct T as [n a k| |]; cbn; try discriminate. intros H. inversion H; subst.
  exists a, k. repeat split; auto. now apply map_eq_Forall2.
Qed.
Lemma E_text_inv T s : E T (ST.XText s) -> T = Text s.
Proof. unfold E. destruct T; cbn; try discriminate. intros H. now inversion H. Qed.
Lemma E_other_inv T : E T ST.XOther -> T = Comment "".
Proof. unfold E. destruct T; cbn; try discriminate. intros H. now inversion H. Qed.

Lemma E_chardata k kids : Forall2 E k kids -> text_of k = ST.chardata kids.
Proof.
  induction 1 as [|T t k kids HE _ IH]; [reflexivity |].
  destruct t as [ns l attrs kk | s |].
  - apply E_elem_inv in HE. destruct HE as (a & k0 & -> & _). exact IH.
  - apply E_text_inv in HE. subst. cbn. now rewrite IH.
  - apply E_other_inv in HE. subst. exact IH.
Qed.

(** * The nesting limit: the same test in both models *)
Lemma chk0 {A} (x : option A) : ST.chk 0 x = x.
Proof. reflexivity. Qed.

Ltac leb_case :=
  unfold ST.chk, chk; change ST.MAXD with MAXD;
  match goal with |- context [N.leb MAXD ?e] => destruct (N.leb MAXD e); [reflexivity |] end.
Ltac flag_step := unfold ST.into_flag, flag_at; leb_case.

(** * Simulation *)
Definition sim {A B} (R : A -> B -> Prop) (o : option A) (r : res B) : Prop :=
  match o, r with
  | Some x, Ok y => R x y
  | None, Err c => c = 400%N
  | _, _ => False
  end.

Lemma sim_attrs {A B} (R : A -> B -> Prop) (fa : A -> ST.xattr -> option A)
      (set : string -> string -> B -> res B) :
  (forall acc acc' x, R acc acc' -> sim R (fa acc x) (set (ST.a_local x) (ST.a_val x) acc')) ->
  forall a attrs acc acc', drop_foreign a = map tra attrs -> R acc acc' ->
  sim R (ST.fold_opt fa attrs acc) (fold_attrs set a acc').
Proof.
  intros Hstep. unfold fold_attrs. induction a as [|x a IH]; intros attrs acc acc' Hd HR.
  - destruct attrs; [|discriminate]. exact HR.
  - cbn [fold_res]. unfold drop_foreign in Hd. cbn [filter] in Hd.
    destruct (str_empty (a_space x)) eqn:Ex.
    + destruct attrs as [|y attrs]; [discriminate |]. cbn [map] in Hd. inversion Hd; subst.
      cbn [ST.fold_opt]. specialize (Hstep acc acc' y HR).
      change (a_local (tra y)) with (ST.a_local y). change (a_value (tra y)) with (ST.a_val y).
      destruct (fa acc y) as [acc1|], (set (ST.a_local y) (ST.a_val y) acc') as [acc1'| |]; cbn in Hstep; try contradiction.
      * now apply IH.
      * exact Hstep.
    + now apply IH.
Qed.

Lemma sim_kids {A B} (R : A -> B -> Prop) (fk : A -> ST.xtree -> option A) (kid : B -> xtree -> res B) kids :
  (forall acc acc' T t, In t kids -> E T t -> R acc acc' -> sim R (fk acc t) (kid acc' T)) ->
  forall k acc acc', Forall2 E k kids -> R acc acc' ->
  sim R (ST.fold_opt fk kids acc) (fold_res kid k acc').
Proof.
  induction kids as [|t kids IH]; intros Hstep k acc acc' Hf HR; inversion Hf; subst.
  - exact HR.
  - cbn [ST.fold_opt fold_res].
    match goal with HE : E ?T t |- _ => pose proof (Hstep acc acc' T t (or_introl eq_refl) HE HR) as Hs end.
    destruct (fk acc t), (kid acc' x); cbn in Hs; try contradiction.
    + apply IH; auto. intros. apply Hstep; auto. now right.
    + exact Hs.
Qed.

Lemma fold_opt_const {A} (acc : A) (kids : list ST.xtree) : ST.fold_opt (fun acc _ => Some acc) kids acc = Some acc.
Proof. induction kids; cbn; auto. Qed.

Lemma name_ok_eq NS L ns l :
  str_empty NS = false -> ST.name_ok (Some (NS, L)) ns l = name_eqb (ns, l) (NS, L).
Proof.
  intros H. unfold ST.name_ok, name_eqb. cbn [fst snd]. rewrite H. cbn [orb].
  rewrite (String.eqb_sym L l), (String.eqb_sym NS ns). apply andb_comm.
Qed.

(** * Relations between the wire structures of the two models *)
Definition R_io (o : option string) (o' : option instant) : Prop :=
  match o, o' with
  | None, None => True
  | Some s, Some i => u_instant s = Ok i
  | _, _ => False
  end.
Definition R_tr (x : ST.timeRangeW) (y : w_time_range) : Prop :=
  R_io (ST.tr_start x) (wtr_start y) /\ R_io (ST.tr_end x) (wtr_end y).
Definition R_bound (o : option string) (i : instant) : Prop :=
  match o with None => i = zero_instant | Some s => u_instant s = Ok i end.
Definition R_ex (x : ST.timeRangeW) (y : w_expand) : Prop :=
  R_bound (ST.tr_start x) (wex_start y) /\ R_bound (ST.tr_end x) (wex_end y).
Definition R_tm (x : ST.textMatchW) (y : w_text_match) : Prop :=
  ST.tm_text x = wtm_text y /\ ST.tm_collation x = wtm_collation y /\ ST.tm_negate x = wtm_negate y.
Definition R_opt {A B} (R : A -> B -> Prop) (o : option A) (o' : option B) : Prop :=
  match o, o' with None, None => True | Some a, Some b => R a b | _, _ => False end.
Definition R_paf (x : ST.paramFilterW) (y : w_param_filter) : Prop :=
  ST.paf_name x = wpaf_name y /\ ST.paf_ind x = wpaf_ind y /\ R_opt R_tm (ST.paf_tm x) (wpaf_tm y).
Definition R_pf (x : ST.cpropFilterW) (y : w_prop_filter) : Prop :=
  ST.cpf_name x = wpf_name y /\ ST.cpf_ind x = wpf_ind y /\ R_opt R_tr (ST.cpf_tr x) (wpf_tr y)
  /\ R_opt R_tm (ST.cpf_tm x) (wpf_tm y) /\ Forall2 R_paf (ST.cpf_params x) (wpf_params y).
Inductive R_cf : ST.compFilterW -> w_comp_filter -> Prop :=
| R_cf_intro n i tr tr' pfs pfs' cfs cfs' :
    R_opt R_tr tr tr' -> Forall2 R_pf pfs pfs' -> Forall2 R_cf cfs cfs' ->
    R_cf (ST.CompFilterW n i tr pfs cfs) (WCF n i tr' pfs' cfs').
Inductive R_comp : ST.compW -> w_comp -> Prop :=
| R_comp_intro n ap ps ac cs cs' :
    Forall2 R_comp cs cs' -> R_comp (ST.CompW n ap ps ac cs) (WComp n ap ps ac cs').
Definition R_cd (x : ST.calDataW) (y : w_cal_data_req) : Prop :=
  R_opt R_comp (ST.cd_comp x) (wcd_comp y) /\ R_opt R_ex (ST.cd_expand x) (wcd_expand y).

Lemma u_instant_of_ok s : ST.parse_utc_ok s = true -> exists i, u_instant s = Ok i.
Proof. intros H. apply parse_ok_true in H. destruct H as (z & H). unfold u_instant. rewrite H. eauto. Qed.
Lemma u_instant_of_bad s : ST.parse_utc_ok s = false -> u_instant s = Err 400.
Proof. intros H. apply parse_ok_false in H. unfold u_instant. now rewrite H. Qed.

Ltac elem_case t HE :=
  destruct t as [ns l attrs kids | s |];
  [ apply E_elem_inv in HE; destruct HE as (a & k & -> & Hd & Hk)
  | apply E_text_inv in HE; subst; reflexivity
  | apply E_other_inv in HE; subst; reflexivity ].

(** time-range *)
Lemma sim_tr d acc acc' T t :
  E T t -> R_tr acc acc' -> sim R_tr (ST.um_time_range d acc t) (u_time_range d acc' T).
Proof.
  intros HE HR. elem_case t HE.
  unfold ST.um_time_range, ST.um_struct, u_time_range.
  leb_case. rewrite name_ok_eq by reflexivity.
  change (ST.NS_CAL, "time-range") with (cn "time-range").
  destruct (name_eqb (ns, l) (cn "time-range")); cbn [negb]; [|reflexivity].
  match goal with |- context [ST.fold_opt ?fa attrs acc] =>
    pose proof (sim_attrs R_tr fa tr_set) as Ha end.
  specialize (Ha ltac:(
    intros x y z [H1 H2]; unfold tr_set; cbv beta;
    destruct (String.eqb (ST.a_local z) "start");
    [ destruct (ST.parse_utc_ok (ST.a_val z)) eqn:Ep;
      [ destruct (u_instant_of_ok _ Ep) as (i & Hi); rewrite Hi; split; [exact Hi | exact H2]
      | rewrite (u_instant_of_bad _ Ep); reflexivity ]
    | destruct (String.eqb (ST.a_local z) "end");
      [ destruct (ST.parse_utc_ok (ST.a_val z)) eqn:Ep;
        [ destruct (u_instant_of_ok _ Ep) as (i & Hi); rewrite Hi; split; [exact H1 | exact Hi]
        | rewrite (u_instant_of_bad _ Ep); reflexivity ]
      | split; assumption ] ]) a attrs acc acc' Hd HR).
  destruct (ST.fold_opt _ attrs acc) as [a1|], (fold_attrs tr_set a acc') as [a1'| |]; cbn in Ha; try contradiction.
  - rewrite fold_opt_const. exact Ha.
  - exact Ha.
Qed.

(** expand *)
Lemma sim_ex d acc acc' T t :
  E T t -> R_ex acc acc' -> sim R_ex (ST.um_expand d acc t) (u_expand d acc' T).
Proof.
  intros HE HR. elem_case t HE.
  unfold ST.um_expand, ST.um_struct, u_expand.
  leb_case. rewrite name_ok_eq by reflexivity.
  change (ST.NS_CAL, "expand") with (cn "expand").
  destruct (name_eqb (ns, l) (cn "expand")); cbn [negb]; [|reflexivity].
  match goal with |- context [ST.fold_opt ?fa attrs acc] =>
    pose proof (sim_attrs R_ex fa ex_set) as Ha end.
  specialize (Ha ltac:(
    intros x y z [H1 H2]; unfold ex_set; cbv beta;
    destruct (String.eqb (ST.a_local z) "start");
    [ destruct (ST.parse_utc_ok (ST.a_val z)) eqn:Ep;
      [ destruct (u_instant_of_ok _ Ep) as (i & Hi); rewrite Hi; split; [exact Hi | exact H2]
      | rewrite (u_instant_of_bad _ Ep); reflexivity ]
    | destruct (String.eqb (ST.a_local z) "end");
      [ destruct (ST.parse_utc_ok (ST.a_val z)) eqn:Ep;
        [ destruct (u_instant_of_ok _ Ep) as (i & Hi); rewrite Hi; split; [exact H1 | exact Hi]
        | rewrite (u_instant_of_bad _ Ep); reflexivity ]
      | split; assumption ] ]) a attrs acc acc' Hd HR).
  destruct (ST.fold_opt _ attrs acc) as [a1|], (fold_attrs ex_set a acc') as [a1'| |]; cbn in Ha; try contradiction.
  - rewrite fold_opt_const. exact Ha.
  - exact Ha.
Qed.

(** text-match (CalDAV: no match-type attribute) *)
Lemma sim_tm d acc acc' T t :
  E T t -> R_tm acc acc' ->
  sim R_tm (ST.um_text_match false ST.NS_CAL d acc t) (u_text_match d acc' T).
Proof.
  intros HE HR. elem_case t HE.
  unfold ST.um_text_match, ST.um_struct, u_text_match.
  leb_case. rewrite name_ok_eq by reflexivity.
  change (ST.NS_CAL, "text-match") with (cn "text-match").
  destruct (name_eqb (ns, l) (cn "text-match")); cbn [negb]; [|reflexivity].
  match goal with |- context [ST.fold_opt ?fa attrs acc] =>
    pose proof (sim_attrs R_tm fa tm_set) as Ha end.
  specialize (Ha ltac:(
    intros x y z (H1 & H2 & H3); unfold tm_set, ST.parse_yes_no; cbv beta; cbn [andb];
    destruct (String.eqb (ST.a_local z) "collation");
    [ repeat split; assumption
    | destruct (String.eqb (ST.a_local z) "negate-condition");
      [ destruct (String.eqb (ST.a_val z) "yes");
        [ repeat split; assumption
        | destruct (String.eqb (ST.a_val z) "no"); [repeat split; assumption | reflexivity] ]
      | repeat split; assumption ] ]) a attrs acc acc' Hd HR).
  destruct (ST.fold_opt _ attrs acc) as [a1|], (fold_attrs tm_set a acc') as [a1'| |]; cbn in Ha; try contradiction.
  - rewrite fold_opt_const. destruct Ha as (H1 & H2 & H3). repeat split; cbn; auto.
    symmetry. now apply E_chardata.
  - exact Ha.
Qed.

Lemma R_opt_default {A B} (R : A -> B -> Prop) z z' o o' :
  R z z' -> R_opt R o o' -> R (match o with Some u => u | None => z end) (opt_default z' o').
Proof. intros Hz Ho. destruct o, o'; cbn in *; try contradiction; auto. Qed.

Lemma R_tm_zero : R_tm ST.text_match_zero zero_wtm.
Proof. repeat split. Qed.
Lemma R_tr_zero : R_tr ST.time_range_zero zero_wtr.
Proof. split; exact I. Qed.
Lemma R_ex_zero : R_ex ST.time_range_zero zero_wex.
Proof. split; reflexivity. Qed.

Ltac kid_case t HE :=
  destruct t as [ns' l' attrs' kids' | s' |];
  [ pose proof HE as HE0; apply E_elem_inv in HE0; destruct HE0 as (a' & k' & -> & _ & _)
  | apply E_text_inv in HE; subst; cbn; try assumption
  | apply E_other_inv in HE; subst; cbn; try assumption ].

(** param-filter *)
Lemma sim_paf d acc acc' T t :
  E T t -> R_paf acc acc' ->
  sim R_paf (ST.um_param_filter false ST.NS_CAL d acc t) (u_param_filter d acc' T).
Proof.
  intros HE HR. elem_case t HE.
  unfold ST.um_param_filter, ST.um_struct, u_param_filter.
  leb_case. rewrite name_ok_eq by reflexivity.
  change (ST.NS_CAL, "param-filter") with (cn "param-filter").
  destruct (name_eqb (ns, l) (cn "param-filter")); cbn [negb]; [|reflexivity].
  match goal with |- context [ST.fold_opt ?fa attrs acc] =>
    pose proof (sim_attrs R_paf fa paf_set) as Ha end.
  specialize (Ha ltac:(
    intros x y z (H1 & H2 & H3); unfold paf_set; cbv beta;
    destruct (String.eqb (ST.a_local z) "name"); repeat split; assumption) a attrs acc acc' Hd HR).
  destruct (ST.fold_opt _ attrs acc) as [a1|], (fold_attrs paf_set a acc') as [a1'| |]; cbn in Ha; try contradiction;
    [|exact Ha].
  match goal with |- context [ST.fold_opt ?fk kids a1] =>
    pose proof (sim_kids R_paf fk (paf_kid d) kids) as Hks end.
  assert (Hstep : forall acc acc' T t, In t kids -> E T t -> R_paf acc acc' ->
            sim R_paf ((fun acc0 k0 =>
              if ST.kid_local k0 "is-not-defined" then
                match ST.into_flag d with
                | Some v => Some {| ST.paf_name := ST.paf_name acc0; ST.paf_ind := v; ST.paf_tm := ST.paf_tm acc0 |}
                | None => None end
              else if ST.kid_local k0 "text-match" then
                match ST.into_ptr (ST.um_text_match false ST.NS_CAL) ST.text_match_zero d (ST.paf_tm acc0) k0 with
                | Some v => Some {| ST.paf_name := ST.paf_name acc0; ST.paf_ind := ST.paf_ind acc0; ST.paf_tm := v |}
                | None => None end
              else Some acc0) acc t) (paf_kid d acc' T)).
  { clear. intros acc acc' T t Hin HE (H1 & H2 & H3). cbv beta.
    kid_case t HE; try (repeat split; assumption).
    cbn [ST.kid_local paf_kid]. change (local_is (ns', l') ?x) with (String.eqb l' x).
    destruct (String.eqb l' "is-not-defined").
    { flag_step. repeat split; assumption. }
    destruct (String.eqb l' "text-match"); [|repeat split; assumption].
    unfold ST.into_ptr.
    pose proof (sim_tm (d + 1) _ _ _ _ HE
                       (R_opt_default R_tm _ _ _ _ R_tm_zero H3)) as Hs.
    destruct (ST.um_text_match _ _ _ _ _), (u_text_match _ _); cbn in Hs; try contradiction.
    - split; [assumption | split; [assumption | exact Hs]].
    - exact Hs. }
  specialize (Hks Hstep k a1 a1' Hk Ha).
  destruct (ST.fold_opt _ kids a1), (fold_res (paf_kid d) k a1'); cbn in Hks; try contradiction; exact Hks.
Qed.

Lemma R_paf_zero : R_paf ST.param_filter_zero zero_wpaf.
Proof. repeat split. Qed.

Lemma Forall2_snoc {A B} (R : A -> B -> Prop) l l' x y : Forall2 R l l' -> R x y -> Forall2 R (l ++ [x]) (l' ++ [y]).
Proof. intros. apply Forall2_app; auto. Qed.

(** prop-filter *)
Lemma sim_pf d acc acc' T t :
  E T t -> R_pf acc acc' ->
  sim R_pf (ST.um_cprop_filter d acc t) (u_prop_filter d acc' T).
Proof.
  intros HE HR. elem_case t HE.
  unfold ST.um_cprop_filter, ST.um_struct, u_prop_filter.
  leb_case. rewrite name_ok_eq by reflexivity.
  change (ST.NS_CAL, "prop-filter") with (cn "prop-filter").
  destruct (name_eqb (ns, l) (cn "prop-filter")); cbn [negb]; [|reflexivity].
  match goal with |- context [ST.fold_opt ?fa attrs acc] =>
    pose proof (sim_attrs R_pf fa pf_set) as Ha end.
  specialize (Ha ltac:(
    intros x y z (H1 & H2 & H3 & H4 & H5); unfold pf_set; cbv beta;
    destruct (String.eqb (ST.a_local z) "name"); repeat split; assumption) a attrs acc acc' Hd HR).
  destruct (ST.fold_opt _ attrs acc) as [a1|], (fold_attrs pf_set a acc') as [a1'| |]; cbn in Ha; try contradiction;
    [|exact Ha].
  match goal with |- context [ST.fold_opt ?fk kids a1] =>
    pose proof (sim_kids R_pf fk (pf_kid d) kids) as Hks;
    assert (Hstep : forall acc acc' T t, In t kids -> E T t -> R_pf acc acc' ->
                                         sim R_pf (fk acc t) (pf_kid d acc' T)) end.
  { clear. intros acc acc' T t Hin HE (H1 & H2 & H3 & H4 & H5). cbv beta.
    kid_case t HE; try (repeat split; assumption).
    cbn [ST.kid_local pf_kid]. change (local_is (ns', l') ?x) with (String.eqb l' x).
    destruct (String.eqb l' "is-not-defined").
    { flag_step. repeat split; assumption. }
    destruct (String.eqb l' "time-range").
    { unfold ST.into_ptr.
      pose proof (sim_tr (d + 1) _ _ _ _ HE
                         (R_opt_default R_tr _ _ _ _ R_tr_zero H3)) as Hs.
      destruct (ST.um_time_range _ _ _), (u_time_range _ _); cbn in Hs; try contradiction; [|exact Hs].
      split; [assumption | split; [assumption | split; [exact Hs | split; assumption]]]. }
    destruct (String.eqb l' "text-match").
    { unfold ST.into_ptr.
      pose proof (sim_tm (d + 1) _ _ _ _ HE
                         (R_opt_default R_tm _ _ _ _ R_tm_zero H4)) as Hs.
      destruct (ST.um_text_match _ _ _ _ _), (u_text_match _ _); cbn in Hs; try contradiction; [|exact Hs].
      split; [assumption | split; [assumption | split; [assumption | split; [exact Hs | assumption]]]]. }
    destruct (String.eqb l' "param-filter"); [|repeat split; assumption].
    unfold ST.into_slice. leb_case.
    pose proof (sim_paf (d + 2) _ _ _ _ HE R_paf_zero) as Hs.
    destruct (ST.um_param_filter _ _ _ _ _), (u_param_filter _ _); cbn in Hs; try contradiction; [|exact Hs].
    split; [assumption | split; [assumption | split; [assumption | split; [assumption |]]]].
    cbn. now apply Forall2_snoc. }
  specialize (Hks Hstep k a1 a1' Hk Ha).
  destruct (ST.fold_opt _ kids a1), (fold_res (pf_kid d) k a1'); cbn in Hks; try contradiction; exact Hks.
Qed.

(** * Nested induction on ServerTotal's trees *)
Section STInd.
  Variable P : ST.xtree -> Prop.
  Hypothesis HE : forall ns l attrs kids, Forall P kids -> P (ST.XElem ns l attrs kids).
  Hypothesis HT : forall s, P (ST.XText s).
  Hypothesis HO : P ST.XOther.
  Fixpoint stree_ind2 (t : ST.xtree) : P t :=
    match t with
    | ST.XElem ns l attrs kids =>
      HE ns l attrs kids ((fix go (ks : list ST.xtree) : Forall P ks :=
                             match ks with
                             | [] => Forall_nil _
                             | x :: r => Forall_cons x (stree_ind2 x) (go r)
                             end) kids)
    | ST.XText s => HT s
    | ST.XOther => HO
    end.
End STInd.

Lemma R_cf_zero : R_cf ST.comp_filter_zero zero_wcf.
Proof. constructor; [exact I | constructor | constructor]. Qed.

(** comp-filter *)
Lemma sim_cf t : forall d acc acc' T,
  E T t -> R_cf acc acc' ->
  sim R_cf (ST.um_comp_filter d acc t) (u_comp_filter d acc' T).
Proof.
  induction t as [ns l attrs kids IH | s |] using stree_ind2; intros d acc acc' T HE HR;
    [ apply E_elem_inv in HE; destruct HE as (a & k & -> & Hd & Hk)
    | apply E_text_inv in HE; subst; reflexivity
    | apply E_other_inv in HE; subst; reflexivity ].
  rewrite u_comp_filter_eq. cbn [ST.um_comp_filter]. unfold ST.um_struct.
  leb_case. rewrite name_ok_eq by reflexivity.
  change (ST.NS_CAL, "comp-filter") with (cn "comp-filter").
  destruct (name_eqb (ns, l) (cn "comp-filter")); cbn [negb]; [|reflexivity].
  match goal with |- context [ST.fold_opt ?fa attrs acc] =>
    pose proof (sim_attrs R_cf fa wcf_set) as Ha end.
  specialize (Ha ltac:(
    intros x y z H; inversion H; subst; unfold wcf_set; cbv beta;
    destruct (String.eqb (ST.a_local z) "name"); cbn; constructor; assumption) a attrs acc acc' Hd HR).
  destruct (ST.fold_opt _ attrs acc) as [a1|], (fold_attrs wcf_set a acc') as [a1'| |]; cbn in Ha; try contradiction;
    [|exact Ha].
  match goal with |- context [ST.fold_opt ?fk kids a1] =>
    pose proof (sim_kids R_cf fk (cf_kid d) kids) as Hks;
    assert (Hstep : forall acc acc' T t, In t kids -> E T t -> R_cf acc acc' ->
                                         sim R_cf (fk acc t) (cf_kid d acc' T)) end.
  { clear - IH. intros acc acc' T t Hin HE HR. inversion HR as [n i tr tr' pfs pfs' cfs cfs' H3 H4 H5]; subst.
    cbv beta.
    kid_case t HE; try (constructor; assumption).
    cbn [ST.kid_local cf_kid]. change (local_is (ns', l') ?x) with (String.eqb l' x).
    destruct (String.eqb l' "is-not-defined").
    { flag_step. constructor; assumption. }
    destruct (String.eqb l' "time-range").
    { unfold ST.into_ptr.
      pose proof (sim_tr (d + 1) _ _ _ _ HE
                         (R_opt_default R_tr _ _ _ _ R_tr_zero H3)) as Hs.
      destruct (ST.um_time_range _ _ _), (u_time_range _ _); cbn in Hs; try contradiction; [|exact Hs].
      constructor; assumption. }
    destruct (String.eqb l' "prop-filter").
    { unfold ST.into_slice. leb_case.
      pose proof (sim_pf (d + 2) ST.cprop_filter_zero zero_wpf _ _ HE ltac:(repeat split; constructor)) as Hs.
      destruct (ST.um_cprop_filter _ _ _), (u_prop_filter _ _); cbn in Hs; try contradiction; [|exact Hs].
      constructor; [assumption | now apply Forall2_snoc | assumption]. }
    destruct (String.eqb l' "comp-filter"); [|constructor; assumption].
    leb_case.
    rewrite Forall_forall in IH.
    pose proof (IH _ Hin (d + 2)%N _ _ _ HE R_cf_zero) as Hs.
    destruct (ST.um_comp_filter _ _ _), (u_comp_filter _ _); cbn in Hs; try contradiction; [|exact Hs].
    constructor; [assumption | assumption | now apply Forall2_snoc]. }
  specialize (Hks Hstep k a1 a1' Hk Ha).
  destruct (ST.fold_opt _ kids a1), (fold_res (cf_kid d) k a1'); cbn in Hks; try contradiction; exact Hks.
Qed.

Lemma fold_opt_no_attr {A} (acc : A) (attrs : list ST.xattr) : ST.fold_opt ST.no_attr attrs acc = Some acc.
Proof. induction attrs; cbn; auto. Qed.

(** filter *)
Lemma sim_filter d acc acc' T t :
  E T t -> R_cf acc acc' -> sim R_cf (ST.um_cal_filter d acc t) (u_filter d acc' T).
Proof.
  intros HE HR. elem_case t HE.
  unfold ST.um_cal_filter, ST.um_struct, u_filter.
  leb_case. rewrite name_ok_eq by reflexivity.
  change (ST.NS_CAL, "filter") with (cn "filter").
  destruct (name_eqb (ns, l) (cn "filter")); cbn [negb]; [|reflexivity].
  rewrite fold_opt_no_attr.
  match goal with |- context [ST.fold_opt ?fk kids acc] =>
    pose proof (sim_kids R_cf fk (filter_kid d) kids) as Hks;
    assert (Hstep : forall acc acc' T t, In t kids -> E T t -> R_cf acc acc' ->
                                         sim R_cf (fk acc t) (filter_kid d acc' T)) end.
  { clear. intros acc acc' T t Hin HE HR. cbv beta.
    kid_case t HE.
    cbn [ST.kid_local filter_kid]. change (local_is (ns', l') ?x) with (String.eqb l' x).
    destruct (String.eqb l' "comp-filter"); [|assumption].
    apply sim_cf; assumption. }
  specialize (Hks Hstep k acc acc' Hk HR).
  destruct (ST.fold_opt _ kids acc), (fold_res (filter_kid d) k acc'); cbn in Hks; try contradiction; exact Hks.
Qed.

(** prop of calendar-data *)
Lemma sim_named d T t :
  E T t -> sim eq (ST.um_named ST.NS_CAL "prop" d "" t) (u_cprop d T).
Proof.
  intros HE. elem_case t HE.
  unfold ST.um_named, ST.um_struct, u_cprop.
  leb_case. rewrite name_ok_eq by reflexivity.
  change (ST.NS_CAL, "prop") with (cn "prop").
  destruct (name_eqb (ns, l) (cn "prop")); cbn [negb]; [|reflexivity].
  match goal with |- context [ST.fold_opt ?fa attrs ""] =>
    pose proof (sim_attrs eq fa cprop_set) as Ha end.
  specialize (Ha ltac:(
    intros x y z ->; unfold cprop_set; cbv beta;
    destruct (String.eqb (ST.a_local z) "name"); reflexivity) a attrs "" "" Hd eq_refl).
  destruct (ST.fold_opt _ attrs "") as [a1|], (fold_attrs cprop_set a "") as [a1'| |]; cbn in Ha; try contradiction;
    [|exact Ha].
  rewrite fold_opt_const. exact Ha.
Qed.

Lemma R_comp_zero : R_comp ST.comp_zero zero_wcomp.
Proof. constructor. constructor. Qed.

(** comp *)
Lemma sim_comp t : forall d acc acc' T,
  E T t -> R_comp acc acc' ->
  sim R_comp (ST.um_comp d acc t) (u_comp d acc' T).
Proof.
  induction t as [ns l attrs kids IH | s |] using stree_ind2; intros d acc acc' T HE HR;
    [ apply E_elem_inv in HE; destruct HE as (a & k & -> & Hd & Hk)
    | apply E_text_inv in HE; subst; reflexivity
    | apply E_other_inv in HE; subst; reflexivity ].
  rewrite u_comp_eq. cbn [ST.um_comp]. unfold ST.um_struct.
  leb_case. rewrite name_ok_eq by reflexivity.
  change (ST.NS_CAL, "comp") with (cn "comp").
  destruct (name_eqb (ns, l) (cn "comp")); cbn [negb]; [|reflexivity].
  match goal with |- context [ST.fold_opt ?fa attrs acc] =>
    pose proof (sim_attrs R_comp fa wcomp_set) as Ha end.
  specialize (Ha ltac:(
    intros x y z H; inversion H; subst; unfold wcomp_set; cbv beta;
    destruct (String.eqb (ST.a_local z) "name"); cbn; constructor; assumption) a attrs acc acc' Hd HR).
  destruct (ST.fold_opt _ attrs acc) as [a1|], (fold_attrs wcomp_set a acc') as [a1'| |]; cbn in Ha; try contradiction;
    [|exact Ha].
  match goal with |- context [ST.fold_opt ?fk kids a1] =>
    pose proof (sim_kids R_comp fk (comp_kid d) kids) as Hks;
    assert (Hstep : forall acc acc' T t, In t kids -> E T t -> R_comp acc acc' ->
                                         sim R_comp (fk acc t) (comp_kid d acc' T)) end.
  { clear - IH. intros acc acc' T t Hin HE HR. inversion HR as [n ap ps ac cs cs' H5]; subst.
    cbv beta.
    kid_case t HE; try (constructor; assumption).
    cbn [ST.kid_local comp_kid]. change (local_is (ns', l') ?x) with (String.eqb l' x).
    destruct (String.eqb l' "allprop").
    { flag_step. constructor; assumption. }
    destruct (String.eqb l' "prop").
    { unfold ST.into_slice. leb_case.
      pose proof (sim_named (d + 2) _ _ HE) as Hs.
      destruct (ST.um_named _ _ _ _ _), (u_cprop _ _); cbn in Hs; try contradiction; [|exact Hs].
      subst. constructor; assumption. }
    destruct (String.eqb l' "allcomp").
    { flag_step. constructor; assumption. }
    destruct (String.eqb l' "comp"); [|constructor; assumption].
    leb_case.
    rewrite Forall_forall in IH.
    pose proof (IH _ Hin (d + 2)%N _ _ _ HE R_comp_zero) as Hs.
    destruct (ST.um_comp _ _ _), (u_comp _ _); cbn in Hs; try contradiction; [|exact Hs].
    constructor. now apply Forall2_snoc. }
  specialize (Hks Hstep k a1 a1' Hk Ha).
  destruct (ST.fold_opt _ kids a1), (fold_res (comp_kid d) k a1'); cbn in Hks; try contradiction; exact Hks.
Qed.

(** calendar-data *)
Lemma sim_cd d acc acc' T t :
  E T t -> R_cd acc acc' -> sim R_cd (ST.um_cal_data d acc t) (u_cal_data_req d acc' T).
Proof.
  intros HE HR. elem_case t HE.
  unfold ST.um_cal_data, ST.um_struct, u_cal_data_req.
  leb_case. rewrite name_ok_eq by reflexivity.
  change (ST.NS_CAL, "calendar-data") with (cn "calendar-data").
  destruct (name_eqb (ns, l) (cn "calendar-data")); cbn [negb]; [|reflexivity].
  rewrite fold_opt_no_attr.
  match goal with |- context [ST.fold_opt ?fk kids acc] =>
    pose proof (sim_kids R_cd fk (wcd_kid d) kids) as Hks;
    assert (Hstep : forall acc acc' T t, In t kids -> E T t -> R_cd acc acc' ->
                                         sim R_cd (fk acc t) (wcd_kid d acc' T)) end.
  { clear. intros acc acc' T t Hin HE [H1 H2]. cbv beta.
    kid_case t HE; try (split; assumption).
    cbn [ST.kid_local wcd_kid]. change (local_is (ns', l') ?x) with (String.eqb l' x).
    destruct (String.eqb l' "comp").
    { unfold ST.into_ptr.
      pose proof (sim_comp _ (d + 1)%N _ _ _ HE
                           (R_opt_default R_comp _ _ _ _ R_comp_zero H1)) as Hs.
      destruct (ST.um_comp _ _ _), (u_comp _ _); cbn in Hs; try contradiction; [|exact Hs].
      split; [exact Hs | assumption]. }
    destruct (String.eqb l' "expand"); [|split; assumption].
    unfold ST.into_ptr.
    pose proof (sim_ex (d + 1) _ _ _ _ HE
                       (R_opt_default R_ex _ _ _ _ R_ex_zero H2)) as Hs.
    destruct (ST.um_expand _ _ _), (u_expand _ _); cbn in Hs; try contradiction; [|exact Hs].
    split; [assumption | exact Hs]. }
  specialize (Hks Hstep k acc acc' Hk HR).
  destruct (ST.fold_opt _ kids acc), (fold_res (wcd_kid d) k acc'); cbn in Hks; try contradiction; exact Hks.
Qed.

(** * Raw property values *)
Lemma tra_is_decl x : is_decl (tra x) = ST.is_ns_decl x.
Proof.
  unfold is_decl, ST.is_ns_decl, a_space, a_local, tra. cbn [fst snd].
  now rewrite eqb_empty_r.
Qed.

Lemma tr_strip_decls t : tr (ST.strip_decls t) = strip_decls (tr t).
Proof.
  induction t as [ns l attrs kids IH | s |] using stree_ind2; try reflexivity.
  cbn [ST.strip_decls tr strip_decls]. f_equal.
  - unfold drop_decls. induction attrs as [|x r IHr]; [reflexivity |]. cbn [filter map].
    rewrite tra_is_decl. destruct (ST.is_ns_decl x); cbn [negb map]; now rewrite IHr.
  - rewrite !map_map. induction IH as [|x r Hx _ IHr]; [reflexivity |]. cbn [map]. now rewrite Hx, IHr.
Qed.

Lemma strip_foreign_decls_comm T : strip_foreign (strip_decls T) = strip_decls (strip_foreign T).
Proof.
  induction T as [n a k IH | s | s] using CalWireVariant.xtree_ind2; try reflexivity.
  cbn [strip_foreign strip_decls]. f_equal.
  - unfold drop_foreign, drop_decls. induction a as [|x r IHr]; [reflexivity |]. cbn [filter].
    destruct (is_decl x) eqn:E1, (str_empty (a_space x)) eqn:E2; cbn [negb filter]; rewrite ?E1, ?E2; cbn [negb];
      now rewrite IHr.
  - rewrite !map_map. induction IH as [|x r Hx _ IHr]; [reflexivity |]. cbn [map]. now rewrite Hx, IHr.
Qed.

Lemma strip_foreign_idem T : strip_foreign (strip_foreign T) = strip_foreign T.
Proof.
  induction T as [n a k IH | s | s] using CalWireVariant.xtree_ind2; try reflexivity.
  cbn [strip_foreign]. f_equal.
  - unfold drop_foreign. induction a as [|x r IHr]; [reflexivity |]. cbn [filter].
    destruct (str_empty (a_space x)) eqn:E2; cbn [filter]; rewrite ?E2; now rewrite IHr.
  - rewrite !map_map. induction IH as [|x r Hx _ IHr]; [reflexivity |]. cbn [map]. now rewrite Hx, IHr.
Qed.

(** what RawXMLValue captures, in both models *)
Lemma E_raw T t : E T t -> E (strip_decls (strip_foreign T)) (ST.strip_decls t).
Proof.
  unfold E. intros H. rewrite strip_foreign_decls_comm, strip_foreign_idem, H. symmetry. apply tr_strip_decls.
Qed.

Definition R_raw (r : ST.rawval) (T : xtree) : Prop :=
  exists t, r = ST.RawTok t /\ E T t.
Definition R_raws : list ST.rawval -> list xtree -> Prop := Forall2 R_raw.

(** DAV:prop *)
Lemma sim_raws d acc acc' T t :
  E T t -> R_raws acc acc' ->
  sim R_raws (ST.um_raws "prop" d acc t) (u_dprop d acc' T).
Proof.
  intros HE HR. elem_case t HE.
  unfold ST.um_raws, ST.um_struct, u_dprop.
  leb_case. rewrite name_ok_eq by reflexivity.
  change (ST.NS_DAV, "prop") with (dn "prop").
  destruct (name_eqb (ns, l) (dn "prop")); cbn [negb]; [|reflexivity].
  rewrite fold_opt_no_attr.
  match goal with |- context [ST.fold_opt ?fk kids acc] =>
    pose proof (sim_kids R_raws fk (dprop_kid d) kids) as Hks;
    assert (Hstep : forall acc acc' T t, In t kids -> E T t -> R_raws acc acc' ->
                                         sim R_raws (fk acc t) (dprop_kid d acc' T)) end.
  { clear. intros acc acc' T t Hin HE HR. cbv beta.
    destruct t as [ns' l' attrs' kids' | s' |];
      [ | apply E_text_inv in HE; subst; exact HR | apply E_other_inv in HE; subst; exact HR ].
    pose proof HE as HE0. apply E_elem_inv in HE0. destruct HE0 as (a' & k' & -> & _ & _).
    cbn [dprop_kid]. leb_case.
    apply Forall2_snoc; [exact HR |].
    eexists. split; [reflexivity |]. now apply E_raw. }
  specialize (Hks Hstep k acc acc' Hk HR). unfold w_prop in *.
  destruct (ST.fold_opt _ kids acc), (fold_res (dprop_kid d) k acc'); cbn in Hks; try contradiction; exact Hks.
Qed.

(** calendar-query *)
Definition R_cq (x : ST.calQueryW) (y : w_calendar_query) : Prop :=
  R_opt R_raws (ST.s_prop (ST.cq_sel x)) (wq_prop y)
  /\ ST.s_allprop (ST.cq_sel x) = wq_allprop y /\ ST.s_propname (ST.cq_sel x) = wq_propname y
  /\ R_cf (ST.cq_filter x) (wq_filter y).

Lemma R_raws_nil : R_raws [] [].
Proof. constructor. Qed.

Lemma sim_cq d acc acc' T t :
  E T t -> R_cq acc acc' ->
  sim R_cq (ST.um_cal_query d acc t) (u_calendar_query d acc' T).
Proof.
  intros HE HR. elem_case t HE.
  unfold ST.um_cal_query, ST.um_struct, u_calendar_query.
  leb_case. rewrite name_ok_eq by reflexivity.
  change (ST.NS_CAL, "calendar-query") with (cn "calendar-query").
  destruct (name_eqb (ns, l) (cn "calendar-query")); cbn [negb]; [|reflexivity].
  rewrite fold_opt_no_attr.
  match goal with |- context [ST.fold_opt ?fk kids acc] =>
    pose proof (sim_kids R_cq fk (wq_kid d) kids) as Hks;
    assert (Hstep : forall acc acc' T t, In t kids -> E T t -> R_cq acc acc' ->
                                         sim R_cq (fk acc t) (wq_kid d acc' T)) end.
  { clear. intros acc acc' T t Hin HE (H1 & H2 & H3 & H4). cbv beta.
    unfold ST.um_sel.
    kid_case t HE; try (repeat split; assumption).
    cbn [ST.kid_is ST.kid_local wq_kid].
    change (String.eqb ns' ST.NS_DAV && String.eqb l' ?x) with (name_eqb (ns', l') (dn x)).
    change (local_is (ns', l') ?x) with (String.eqb l' x).
    destruct (name_eqb (ns', l') (dn "prop")).
    { unfold ST.into_ptr.
      pose proof (sim_raws (d + 1) _ _ _ _ HE
                           (R_opt_default R_raws _ _ _ _ R_raws_nil H1)) as Hs.
      destruct (ST.um_raws _ _ _ _), (u_dprop _ _); cbn in Hs; try contradiction; [|exact Hs].
      split; [exact Hs | repeat split; assumption]. }
    destruct (name_eqb (ns', l') (dn "allprop")).
    { flag_step. repeat split; assumption. }
    destruct (name_eqb (ns', l') (dn "propname")).
    { flag_step. repeat split; assumption. }
    destruct (String.eqb l' "filter"); [|repeat split; assumption].
    pose proof (sim_filter (d + 1) _ _ _ _ HE H4) as Hs.
    destruct (ST.um_cal_filter _ _ _), (u_filter _ _); cbn in Hs; try contradiction; [|exact Hs].
    repeat split; assumption. }
  specialize (Hks Hstep k acc acc' Hk HR).
  destruct (ST.fold_opt _ kids acc), (fold_res (wq_kid d) k acc'); cbn in Hks; try contradiction; exact Hks.
Qed.

Section Agree.
Variable href_parse : string -> option string.
(** [url_ok] is ServerTotal's view of url.Parse on an href text (did it succeed),
    [href_parse] CalWire's (the parsed path): two views of one function *)
Variable url_ok : string -> bool.
Hypothesis url_ok_spec : forall s, url_ok s = some_b (href_parse s).

Definition R_href (s p : string) : Prop := href_parse s = Some p.
Definition R_mg (x : ST.multigetW) (y : w_multiget) : Prop :=
  R_opt R_raws (ST.s_prop (ST.mg_sel x)) (wm_prop y)
  /\ ST.s_allprop (ST.mg_sel x) = wm_allprop y /\ ST.s_propname (ST.mg_sel x) = wm_propname y
  /\ Forall2 R_href (ST.mg_hrefs x) (wm_hrefs y).

(** calendar-multiget *)
Lemma sim_mg d acc acc' T t :
  E T t -> R_mg acc acc' ->
  sim R_mg (ST.um_multiget ST.NS_CAL "calendar-multiget" url_ok d acc t) (u_multiget href_parse d acc' T).
Proof.
  intros HE HR. elem_case t HE.
  unfold ST.um_multiget, ST.um_struct, u_multiget.
  leb_case. rewrite name_ok_eq by reflexivity.
  change (ST.NS_CAL, "calendar-multiget") with (cn "calendar-multiget").
  destruct (name_eqb (ns, l) (cn "calendar-multiget")); cbn [negb]; [|reflexivity].
  rewrite fold_opt_no_attr.
  match goal with |- context [ST.fold_opt ?fk kids acc] =>
    pose proof (sim_kids R_mg fk (wm_kid href_parse d) kids) as Hks;
    assert (Hstep : forall acc acc' T t, In t kids -> E T t -> R_mg acc acc' ->
                                         sim R_mg (fk acc t) (wm_kid href_parse d acc' T)) end.
  { clear - url_ok_spec. intros acc acc' T t Hin HE (H1 & H2 & H3 & H4). cbv beta.
    unfold ST.um_sel.
    kid_case t HE; try (repeat split; assumption).
    cbn [ST.kid_is wm_kid].
    change (String.eqb ns' ST.NS_DAV && String.eqb l' ?x) with (name_eqb (ns', l') (dn x)).
    destruct (name_eqb (ns', l') (dn "prop")).
    { unfold ST.into_ptr.
      pose proof (sim_raws (d + 1) _ _ _ _ HE
                           (R_opt_default R_raws _ _ _ _ R_raws_nil H1)) as Hs.
      destruct (ST.um_raws _ _ _ _), (u_dprop _ _); cbn in Hs; try contradiction; [|exact Hs].
      split; [exact Hs | repeat split; assumption]. }
    destruct (name_eqb (ns', l') (dn "allprop")).
    { flag_step. repeat split; assumption. }
    destruct (name_eqb (ns', l') (dn "propname")).
    { flag_step. repeat split; assumption. }
    destruct (name_eqb (ns', l') (dn "href")); [|repeat split; assumption].
    unfold ST.into_slice, ST.um_href, u_href. leb_case. leb_case.
    apply E_elem_inv in HE. destruct HE as (a2 & k2 & Heq & _ & Hk2). inversion Heq; subst a2 k2.
    rewrite (E_chardata _ _ Hk2). rewrite url_ok_spec.
    destruct (href_parse (ST.chardata kids')) as [p|] eqn:Ep; cbn [some_b]; [|reflexivity].
    split; [assumption | split; [assumption | split; [assumption |]]].
    cbn. apply Forall2_snoc; [assumption | exact Ep]. }
  specialize (Hks Hstep k acc acc' Hk HR).
  destruct (ST.fold_opt _ kids acc), (fold_res (wm_kid href_parse d) k acc'); cbn in Hks; try contradiction; exact Hks.
Qed.

(** * The decoders of caldav/server.go: ServerTotal keeps "decoded / 400",
      CalWire the decoded value *)
Definition dsim {A} (b : bool) (r : res A) : Prop :=
  if b then exists v, r = Ok v else r = Err 400.

Lemma R_opt_is_some {A B} (R : A -> B -> Prop) o o' : R_opt R o o' -> ST.is_some o = is_some o'.
Proof. destruct o, o'; cbn; tauto. Qed.

Lemma Forall2_nonempty {A B} (R : A -> B -> Prop) l l' :
  Forall2 R l l' -> ST.nonempty l = negb (Nat.eqb (List.length l') 0).
Proof. destruct 1; reflexivity. Qed.

Lemma dsim_forall {A B C} (R : A -> B -> Prop) (f : A -> bool) (g : B -> res C) l l' :
  Forall2 R l l' -> (forall x y, In x l -> R x y -> dsim (f x) (g y)) ->
  dsim (forallb f l) (map_res g l').
Proof.
  induction 1 as [|x y l l' Hxy _ IH]; intros Hs; cbn [forallb map_res].
  - eexists. reflexivity.
  - pose proof (Hs x y (or_introl eq_refl) Hxy) as H1. unfold dsim in *.
    destruct (f x); cbn [andb].
    + destruct H1 as (v & ->). specialize (IH (fun a b Ha => Hs a b (or_intror Ha))).
      destruct (forallb f l).
      * destruct IH as (vs & ->). eauto.
      * now rewrite IH.
    + now rewrite H1.
Qed.

Lemma D_paf x y : R_paf x y -> dsim (ST.decode_param_filter x) (decode_param_filter y).
Proof.
  intros (H1 & H2 & H3). unfold ST.decode_param_filter, decode_param_filter, dsim.
  rewrite (R_opt_is_some _ _ _ H3), H2.
  destruct (wpaf_ind y && is_some (wpaf_tm y)); cbn [negb]; eauto.
Qed.

Lemma D_pf x y : R_pf x y -> dsim (ST.decode_cprop_filter x) (decode_prop_filter y).
Proof.
  intros (H1 & H2 & H3 & H4 & H5). unfold ST.decode_cprop_filter, decode_prop_filter.
  rewrite (R_opt_is_some _ _ _ H3), (R_opt_is_some _ _ _ H4), H2, (Forall2_nonempty _ _ _ H5).
  destruct (wpf_ind y && _); [reflexivity |].
  pose proof (dsim_forall R_paf ST.decode_param_filter decode_param_filter _ _ H5 (fun a b _ => D_paf a b)) as Hd.
  unfold dsim in *. destruct (forallb _ _).
  - destruct Hd as (v & ->). eauto.
  - now rewrite Hd.
Qed.

Section CFWInd.
  Variable P : ST.compFilterW -> Prop.
  Hypothesis H : forall n i tr pfs cfs, Forall P cfs -> P (ST.CompFilterW n i tr pfs cfs).
  Fixpoint cfw_ind2 (f : ST.compFilterW) : P f :=
    match f with
    | ST.CompFilterW n i tr pfs cfs =>
      H n i tr pfs cfs ((fix go (l : list ST.compFilterW) : Forall P l :=
                           match l with [] => Forall_nil _ | x :: r => Forall_cons x (cfw_ind2 x) (go r) end) cfs)
    end.
End CFWInd.
Section CWInd.
  Variable P : ST.compW -> Prop.
  Hypothesis H : forall n ap ps ac cs, Forall P cs -> P (ST.CompW n ap ps ac cs).
  Fixpoint cw_ind2 (c : ST.compW) : P c :=
    match c with
    | ST.CompW n ap ps ac cs =>
      H n ap ps ac cs ((fix go (l : list ST.compW) : Forall P l :=
                          match l with [] => Forall_nil _ | x :: r => Forall_cons x (cw_ind2 x) (go r) end) cs)
    end.
End CWInd.

Lemma D_cf x : forall y, R_cf x y -> dsim (ST.decode_comp_filter x) (decode_comp_filter y).
Proof.
  induction x as [n i tr pfs cfs IH] using cfw_ind2. intros y HR. inversion HR as [? ? ? tr' ? pfs' ? cfs' H3 H4 H5]; subst.
  cbn [ST.decode_comp_filter decode_comp_filter].
  rewrite (R_opt_is_some _ _ _ H3), (Forall2_nonempty _ _ _ H4), (Forall2_nonempty _ _ _ H5).
  destruct (i && _); [reflexivity |].
  pose proof (dsim_forall R_pf ST.decode_cprop_filter decode_prop_filter _ _ H4 (fun a b _ => D_pf a b)) as Hp.
  assert (Hc : dsim (forallb ST.decode_comp_filter cfs) (map_res decode_comp_filter cfs')).
  { apply (dsim_forall R_cf); [assumption |]. intros a b Ha Hab. rewrite Forall_forall in IH. now apply IH. }
  unfold dsim in *. destruct (forallb ST.decode_cprop_filter pfs); cbn [andb].
  - destruct Hp as (ps & ->). destruct (forallb ST.decode_comp_filter cfs).
    + destruct Hc as (cs & ->). eauto.
    + now rewrite Hc.
  - now rewrite Hp.
Qed.

Lemma D_comp x : forall y, R_comp x y -> dsim (ST.decode_comp x) (decode_comp y).
Proof.
  induction x as [n ap ps ac cs IH] using cw_ind2. intros y HR. inversion HR as [? ? ? ? ? cs' H5]; subst.
  cbn [ST.decode_comp decode_comp].
  replace (ST.nonempty ps) with (negb (Nat.eqb (List.length ps) 0)) by (now destruct ps).
  rewrite (Forall2_nonempty _ _ _ H5).
  destruct (ap && _); [reflexivity |]. destruct (ac && _); [reflexivity |].
  assert (Hc : dsim (forallb ST.decode_comp cs) (map_res decode_comp cs')).
  { apply (dsim_forall R_comp); [assumption |]. intros a b Ha Hab. rewrite Forall_forall in IH. now apply IH. }
  unfold dsim in *. destruct (forallb ST.decode_comp cs).
  - destruct Hc as (v & ->). eauto.
  - now rewrite Hc.
Qed.

Lemma D_cd x y : R_cd x y -> dsim (ST.decode_cal_data_req x) (decode_calendar_data_req y).
Proof.
  intros [H1 H2]. unfold ST.decode_cal_data_req, decode_calendar_data_req.
  destruct (ST.cd_comp x) as [c|], (wcd_comp y) as [c'|]; cbn in H1; try contradiction.
  - pose proof (D_comp _ _ H1) as Hd. unfold dsim in *. destruct (ST.decode_comp c).
    + destruct Hd as (v & ->). destruct (wcd_expand y); eauto.
    + now rewrite Hd.
  - cbn. destruct (wcd_expand y); eauto.
Qed.

Lemma R_cd_zero : R_cd ST.cal_data_zero zero_wcd.
Proof. split; exact I. Qed.

(** Prop.Decode(&calendarData) + decodeCalendarDataReq *)
Lemma D_caldata sel p :
  R_opt R_raws (ST.s_prop sel) p ->
  match ST.cal_data_of_prop sel with
  | Ok b => dsim b (decode_prop_caldata p)
  | _ => False
  end.
Proof.
  intros HR. unfold ST.cal_data_of_prop, decode_prop_caldata.
  destruct (ST.s_prop sel) as [raws|], p as [raws'|]; cbn in HR; try contradiction; [|eexists; reflexivity].
  induction HR as [|r T raws raws' Hr _ IH].
  - cbn. pose proof (D_cd _ _ R_cd_zero) as Hd. exact Hd.
  - destruct Hr as (t & -> & HE). cbn [ST.prop_get find ST.raw_name_is].
    assert (Hn : is_caldata T = ST.kid_is t ST.NS_CAL "calendar-data").
    { destruct t as [ns l attrs kids | s |].
      - apply E_elem_inv in HE. destruct HE as (a & k & -> & _). reflexivity.
      - apply E_text_inv in HE. now subst.
      - apply E_other_inv in HE. now subst. }
    rewrite Hn. destruct (ST.kid_is t ST.NS_CAL "calendar-data"); [|exact IH].
    cbn [ST.raw_token_reader bind].
    pose proof (sim_cd 0 _ _ _ _ HE R_cd_zero) as Hs.
    destruct (ST.um_cal_data 0 ST.cal_data_zero t), (u_cal_data_req 0 zero_wcd T); cbn in Hs; try contradiction.
    + now apply D_cd.
    + reflexivity.
Qed.

(** * The two report handlers *)
Lemma tr_drop_qualified t : strip_foreign (tr t) = tr (ST.drop_qualified t).
Proof.
  induction t as [ns l attrs kids IH | s |] using stree_ind2; try reflexivity.
  cbn [ST.drop_qualified tr strip_foreign]. f_equal.
  - unfold drop_foreign. induction attrs as [|x r IHr]; [reflexivity |]. cbn [filter map].
    change (a_space (tra x)) with (ST.a_ns x).
    destruct (str_empty (ST.a_ns x)); cbn [map]; now rewrite IHr.
  - rewrite !map_map. induction IH as [|x r Hx _ IHr]; [reflexivity |]. cbn [map]. now rewrite Hx, IHr.
Qed.

(** what ServerTotal's REPORT handler does with a body tree, up to the backend *)
Inductive st_class := StQuery (q : ST.calQueryW) | StMultiget (m : ST.multigetW) | StBad | StPanic.

Definition st_classify (t : ST.xtree) : st_class :=
  match ST.um_cal_report url_ok 0 t with
  | Some (ST.CalQuery q) =>
    match ST.cal_data_of_prop (ST.cq_sel q) with
    | Ok true => if ST.decode_comp_filter (ST.cq_filter q) then StQuery q else StBad
    | Ok false => StBad
    | _ => StPanic
    end
  | Some (ST.CalMultiget m) =>
    match ST.cal_data_of_prop (ST.mg_sel m) with
    | Ok true => StMultiget m
    | Ok false => StBad
    | _ => StPanic
    end
  | None => StBad
  end.

Lemma R_cq_zero : R_cq ST.cal_query_zero zero_wq.
Proof. split; [exact I | split; [reflexivity | split; [reflexivity | apply R_cf_zero]]]. Qed.
Lemma R_mg_zero : R_mg ST.multiget_zero zero_wm.
Proof. split; [exact I | split; [reflexivity | split; [reflexivity | constructor]]]. Qed.

Theorem models_agree path t :
  match handle_report href_parse path (tr t), st_classify t with
  | Ok (BQuery p q), StQuery qw =>
    p = path /\ exists w, R_cf (ST.cq_filter qw) w /\ decode_comp_filter w = Ok (q_cf q)
  | Ok (BMultiget ps cr), StMultiget mw => Forall2 R_href (ST.mg_hrefs mw) ps
  | Err c, StBad => c = 400%N
  | _, _ => False
  end.
Proof.
  unfold st_classify, ST.um_cal_report. rewrite chk0.
  destruct t as [ns l attrs kids | s |]; [|reflexivity | reflexivity].
  cbn [tr handle_report ST.kid_is].
  change (String.eqb ns ST.NS_CAL && String.eqb l ?x) with (name_eqb (ns, l) (cn x)).
  set (t := ST.XElem ns l attrs kids) in *.
  assert (HE : E (tr t) (ST.drop_qualified t)) by apply tr_drop_qualified.
  change (Elem (ns, l) (map tra attrs) (map tr kids)) with (tr t).
  destruct (name_eqb (ns, l) (cn "calendar-query")).
  - pose proof (sim_cq 0 _ _ _ _ HE R_cq_zero) as Hs.
    destruct (ST.um_cal_query 0 ST.cal_query_zero (ST.drop_qualified t)) as [qw|],
             (u_calendar_query 0 zero_wq (tr t)) as [q'| |]; cbn in Hs; try contradiction; [|exact Hs].
    destruct Hs as (H1 & H2 & H3 & H4). unfold handle_query.
    pose proof (D_caldata (ST.cq_sel qw) _ H1) as Hc.
    destruct (ST.cal_data_of_prop (ST.cq_sel qw)) as [b| |]; try contradiction.
    unfold dsim in Hc. destruct b.
    + destruct Hc as (cr & ->). pose proof (D_cf _ _ H4) as Hf. unfold dsim in Hf.
      destruct (ST.decode_comp_filter (ST.cq_filter qw)).
      * destruct Hf as (cf & Hf). rewrite Hf. split; [reflexivity |]. exists (wq_filter q'). auto.
      * rewrite Hf. reflexivity.
    + rewrite Hc. reflexivity.
  - destruct (name_eqb (ns, l) (cn "calendar-multiget")); [|reflexivity].
    pose proof (sim_mg 0 _ _ _ _ HE R_mg_zero) as Hs.
    destruct (ST.um_multiget ST.NS_CAL "calendar-multiget" url_ok 0 ST.multiget_zero (ST.drop_qualified t)) as [mw|],
             (u_multiget href_parse 0 zero_wm (tr t)) as [m'| |]; cbn in Hs; try contradiction; [|exact Hs].
    destruct Hs as (H1 & H2 & H3 & H4). unfold handle_multiget.
    pose proof (D_caldata (ST.mg_sel mw) _ H1) as Hc.
    destruct (ST.cal_data_of_prop (ST.mg_sel mw)) as [b| |]; try contradiction.
    unfold dsim in Hc. destruct b.
    + destruct Hc as (cr & ->). exact H4.
    + rewrite Hc. reflexivity.
Qed.

(** ... and that classification is all [ST.cal_handle_report] looks at *)
Theorem st_handle_report env r t :
  ST.is_content_xml r = true -> ST.r_xml r = ST.XTree t -> ST.r_url_ok r = url_ok ->
  ST.cal_handle_report env r =
  match st_classify t with
  | StQuery q =>
    match ST.ce_query env with
    | ST.BErr e => ST.HErr e []
    | ST.BOk objs => ST.hmap (fun _ => 207%N) (ST.each_response (ST.cq_sel q) objs)
    end
  | StMultiget m => ST.multiget_loop (ST.ce_get_obj env) (ST.mg_sel m) (ST.mg_hrefs m)
  | StBad => ST.bad_request
  | StPanic => ST.HPanic
  end.
Proof.
  intros Hx Ht Hu. unfold ST.cal_handle_report, ST.decode_xml_request, st_classify. rewrite Hx, Ht, Hu. cbn [negb].
  destruct (ST.um_cal_report url_ok 0 t) as [[q|m]|]; [| |reflexivity].
  - unfold ST.cal_handle_query. destruct (ST.cal_data_of_prop (ST.cq_sel q)) as [[|]| |]; try reflexivity.
    destruct (ST.decode_comp_filter (ST.cq_filter q)); reflexivity.
  - unfold ST.cal_handle_multiget. destruct (ST.cal_data_of_prop (ST.mg_sel m)) as [[|]| |]; reflexivity.
Qed.

End Agree.

(** * The agreement, stated on ServerTotal's handler itself *)
Theorem agrees_with_cal_handle_report (href_parse : string -> option string) env r t path :
  ST.is_content_xml r = true -> ST.r_xml r = ST.XTree t ->
  (forall s, ST.r_url_ok r s = some_b (href_parse s)) ->
  match handle_report href_parse path (tr t) with
  | Err c =>
    c = 400%N /\ ST.cal_handle_report env r = ST.bad_request
  | Ok (BQuery p q) =>
    p = path /\ exists qw,
      ST.cal_handle_report env r =
      match ST.ce_query env with
      | ST.BErr e => ST.HErr e []
      | ST.BOk objs => ST.hmap (fun _ => 207%N) (ST.each_response (ST.cq_sel qw) objs)
      end
      /\ exists w, R_cf (ST.cq_filter qw) w /\ decode_comp_filter w = Ok (q_cf q)
  | Ok (BMultiget ps cr) =>
    exists mw,
      ST.cal_handle_report env r = ST.multiget_loop (ST.ce_get_obj env) (ST.mg_sel mw) (ST.mg_hrefs mw)
      /\ Forall2 (R_href href_parse) (ST.mg_hrefs mw) ps
  | Panic => False
  end.
Proof.
  intros Hx Ht Hu.
  pose proof (models_agree href_parse (ST.r_url_ok r) Hu path t) as Ha.
  pose proof (st_handle_report (ST.r_url_ok r) env r t Hx Ht eq_refl) as Hs.
  destruct (handle_report href_parse path (tr t)) as [[p q|ps cr]|c|], (st_classify (ST.r_url_ok r) t) as [qw|mw| |];
    try contradiction.
  - destruct Ha as [Hp Hw]. split; [exact Hp |]. exists qw. split; [exact Hs | exact Hw].
  - exists mw. split; [exact Hs | exact Ha].
  - split; [exact Ha | exact Hs].
Qed.
